#!/usr/bin/env python3
"""Prints the prompt given to an independent sub-agent asked to seed a property-breaking change.
usage: seed_prompt.py Cxx  (worktree /tmp/seed/wt-Cxx, output /tmp/seed/out-Cxx)"""
import json, sys
pid = sys.argv[1]
rnd = sys.argv[2] if len(sys.argv) > 2 else ""      # e.g. "r2-": worktree /tmp/seed/wt-r2-Cxx
if rnd.startswith("r4"):
    extra = (" In this round your changes must need a COMBINATION to manifest: two or three independent features of the input together "
             "(for example a generic contract AND an interface with an associated type AND a custom chain type; replies AND an overridden "
             "entry point; a query with resp= AND a forwarded attribute), or a size threshold (the fifth interface, the eleventh argument, "
             "a list longer than some bound), or an interaction with an earlier step (the second instantiate of the same code, a builder "
             "reused after build, a reply to a sub-message created by another handler). A change that any single unusual feature exposes "
             "on its own does not qualify.")
# VARIANT: round 3 asks for mechanisms that need two cooperating sites or an unusual configuration
if not rnd.startswith("r4"):
    extra = ""
if rnd.startswith("r3"):
    extra = (" In this round at least one of your changes must be of one of these kinds: (i) two cooperating code sites that each look "
             "fine alone (a helper whose contract silently changes and a caller relying on the old one); (ii) a change that only matters "
             "under an unusual but legitimate configuration (a cargo feature combination, generic contracts or interfaces with associated "
             "types, chain-custom message/query types, a renamed dependency, legacy (non-`replies`) reply handlers, several interfaces on "
             "one contract); (iii) a change in boundary handling (empty lists, zero handlers of a kind, a single-element collection, the "
             "first or last element).")
for l in open('/verif/properties.jsonl'):
    d = json.loads(l)
    if d['id'] == pid:
        break
wt = "/tmp/seed/wt-%s%s" % (rnd, pid)
out = "/tmp/seed/out-%s%s" % (rnd, pid)
print(f"""You are working on a scratch git worktree of the CosmWasm/sylvia repository (a Rust proc-macro framework that generates CosmWasm smart-contract message types, dispatch, entry points, reply routing and multitest helpers from annotated traits/impls). The worktree is at {wt}. Work ONLY inside {wt} and {out}. Do NOT read or touch /repo or /verif. The sandbox is offline: always use `cargo ... --offline` and set `CARGO_TARGET_DIR={wt}/target`. Do not commit anything.

Here is a semantic property that sylvia is supposed to satisfy:

TITLE: {d['title']}
STATEMENT: {d['statement']}
QUANTIFIED OVER: {d['quantifier']['text']}
WHY THE EXISTING TESTS CANNOT SETTLE IT: {d['why_tests_cant']}
CODE ANCHORS: {json.dumps(d['anchors'].get('files', []))}

YOUR TASK: write a realistic change (a plausible bug, as a maintainer could introduce it by mistake during a refactor) to sylvia's own source code (under sylvia-derive/src or sylvia/src) that BREAKS this property, while
  (a) the workspace still compiles, and
  (b) the existing test suite still passes unedited: `cd {wt} && CARGO_TARGET_DIR={wt}/target cargo test --workspace --no-fail-fast --offline` (47 tests pass at baseline; run it before and after your change).
The change must need something specific in order to manifest: an unusual input, a particular name shape, a multi-step sequence of operations, a particular combination of attributes / declaration order, or two cooperating code sites that each look fine alone. Do NOT produce a change that ordinary use (e.g. the repo's examples, or any simple contract) would expose at once.

Also write a DEMONSTRATION: a new integration test file (e.g. {wt}/sylvia/tests/seeded_demo.rs) or small program that FAILS with your change applied and PASSES on the unchanged code. Verify both directions yourself (use `git stash` / `git diff > file; git checkout -- .; git apply file` to switch).

DELIVERABLES, all in {out}/ :
  - patch.diff : `git diff` of your change to sylvia's source only (NOT including the demo test)
  - demo.rs (the demonstration test file; say in README where it has to be placed to run, e.g. sylvia/tests/seeded_demo.rs, and the exact cargo command)
  - README.md : which clause of the property is broken, what specific circumstance it needs to manifest, the commands you ran and their observed results (baseline suite with patch: pass; demo without patch: pass; demo with patch: fail + the failure message).
Prefer, where the property allows it, a less central code path (interface-side generation, generics handling, custom chain types, multitest helpers, the run-time library under sylvia/src, feature-gated branches) over the single most obvious function. """ + extra + """ If you have time left after one solid change, add a second, different one as patch2.diff / demo2.rs (a different mechanism, not a variation). Quality over quantity.

At the end, leave the worktree with NO change applied (git checkout -- . and remove your demo test from it), and reply with a short summary of each patch (what it changes, what it needs to manifest).""")
