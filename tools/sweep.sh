#!/bin/bash
# usage: tools/sweep.sh <tier> <seed-from> <seed-to> [props...]
# Runs the registered checks under several VERIF_SEED values on the unchanged tree; any non-zero exit
# or VIOLATION line is a false alarm to investigate (or a defect). Results: one line per run.
tier=$1; a=$2; b=$3; shift 3
props=${@:-C01 C02 C03 C04 C05 C06 C07 C08 C09 C10 C11 C12 C13 C14 C15 C16 C17 C18 C19 C20}
here="$(cd "$(dirname "$0")/.." && pwd)"; cd "$here"
[ -f coq/Makefile ] || bin/setup >/dev/null 2>&1
mkdir -p sweep_logs
for s in $(seq $a $b); do
  for p in $props; do
    t0=$(date +%s)
    VERIF_SEED=$s bin/check $p --tier $tier > sweep_logs/$p.$tier.$s.log 2>&1; rc=$?
    echo "SWEEP $p tier=$tier seed=$s rc=$rc $(( $(date +%s) - t0 ))s $(grep -E '^(OK|VIOLATION)' sweep_logs/$p.$tier.$s.log | head -2 | tr '\n' ' ')"
  done
done
