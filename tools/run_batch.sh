#!/bin/bash
# usage: tools/run_batch.sh <batch-file> [parallelism]   lines: <name> <patch-file> <props...>
# Output: /var/tmp/pv/batch-<basename>.out
f=$1; par=${2:-4}
out=/var/tmp/pv/batch-$(basename $f).out
mkdir -p /var/tmp/pv; : > $out
grep -v '^#' $f | grep . | xargs -P $par -L 1 bash -c '/verif/tools/run_patch.sh "$@" 2>&1' _ >> $out
echo BATCH-DONE >> $out
