#!/bin/bash
# usage: confirm_seed.sh <round> <Cxx> <n>   (n = "" or 2): confirms /tmp/seed/out-r4-Cxx/patch<n>.diff + demo<n>.rs in worktree /tmp/seed/wt-r4-Cxx
# prints: SUITE_WITH_PATCH=<pass|fail> DEMO_WITHOUT=<pass|fail> DEMO_WITH=<pass|fail>
rnd=$1; id=$2; n=$3
wt=/tmp/seed/wt-$rnd-$id; out=/tmp/seed/out-$rnd-$id
export CARGO_TARGET_DIR=$wt/target CARGO_NET_OFFLINE=true
cd $wt || exit 2
git checkout -q -- . ; rm -f sylvia/tests/seeded_demo*.rs
[ -f $out/patch$n.diff ] || { echo "$id patch$n: no patch"; exit 0; }
cp $out/demo$n.rs sylvia/tests/seeded_demo$n.rs
sel="-p sylvia --features mt"
cargo test $sel --test seeded_demo$n --offline > $out/confirm_demo${n}_without.log 2>&1 && dw=pass || dw=fail
if [ $dw = fail ]; then   # some demonstrations need the feature set of a workspace build
  sel="--workspace"
  cargo test $sel --test seeded_demo$n --offline > $out/confirm_demo${n}_without.log 2>&1 && dw=pass || dw=fail
fi
if [ $dw = fail ]; then
  sel="-p sylvia"
  cargo test $sel --test seeded_demo$n --offline > $out/confirm_demo${n}_without.log 2>&1 && dw=pass || dw=fail
fi
git apply $out/patch$n.diff || { echo "APPLY FAILED"; exit 2; }
cargo test $sel --test seeded_demo$n --offline > $out/confirm_demo${n}_with.log 2>&1 && dp=pass || dp=fail
rm -f sylvia/tests/seeded_demo$n.rs
cargo test --workspace --no-fail-fast --offline > $out/confirm_suite${n}_with.log 2>&1 && sp=pass || sp=fail
git checkout -q -- .
echo "$rnd-$id patch$n SUITE_WITH_PATCH=$sp DEMO_WITHOUT=$dw DEMO_WITH=$dp"
