#!/usr/bin/env python3
"""Writes seeded/r5-<id>/meta.json for the round-5 seeded changes (end of the fourth session: the properties whose code was
translated last - C13, C14, C15, C17, C18 - and C20)."""
import json, os
M = {
 "r5-C13-1": ("C13", "bodies re-emitted as written", "a handler whose body holds a closure or nested fn with an attributed typed parameter (an `in_handler` flag left set while the body is folded)", ["C13"], "L1 oracle: attributes of the re-emitted item missing in the body; Props/C13T (translated fold.rs) no longer builds", None),
 "r5-C13-2": ("C13", "expanding the same input twice produces identical output", "one used and at least two unused generics / associated types for a message kind (unused generics through a HashSet difference)", ["C13", "C15"], "C13 L1 oracle: two expansions of sylvia/tests/api.rs differ; C15: dispatch_generics order vs model (no failing input), Props/C15T c15_translated_used_unused no longer builds", None),
 "r5-C14-1": ("C14", "reply behaviour independent of the order of the handler methods", "one reply name with an error method declared before its success method (ReplyOn::merge upgrades (Success, Error) only)", ["C14", "C08"], "C14 twins: builder trigger changes with the order; C08 L1 oracle: builder requests ReplyOn::Error", None),
 "r5-C14-2": ("C14/C17", "wire format independent of the order of attributes on a handler", "#[sv::attr(..)] written above #[sv::msg(..)] (the instantiate/migrate check moved into the loop, keyed on the msg attribute parsed so far)", ["C17", "C14"], "C17 L1 oracle: variant carries [] where its handler forwards an attribute; Props/C17P / C18T (translated attribute parser) no longer build; C14's own twins missed it on the first run", "C14's twins now also move sv::msg to a random position among the attributes of its method (the relative order of the others stays)"),
 "r5-C15-1": ("C15", "QueryMsg carries the parameters of its response types", "generic contract + a query whose response is named with resp= and whose parameter occurs nowhere else (override branch does not register generics)", ["C15"], "L1 oracle: QueryMsg parameters vs the parameters its handlers use", None),
 "r5-C15-2": ("C15", "constrained only by bounds that mention no other parameter", "a bound relating two parameters + a message type using only one of them (filter_wheres keeps a predicate when ANY mentioned generic is used)", ["C15"], "L1 oracle on kept where-predicates; Props/C15T c15_translated_filter_wheres no longer builds", None),
 "r5-C17-1": ("C17", "an attribute forwarded to a kind is attached to the type of that kind", "two sv::msg_attr for one kind with one for another kind between them (chunk_by groups adjacent ones, find takes the first group)", ["C17"], "L1 oracle: type attribute lists; Props/C17T (translated constructors) no longer builds", None),
 "r5-C17-2": ("C17", "an attribute forwarded from a handler is attached to that handler's variant", "#[sv::attr(..)] written above #[sv::msg(..)]", ["C17"], "L1 oracle: variant carries [] where its handler forwards an attribute; Props/C17P no longer builds", None),
 "r5-C18-1": ("C18", "two methods claiming the same reply name and outcome are rejected", "a success and/or error handler declared before an `always` handler of the same name (ReplyOn::excludes made asymmetric)", ["C18"], "L1 oracle: a reply table breaking a rule is accepted; Props/C18S c18_translated_reply_outcomes_exclude no longer builds", None),
 "r5-C18-2": ("C18", "merged reply methods with different payloads are rejected", "a success / error pair whose payload types share the outer name but differ in generic arguments (compared by the last path segment)", ["C18"], "L1 oracle: a reply table breaking a rule (merged methods whose payload types differ in generic arguments only) is accepted", None),
 "r5-C20-1": ("C20", "decoding gives back a handle to the same address", "an address whose JSON text contains an escape sequence (hand-written Deserialize through a borrowed &str)", ["C20"], "L3 oracle: decoding {\"addr\":\"\\\\73ze\"} fails", None),
 "r5-C20-2": ("C20", "schema name independent of the type parameter", "one schema document holding handles with two or more different type parameters (schema_id built with type_name)", ["C20"], "L3 oracle: one document with four differently typed handles defines Remote, Remote2, ..", None),
}
SPECIAL = {"r5-C13-2": "demo.rs is a harness for the verif-hook feature: SYLVIA_VERIF_HARNESS=<demo.rs> cargo test -p sylvia-derive --features verif-hook --offline verif_hook (3 passed without, 2 of 3 failed with the patch); cargo test --workspace passes with the patch"}
root = os.path.join(os.path.dirname(os.path.dirname(os.path.abspath(__file__))), "seeded")
for k, (prop, clause, needs, detected, how, strengthened) in M.items():
    d = os.path.join(root, k)
    if not os.path.isdir(d):
        print("missing", k); continue
    meta = {"seeded_id": k, "round": 5, "breaks_property": prop, "clause_broken": clause, "needs_to_manifest": needs,
            "written_by": "independent sub-agent given only the property text and a scratch worktree (tools/seed_prompt.py Cxx r5-)",
            "confirmed": {"existing_suite_with_patch": "pass (47 tests + 20 doc-tests)", "demo_without_patch": "pass", "demo_with_patch": "fail",
                          "how": SPECIAL.get(k, "tools/confirm_seed.sh r5 in the agent's scratch worktree (cargo test -p sylvia --features mt --test seeded_demo; cargo test --workspace)")},
            "checks_run": ["tools/run_patch.sh %s seeded/%s/patch.diff %s" % (k, k, " ".join(detected))],
            "detected_by": detected, "detection": how}
    if strengthened:
        meta["missed_by_first_run"] = True
        meta["strengthening"] = strengthened
    json.dump(meta, open(os.path.join(d, "meta.json"), "w"), indent=1)
print(len(M))
