#!/bin/bash
# usage: tools/run_patch.sh <name> <patch-file> <Cxx> [more props...]
# Runs the quick checks of the named properties against a scratch worktree of /repo with the patch applied,
# using a private copy of /verif and a private cache, so that /repo and /verif stay untouched and several
# patches can be examined in parallel. Everything is removed afterwards. Output: one RESULT line per check.
name=$1; patch=$2; shift 2
base=/var/tmp/pv/$name
rm -rf $base; mkdir -p $base
git -C /repo worktree add --detach $base/repo HEAD >/dev/null 2>&1 || { echo "worktree failed"; exit 2; }
git -C $base/repo apply "$patch" || { echo "APPLY FAILED $name"; git -C /repo worktree remove --force $base/repo; rm -rf $base; exit 2; }
# the committed state of /verif (so that edits in progress do not leak into a long batch)
# (WIP=1: the working tree instead, for trying an edit before committing it)
mkdir -p $base/verif
if [ -n "$WIP" ]; then rsync -a --exclude .git --exclude replays --exclude evidence /verif/ $base/verif/; mkdir -p $base/verif/evidence $base/verif/replays
else git -C /verif archive HEAD | tar -x -C $base/verif; fi
mkdir -p $base/cache
[ -d /var/tmp/sylvia-verif/target ] && cp -r /var/tmp/sylvia-verif/target $base/cache/target 2>/dev/null
export VERIF_REPO=$base/repo VERIF_CACHE=$base/cache
cd $base/verif
mkdir -p /var/tmp/pv/logs
for p in "$@"; do
  t0=$(date +%s)
  out=$(bin/check $p --tier ${TIER:-quick} 2>/var/tmp/pv/logs/$name.$p.err); rc=$?
  line=$(echo "$out" | grep -E 'VIOLATION|^OK' | head -2 | tr '\n' ' ')
  echo "RESULT $name check=$p exit=$rc $(( $(date +%s) - t0 ))s :: $line"
  rp=$(echo "$out" | grep -o 'replay=[^ ]*' | head -1 | cut -d= -f2)
  if [ -n "$rp" ] && [ -f "$rp" ]; then
    cp "$rp" /var/tmp/pv/logs/$name.$p.replay.json
    python3 - "$rp" <<'PY'
import json,sys
d=json.load(open(sys.argv[1]))
if 'failure' in d: print('   what:', str(d['failure'].get('what'))[:500]); print('   case:', str(d['failure'].get('case'))[:300])
else: print('   broken:', (d.get('proof_obligations_broken',[])+d.get('translator_obligations_broken',[]))[:2], [ (x['observable'],str(x['model'])[:150],str(x['impl'])[:150]) for x in d.get('correspondence_broken',[])[:2]])
PY
  fi
done
cd /
git -C /repo worktree remove --force $base/repo
rm -rf $base
