#!/bin/bash
# usage: tools/run_seeded.sh <seed-dir-name> <Cxx> [more props...]  -- applies seeded/<name>/patch.diff to /repo, runs quick checks, reverts
name=$1; shift
cd /verif
git -C /repo diff --quiet || { echo "/repo is dirty"; exit 2; }
git -C /repo apply /verif/seeded/$name/patch.diff || exit 2
for p in "$@"; do
  out=$(bin/check $p --tier quick 2>/var/tmp/seeded_$name_$p.err); rc=$?
  echo "SEEDED $name check=$p exit=$rc :: $(echo "$out" | grep -E 'VIOLATION|^OK' | head -3 | tr '\n' ' ')"
  rp=$(echo "$out" | grep -o 'replay=[^ ]*' | head -1 | cut -d= -f2)
  [ -n "$rp" ] && python3 -c "
import json,sys
d=json.load(open('$rp'))
if 'failure' in d: print('   what:', d['failure']['what'][:400])
else: print('   broken:', (d['proof_obligations_broken']+d['translator_obligations_broken'])[:2], [ (x['observable'],x['model'],x['impl']) for x in d['correspondence_broken'][:2]])
"
done
git -C /repo checkout -- .
git -C /verif checkout -- evidence 2>/dev/null
