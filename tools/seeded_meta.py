#!/usr/bin/env python3
"""Writes seeded/<id>/meta.json for every kept seeded change (facts recorded while confirming and testing them)."""
import json, os
M = {
 "C01-1": ("C01", "wire key = method name", "a handler name with a word ending in digits or two adjacent one-letter words (step2_done -> step_2_done, point_x_y -> point_xy); published list and wire name stay self-consistent", ["C01"], "L2 oracle: message JSON differs from the shape named by the signature (failing input: a generated method name of that class)"),
 "C01-2": ("C01", "each message type accepts one name per annotated method and no other", "a generic contract/interface, the sudo kind with a generic-typed argument, and the document {\"__phantom\":null}", ["C01"], "L2 oracle: a part accepts a name that is none of its methods (added after the first run missed it: phantom documents + L1 phantom_attrs line)"),
 "C02-1": ("C02", "every field value reaches the parameter of the same name", "an exec/query/sudo handler with >= 10 parameters (field10 sorts before field2 as text) of compatible types", ["C02"], "L1 oracle: dispatch arm argument order (added after the first run missed it: generators now produce 10-13 arguments)"),
 "C02-2": ("C02/C11", "response untouched (gas limit, id of Never sub-messages)", "custom-msg contract + Empty interface registered with custom(msg); handler returns a sub-message with a gas limit", ["C11"], "L3 oracle: converted response differs from the original in messages"),
 "C03-1": ("C03/C05", "wrapper accepts what exactly one part accepts; overlap rejected", "two methods of one part whose order by identifier differs from the order by published name (sha3 next to sha_256)", ["C03", "C05"], "L2 oracle: published list not sorted / shared name compiles (patch rebased after the D4 fix)"),
 "C03-2": ("C03", "zero top-level keys is a decoding error, never a panic", "the document {}", ["C03"], "L2 oracle: decoding the contract-level message panicked (patch rebased after the D4 fix)"),
 "C04-1": ("C04", "no document sent to execute can run an instantiate handler", "exec handler init_1 next to instantiate handler init1 (name that does not survive the casing round trip) with compatible arguments", ["C02", "C04"], "C02 L1 oracle names the wrong dispatch target; C04 reports no-failing-input-found (its corpus stops compiling)"),
 "C05-1": ("C05", "published list sorted; shared name rejected", "names whose wire form reorders them (round_1 / round2)", ["C05"], "compiled pair: interface and contract share a name but the contract compiles"),
 "C05-2": ("C05", "shared name rejected for sorted lists", "a shared name that is not the alphabetically last of the earlier part (interface [pause, unpause], contract [deposit, pause])", ["C05"], "L3 oracle on the exhaustive small space: shared name but no panic; Coq model/impl disagreement"),
 "C06-1": ("C06", "sudo entry point always emitted", "a contract without an own sudo handler whose sudo messages come only from an interface", ["C06"], "L1 oracle: entry point set"),
 "C06-2": ("C06", "overridden kinds are not emitted", "features(replies) + a reply handler + override_entry_point(reply=..)", ["C06"], "L1 oracle: entry point set (exhaustive 1024 combinations)"),
 "C07-1": ("C07", "success runs the success method, failure the error method, any declaration order", "one handler name shared by an error method declared before the success method", ["C07"], "L1 oracle: error arm is pass, expected the error method; L2 echo"),
 "C07-2": ("C07", "uncovered outcome is passed through for any payload", "a name covering one outcome, typed payload, reply with the uncovered outcome and an unparsable payload", ["C07"], "L1 arm shape + L2 oracle"),
 "C08-1": ("C08/C14", "trigger = always when both outcomes have a method", "error method declared before the success method under one name", ["C08"], "L1 oracle: builder requests ReplyOn::Error, expected Always; L2 builders"),
 "C08-2": ("C08", "existing sub-message keeps its gas limit", "receiver is a SubMsg with a gas limit", ["C08"], "L1 builder shape + L2 oracle: gas limit None vs 250000"),
 "C09-1": ("C09", "mandatory instantiate mode fails on missing data without invoking the handler", "mode instantiate (non-opt) and absent data", ["C09"], "L1 oracle: extraction block of the arm; L2 crafted envelopes"),
 "C09-2": ("C09", "data parameter = the sub-message's data", "msg_responses[0].value non-empty and different from data", ["C09"], "L2 oracle: data parameter differs (replies carry a message response unrelated to data)"),
 "C10-1": ("C10", "instantiate builder carries admin and funds", "with_label called after with_admin / with_funds", ["C10"], "L3 oracle: every order of setters; Coq model disagreement"),
 "C10-2": ("C10", "execute message carries the funds set on the builder", "a denom listed twice, a zero amount, or unsorted denoms", ["C10"], "L3 oracle: funds delivered to the real entry point"),
 "C11-1": ("C11", "sub-message gas limit / id / payload intact", "bridged interface handler emits a ReplyOn::Never sub-message with a gas limit", ["C11"], "L3 oracle: converted response differs in messages; translator refuses the rewritten struct literal"),
 "C11-2": ("C11", "data intact", "bridged handler returns data and zero sub-messages", ["C11"], "L3 oracle: data null vs original"),
 "C12-1": ("C12", "instantiate with salt + admin has the same effect as the raw message", "with_salt and with_admin in one instantiation", ["C12"], "L2 differential histories: contract info (admin) differs after the step (patch rebased after the D12 fix)"),
 "C12-2": ("C12", "salt option gives the raw result", "a contract defined outside the sylvia package (feature cfg evaluated in the user's crate) + with_salt", ["C12"], "L2 differential histories: the proxy call fails, the raw call succeeds"),
 "C13-1": ("C13", "bodies re-emitted exactly; only handler parameter attributes removed", "a method body containing a nested fn or closure whose typed parameter carries an attribute", ["C13"], "L1 oracle: attributes missing in the re-emitted item (generated decorated inputs) (patch rebased after the D9 fix)"),
 "C13-2": ("C13", "expanding the same input twice produces identical output", "a generic contract / interface whose message type leaves two or more parameters unused (HashSet order)", ["C13"], "L1: same input expanded twice in one process and again in other processes"),
 "C14-1": ("C14", "reply behaviour independent of declaration order", "error method declared before success method under one name", ["C08", "C14"], "L1 oracle on builder trigger; C14 permuted twins"),
 "C14-2": ("C14/C06", "entry point set independent of method order", "all reply methods declared before the migrate method", ["C06", "C14"], "L1 oracle: entry point set (added after the first run missed it: C06 cases now come with reversed and shuffled method orders)"),
 "C15-1": ("C15", "only bounds mentioning no other parameter are kept", "a where-predicate relating a used and an unused parameter", ["C15"], "L1 oracle on kept where-predicates (added after the first run found only a model disagreement)"),
 "C15-2": ("C15", "parameters occurring nested in tuples / arrays count", "a parameter occurring only inside a tuple-typed argument", ["C15"], "L1 oracle: generic parameter list vs occurrence computed from the signature"),
 "C16-1": ("C16", "explicit resp= type wins", "resp=X together with a literal Result<Y,_> signature, Y != X", ["C16"], "L1 oracle: returns(T) recorded per variant (generator now produces resp= next to a literal Result)"),
 "C16-2": ("C16", "contract-level table is the union of the parts", "a contract-level query with two generic parts (both carry __phantom)", ["C16"], "L1 assembly shape; L2 crafted all-generic program: table cannot be produced"),
 "C17-1": ("C17", "attribute forwarded to a kind lands on that kind only", "exec and sudo receive different forwarded attributes", ["C17"], "L1 oracle: type attribute lists"),
 "C17-2": ("C17", "handler's sv::attr lands on its variant", "#[sv::attr] written above #[sv::msg]", ["C17"], "L1 oracle: variant attributes (added after the first run missed it: attribute position is now random)"),
 "C18-1": ("C18", "same name and outcome twice is rejected", "success/error method first, always method after it, identical payloads", ["C18"], "L1 oracle: reply table breaking a rule is accepted; Coq model disagreement"),
 "C18-2": ("C18", "misplaced data marker is rejected", "#[sv::data] on a parameter other than the first", ["C18"], "L1 oracle: reply table breaking a rule is accepted"),
 "C19-1": ("C19", "re-exported dependencies are named through the framework's name", "data(instantiate) handler in a crate without a direct cw-utils dependency", ["C19", "C09"], "Coq theorem over regenerated templates breaks (literal root cw_utils) + compiled batch under a renamed dependency: E0433"),
 "C19-2": ("C19", "helper parameters stay clear of single letters", "a generic contract with a parameter named A or S, feature mt", ["C19"], "Coq theorem over regenerated templates breaks (helper parameters A, S) + compiled batch: E0403"),
 "C20-1": ("C20", "decoding gives back the address", "an address whose JSON form needs an escape, or a non-borrowing deserializer", ["C20"], "L3 oracle: decoding gives None for addresses with escapes (std back end); translator: Remote no longer derives Deserialize"),
 "C20-2": ("C20", "schema name independent of the type parameter", "one schema document mentioning the handle with two or more type parameters", ["C20"], "L3 oracle (added after the first run missed it): a struct holding four differently typed handles must reference one definition Remote"),
}
root = os.path.join(os.path.dirname(os.path.dirname(os.path.abspath(__file__))), "seeded")
for k, (prop, clause, needs, detected, how) in M.items():
    d = os.path.join(root, k)
    if not os.path.isdir(d):
        print("missing", k); continue
    meta = {"seeded_id": k, "breaks_property": prop, "clause_broken": clause, "needs_to_manifest": needs,
            "written_by": "independent sub-agent given only the property text and a scratch worktree",
            "confirmed": {"existing_suite_with_patch": "pass (47 tests + 20 doc-tests)", "demo_without_patch": "pass", "demo_with_patch": "fail",
                          "how": "tools/confirm_seed.sh in the agent's scratch worktree (cargo test -p sylvia --features mt --test seeded_demo; cargo test --workspace)" if k != "C13-2" else "SYLVIA_VERIF_HARNESS=seeded/C13-2/demo.rs cargo test -p sylvia-derive --features verif-hook verif_hook; cargo test --workspace"},
            "checks_run": ["tools/run_seeded.sh %s %s" % (k, " ".join(detected))],
            "detected_by": detected, "detection": how}
    json.dump(meta, open(os.path.join(d, "meta.json"), "w"), indent=1)
print(len(M))
