#!/bin/bash
# Independent re-check of the compiled property files (and everything they depend on) with coqchk; prints the axioms used.
cd "$(dirname "$0")/../coq" || exit 2
mods=""
for f in theories/Props/C*.v; do b=$(basename $f .v); mods="$mods SV.Props.$b"; done
exec coqchk -silent -o -Q theories SV $mods
