(* JSON trees. Objects are association lists, so duplicate keys and key order are representable.
   JSON *text* (whitespace, escapes, number syntax) is the JSON library's business and is not modelled:
   the harnesses parse real output into this tree form before comparing. *)
From Coq Require Import String List Bool ZArith.
Require Import SV.Base.StrOrder.
Import ListNotations.
Open Scope string_scope.

Inductive json :=
| JNull
| JBool (b : bool)
| JNum (z : Z)
| JStr (s : string)
| JArr (items : list json)
| JObj (members : list (string * json)).

Definition lookup {V} (k : string) (l : list (string * V)) : option V :=
  match find (fun p => String.eqb (fst p) k) l with Some p => Some (snd p) | None => None end.

Definition count_key {V} (k : string) (l : list (string * V)) : nat :=
  length (filter (fun p => String.eqb (fst p) k) l).

Definition keys {V} (l : list (string * V)) : list string := map fst l.

Fixpoint nodupb (l : list string) : bool :=
  match l with
  | [] => true
  | x :: r => negb (existsb (String.eqb x) r) && nodupb r
  end.

(* no object anywhere in the document repeats a key *)
Fixpoint nodup_keys (j : json) : bool :=
  match j with
  | JArr items => forallb nodup_keys items
  | JObj members =>
      nodupb (map fst members) && forallb (fun p : string * json => nodup_keys (snd p)) members
  | _ => true
  end.

(* What buffering a document through `serde_cw_value::Value` does to it: objects become
   `BTreeMap`s, i.e. members sorted by key with a later duplicate overwriting an earlier one. *)
Fixpoint kv_insert {V} (k : string) (v : V) (l : list (string * V)) : list (string * V) :=
  match l with
  | [] => [(k, v)]
  | (k', v') :: r =>
      if String.eqb k k' then (k, v) :: r
      else if String.ltb k k' then (k, v) :: l
      else (k', v') :: kv_insert k v r
  end.

Definition btree_of {V} (l : list (string * V)) : list (string * V) :=
  fold_left (fun acc p => kv_insert (fst p) (snd p) acc) l [].

Fixpoint collapse (j : json) : json :=
  match j with
  | JArr items => JArr (map collapse items)
  | JObj members => JObj (btree_of (map (fun p : string * json => (fst p, collapse (snd p))) members))
  | _ => j
  end.

(* rendering for the correspondence check: compact JSON text with the model's member order *)
Definition show_Z (z : Z) : string :=
  let fix digits (fuel : nat) (n : Z) (acc : string) : string :=
    match fuel with
    | O => acc
    | S f =>
        let d := Z.modulo n 10 in
        let c := String (Ascii.ascii_of_N (Z.to_N (48 + d))) EmptyString in
        let n' := Z.div n 10 in
        if Z.eqb n' 0 then c ++ acc else digits f n' (c ++ acc)
    end in
  if Z.ltb z 0 then "-" ++ digits 80%nat (Z.opp z) "" else digits 80%nat z "".
