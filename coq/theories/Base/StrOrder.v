(* The byte-wise lexicographic order on strings (= Rust `str::cmp` = `konst::cmp_str`) is a strict
   total order; insertion sort w.r.t. it is a canonical form of permutations. *)
From Coq Require Import String Ascii List Bool Arith NArith Lia Permutation Sorted.
Import ListNotations.

Definition slt (a b : string) : Prop := String.ltb a b = true.

Lemma ascii_compare_refl a : Ascii.compare a a = Eq.
Proof. unfold Ascii.compare. apply N.compare_refl. Qed.

Lemma str_compare_refl s : String.compare s s = Eq.
Proof. induction s as [|a s IH]; simpl; [reflexivity|]. rewrite ascii_compare_refl. exact IH. Qed.

Lemma ascii_compare_lt_trans a b c :
  Ascii.compare a b = Lt -> Ascii.compare b c = Lt -> Ascii.compare a c = Lt.
Proof. unfold Ascii.compare. rewrite !N.compare_lt_iff. lia. Qed.

Lemma str_compare_lt_trans : forall a b c,
  String.compare a b = Lt -> String.compare b c = Lt -> String.compare a c = Lt.
Proof.
  induction a as [|x a IH]; intros [|y b] [|z c]; simpl; intros H1 H2; try discriminate; try reflexivity.
  destruct (Ascii.compare x y) eqn:Exy; try discriminate.
  - apply Ascii.compare_eq_iff in Exy. subst y.
    destruct (Ascii.compare x z) eqn:Exz; try discriminate; auto.
    eapply IH; eauto.
  - destruct (Ascii.compare y z) eqn:Eyz; try discriminate.
    + apply Ascii.compare_eq_iff in Eyz. subst z. rewrite Exy. reflexivity.
    + rewrite (ascii_compare_lt_trans _ _ _ Exy Eyz). reflexivity.
Qed.

Lemma slt_irrefl a : ~ slt a a.
Proof. unfold slt, String.ltb. rewrite str_compare_refl. discriminate. Qed.

Lemma slt_trans a b c : slt a b -> slt b c -> slt a c.
Proof.
  unfold slt, String.ltb. intros H1 H2.
  destruct (String.compare a b) eqn:E1; try discriminate.
  destruct (String.compare b c) eqn:E2; try discriminate.
  rewrite (str_compare_lt_trans _ _ _ E1 E2). reflexivity.
Qed.

Lemma slt_total a b : slt a b \/ a = b \/ slt b a.
Proof.
  unfold slt, String.ltb. rewrite (String.compare_antisym b a).
  destruct (String.compare a b) eqn:E; simpl; auto.
  right. left. apply String.compare_eq_iff. exact E.
Qed.

Lemma slt_ltb a b : String.ltb a b = true <-> slt a b.
Proof. reflexivity. Qed.

Lemma slt_asym a b : slt a b -> slt b a -> False.
Proof. intros H1 H2. exact (slt_irrefl a (slt_trans _ _ _ H1 H2)). Qed.

(* non-strict version *)
Definition sle (a b : string) : Prop := String.leb a b = true.

Lemma sle_iff a b : sle a b <-> (slt a b \/ a = b).
Proof.
  unfold sle, slt, String.leb, String.ltb. destruct (String.compare a b) eqn:E; split; auto; try discriminate.
  - intros _. right. apply String.compare_eq_iff. exact E.
  - intros [H|H]; [discriminate|]. subst. rewrite str_compare_refl in E. discriminate.
Qed.

Lemma sle_refl a : sle a a.
Proof. apply sle_iff. auto. Qed.

Lemma sle_trans a b c : sle a b -> sle b c -> sle a c.
Proof.
  rewrite !sle_iff. intros [H1| ->] [H2| ->]; auto. left. eapply slt_trans; eauto.
Qed.

Lemma sle_total a b : sle a b \/ sle b a.
Proof. apply String.leb_total. Qed.

Lemma sle_antisym a b : sle a b -> sle b a -> a = b.
Proof. apply String.leb_antisym. Qed.

Lemma not_sle_slt a b : String.leb a b = false -> slt b a.
Proof.
  intros H. destruct (slt_total a b) as [L|[E|G]]; auto.
  - assert (sle a b) by (apply sle_iff; auto). unfold sle in *. congruence.
  - subst. pose proof (sle_refl b). unfold sle in *. congruence.
Qed.

(* ---- insertion sort: the model of `Vec<String>::sort()` ---- *)
Fixpoint insert (x : string) (l : list string) : list string :=
  match l with
  | [] => [x]
  | y :: r => if String.leb x y then x :: l else y :: insert x r
  end.

Fixpoint sort (l : list string) : list string :=
  match l with [] => [] | x :: r => insert x (sort r) end.

Lemma insert_perm x l : Permutation (x :: l) (insert x l).
Proof.
  induction l as [|y r IH]; simpl; [apply Permutation_refl|].
  destruct (String.leb x y); [apply Permutation_refl|].
  eapply Permutation_trans; [apply perm_swap|]. apply perm_skip. exact IH.
Qed.

Lemma sort_perm l : Permutation l (sort l).
Proof.
  induction l as [|x r IH]; simpl; [constructor|].
  eapply Permutation_trans; [apply perm_skip; exact IH | apply insert_perm].
Qed.

Lemma sort_in x l : In x (sort l) <-> In x l.
Proof. split; apply Permutation_in; [apply Permutation_sym|]; apply sort_perm. Qed.

Lemma sort_length l : length (sort l) = length l.
Proof. symmetry. apply Permutation_length, sort_perm. Qed.

Lemma insert_sorted x l : StronglySorted sle l -> StronglySorted sle (insert x l).
Proof.
  induction 1 as [|y r Hs IH Hall]; simpl; [repeat constructor|].
  destruct (String.leb x y) eqn:E.
  - constructor; [constructor; assumption|]. constructor; [exact E|].
    eapply Forall_impl; [|exact Hall]. intros z Hz. eapply sle_trans; eauto.
  - constructor; [exact IH|].
    assert (Hyx : sle y x). { apply sle_iff. left. apply not_sle_slt. exact E. }
    apply Forall_forall. intros z Hz.
    apply (Permutation_in _ (Permutation_sym (insert_perm x r))) in Hz. destruct Hz as [<-|Hz]; [exact Hyx|].
    rewrite Forall_forall in Hall. auto.
Qed.

Lemma sort_sorted l : StronglySorted sle (sort l).
Proof. induction l as [|x r IH]; simpl; [constructor | apply insert_sorted; exact IH]. Qed.

(* two sorted permutations of each other are equal: the sorted list is canonical *)
Lemma sorted_perm_eq : forall l1 l2,
  StronglySorted sle l1 -> StronglySorted sle l2 -> Permutation l1 l2 -> l1 = l2.
Proof.
  induction l1 as [|a l1 IH]; intros l2 S1 S2 P.
  - apply Permutation_nil in P. subst. reflexivity.
  - destruct l2 as [|b l2]; [apply Permutation_sym, Permutation_nil in P; discriminate|].
    inversion S1 as [|? ? S1' A1]; subst. inversion S2 as [|? ? S2' A2]; subst.
    assert (a = b).
    { assert (Ia : In a (b :: l2)) by (eapply Permutation_in; [exact P | left; reflexivity]).
      assert (Ib : In b (a :: l1)) by (eapply Permutation_in; [apply Permutation_sym; exact P | left; reflexivity]).
      rewrite Forall_forall in A1, A2.
      destruct Ia as [-> |Ia]; [reflexivity|]. destruct Ib as [-> |Ib]; [reflexivity|].
      apply sle_antisym; auto. }
    subst b. f_equal. apply IH; auto. eapply Permutation_cons_inv. exact P.
Qed.

Lemma sort_canonical l1 l2 : Permutation l1 l2 -> sort l1 = sort l2.
Proof.
  intros P. apply sorted_perm_eq; try apply sort_sorted.
  eapply Permutation_trans; [apply Permutation_sym, sort_perm|].
  eapply Permutation_trans; [exact P | apply sort_perm].
Qed.

(* strict sortedness for duplicate-free lists *)
Lemma sort_strict l : NoDup l -> StronglySorted slt (sort l).
Proof.
  intros N. assert (N' : NoDup (sort l)) by (eapply Permutation_NoDup; [apply sort_perm | exact N]).
  pose proof (sort_sorted l) as S. induction S as [|a r S IH A]; [constructor|].
  inversion N' as [|? ? Hn N'']; subst. constructor; [apply IH; exact N''|].
  rewrite Forall_forall in *. intros x Hx. specialize (A x Hx). apply sle_iff in A. destruct A as [A| ->]; [exact A|].
  contradiction.
Qed.
