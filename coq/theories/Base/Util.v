(* Small list lemmas shared by the development (stdlib only). *)
From Coq Require Import List Bool Arith Lia.
Import ListNotations.

Lemma NoDup_app {A} (l1 l2 : list A) :
  NoDup l1 -> NoDup l2 -> (forall x, In x l1 -> In x l2 -> False) -> NoDup (l1 ++ l2).
Proof.
  induction l1 as [|a l1 IH]; simpl; intros H1 H2 Hd; [exact H2|].
  inversion H1 as [|? ? Hn H1']; subst. constructor.
  - rewrite in_app_iff. intros [H|H]; [exact (Hn H) | exact (Hd a (or_introl eq_refl) H)].
  - apply IH; auto. intros x Hx Hy. exact (Hd x (or_intror Hx) Hy).
Qed.

Lemma NoDup_app_inv {A} (l1 l2 : list A) :
  NoDup (l1 ++ l2) -> NoDup l1 /\ NoDup l2 /\ (forall x, In x l1 -> In x l2 -> False).
Proof.
  induction l1 as [|a l1 IH]; simpl; intros H.
  - repeat split; [constructor | exact H | intros x []].
  - inversion H as [|? ? Hn H']; subst. destruct (IH H') as [N1 [N2 D]].
    repeat split; [constructor; [rewrite in_app_iff in Hn; tauto | exact N1] | exact N2 |].
    intros x [<-|Hx] Hy; [apply Hn; rewrite in_app_iff; tauto | exact (D x Hx Hy)].
Qed.

Lemma NoDup_map_inj {A B} (f : A -> B) l :
  (forall a b, In a l -> In b l -> f a = f b -> a = b) -> NoDup l -> NoDup (map f l).
Proof.
  induction l as [|x l IH]; simpl; intros Hinj H; [constructor|].
  inversion H as [|? ? Hn H']; subst. constructor.
  - intros Hin. apply in_map_iff in Hin. destruct Hin as [y [E Hy]].
    assert (y = x) by (apply Hinj; auto). subst. exact (Hn Hy).
  - apply IH; auto.
Qed.

Lemma filter_all {A} (f : A -> bool) l : forallb f l = true -> filter f l = l.
Proof. induction l as [|x l IH]; simpl; [reflexivity|]. destruct (f x); simpl; [intros H; f_equal; auto | discriminate]. Qed.

Lemma forallb_map {A B} (f : B -> bool) (g : A -> B) l : forallb f (map g l) = forallb (fun x => f (g x)) l.
Proof. induction l as [|x l IH]; simpl; [reflexivity | rewrite IH; reflexivity]. Qed.

Lemma existsb_map {A B} (f : B -> bool) (g : A -> B) l : existsb f (map g l) = existsb (fun x => f (g x)) l.
Proof. induction l as [|x l IH]; simpl; [reflexivity | rewrite IH; reflexivity]. Qed.

Lemma nth_map_lt {A B} (f : A -> B) l n d d' : n < length l -> nth n (map f l) d = f (nth n l d').
Proof.
  revert n; induction l as [|x r IH]; intros [|n] L; simpl in *; try lia; [reflexivity|]. apply IH. lia.
Qed.
