(* C12 — Multitest proxies are equivalent to sending the raw JSON message. Statements only.
   Partial: the chain (cw-multi-test) is an arbitrary step function; the theorems cannot exhibit
   behaviour inside it. The message a proxy sends is the encoding of C01. *)
From Coq Require Import String List Bool NArith.
Require Import SV.Base.Json SV.Model.MultiTest SV.Facts.MultiTestFacts.
Import ListNotations.
Open Scope string_scope.

Theorem c12_proxy_call_is_the_raw_operation : forall c, proxy_op c = raw_op c.
Proof. exact proxy_is_the_raw_operation. Qed.

Theorem c12_histories_agree : forall (chain out : Type) (step : chain -> chain_op -> chain * out) calls c,
  run chain out step (map proxy_op calls) c = run chain out step (map raw_op calls) c.
Proof. exact proxy_history_equals_raw_history. Qed.

Theorem c12_handler_error_surfaces_unchanged : forall (E : Type) (from_std : string -> E) (e : E),
  surface from_std (ErrContract e) = e.
Proof. intros. reflexivity. Qed.

Check c12_histories_agree.

Example c12_example :
  proxy_op (PInstantiate 3 (JObj [("owner", JStr "a")]) [WithLabel "x"; WithAdmin (Some "adm"); WithSalt (Some "s"); WithLabel "y"] "alice") =
  OpInstantiate2 3 "alice" (JObj [("owner", JStr "a")]) (JArr []) "y" (Some "adm") "s" /\
  proxy_op (PInstantiate 3 JNull [] "bob") = OpInstantiate 3 "bob" JNull (JArr []) "Contract" None.
Proof. split; reflexivity. Qed.

Print Assumptions c12_proxy_call_is_the_raw_operation.
Print Assumptions c12_histories_agree.
Print Assumptions c12_handler_error_surfaces_unchanged.
