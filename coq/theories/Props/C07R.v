(* C07 / C09 / C18, tie by TRANSLATION - what ONE reply handler contributes to its reply id: `ReplyData::new` of
   sylvia-derive/src/contract/communication/reply.rs translated on every run (GenImpReplyData.replydata_fns,
   Facts/ReplyDataRefine2.v). Statements only. *)
From Coq Require Import String List Bool.
Require Import SV.Model.Imp SV.Model.GenImpReplyData SV.Facts.ImpFacts SV.Facts.MacroRefine SV.Facts.CheckRefine SV.Facts.ReplyDataRefine2.
Import ListNotations.
Open Scope string_scope.
Open Scope list_scope.

(* For EVERY handler - any number of fields, with or without a field marked as data, declared for any outcome: the entry it opens
   for its reply id lists the handler itself, under its own name, for its own outcome; carries its data field; and its payload
   is all its fields for a success handler without data, all but the first otherwise *)
Theorem c07_translated_reply_entry_of_one_handler : forall d id hid name (o : outcome) (fields : list value) (data : option value),
  calls RD (S (S d)) "ReplyData::new" [id; handler_v name o fields data; hid] (CVal (reply_data_v id hid name o fields data)).
Proof. exact translated_reply_data_new. Qed.

Theorem c07_translated_payload_of_a_handler : forall (fields : list value) f,
  payload_of OSuccess fields None = fields /\
  payload_of OSuccess fields (Some f) = skipn 1 fields /\
  (forall data, payload_of OError fields data = skipn 1 fields) /\
  (forall data, payload_of OAlways fields data = skipn 1 fields).
Proof. intros fields f. repeat split; intros; try destruct data; reflexivity. Qed.

(* a handler without any payload parameter is refused (C18), and only then *)
Theorem c18_translated_missing_payload_parameter : forall id hid name o fields data,
  (payload_of o fields data = [] ->
   reply_data_v id hid name o fields data =
   VRec "ReplyData" [("__diags", VArr [VStr "Missing payload parameter."]); ("reply_id", id); ("handler_id", hid);
                     ("handlers", VArr [VCon "()" [name; outcome_v o]]); ("data", match data with Some f => some f | None => none end);
                     ("payload", VArr [])]) /\
  (payload_of o fields data <> [] ->
   exists rest, reply_data_v id hid name o fields data = VRec "ReplyData" (("__diags", VArr []) :: rest)).
Proof.
  intros id hid name o fields data. unfold reply_data_v. split.
  - intros ->. reflexivity.
  - intros H. destruct (payload_of o fields data) as [|p ps]; [contradiction|]. eexists. reflexivity.
Qed.

Example c07_translated_reply_entry_example :
  length replydata_fns = 2 /\
  payload_of OSuccess [VStr "data: Option<Binary>"; VStr "param: String"] (Some (VStr "data: Option<Binary>")) = [VStr "param: String"] /\
  payload_of OError [VStr "error: String"; VStr "param: String"] None = [VStr "param: String"] /\
  payload_of OSuccess [VStr "param: String"] None = [VStr "param: String"].
Proof. vm_compute. repeat split; reflexivity. Qed.

Print Assumptions c07_translated_reply_entry_of_one_handler.
Print Assumptions c07_translated_payload_of_a_handler.
Print Assumptions c18_translated_missing_payload_parameter.
