(* C07 / C09 / C18, tie by TRANSLATION - what ONE reply handler contributes to its reply id: `ReplyData::new` of
   sylvia-derive/src/contract/communication/reply.rs translated on every run (GenImpReplyData.replydata_fns,
   Facts/ReplyDataRefine2.v). Statements only. *)
From Coq Require Import String List Bool.
Require Import SV.Model.Imp SV.Model.GenImpReplyData SV.Facts.ImpFacts SV.Facts.MacroRefine SV.Facts.CheckRefine SV.Facts.ReplyDataRefine2 SV.Facts.ReplyMergeRefine.
Import ListNotations.
Open Scope string_scope.
Open Scope list_scope.

(* For EVERY handler - any number of fields, with or without a field marked as data, declared for any outcome: the entry it opens
   for its reply id lists the handler itself, under its own name, for its own outcome; carries its data field; and its payload
   is all its fields for a success handler without data, all but the first otherwise *)
Theorem c07_translated_reply_entry_of_one_handler : forall d id hid name (o : outcome) (fields : list value) (data : option value),
  calls RD (S (S d)) "ReplyData::new" [id; handler_v name o fields data; hid] (CVal (reply_data_v id hid name o fields data)).
Proof. exact translated_reply_data_new. Qed.

Theorem c07_translated_payload_of_a_handler : forall (fields : list value) f,
  payload_of OSuccess fields None = fields /\
  payload_of OSuccess fields (Some f) = skipn 1 fields /\
  (forall data, payload_of OError fields data = skipn 1 fields) /\
  (forall data, payload_of OAlways fields data = skipn 1 fields).
Proof. intros fields f. repeat split; intros; try destruct data; reflexivity. Qed.

(* a handler without any payload parameter is refused (C18), and only then *)
Theorem c18_translated_missing_payload_parameter : forall id hid name o fields data,
  (payload_of o fields data = [] ->
   reply_data_v id hid name o fields data =
   VRec "ReplyData" [("__diags", VArr [VStr "Missing payload parameter."]); ("reply_id", id); ("handler_id", hid);
                     ("handlers", VArr [VCon "()" [name; outcome_v o]]); ("data", match data with Some f => some f | None => none end);
                     ("payload", VArr [])]) /\
  (payload_of o fields data <> [] ->
   exists rest, reply_data_v id hid name o fields data = VRec "ReplyData" (("__diags", VArr []) :: rest)).
Proof.
  intros id hid name o fields data. unfold reply_data_v. split.
  - intros ->. reflexivity.
  - intros H. destruct (payload_of o fields data) as [|p ps]; [contradiction|]. eexists. reflexivity.
Qed.

(* A SECOND handler of the same reply id (`ReplyData::merge`, translated): for EVERY entry with at least one handler and EVERY further
   handler - in whatever order they were declared - the new handler is appended under its own name and outcome; the payload of the
   entry stays; the data field is the entry's own when it has one, else the new handler's (so a success handler's `#[sv::data]` is
   kept when the error handler was declared first: C09 / C14); and the diagnostics gained are exactly: a different number of
   payload parameters, each position whose types differ, payloads marked differently (C18).
   `is_payload_marked` is an oracle: any function of that name answering a boolean that depends on the payload. *)
Theorem c07_translated_second_handler_of_a_reply_id : forall fd marked,
  (forall d l, calls (RDM fd) (S d) "extern::is_payload_marked" [VArr l] (CVal (VBool (marked l)))) ->
  forall d dg id hid n0 o0 hs data (pa : list pfield) name2 (o2 : outcome) (fields2 : list pfield) data2 pbf,
  payload_of o2 (map pfield_v fields2) data2 = map pfield_v pbf ->
  calls (RDM fd) (S (S (S d))) "ReplyData::merge"
    [entry_v dg id hid (VCon "()" [n0; o0] :: hs) data pa; handler_v name2 o2 (map pfield_v fields2) data2]
    (CVal (entry_v (dg ++ quantity_diag pa pbf ++ flat_map mismatch (combine pa pbf) ++ marking_diag marked pa pbf)
                   id hid ((VCon "()" [n0; o0] :: hs) ++ [VCon "()" [name2; outcome_v o2]])
                   (match data with Some f => Some f | None => data2 end) pa)).
Proof. exact translated_reply_data_merge. Qed.

(* the oracle's assumption is satisfiable *)
Theorem c07_translated_an_is_payload_marked :
  forall d l, calls (RDM (stub "extern::is_payload_marked" ["payload"] (EConst (VBool false)))) (S d) "extern::is_payload_marked" [VArr l]
                (CVal (VBool ((fun _ => false) l))).
Proof. exact an_is_payload_marked. Qed.

(* merged handlers whose payload types differ at some position are refused (C18) *)
Theorem c18_translated_mismatched_payload_types_are_reported : forall (pa pbf : list pfield) j ta ra tb rb,
  nth_error pa j = Some (ta, ra) -> nth_error pbf j = Some (tb, rb) -> value_eqb ta tb = false ->
  In (VStr "Mismatched parameter in reply handlers.") (flat_map mismatch (combine pa pbf)).
Proof. exact mismatched_types_are_reported. Qed.

Example c07_translated_reply_entry_example :
  length replydata_fns = 2 /\
  payload_of OSuccess [VStr "data: Option<Binary>"; VStr "param: String"] (Some (VStr "data: Option<Binary>")) = [VStr "param: String"] /\
  payload_of OError [VStr "error: String"; VStr "param: String"] None = [VStr "param: String"] /\
  payload_of OSuccess [VStr "param: String"] None = [VStr "param: String"].
Proof. vm_compute. repeat split; reflexivity. Qed.

Print Assumptions c07_translated_reply_entry_of_one_handler.
Print Assumptions c07_translated_payload_of_a_handler.
Print Assumptions c18_translated_missing_payload_parameter.
Print Assumptions c07_translated_second_handler_of_a_reply_id.
Print Assumptions c07_translated_an_is_payload_marked.
Print Assumptions c18_translated_mismatched_payload_types_are_reported.
