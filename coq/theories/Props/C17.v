(* C17 — Forwarded attributes land on exactly the designated item. Statements only.
   The kind names of `sv::msg_attr` go through the regenerated table `msg_attr_kind_of_string`. *)
From Coq Require Import String List Bool.
Require Import SV.Base.Json SV.Model.Kinds SV.Model.GenTables SV.Model.Syntax SV.Model.Expand SV.Model.Sem.
Require Import SV.Facts.ExpandFacts SV.Facts.AttrFacts SV.Facts.TblMsgAttr.
Import ListNotations.
Open Scope string_scope.

(* an attribute forwarded to a message kind is attached to the generated type of that kind, in
   order, and to the type of no other kind *)
Theorem c17_type_attributes : forall name item_attrs vs wh,
  eo_attrs (mk_enum name (parse_attrs item_attrs) vs wh) =
  map snd (filter (fun p : kind * string => kind_eqb (fst p) (vs_kind vs)) (flat_map msg_attr_of item_attrs)).
Proof. exact type_attrs_are_those_forwarded_to_its_kind. Qed.

Theorem c17_other_kinds_do_not_get_it : forall k k' (t : string), k <> k' ->
  ~ In t (map snd (filter (fun p : kind * string => kind_eqb (fst p) k') [(k, t)])).
Proof. exact attribute_forwarded_to_one_kind_lands_on_no_other. Qed.

(* one forwarded from a handler is attached to that handler's variant only *)
Theorem c17_variant_attributes : forall gens m v,
  variant_of gens m = Some v -> v_fwd v = flat_map variant_attr_of (m_attrs m).
Proof. exact variant_attrs_are_the_handlers_own. Qed.

(* an attribute written on an argument is attached to the corresponding field *)
Theorem c17_field_attributes : forall a, f_attrs (mk_field a) = a_attrs a /\ f_name (mk_field a) = a_name a.
Proof. exact field_attrs_are_the_arguments_own. Qed.

(* ... and takes effect there: a default makes the field optional on the wire, its absence does not *)
Theorem c17_default_marker_is_the_arguments : forall a,
  fd_default (fdesc_of (out_field (mk_field a))) = existsb (fun t => t =? "#[serde(default)]") (map attr_text (a_attrs a)).
Proof. exact default_marker_comes_from_the_argument. Qed.

Theorem c17_missing_field_without_default_is_rejected :
  forall (val : Type) (dec : ty -> json -> option val) (is_option : ty -> bool) (default_val : ty -> val) fs body f,
  In f fs -> count_key (fd_name f) body = 0 -> is_option (fd_ty f) = false -> fd_default f = false ->
  exists e, dec_fields val dec is_option default_val fs body = inl e.
Proof. exact missing_field_without_default_is_rejected. Qed.

Theorem c17_missing_field_with_default_is_accepted :
  forall (val : Type) (dec : ty -> json -> option val) (is_option : ty -> bool) (default_val : ty -> val) f body rest,
  count_key (fd_name f) body = 0 -> is_option (fd_ty f) = false -> fd_default f = true ->
  dec_fields val dec is_option default_val [] body = inr rest ->
  dec_fields val dec is_option default_val [f] body = inr [(fd_name f, default_val (fd_ty f))].
Proof. exact missing_field_with_default_takes_the_default. Qed.

(* the kind named in `sv::msg_attr(<kind>, ..)` denotes that kind and no other (regenerated table) *)
Theorem c17_kind_names : (forall k, msg_attr_kind_of_string (kind_attr_name k) = Some k) /\
                         (forall s k, msg_attr_kind_of_string s = Some k -> s = kind_attr_name k).
Proof. exact (conj msg_attr_kind_sound msg_attr_kind_complete). Qed.

Check c17_type_attributes.

Definition ex_c17 : contract :=
  mkContract "Ctr" [] []
    [ASv "msg_attr" (SvMsgAttr "exec" "derive(PartialOrd)"); ASv "msg_attr" (SvMsgAttr "query" "derive(Eq)");
     ASv "msg_attr" (SvMsgAttr "exec" "cfg_attr(test,derive(Default))")]
    [ mkMethod "instantiate" [ASv "msg" (SvMsg "instantiate" None [] None)] [] (TName "R") [] [];
      mkMethod "a" [ASv "msg" (SvMsg "exec" None [] None); ASv "attr" (SvAttr "serde(alias=""x"")")]
               [mkArg "n" (TName "u32") [AForeign ["serde"] "#[serde(default)]"]] (TName "R") [] [];
      mkMethod "b" [ASv "msg" (SvMsg "exec" None [] None)] [] (TName "R") [] [] ] true false.
Example c17_example :
  eo_attrs (co_exec (expand_contract ex_c17)) = ["derive(PartialOrd)"; "cfg_attr(test,derive(Default))"] /\
  eo_attrs (co_query (expand_contract ex_c17)) = ["derive(Eq)"] /\
  eo_attrs (co_sudo (expand_contract ex_c17)) = [] /\
  map vo_attrs (eo_variants (co_exec (expand_contract ex_c17))) = [["serde(alias=""x"")"]; []].
Proof. vm_compute. repeat split; reflexivity. Qed.

Print Assumptions c17_type_attributes.
Print Assumptions c17_kind_names.
Print Assumptions c17_other_kinds_do_not_get_it.
Print Assumptions c17_variant_attributes.
Print Assumptions c17_field_attributes.
Print Assumptions c17_default_marker_is_the_arguments.
Print Assumptions c17_missing_field_without_default_is_rejected.
Print Assumptions c17_missing_field_with_default_is_accepted.
