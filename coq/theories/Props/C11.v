(* C11 — Bridging to chain-custom types preserves the response and the call. Statements only.
   `into_msg_arms` and `submsg_field_map` are regenerated from sylvia/src/into_response.rs on every run. *)
From Coq Require Import String List Bool ZArith.
Require Import SV.Base.Json SV.Model.GenLib SV.Model.Lib SV.Facts.LibFacts.
Import ListNotations.
Open Scope string_scope.

(* a response without a custom-typed message reaches the caller intact: every sub-message (order,
   id, payload, gas limit, reply trigger, the message itself), attributes, events and data *)
Theorem c11_response_preserved : forall r, wf_response r -> ~ has_custom r -> into_response r = inr r.
Proof. exact into_response_preserves. Qed.

(* the conversion fails exactly when the response contains a custom-typed message; a failure is an
   error value and never a partial response *)
Theorem c11_fails_iff_custom_message : forall r, wf_response r ->
  ((exists e, into_response r = inl e) <-> has_custom r).
Proof. exact into_response_fails_iff_custom. Qed.

(* every non-custom kind of message of the chain interface is carried over (regenerated arm table) *)
Theorem c11_every_standard_message_kind_is_bridged : forall v,
  In v cosmos_variants -> v <> "Custom" -> arm_of v = Some "keep".
Proof. exact arm_keep. Qed.

(* ... under EVERY choice of cargo features (any selection `sel` of the features of sylvia/Cargo.toml): the arm of a
   message kind is compiled in exactly when cosmwasm-std defines the kind, so no non-custom kind that exists can reach
   the `Unknown message variant` error and the match never names a missing variant. Feature tables and the variant list
   are regenerated from sylvia/Cargo.toml, sylvia/src/into_response.rs and the pinned cosmwasm-std source. *)
Theorem c11_arm_present_iff_kind_exists_under_every_feature_set : forall (sel : string -> bool) v,
  In v cosmos_variants ->
  arm_present (filter sel feature_names) v = variant_present (filter sel feature_names) v.
Proof. exact arm_present_iff_variant_present. Qed.

Check c11_fails_iff_custom_message : forall r, wf_response r -> ((exists e, into_response r = inl e) <-> has_custom r).

Definition ex_sub (v : string) (id : Z) : submsg :=
  {| sm_msg := {| cm_variant := v; cm_body := JObj [("x", JNum id)] |};
     sm_fields := [("id", JNum id); ("gas_limit", JNum 60000%Z); ("reply_on", JStr "success"); ("payload", JStr "cGF5")] |}.
Definition ex_resp (vs : list string) : response :=
  {| r_messages := map (fun v => ex_sub v 7%Z) vs; r_attributes := [("k", "v")]; r_events := [JStr "ev"]; r_data := Some "ZGF0YQ==" |}.

Example c11_example :
  into_response (ex_resp ["Bank"; "Wasm"; "Stargate"]) = inr (ex_resp ["Bank"; "Wasm"; "Stargate"]) /\
  into_response (ex_resp ["Bank"; "Custom"; "Wasm"]) = inl ErrCustomMsg.
Proof. vm_compute. split; reflexivity. Qed.

Example c11_example_wf : wf_response (ex_resp ["Bank"; "Wasm"; "Stargate"]).
Proof. split; repeat constructor; simpl; tauto. Qed.

Print Assumptions c11_response_preserved.
Print Assumptions c11_fails_iff_custom_message.
Example c11_example_features :
  variant_present ["staking"] "Distribution" = true /\ arm_present ["staking"] "Distribution" = true /\
  variant_present ["staking"] "Gov" = false /\ arm_present ["staking"] "Gov" = false /\
  variant_present ["cosmwasm_2_0"] "Any" = true /\ memb "cosmwasm_1_1" (enabled ["cosmwasm_2_0"]) = true /\
  length (sublists feature_names) > 1000.
Proof. vm_compute. repeat split; try reflexivity. repeat constructor. Qed.

Print Assumptions c11_every_standard_message_kind_is_bridged.
Print Assumptions c11_arm_present_iff_kind_exists_under_every_feature_set.
