(* C06, tie by TRANSLATION - the macro's own decision logic: `EntryPoints::emit` (sylvia-derive/src/entry_points.rs) and
   `get_entry_point` (parser/attributes/override_entry_point.rs), translated from the Rust source on every run
   (GenImp.macro_fns; `quote!` templates are symbolic values). Statements only; see Props/C05T.v for the status of such
   theorems. Values and stubs: Facts/MacroRefine.v. *)
From Coq Require Import String List Bool.
Require Import SV.Model.Imp SV.Model.GenImpMacro SV.Facts.ImpFacts SV.Facts.MacroRefine.
Import ListNotations.
Open Scope string_scope.
Open Scope list_scope.

(* For EVERY combination of overridden kinds (bX, with any override value vX), of a declared migrate handler and of a
   declared reply handler, the `entry_points` module the macro emits consists of exactly: instantiate, execute, query and
   sudo - each unless overridden -; migrate exactly when a migrate handler is declared and migrate is not overridden; reply
   exactly when a reply handler is declared and reply is not overridden. Overriding one kind never changes another. *)
Theorem c06_translated_entry_point_set :
  forall (bi be bq bs bm br has_migrate has_reply : bool) vi ve vq vs vm vr src rfn ovs g w,
  exists text,
    calls (EPG (opt bi vi) (opt be ve) (opt bq vq) (opt bs vs) (opt bm vm) (opt br vr) has_migrate) 3 "EntryPoints::emit"
      [ep_self src (opt has_reply rfn) ovs g w]
      (CVal (VCon "quote"
         [VStr text;
          VRec "holes"
            [("entry_points", VArr [ep_of bi "Instantiate"; ep_of be "Exec"; ep_of bq "Query"; ep_of bs "Sudo"]);
             ("migrate", if negb bm && has_migrate then default_ep "Migrate" else quote_empty);
             ("reply_ep", if br then quote_empty else if has_reply then default_ep "Reply" else quote_empty)]])).
Proof. exact translated_entry_points_emit. Qed.

(* whether a kind is overridden is decided by the FIRST override attribute naming that kind, for any list of overrides *)
Theorem c06_translated_override_lookup : forall d (l : list (value * value * string)) ty,
  calls macro_fns (S d) "get_entry_point" [VArr (map ov_val l); kind_v ty] (CVal (found (find (of_kind ty) l))).
Proof. exact translated_get_entry_point. Qed.

(* What a default entry point consists of, for each of the six kinds, with and without generic arguments of the
   `entry_points` attribute, with and without the replies feature: its message parameter is the contract's message
   accessor of THAT kind (the chain's `Reply` for reply), and its body forwards to `msg.dispatch` of a fresh contract with
   the context values of THAT kind (reply: the generated reply dispatch, or the legacy handler under its own name). *)
Theorem c06_translated_default_entry_point_forwards_its_own_kind :
  exists T, forall k name error reply (gens : list value) (replies : bool), In k six_kinds ->
    calls EPD 3 "EntryPoints::emit_default_entry_point" [epd_self name error (VArr gens) reply replies; kind_v k]
      (CVal (default_entry_point_spec T k name error reply gens replies)).
Proof. exact translated_default_entry_point. Qed.

(* concrete runs: sudo and migrate overridden, a migrate and a reply handler declared *)
Example c06_translated_example :
  match call (EPG none none none (some (VStr "ov_sudo")) (some (VStr "ov_migrate")) none true) 3 200 "EntryPoints::emit"
             [ep_self (VStr "src") (some (VStr "on_reply")) (VArr []) VUnit VUnit] with
  | Some (CVal (VCon "quote" [VStr _; VRec "holes" parts])) =>
      parts = [("entry_points", VArr [default_ep "Instantiate"; default_ep "Exec"; default_ep "Query"; quote_empty]);
               ("migrate", quote_empty); ("reply_ep", default_ep "Reply")]
  | _ => False
  end /\
  call macro_fns 2 200 "get_entry_point"
       [VArr (map ov_val [(VStr "a", VStr "A", "Sudo"); (VStr "b", VStr "B", "Migrate"); (VStr "c", VStr "C", "Sudo")]); kind_v "Sudo"] =
    Some (CVal (some (ov_val (VStr "a", VStr "A", "Sudo")))).
Proof. vm_compute. split; reflexivity. Qed.

Print Assumptions c06_translated_entry_point_set.
Print Assumptions c06_translated_override_lookup.
Print Assumptions c06_translated_default_entry_point_forwards_its_own_kind.
