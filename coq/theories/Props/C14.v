(* C14 — Behaviour does not depend on the order of declarations. Statements only.
   Not claimed (and not part of the property): the order of variants inside an enum, of type
   parameters (first-use order), of names inside an "unsupported message" error text; the numeric
   values of reply ids. *)
From Coq Require Import String List Bool Permutation.
Require Import SV.Base.Json SV.Base.StrOrder SV.Model.Kinds SV.Model.Syntax SV.Model.Expand SV.Model.Sem SV.Model.Reply SV.Model.EntryPoints.
Require Import SV.Facts.ExpandFacts SV.Facts.SemFacts SV.Facts.ReplyFacts SV.Facts.ReplyTableFacts SV.Facts.OrderFacts.
Import ListNotations.
Open Scope string_scope.

(* reordering the handler methods: the published name list is the same list ... *)
Theorem c14_published_names : forall ms ms' k gens wh wh' name name' it it' iw iw',
  Permutation ms ms' ->
  eo_table (mk_enum name it (mk_variants ms k gens wh) iw) = eo_table (mk_enum name' it' (mk_variants ms' k gens wh') iw').
Proof. exact published_list_is_order_independent. Qed.

(* ... the message type has the same variants (wire names, fields, source methods) ... *)
Theorem c14_same_variants : forall ms ms' k gens wh wh' name it iw,
  Permutation ms ms' ->
  Permutation (edesc_of (mk_enum name it (mk_variants ms k gens wh) iw)) (edesc_of (mk_enum name it (mk_variants ms' k gens wh') iw)).
Proof. exact message_descriptions_permute. Qed.

(* ... and wire format, decoding and dispatch targets depend on that set only *)
Theorem c14_encoding : forall (val : Type) (enc : ty -> val -> json) e e' m,
  Permutation e e' -> NoDup (map vd_fn e) -> encode_enum val enc e m = encode_enum val enc e' m.
Proof. exact encode_is_order_independent. Qed.

Theorem c14_decoding : forall (val : Type) dec is_option default_val e e' j,
  Permutation e e' -> NoDup (map vd_wire e) ->
  decode_enum val dec is_option default_val e j = decode_enum val dec is_option default_val e' j.
Proof. exact decode_is_order_independent. Qed.

Theorem c14_dispatch_target : forall (val ctxT outcome : Type) (handler : string -> ctxT -> list val -> outcome) e e' m c,
  Permutation e e' -> NoDup (map vd_fn e) ->
  dispatch_enum val ctxT outcome handler e m c = dispatch_enum val ctxT outcome handler e' m c.
Proof. exact dispatch_is_order_independent. Qed.

(* reordering the override declarations never changes the set of entry points *)
Theorem c14_entry_point_set : forall i ns ns' ks ks' k,
  Permutation ns ns' -> parse_overrides ns = Some ks -> parse_overrides ns' = Some ks' ->
  (In k (emitted i ks) <-> In k (emitted i ks')).
Proof. exact entry_point_set_is_order_independent. Qed.

(* reply behaviour: acceptance of the claims, the set of handler names, and the method that answers
   each outcome of each name are the same for every order of the methods; only ids may differ *)
Theorem c14_reply_acceptance : forall ps ps', Permutation ps ps' -> compatible ps -> compatible ps'.
Proof. exact compatible_perm. Qed.

Theorem c14_reply_names : forall ms ms' rid, Permutation ms ms' -> compatible (all_pairs ms) ->
  (In rid (map rd_reply_id (fst (build_table ms))) <-> In rid (map rd_reply_id (fst (build_table ms')))).
Proof. exact reply_names_are_order_independent. Qed.

Theorem c14_reply_routing : forall ms ms' rd rd',
  Permutation ms ms' -> compatible (all_pairs ms) ->
  In rd (fst (build_table ms)) -> In rd' (fst (build_table ms')) -> rd_reply_id rd = rd_reply_id rd' ->
  success_handler rd = success_handler rd' /\ error_handler rd = error_handler rd'.
Proof. exact reply_routing_is_order_independent. Qed.

Check c14_reply_routing.

Print Assumptions c14_published_names.
Print Assumptions c14_same_variants.
Print Assumptions c14_encoding.
Print Assumptions c14_decoding.
Print Assumptions c14_dispatch_target.
Print Assumptions c14_entry_point_set.
Print Assumptions c14_reply_acceptance.
Print Assumptions c14_reply_names.
Print Assumptions c14_reply_routing.
