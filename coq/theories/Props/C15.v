(* C15 — Generated message types carry exactly the generic parameters they use. Statements only.
   For a contract, `gens` are its type parameters; for an interface, its associated types other
   than `Error`. `occurs g t`: some path inside t is exactly g (direct, or nested at any depth inside
   other types, tuples and references). The projection form `T::Assoc` does not count as an
   occurrence of T (DESIGN section 5 / C15). *)
From Coq Require Import String List Bool Permutation.
Require Import SV.Model.Kinds SV.Model.Syntax SV.Model.Expand SV.Facts.ExpandFacts SV.Facts.GenericsFacts.
Import ListNotations.
Open Scope string_scope.

Theorem c15_parameters_are_exactly_those_used : forall ms k gens wh g,
  In g (vs_used (mk_variants ms k gens wh)) <->
  (In g gens /\ exists m ma t, In (m, ma) (handlers_of k ms) /\ In t (visited_types m ma) /\ occurs g t).
Proof. exact used_iff_occurs. Qed.

Theorem c15_each_parameter_once : forall ms k gens wh, NoDup (vs_used (mk_variants ms k gens wh)).
Proof. exact used_nodup. Qed.

Theorem c15_used_and_unused_partition_the_declared_parameters : forall ms k gens wh, NoDup gens ->
  Permutation (vs_used (mk_variants ms k gens wh) ++ vs_unused (mk_variants ms k gens wh)) gens.
Proof. exact used_unused_partition. Qed.

Theorem c15_only_bounds_over_used_parameters_are_kept : forall ms k gens wh w,
  In w (vs_where (mk_variants ms k gens wh)) <->
  (In w wh /\ forall g, In g (wpred_generics gens w) -> In g (vs_used (mk_variants ms k gens wh))).
Proof. exact kept_where_predicates. Qed.

Theorem c15_parameters_mentioned_by_a_bound : forall gens w g,
  In g (wpred_generics gens w) <-> (In g gens /\ exists t, In t (w_bounded w :: w_bounds w) /\ occurs g t).
Proof. exact wpred_generics_spec. Qed.

(* the generated type, its dispatch function and the contract-level aliases use the same lists *)
Theorem c15_enum_uses_these_lists : forall name it vs wh,
  eo_generics (mk_enum name it vs wh) = vs_used vs /\ eo_dispatch_generics (mk_enum name it vs wh) = vs_unused vs.
Proof. intros. split; reflexivity. Qed.

Check c15_parameters_are_exactly_those_used.

Definition ex_ms15 : list method :=
  [ mkMethod "set" [ASv "msg" (SvMsg "exec" None [] None)]
             [mkArg "a" (TPath [("Vec", [TTuple [TName "T"; TName "u64"]])]) []; mkArg "b" (TName "u32") []] (TName "R") [] [];
    mkMethod "get" [ASv "msg" (SvMsg "query" None [] None)] [] (TPath [("StdResult", [TPath [("Option", [TName "U"])]])]) [] [] ].
Example c15_example :
  vs_used (mk_variants ex_ms15 KExec ["T"; "U"; "V"] []) = ["T"] /\
  vs_unused (mk_variants ex_ms15 KExec ["T"; "U"; "V"] []) = ["U"; "V"] /\
  vs_used (mk_variants ex_ms15 KQuery ["T"; "U"; "V"] []) = ["U"] /\
  map (fun w => show_ty (w_bounded w)) (vs_where (mk_variants ex_ms15 KExec ["T"; "U"; "V"]
      [mkWPred (TName "T") [TName "Clone"]; mkWPred (TName "U") [TPath [("Into", [TName "T"])]]; mkWPred (TName "String") []])) = ["T"; "String"].
Proof. vm_compute. repeat split; reflexivity. Qed.

Print Assumptions c15_parameters_are_exactly_those_used.
Print Assumptions c15_each_parameter_once.
Print Assumptions c15_used_and_unused_partition_the_declared_parameters.
Print Assumptions c15_only_bounds_over_used_parameters_are_kept.
Print Assumptions c15_parameters_mentioned_by_a_bound.
Print Assumptions c15_enum_uses_these_lists.
