(* C01, tie by TRANSLATION, second part - one variant per annotated method of the kind and no other: `MsgVariants::new`
   (sylvia-derive/src/types/msg_variant.rs) translated on every run with the closure of its `filter_map` lifted into a function
   of its own (GenImpGenerics.generics_fns, Facts/VariantsRefine.v). Statements only. *)
From Coq Require Import String List Bool.
Require Import SV.Model.Imp SV.Model.GenImpGenerics SV.Model.GenImpVariants SV.Facts.ImpFacts SV.Facts.MacroRefine SV.Facts.ParseRefine SV.Facts.ParseFacts
               SV.Facts.GenericsRefine SV.Facts.VariantsRefine SV.Facts.ImplRefine.
Import ListNotations.
Open Scope string_scope.
Open Scope list_scope.

(* For EVERY list of methods (with or without `sv::msg`, of any kinds, in any order): the message of kind ty has exactly one
   variant per method whose `sv::msg` names ty, in declaration order, each built from that method's own signature, attribute
   and forwarded attributes; the generics checker visits exactly those methods; used / unused generics and the kept bounds
   follow from what it collected (Props/C15T.v) *)
Theorem c01_translated_variants_of_one_kind : forall d (ds : list desc) ty gens wc, Forall wf_desc ds ->
  let sel := filter (of_kind ty) ds in
  let used := flat_map traversed sel in
  calls GEN (S (S (S (S d)))) "MsgVariants::new" [VArr (map desc_v ds); kind_v ty; VArr gens; wc_v wc]
    (CVal (VRec "MsgVariants"
       [("variants", VArr (map variant_of sel)); ("used_generics", VArr used);
        ("unused_generics", VArr (filter (fun g => negb (mem g used)) gens));
        ("where_predicates", VArr (kept_preds used wc)); ("msg_ty", kind_v ty)])).
Proof. exact translated_msg_variants_new. Qed.

(* one variant (`MsgVariant::new`, translated): named after the method, carrying the method's own fields, attribute and forwarded
   attributes; for a query its response type is the one written in `resp=` when there is one, else the one the signature
   returns (C16), and the generics checker traverses exactly the signature and, for a query, that response type (C15) *)
Theorem c01_translated_one_variant : forall d k resp r fwd ident output other gens used,
  is_option resp ->
  calls GEN (S (S d)) "MsgVariant::new" [sig_v ident output other; checker_v gens used; msg_attr_v (k, resp, r); fwd]
    (CVal (VCon "()" [variant_v k resp r fwd ident output other; checker_v gens (used ++ traversal k resp ident output other)])).
Proof. exact translated_msg_variant_new. Qed.

Theorem c01_translated_selected_methods : forall ty (ds : list desc) x,
  In x (filter (of_kind ty) ds) <-> In x ds /\ exists resp r, d_msg x = Some (ty, resp, r).
Proof. exact selected_methods. Qed.

(* ... and from the ITEMS of the impl block / the trait, through three translated parts (`as_variants` + `VariantDesc::new` of
   parser/variant_descs.rs, the attribute parser of parser/attributes/mod.rs, `MsgVariants::new`) put together in one program:
   for EVERY list of items - methods with arbitrary attribute lists, and other items - the message of kind ty has one variant
   per method whose FIRST well-formed `sv::msg(..)` names ty, in declaration order, and no other *)
Theorem c01_translated_from_items_to_variants : forall d (items : list item) other ty gens wc kind,
  kind = "ImplItem" \/ kind = "TraitItem" -> Forall wf_item items ->
  let ds := descs_of items in
  let sel := filter (of_kind ty) ds in
  let used := flat_map traversed sel in
  calls ALL (S (S (S (S (S d))))) (if kind =? "ImplItem" then "ItemImpl::as_variants" else "ItemTrait::as_variants")
        [block_v kind items other] (CVal (VArr (map desc_v ds))) /\
  calls ALL (S (S (S (S d)))) "MsgVariants::new" [VArr (map desc_v ds); kind_v ty; VArr gens; wc_v wc]
    (CVal (VRec "MsgVariants"
       [("variants", VArr (map variant_of sel)); ("used_generics", VArr used);
        ("unused_generics", VArr (filter (fun g => negb (mem g used)) gens));
        ("where_predicates", VArr (kept_preds used wc)); ("msg_ty", kind_v ty)])).
Proof. exact translated_variants_of_an_item. Qed.

Theorem c01_translated_selected_from_items : forall ty (items : list item),
  filter (of_kind ty) (descs_of items) =
  flat_map (fun i => match i with IMethod attrs sg _ => if is_message_of ty attrs then [desc_of attrs sg] else [] | IOther _ => [] end) items.
Proof. exact selected_of_items. Qed.

(* non-vacuity: exec, helper, query, exec: the exec message gets the first and the last, in that order *)
Example c01_translated_variants_example :
  map d_sig (filter (of_kind "Exec")
    [ {| d_msg := Some ("Exec", none, VStr ""); d_forward := VStr ""; d_sig := VStr "fn a" |};
      {| d_msg := None; d_forward := VStr ""; d_sig := VStr "fn helper" |};
      {| d_msg := Some ("Query", none, VStr ""); d_forward := VStr ""; d_sig := VStr "fn q" |};
      {| d_msg := Some ("Exec", none, VStr ""); d_forward := VStr ""; d_sig := VStr "fn b" |} ]) = [VStr "fn a"; VStr "fn b"].
Proof. vm_compute. reflexivity. Qed.

Print Assumptions c01_translated_variants_of_one_kind.
Print Assumptions c01_translated_selected_methods.
Print Assumptions c01_translated_one_variant.
Print Assumptions c01_translated_from_items_to_variants.
Print Assumptions c01_translated_selected_from_items.
