(* C02, tie by TRANSLATION - the conversions of the entry-point argument tuples into handler contexts (sylvia/src/ctx.rs),
   as translated from the current Rust source (GenImp.ctx_program, regenerated on every run). Statements only; see
   Props/C05T.v for the status of such theorems. *)
From Coq Require Import String List Bool.
Require Import SV.Model.Imp SV.Model.GenImp SV.Facts.ImpFacts SV.Facts.TypesRefine.
Import ListNotations.
Open Scope string_scope.
Open Scope list_scope.

(* the context a handler receives carries the caller's deps (storage, api, querier), environment and - for the kinds that
   have them - sender/funds (`info`), resp. the reply's gas, events and message responses, each unchanged and under the
   field of the same name; nothing else is added *)
Theorem c02_translated_ctx_conversions : forall d deps env info gas events resps,
  calls ctx_program (S d) "ExecCtx::from" [VCon "()" [deps; env; info]] (CVal (VRec "ExecCtx" [("deps", deps); ("env", env); ("info", info)])) /\
  calls ctx_program (S d) "InstantiateCtx::from" [VCon "()" [deps; env; info]] (CVal (VRec "InstantiateCtx" [("deps", deps); ("env", env); ("info", info)])) /\
  calls ctx_program (S d) "QueryCtx::from" [VCon "()" [deps; env]] (CVal (VRec "QueryCtx" [("deps", deps); ("env", env)])) /\
  calls ctx_program (S d) "SudoCtx::from" [VCon "()" [deps; env]] (CVal (VRec "SudoCtx" [("deps", deps); ("env", env)])) /\
  calls ctx_program (S d) "MigrateCtx::from" [VCon "()" [deps; env]] (CVal (VRec "MigrateCtx" [("deps", deps); ("env", env)])) /\
  calls ctx_program (S d) "ReplyCtx::from" [VCon "()" [deps; env; gas; events; resps]]
    (CVal (VRec "ReplyCtx" [("deps", deps); ("env", env); ("gas_used", gas); ("events", events); ("msg_responses", resps)])).
Proof. exact translated_ctx_conversions. Qed.

Example c02_translated_example :
  call ctx_program 2 40 "ExecCtx::from" [VCon "()" [VStr "deps"; VStr "env"; VStr "info"]] =
    Some (CVal (VRec "ExecCtx" [("deps", VStr "deps"); ("env", VStr "env"); ("info", VStr "info")])) /\
  call ctx_program 2 40 "QueryCtx::from" [VCon "()" [VStr "deps"; VStr "env"; VStr "info"]] = None.
Proof. vm_compute. split; reflexivity. Qed.

Print Assumptions c02_translated_ctx_conversions.
