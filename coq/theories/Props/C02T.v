(* C02, tie by TRANSLATION - the conversions of the entry-point argument tuples into handler contexts (sylvia/src/ctx.rs),
   as translated from the current Rust source (GenImp.ctx_program, regenerated on every run). Statements only; see
   Props/C05T.v for the status of such theorems. *)
From Coq Require Import String List Bool.
Require Import SV.Model.Imp SV.Model.GenImp SV.Model.GenImpLeg SV.Facts.ImpFacts SV.Facts.TypesRefine SV.Facts.MacroRefine SV.Facts.LegRefine.
Import ListNotations.
Open Scope string_scope.
Open Scope list_scope.

(* the context a handler receives carries the caller's deps (storage, api, querier), environment and - for the kinds that
   have them - sender/funds (`info`), resp. the reply's gas, events and message responses, each unchanged and under the
   field of the same name; nothing else is added *)
Theorem c02_translated_ctx_conversions : forall d deps env info gas events resps,
  calls ctx_program (S d) "ExecCtx::from" [VCon "()" [deps; env; info]] (CVal (VRec "ExecCtx" [("deps", deps); ("env", env); ("info", info)])) /\
  calls ctx_program (S d) "InstantiateCtx::from" [VCon "()" [deps; env; info]] (CVal (VRec "InstantiateCtx" [("deps", deps); ("env", env); ("info", info)])) /\
  calls ctx_program (S d) "QueryCtx::from" [VCon "()" [deps; env]] (CVal (VRec "QueryCtx" [("deps", deps); ("env", env)])) /\
  calls ctx_program (S d) "SudoCtx::from" [VCon "()" [deps; env]] (CVal (VRec "SudoCtx" [("deps", deps); ("env", env)])) /\
  calls ctx_program (S d) "MigrateCtx::from" [VCon "()" [deps; env]] (CVal (VRec "MigrateCtx" [("deps", deps); ("env", env)])) /\
  calls ctx_program (S d) "ReplyCtx::from" [VCon "()" [deps; env; gas; events; resps]]
    (CVal (VRec "ReplyCtx" [("deps", deps); ("env", env); ("gas_used", gas); ("events", events); ("msg_responses", resps)])).
Proof. exact translated_ctx_conversions. Qed.

(* The match arm generated for a message variant (the macro's own logic: MsgVariant::emit_dispatch_leg and
   MsgType::emit_dispatch_leg of sylvia-derive, translated on every run - GenImpMacro.leg_fns, Facts/LegRefine.v), for a
   variant with ANY number of fields, of every kind: the pattern binds field number j (counting from 1), by its own name, to
   the identifier `field<j>`; the call passes `field1, field2, ..` in exactly the order of the fields; exec and sudo call the
   handler named by the method, query serialises its answer, the other kinds have no arm. *)
Theorem c02_translated_dispatch_arm : forall name (fs : list value) fnm k, In k six_kinds ->
  calls LEG 3 "MsgVariant::emit_dispatch_leg" [variant_v name fs fnm k]
    (CVal (quote_v (l_arm leg_T)
       [("name", name); ("fields", VArr (binds_from leg_T 0 fs)); ("method_call", leg_call leg_T k fnm (args_from 0 fs))])).
Proof. exact translated_dispatch_leg. Qed.

(* ... spelled out: the identifier field j is bound to IS argument j of the call, and different positions use different
   identifiers - so every field value reaches the parameter of its own position, whatever the number of fields *)
Theorem c02_translated_binder_is_argument : forall fs j f, nth_error fs j = Some f ->
  (exists x, nth_error (args_from 0 fs) j = Some x /\
             nth_error (binds_from leg_T 0 fs) j = Some (quote_v (l_bind leg_T) [("field", VCon ".name" [f]); ("num_field", x)])) /\
  (forall j2 f2, j <> j2 -> arg_id j f <> arg_id j2 f2).
Proof. intros. split; [apply binder_is_argument; assumption | intros; apply arg_ids_distinct; assumption]. Qed.

(* ... and a message enum with ANY number of variants gets exactly one such arm per variant, in order *)
Theorem c02_translated_one_arm_per_variant : forall l,
  Forall (fun v : string * list value * value * string => In (snd v) six_kinds) l ->
  calls LEG 4 "MsgVariants::emit_dispatch_legs" [variants_v l] (CVal (VArr (map arm_of_variant l))).
Proof. exact translated_dispatch_legs. Qed.

Example c02_translated_example :
  call ctx_program 2 40 "ExecCtx::from" [VCon "()" [VStr "deps"; VStr "env"; VStr "info"]] =
    Some (CVal (VRec "ExecCtx" [("deps", VStr "deps"); ("env", VStr "env"); ("info", VStr "info")])) /\
  call ctx_program 2 40 "QueryCtx::from" [VCon "()" [VStr "deps"; VStr "env"; VStr "info"]] = None.
Proof. vm_compute. split; reflexivity. Qed.

Print Assumptions c02_translated_ctx_conversions.
Print Assumptions c02_translated_dispatch_arm.
Print Assumptions c02_translated_binder_is_argument.
Print Assumptions c02_translated_one_arm_per_variant.
