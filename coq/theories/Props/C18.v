(* C18 — Programs violating the documented constraints are rejected with a diagnostic. Statements only.
   The model records the *kind* of each diagnostic (a constructor of `diag` / `rdiag`); message text and
   file:line are rendered by rustc from spans and are compared by the correspondence check only. *)
From Coq Require Import String List Bool Arith.
Require Import SV.Model.Kinds SV.Model.GenTables SV.Model.Syntax SV.Model.Expand SV.Model.Reply.
Require Import SV.Facts.ExpandFacts SV.Facts.ValidateFacts SV.Facts.ReplyFacts SV.Facts.ReplyTableFacts.
Import ListNotations.
Open Scope string_scope.

(* ---- constructor and instantiate / migrate rules ---- *)
Theorem c18_missing_constructor : forall c, c_has_new c = false -> In DNoNew (co_diags (expand_contract c)).
Proof. exact missing_new_is_rejected. Qed.
Theorem c18_parameterised_constructor : forall c, c_has_new c = true -> c_new_has_params c = true -> In DNewHasParams (co_diags (expand_contract c)).
Proof. exact new_with_parameters_is_rejected. Qed.
Theorem c18_no_instantiate : forall c, count_kind KInst (c_methods c) = 0 -> In DNoInstantiate (co_diags (expand_contract c)).
Proof. exact no_instantiate_is_rejected. Qed.
Theorem c18_several_instantiate : forall c, 2 <= count_kind KInst (c_methods c) -> In DManyStructMsgs (co_diags (expand_contract c)).
Proof. exact several_instantiate_is_rejected. Qed.
Theorem c18_several_migrate : forall c, 2 <= count_kind KMigrate (c_methods c) -> In DManyStructMsgs (co_diags (expand_contract c)).
Proof. exact several_migrate_is_rejected. Qed.

(* ---- interfaces ---- *)
Theorem c18_interface_generics : forall i, i_generics i <> [] -> In DIfaceGenerics (io_diags (expand_iface i)).
Proof. exact interface_generics_are_rejected. Qed.
Theorem c18_interface_without_error_type : forall i, mem "Error" (map fst (i_assoc i)) = false -> In DIfaceNoError (io_diags (expand_iface i)).
Proof. exact interface_without_error_type_is_rejected. Qed.
Theorem c18_instantiate_inside_interface : forall i, 1 <= count_kind KInst (i_methods i) -> In DIfaceInstantiate (io_diags (expand_iface i)).
Proof. exact instantiate_in_interface_is_rejected. Qed.
Theorem c18_migrate_inside_interface : forall i, 1 <= count_kind KMigrate (i_methods i) -> In DIfaceMigrate (io_diags (expand_iface i)).
Proof. exact migrate_in_interface_is_rejected. Qed.

(* ---- unknown attribute arguments: wherever the attribute stands in the list, on whichever method ---- *)
Theorem c18_bad_attribute_argument_is_reported : forall pre a post d,
  (forall p, In d (p_diags (parse_one p a))) -> In d (p_diags (parse_attrs (pre ++ a :: post))).
Proof. exact bad_attribute_argument_is_reported. Qed.
Theorem c18_method_attribute_error_rejects_the_contract : forall c m d,
  In m (c_methods c) -> In d (p_diags (parse_attrs (m_attrs m))) -> In d (co_diags (expand_contract c)).
Proof. exact method_attribute_error_rejects_the_contract. Qed.
Theorem c18_item_attribute_error_rejects_the_contract : forall c d,
  In d (p_diags (parse_attrs (c_attrs c))) -> In d (co_diags (expand_contract c)).
Proof. exact item_attribute_error_rejects_the_contract. Qed.
Theorem c18_unknown_msg_attr_kind : forall kn t p, msg_attr_kind_of_string kn = None ->
  In DBadMsgAttrKind (p_diags (parse_one p (ASv "msg_attr" (SvMsgAttr kn t)))).
Proof. exact unknown_msg_attr_kind_diag. Qed.
Theorem c18_unknown_override_kind : forall kn e m p, override_kind_of_string kn = None ->
  In DBadOverrideKind (p_diags (parse_one p (ASv "override_entry_point" (SvOverride kn e m)))).
Proof. exact unknown_override_kind_diag. Qed.
Theorem c18_unknown_feature : forall names p,
  forallb (fun n => match feature_of_string n with Some _ => true | None => false end) names = false ->
  In DBadFeature (p_diags (parse_one p (ASv "features" (SvFeatures names)))).
Proof. exact unknown_feature_diag. Qed.

(* ---- reply tables: for ALL tables, accepted iff every claim breaks no rule ----
   claim_ok before p: the method's own parameters are well placed (data marker first and on success only,
   a payload parameter exists, nothing after a raw payload), no earlier claim of the same handler name
   excludes its outcome (same outcome twice, or always with anything), and its payload signature equals
   that of the first claim of the name (same length, same types, same raw marker). *)
Theorem c18_reply_table_accepted_iff : forall ms,
  snd (build_table ms) = [] <-> (flat_map field_attr_diags ms = [] /\ valid_claims (all_pairs ms)).
Proof. exact table_accepted_iff. Qed.

(* hence an accepted table satisfies the hypothesis of the routing theorems of C07 *)
Theorem c18_accepted_tables_are_compatible : forall ms, snd (build_table ms) = [] -> compatible (all_pairs ms).
Proof. exact accepted_table_is_compatible. Qed.

(* two claims written with different handler names never end up under one reply id constant: names
   whose constants coincide (`handler1` / `handler_1`) are rejected instead of being merged silently *)
Theorem c18_handler_names_sharing_a_constant_are_rejected : forall ms, snd (build_table ms) = [] ->
  forall p1 p2, In p1 (all_pairs ms) -> In p2 (all_pairs ms) -> snd p1 <> snd p2 -> rid_of p1 <> rid_of p2.
Proof. intros ms H. exact (compatible_names_have_their_own_constant _ (accepted_table_is_compatible ms H)). Qed.

Check c18_reply_table_accepted_iff.

(* Non-vacuity: a valid table is accepted, its one-edit neighbours are rejected *)
Definition fld (n t : string) (d : option data_params) (p : bool) : rfield := {| rf_name := n; rf_ty := t; rf_data := d; rf_payload := p; rf_bad := false |}.
Definition m_ok : rmethod := {| rm_name := "on_ok"; rm_on := ROSuccess; rm_handlers := ["h"]; rm_fields := [fld "p" "u32" None false] |}.
Definition m_err : rmethod := {| rm_name := "on_err"; rm_on := ROError; rm_handlers := ["h"]; rm_fields := [fld "error" "String" None false; fld "p" "u32" None false] |}.
Definition m_err_bad : rmethod := {| rm_name := "on_err"; rm_on := ROError; rm_handlers := ["h"]; rm_fields := [fld "error" "String" None false; fld "p" "u64" None false] |}.
Definition m_any : rmethod := {| rm_name := "any"; rm_on := ROAlways; rm_handlers := ["h"]; rm_fields := [fld "r" "SubMsgResult" None false; fld "p" "u32" None false] |}.
Example c18_example :
  snd (build_table [m_err; m_ok]) = [] /\ snd (build_table [m_ok; m_err]) = [] /\
  snd (build_table [m_ok; m_err_bad]) = [RMismatchedParam] /\
  snd (build_table [m_ok; m_any]) = [RDuplicated] /\
  snd (build_table [m_ok; m_ok]) = [RDuplicated].
Proof. vm_compute. repeat split; reflexivity. Qed.

Definition m_ok_1 : rmethod := {| rm_name := "a"; rm_on := ROSuccess; rm_handlers := ["handler1"]; rm_fields := [fld "p" "u32" None false] |}.
Definition m_err_1 : rmethod := {| rm_name := "b"; rm_on := ROError; rm_handlers := ["handler_1"]; rm_fields := [fld "error" "String" None false; fld "p" "u32" None false] |}.
Example c18_example_clash :
  reply_id_of "handler1" = reply_id_of "handler_1" /\ snd (build_table [m_ok_1; m_err_1]) = [RHandlerClash] /\ snd (build_table [m_err_1; m_ok_1]) = [RHandlerClash].
Proof. vm_compute. repeat split; reflexivity. Qed.

Print Assumptions c18_missing_constructor.
Print Assumptions c18_parameterised_constructor.
Print Assumptions c18_no_instantiate.
Print Assumptions c18_several_instantiate.
Print Assumptions c18_several_migrate.
Print Assumptions c18_interface_generics.
Print Assumptions c18_interface_without_error_type.
Print Assumptions c18_instantiate_inside_interface.
Print Assumptions c18_migrate_inside_interface.
Print Assumptions c18_bad_attribute_argument_is_reported.
Print Assumptions c18_method_attribute_error_rejects_the_contract.
Print Assumptions c18_item_attribute_error_rejects_the_contract.
Print Assumptions c18_unknown_msg_attr_kind.
Print Assumptions c18_unknown_override_kind.
Print Assumptions c18_unknown_feature.
Print Assumptions c18_reply_table_accepted_iff.
Print Assumptions c18_accepted_tables_are_compatible.
Print Assumptions c18_handler_names_sharing_a_constant_are_rejected.
