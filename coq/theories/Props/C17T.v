(* C17, tie by TRANSLATION - which `sv::msg_attr` lines the generated message type of a kind gets: the constructors of the
   message types (`EnumMessage::new` of contract/communication/enum_msg.rs and of interface/communication/enum_msg.rs,
   `StructMessage::new` of contract/communication/struct_msg.rs), translated from sylvia-derive's source on every run
   (GenImpAttr.msgnew_fns, Facts/AttrRefine.v). Statements only. *)
From Coq Require Import String List Bool.
Require Import SV.Model.Imp SV.Model.GenImpAttr SV.Facts.ImpFacts SV.Facts.MacroRefine SV.Facts.AttrRefine.
Import ListNotations.
Open Scope string_scope.
Open Scope list_scope.

(* For ANY list l of forwarded lines (of any kinds, in any order) found on the source item, the exec / query / sudo message of
   a contract built for kind ty carries exactly the lines of l forwarded to ty, in their order *)
Theorem c17_translated_contract_enum_message : forall l vs nx ae aq ty w self_ty g err custom,
  calls (ATTR l vs nx ae aq) 2 "EnumMessage::new@contract" [item_impl w self_ty; kind_v ty; g; err; custom]
    (CVal (VRec "EnumMessage"
       [("variants", VCon "MsgVariants::new" [VCon ".as_variants" [item_impl w self_ty]; kind_v ty; g; w]); ("msg_ty", kind_v ty);
        ("contract", self_ty); ("error", err); ("custom", custom); ("where_clause", w);
        ("msg_attrs_to_forward", VArr (map fwd_v (filter (to_kind ty) l)))])).
Proof. exact translated_contract_enum_message_attrs. Qed.

(* ... the same for the messages of an interface (whose custom message / query types are the written ones, else the
   interface's own associated type of that name, else the default) *)
Theorem c17_translated_interface_enum_message : forall l vs nx ty ident variants assoc (bm bq bae baq : bool) vm vq ae aq,
  calls (ATTR l vs nx (opt bae ae) (opt baq aq)) 2 "EnumMessage::new@interface"
    [item_trait ident; kind_v ty; custom_v (opt bm vm) (opt bq vq); variants; assoc]
    (CVal (VRec "EnumMessage"
       [("source", item_trait ident); ("variants", variants); ("associated_types", assoc); ("msg_ty", kind_v ty);
        ("resp_type", or_default bm vm bae ae); ("query_type", or_default bq vq baq aq);
        ("msg_attrs_to_forward", VArr (map fwd_v (filter (to_kind ty) l)))])).
Proof. exact translated_interface_enum_message_attrs. Qed.

(* ... and for the instantiate / migrate message of a contract, whenever one is generated at all (exactly one handler of the
   kind, or none for a kind other than instantiate) *)
Theorem c17_translated_struct_message : forall l vs nx ae aq ty w g err custom,
  (vs = [] /\ (ty =? "Instantiate") = false) \/ (exists v, vs = [v]) ->
  calls (ATTR l vs nx ae aq) 2 "StructMessage::new" [item_impl w (VStr "Self type"); kind_v ty; g; err; custom]
    (CVal (some (struct_msg (item_impl w (VStr "Self type")) (kind_v ty) g err custom vs (VArr (map fwd_v (filter (to_kind ty) l)))))).
Proof. exact translated_struct_message_attrs. Qed.

(* no message type is generated when the instantiate handler is missing or a handler of the kind is declared twice *)
Theorem c17_translated_struct_message_absent :
  (forall l nx ae aq w g err custom,
     calls (ATTR l [] nx ae aq) 2 "StructMessage::new" [item_impl w (VStr "Self type"); kind_v "Instantiate"; g; err; custom] (CVal none)) /\
  (forall l v1 v2 vs (b : bool) nx ae aq ty w g err custom,
     calls (ATTR l (v1 :: v2 :: vs) (opt b nx) ae aq) 2 "StructMessage::new" [item_impl w (VStr "Self type"); kind_v ty; g; err; custom] (CVal none)).
Proof. exact (conj translated_struct_message_missing_instantiate translated_struct_message_duplicated). Qed.

(* the kept lines are exactly those forwarded to the kind: all of them, and none forwarded to another kind *)
Theorem c17_translated_kept_lines : forall ty (l : list fwd) k t,
  In (k, t) (filter (to_kind ty) l) <-> In (k, t) l /\ k = ty.
Proof. exact kept_lines_are_those_of_the_kind. Qed.

(* non-vacuity: the constructors were translated, and a list with lines of three kinds is filtered to the asked one in order *)
Example c17_translated_example :
  length msgnew_fns = 3 /\
  filter (to_kind "Exec") [("Exec", VStr "derive(PartialOrd)"); ("Query", VStr "derive(Eq)"); ("Exec", VStr "cfg_attr(test,derive(Default))");
                           ("Sudo", VStr "derive(Hash)")] =
  [("Exec", VStr "derive(PartialOrd)"); ("Exec", VStr "cfg_attr(test,derive(Default))")].
Proof. vm_compute. split; reflexivity. Qed.

Print Assumptions c17_translated_contract_enum_message.
Print Assumptions c17_translated_interface_enum_message.
Print Assumptions c17_translated_struct_message.
Print Assumptions c17_translated_struct_message_absent.
Print Assumptions c17_translated_kept_lines.
