(* C16 — Query response metadata names each query's real response type. Statements only.
   What schemars makes of a type (`schema_for`) is the dependency's; the statements are about which
   TYPE is named for which wire name, and how the contract-level table and schema are assembled. *)
From Coq Require Import String List Bool.
Require Import SV.Model.Kinds SV.Model.Casing SV.Model.Syntax SV.Model.Expand SV.Facts.ExpandFacts SV.Facts.ResponsesFacts.
Import ListNotations.
Open Scope string_scope.

(* each entry of a part's table: the wire name of a query handler of that part, with the type the
   handler returns on success or the type given explicitly in the attribute *)
Theorem c16_part_table_entries : forall ms gens wh name it iw n r,
  In (n, r) (responses_of (mk_enum name it (mk_variants ms KQuery gens wh) iw)) ->
  exists m ma, In m ms /\ p_msg (parse_attrs (m_attrs m)) = Some ma /\ ma_kind ma = KQuery /\
               n = wire_name (m_name m) /\ Some r = option_map strip_self (declared_response m ma).
Proof. exact part_table_entries. Qed.

Theorem c16_every_query_has_its_entry : forall ms gens wh name it iw m ma r,
  In m ms -> p_msg (parse_attrs (m_attrs m)) = Some ma -> ma_kind ma = KQuery -> declared_response m ma = Some r ->
  In (wire_name (m_name m), strip_self r) (responses_of (mk_enum name it (mk_variants ms KQuery gens wh) iw)).
Proof. exact query_handler_has_its_entry. Qed.

(* the contract-level table is the union of its parts' tables *)
Theorem c16_contract_table_is_the_union : forall parts n r,
  In (n, r) (wrapper_responses parts) <-> exists e, In e parts /\ In (n, r) (responses_of e).
Proof. exact wrapper_table_is_the_union. Qed.

(* ... in which, names being disjoint between parts (C05), every sendable name appears once *)
Theorem c16_every_name_once : forall parts,
  Forall (fun e => NoDup (map fst (responses_of e))) parts ->
  (forall i j n, i <> j -> In n (map fst (responses_of (nth i parts (mk_enum "" empty_parsed (mk_variants [] KQuery [] []) [])))) ->
                 In n (map fst (responses_of (nth j parts (mk_enum "" empty_parsed (mk_variants [] KQuery [] []) [])))) -> False) ->
  NoDup (map fst (wrapper_responses parts)).
Proof. exact wrapper_table_names_once. Qed.

Check c16_part_table_entries.

Definition ex16 : list method :=
  [ mkMethod "config" [ASv "msg" (SvMsg "query" (Some "ConfigResp") [] None)] [] (TName "AliasedResult") [] [];
    mkMethod "members" [ASv "msg" (SvMsg "query" None [] None)] [mkArg "start" (TName "u32") []]
             (TPath [("Result", [TPath [("Vec", [TPath [("Self", []); ("Member", [])]])]; TPath [("Self", []); ("Error", [])]])]) [] [];
    mkMethod "poke" [ASv "msg" (SvMsg "exec" None [] None)] [] (TName "R") [] [] ].
Example c16_example :
  map (fun p => (fst p, show_ty (snd p))) (responses_of (mk_enum "QueryMsg" empty_parsed (mk_variants ex16 KQuery ["Member"] []) [])) =
  [("config", "ConfigResp"); ("members", "Vec<Member>")].
Proof. vm_compute. reflexivity. Qed.

Print Assumptions c16_part_table_entries.
Print Assumptions c16_every_query_has_its_entry.
Print Assumptions c16_contract_table_is_the_union.
Print Assumptions c16_every_name_once.
