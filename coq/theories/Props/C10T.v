(* C10, tie by TRANSLATION - sylvia::builder::instantiate::InstantiateBuilder as translated from the current Rust
   source (GenImp.builder_program, regenerated on every run). Statements only; see Props/C05T.v for the status of
   such theorems. *)
From Coq Require Import String List Bool.
Require Import SV.Model.Imp SV.Model.GenImp SV.Facts.ImpFacts SV.Facts.BuilderRefine SV.Facts.TypesRefine.
Import ListNotations.
Open Scope string_scope.
Open Scope list_scope.

(* The statement of c10_instantiate_builder at the level of Rust values: `new`, any chain of setters (each
   applied by the translated method to the value the previous one returned), then `build` / `build2` *)
Theorem c10_translated_instantiate_builder : forall d msg code steps salt,
  exists v0 v,
    calls builder_program (S d) "InstantiateBuilder::new" [msg; code] (CVal v0) /\
    chain d v0 steps v /\
    calls builder_program (S d)
          (match salt with None => "InstantiateBuilder::build" | Some _ => "InstantiateBuilder::build2" end)
          (v :: match salt with None => [] | Some s => [s] end)
          (CVal (let common := [("code_id", code); ("msg", msg); ("admin", vopt (option_map VStr (b_last_admin steps None)));
                                ("label", VStr (match b_last_label steps None with Some l => l | None => "" end));
                                ("funds", b_last_funds steps (VArr []))] in
                 match salt with
                 | None => VRec "WasmMsg::Instantiate" common
                 | Some s => VRec "WasmMsg::Instantiate2" (common ++ [("salt", s)])
                 end)).
Proof. exact translated_instantiate_builder. Qed.


(* each method, for every builder state and argument *)
Theorem c10_translated_builder_setters : forall d b s,
  calls builder_program (S d) (step_method s) [rep b; step_arg s] (CVal (rep (b_apply b s))).
Proof. exact calls_step. Qed.

(* the executor path, from the handle to the execute message (types.rs: Remote::new / borrowed, executor,
   ExecutorBuilder::with_funds / contract / funds, the Ready state and build): addressed to the handle's address, with the
   last funds set on the builder (none when unset) and the given body; owning or borrowing the address does not matter *)
Theorem c10_translated_executor_path : forall d (owned : bool) addr fs msg,
  exists b0 b1,
    calls types_program (S d) (if owned then "Remote::new" else "Remote::borrowed") [VStr addr] (CVal (remote_val owned addr)) /\
    calls types_program (S (S d)) "Remote::executor" [remote_val owned addr] (CVal b0) /\
    funds_chain d b0 fs b1 /\
    calls types_program (S d) "ExecutorBuilder::contract" [b1] (CVal (VStr addr)) /\
    calls types_program (S d) "ExecutorBuilder::funds" [b1] (CVal (last fs (VArr []))) /\
    calls types_program (S d) "ExecutorBuilder[Ready]::new" [VStr addr; last fs (VArr []); msg] (CVal (eb_val addr (last fs (VArr [])) msg)) /\
    calls types_program (S d) "ExecutorBuilder[Ready]::build" [eb_val addr (last fs (VArr [])) msg]
      (CVal (VRec "WasmMsg::Execute" [("contract_addr", VStr addr); ("msg", msg); ("funds", last fs (VArr []))])).
Proof. exact translated_executor_path. Qed.

(* the admin helpers address the handle's contract *)
Theorem c10_translated_admin_helpers : forall d (owned : bool) addr adm,
  calls types_program (S d) "Remote::update_admin" [remote_val owned addr; VStr adm]
    (CVal (VRec "WasmMsg::UpdateAdmin" [("contract_addr", VStr addr); ("admin", VStr adm)])) /\
  calls types_program (S d) "Remote::clear_admin" [remote_val owned addr]
    (CVal (VRec "WasmMsg::ClearAdmin" [("contract_addr", VStr addr)])).
Proof. intros. split; [apply calls_update_admin|apply calls_clear_admin]. Qed.

(* the query side: a handle bound to a querier keeps the handle's address and exactly that querier; the accessors return
   them; copying a bound querier changes nothing; AsRef gives the handle's address *)
Theorem c10_translated_bound_querier : forall d (owned : bool) addr q c,
  calls types_program (S d) "Remote::querier" [remote_val owned addr; q] (CVal (bq_val (cow owned addr) q)) /\
  calls types_program (S d) "BoundQuerier::contract" [bq_val c q] (CVal c) /\
  calls types_program (S d) "BoundQuerier::querier" [bq_val c q] (CVal q) /\
  calls types_program (S d) "BoundQuerier::borrowed" [c; q] (CVal (bq_val c q)) /\
  calls types_program (S (S d)) "BoundQuerier::from" [bq_val c q] (CVal (bq_val c q)) /\
  calls types_program (S d) "Remote::as_ref" [remote_val owned addr] (CVal (cow owned addr)).
Proof. exact translated_bound_querier. Qed.

Example c10_translated_example :
  call builder_program 2 40 "InstantiateBuilder::new" [VStr "e30="; VNat 5] = Some (CVal (rep (b_new (VStr "e30=") (VNat 5)))) /\
  call builder_program 2 40 "InstantiateBuilder::build" [rep (b_apply (b_apply (b_new (VStr "e30=") (VNat 5)) (BLabel "a")) (BLabel "b"))] =
    Some (CVal (VRec "WasmMsg::Instantiate" [("code_id", VNat 5); ("msg", VStr "e30="); ("admin", VCon "None" []); ("label", VStr "b"); ("funds", VArr [])])).
Proof. vm_compute. split; reflexivity. Qed.

Print Assumptions c10_translated_instantiate_builder.
Print Assumptions c10_translated_builder_setters.
Print Assumptions c10_translated_executor_path.
Print Assumptions c10_translated_admin_helpers.
Print Assumptions c10_translated_bound_querier.
