(* C10, tie by TRANSLATION - sylvia::builder::instantiate::InstantiateBuilder as translated from the current Rust
   source (GenImp.builder_program, regenerated on every run). Statements only; see Props/C05T.v for the status of
   such theorems. *)
From Coq Require Import String List Bool.
Require Import SV.Model.Imp SV.Model.GenImp SV.Facts.ImpFacts SV.Facts.BuilderRefine.
Import ListNotations.
Open Scope string_scope.
Open Scope list_scope.

(* The statement of c10_instantiate_builder at the level of Rust values: `new`, any chain of setters (each
   applied by the translated method to the value the previous one returned), then `build` / `build2` *)
Theorem c10_translated_instantiate_builder : forall d msg code steps salt,
  exists v0 v,
    calls builder_program (S d) "InstantiateBuilder::new" [msg; code] (CVal v0) /\
    chain d v0 steps v /\
    calls builder_program (S d)
          (match salt with None => "InstantiateBuilder::build" | Some _ => "InstantiateBuilder::build2" end)
          (v :: match salt with None => [] | Some s => [s] end)
          (CVal (let common := [("code_id", code); ("msg", msg); ("admin", vopt (option_map VStr (b_last_admin steps None)));
                                ("label", VStr (match b_last_label steps None with Some l => l | None => "" end));
                                ("funds", b_last_funds steps (VArr []))] in
                 match salt with
                 | None => VRec "WasmMsg::Instantiate" common
                 | Some s => VRec "WasmMsg::Instantiate2" (common ++ [("salt", s)])
                 end)).
Proof. exact translated_instantiate_builder. Qed.


(* each method, for every builder state and argument *)
Theorem c10_translated_builder_setters : forall d b s,
  calls builder_program (S d) (step_method s) [rep b; step_arg s] (CVal (rep (b_apply b s))).
Proof. exact calls_step. Qed.

Example c10_translated_example :
  call builder_program 2 40 "InstantiateBuilder::new" [VStr "e30="; VNat 5] = Some (CVal (rep (b_new (VStr "e30=") (VNat 5)))) /\
  call builder_program 2 40 "InstantiateBuilder::build" [rep (b_apply (b_apply (b_new (VStr "e30=") (VNat 5)) (BLabel "a")) (BLabel "b"))] =
    Some (CVal (VRec "WasmMsg::Instantiate" [("code_id", VNat 5); ("msg", VStr "e30="); ("admin", VCon "None" []); ("label", VStr "b"); ("funds", VArr [])])).
Proof. vm_compute. split; reflexivity. Qed.

Print Assumptions c10_translated_instantiate_builder.
Print Assumptions c10_translated_builder_setters.
