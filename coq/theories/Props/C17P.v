(* C17, tie by TRANSLATION, second part - the forwarded lines as the TRANSLATED attribute parser collects them
   (parser/attributes/mod.rs; GenImpParse.attrparse_fns, Facts/ParseRefine.v, ParseFacts.v). A file of its own so that a rewrite of
   the parser does not take the theorems about the message constructors (Props/C17T.v) with it. Statements only. *)
From Coq Require Import String List Bool.
Require Import SV.Model.Imp SV.Model.GenImpParse SV.Facts.ImpFacts SV.Facts.MacroRefine SV.Facts.ParseRefine SV.Facts.ParseFacts.
Import ListNotations.
Open Scope string_scope.
Open Scope list_scope.

(* the list the message constructors filter (Props/C17T.v) is the one the TRANSLATED attribute parser collects (parser/attributes/mod.rs,
   Facts/ParseRefine.v): for every list of attributes, the well-formed `sv::msg_attr(..)` ones, in order of appearance, and
   nothing else *)
Theorem c17_translated_forwarded_lines_are_collected_in_order : forall d (l : list ain),
  calls PARSE (S (S (S d))) "ParsedSylviaAttributes::new" [VArr (map ain_v l)] (CVal (st_v (finish (fold_left step l init)))) /\
  s_mattrs (finish (fold_left step l init)) = flat_map (is_list_ok KMsgAttrs) l.
Proof. intros d l. split; [apply translated_parsed_attributes | apply (parsed_repeatable_attributes l)]. Qed.

Example c17_parser_example :
  s_mattrs (finish (fold_left step
     [ {| a_path := ["sv"; "msg_attr"]; a_content := IsList true (VStr "exec, derive(PartialOrd)"); a_msg_type := ""; a_resp := none |};
       {| a_path := ["derive"]; a_content := IsList true (VStr "Clone"); a_msg_type := ""; a_resp := none |};
       {| a_path := ["sv"; "msg_attr"]; a_content := IsList true (VStr "query, derive(Eq)"); a_msg_type := ""; a_resp := none |} ] init)) =
  [VStr "exec, derive(PartialOrd)"; VStr "query, derive(Eq)"].
Proof. vm_compute. reflexivity. Qed.

Print Assumptions c17_translated_forwarded_lines_are_collected_in_order.
