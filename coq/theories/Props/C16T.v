(* C16, tie by TRANSLATION - the parts of the contract-level response table (`Interfaces::emit_response_schemas_calls` of
   sylvia-derive/src/types/interfaces.rs, translated on every run: GenImpMacro.bridge_fns, Facts/BridgeRefine.v). *)
From Coq Require Import String List Bool.
Require Import SV.Model.Imp SV.Model.GenImpMacro SV.Facts.ImpFacts SV.Facts.MacroRefine SV.Facts.BridgeRefine.
Import ListNotations.
Open Scope string_scope.
Open Scope list_scope.

(* For ANY list of attached interfaces: the contract-level table is assembled from one table per interface, in order, and
   the table of interface i is that of ITS query message type -
   `<Contract as module_i::sv::InterfaceMessagesApi>::<accessor of the kind>::response_schemas_impl()`. *)
Theorem c16_translated_response_schemas_calls : forall kv contract (l : list (value * value)),
  calls BR 2 "Interfaces::emit_response_schemas_calls" [ifaces_v l; kv; contract] (CVal (VArr (map (schemas_call_spec kv contract) l))).
Proof. exact translated_response_schemas_calls. Qed.

Example c16_translated_example : t_schemas_call <> "".
Proof. vm_compute. discriminate. Qed.

Print Assumptions c16_translated_response_schemas_calls.
