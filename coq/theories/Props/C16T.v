(* C16, tie by TRANSLATION - the parts of the contract-level response table (`Interfaces::emit_response_schemas_calls` of
   sylvia-derive/src/types/interfaces.rs, translated on every run: GenImpMacro.bridge_fns, Facts/BridgeRefine.v). *)
From Coq Require Import String List Bool.
Require Import SV.Model.Imp SV.Model.GenImpBridge SV.Facts.ImpFacts SV.Facts.MacroRefine SV.Facts.BridgeRefine.
Import ListNotations.
Open Scope string_scope.
Open Scope list_scope.

(* For ANY list of attached interfaces: the contract-level table is assembled from one table per interface, in order, and
   the table of interface i is that of ITS query message type -
   `<Contract as module_i::sv::InterfaceMessagesApi>::<accessor of the kind>::response_schemas_impl()`. *)
Theorem c16_translated_response_schemas_calls : forall kv contract (l : list iface),
  calls BR 2 "Interfaces::emit_response_schemas_calls" [ifaces_v l; kv; contract] (CVal (VArr (map (schemas_call_spec kv contract) l))).
Proof. exact translated_response_schemas_calls. Qed.

(* the contract-level table (query kind) is fed by the table of every interface, in order, followed by the contract's own *)
Theorem c16_translated_contract_level_table_parts : forall params w contract err custom (l : list iface),
  exists r rs t own,
    calls BR 3 "GlueMessage::emit" [glue_self params w contract "Query" err custom l] (CVal r) /\
    lookup "response_schemas" (holes_of r) = Some rs /\
    lookup "response_schemas_calls" (holes_of rs) = Some (VArr (map (schemas_call_spec (kind_v "Query") contract) l ++ [quote_v t own])).
Proof.
  intros params w contract err custom l.
  destruct (translated_glue_message params w contract "Query" err custom l) as (r & H1 & _ & _ & _ & _ & _ & _ & _ & H9).
  - simpl. tauto.
  - cbn in H9. destruct H9 as (rs & t & own & Hrs & Hc). exists r, rs, t, own. split; [exact H1|]. split; [exact Hrs | exact Hc].
Qed.

Example c16_translated_example : t_schemas_call <> "".
Proof. vm_compute. discriminate. Qed.

Print Assumptions c16_translated_response_schemas_calls.
Print Assumptions c16_translated_contract_level_table_parts.
