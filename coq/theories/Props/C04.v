(* C04 — Handlers are reachable only through the entry point of their own kind. Statements only. *)
From Coq Require Import String List Bool ZArith.
Require Import SV.Base.Json SV.Model.Kinds SV.Model.GenTables SV.Model.Casing SV.Model.Syntax SV.Model.Expand SV.Model.Sem SV.Model.Run.
Require Import SV.Facts.TblNames SV.Facts.SemFacts SV.Facts.ExpandFacts SV.Facts.ProgramFacts SV.Facts.MsgProgramFacts.
Import ListNotations.
Open Scope string_scope.

Section C04.
Variable val : Type.
Variable dec : ty -> json -> option val.
Variable is_option : ty -> bool.
Variable default_val : ty -> val.
Variable ctxT : Type.
Variable outcome : Type.
Variable handler : string -> ctxT -> list val -> outcome.

(* Whatever document (any JSON tree, in particular every well-formed message of another kind, also
   when the same name and shape exists in both kinds) arrives at the entry point of kind k: every
   handler that runs is a method annotated with k, of the contract or of a declared interface.
   No hypothesis on the program, the tables or the document. *)
Theorem c04_only_handlers_of_the_entry_points_kind : forall c ifs k j ctx log o,
  enum_kind k = true ->
  entry_enum val dec is_option default_val ctxT outcome handler (parts_of c ifs k) (tables_of c ifs k) j ctx = ECalled log o ->
  forall fn c' args, In (Call fn c' args) log -> annotated c ifs k fn.
Proof. exact (c04f_only_own_kind val dec is_option default_val ctxT outcome handler). Qed.

End C04.

(* a method carries one kind: annotated k1 and k2 means k1 = k2 *)
Theorem c04_one_kind_per_method : forall m k1 k2, method_kind m = Some k1 -> method_kind m = Some k2 -> k1 = k2.
Proof. exact method_kind_functional. Qed.

(* the six kinds use pairwise distinct message types, accessors and entry-point names (regenerated tables) *)
Theorem c04_kind_names_injective :
  (forall a b, wrapper_accessor_name a = wrapper_accessor_name b -> a = b) /\
  (forall a b, wrapper_name a = wrapper_name b -> a = b) /\
  (forall a b, msg_name a = msg_name b -> a = b) /\
  (forall a b, ep_name a = ep_name b -> a = b).
Proof. exact (conj wrapper_accessor_name_inj (conj wrapper_name_inj (conj msg_name_inj ep_name_inj))). Qed.

Check c04_only_handlers_of_the_entry_points_kind.

(* Non-vacuity: `tick` exists as exec and as sudo with the same shape; the sudo entry point runs the sudo one *)
Definition ex_c04 : contract :=
  mkContract "Ctr" [] [] []
    [ mkMethod "instantiate" [ASv "msg" (SvMsg "instantiate" None [] None)] [] (TName "R") [] [];
      mkMethod "tick" [ASv "msg" (SvMsg "exec" None [] None)] [mkArg "n" (TName "u32") []] (TName "R") [] [];
      mkMethod "tock" [ASv "msg" (SvMsg "sudo" None [] None)] [mkArg "n" (TName "u32") []] (TName "R") [] [] ]
    true false.

Example c04_example :
  run_entry (parts_of ex_c04 [] KSudo) (tables_of ex_c04 [] KSudo) (JObj [("tick", JObj [("n", JNum 1%Z)])]) = ["decode_err"] /\
  run_entry (parts_of ex_c04 [] KSudo) (tables_of ex_c04 [] KSudo) (JObj [("tock", JObj [("n", JNum 1%Z)])]) = ["called"; "tock"; "[1]"].
Proof. vm_compute. split; reflexivity. Qed.

Print Assumptions c04_only_handlers_of_the_entry_points_kind.
Print Assumptions c04_one_kind_per_method.
Print Assumptions c04_kind_names_injective.
