(* C07 / C09 / C14 / C18 - the hand-written model of the reply-table entries (Model/Reply.v: `rd_new`, `rd_merge`, `excludes`) and the
   specifications proved of the TRANSLATED `ReplyData::new`, `ReplyData::merge`, `ReplyOn::excludes` agree (Facts/ReplyBridge.v): the
   link between the core theorems about reply handlers and Props/C07R.v, C18S.v. Statements only. *)
From Coq Require Import String List Bool.
Require Import SV.Model.Kinds SV.Model.Reply.
Require Import SV.Model.Imp SV.Facts.MacroRefine SV.Facts.CheckRefine SV.Facts.ReplyDataRefine2 SV.Facts.ReplyMergeRefine SV.Facts.ReplyBridge.
Import ListNotations.
Open Scope string_scope.
Open Scope list_scope.

(* when two handlers of one reply name cannot coexist: the hand model's test is the function proved of the translated one *)
Theorem c18_hand_model_excludes_is_the_translated_one : forall (a b : reply_on),
  excludes a b = outcome_eqb (outcome_of a) (outcome_of b) || is_always (outcome_of a) || is_always (outcome_of b).
Proof. exact hand_model_excludes_is_the_translated_one. Qed.

(* the payload of a handler: the hand model's is `payload_of` of the translated `ReplyData::new`, field by field, for any reading of
   the fields as values *)
Theorem c07_hand_model_payload_is_the_translated_one : forall (enc : rfield -> value) (m : rmethod) (hid : string),
  map enc (rd_payload (fst (rd_new m hid))) =
  match fst (as_data_field m), outcome_of (rm_on m) with
  | None, OSuccess => map enc (rm_fields m)
  | _, _ => skipn 1 (map enc (rm_fields m))
  end.
Proof. exact (@hand_model_payload_is_the_translated_one value). Qed.

(* a second handler of the id: the data field is the entry's own first, the handler is appended, the payload stays - as proved of
   the translated `merge` (c07_translated_second_handler_of_a_reply_id) *)
Theorem c09_hand_model_merge_keeps_data_and_appends : forall (rd : reply_data) (m : rmethod),
  rd_data (fst (rd_merge rd m)) = match rd_data rd with Some d => Some d | None => rd_data (fst (rd_new m (rd_handler_id rd))) end /\
  rd_handlers (fst (rd_merge rd m)) = rd_handlers rd ++ [(rm_name m, rm_on m)] /\
  rd_payload (fst (rd_merge rd m)) = rd_payload rd.
Proof. exact hand_model_merge_keeps_data_and_appends. Qed.

(* the type-mismatch diagnostics: one per position whose types differ, on both sides *)
Theorem c18_hand_model_type_mismatches_are_the_translated_ones : forall (a b : list rfield),
  map (fun _ => VStr "Mismatched parameter in reply handlers.") (zip_mismatch a b) =
  flat_map mismatch (combine (map as_pfield a) (map as_pfield b)).
Proof. exact hand_model_type_mismatches_are_the_translated_ones. Qed.

Print Assumptions c18_hand_model_excludes_is_the_translated_one.
Print Assumptions c07_hand_model_payload_is_the_translated_one.
Print Assumptions c09_hand_model_merge_keeps_data_and_appends.
Print Assumptions c18_hand_model_type_mismatches_are_the_translated_ones.
