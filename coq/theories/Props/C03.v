(* C03 — The contract-level message accepts exactly the union of its parts and routes right.
   Statements only. `dec_collapse` is the assumption on the argument codec that decoding does not
   depend on the order of object members for documents repeating no key (true of serde's Deserialize
   impls; validated against the real decoder by the correspondence check). Documents that repeat a
   key are the known-finding class, see c03_repeated_key_refuted. *)
From Coq Require Import String List Bool ZArith.
Require Import SV.Base.Json SV.Model.Kinds SV.Model.GenTables SV.Model.Casing SV.Model.Syntax SV.Model.Expand SV.Model.Sem SV.Model.Run.
Require Import SV.Facts.TblNames SV.Facts.SemFacts SV.Facts.ExpandFacts SV.Facts.ProgramFacts SV.Facts.WrapperFacts SV.Facts.MsgProgramFacts.
Import ListNotations.
Open Scope string_scope.

Section C03.
Variable val : Type.
Variable enc : ty -> val -> json.
Variable dec : ty -> json -> option val.
Variable is_option : ty -> bool.
Variable default_val : ty -> val.
Hypothesis dec_collapse : forall t v, nodup_keys v = true -> dec t (collapse v) = dec t v.

(* accepted iff exactly one part accepts; decodes to that part's value *)
Theorem c03_accepts_iff_exactly_one_part : forall c ifs k j i m,
  enum_kind k = true -> parts_disjoint (parts_of c ifs k) -> nodup_keys j = true ->
  (decode_wrapper val dec is_option default_val (parts_of c ifs k) (tables_of c ifs k) j = WOk i m <->
   (i < length (parts_of c ifs k) /\
    decode_enum val dec is_option default_val (nth i (parts_of c ifs k) []) j = inr m /\
    forall i' m', i' < length (parts_of c ifs k) ->
                  decode_enum val dec is_option default_val (nth i' (parts_of c ifs k) []) j = inr m' -> i' = i)).
Proof. exact (c03f_accepts_iff val dec is_option default_val dec_collapse). Qed.

(* every other document is a decoding error of the documented class (total: never stuck) *)
Theorem c03_every_other_document_is_an_error : forall c ifs k j,
  enum_kind k = true -> parts_disjoint (parts_of c ifs k) -> nodup_keys j = true ->
  (forall i m, i < length (parts_of c ifs k) ->
               decode_enum val dec is_option default_val (nth i (parts_of c ifs k) []) j <> inr m) ->
  match j with
  | JObj [(n, b)] =>
      ((forall t, In t (tables_of c ifs k) -> ~ In n t) /\
       decode_wrapper val dec is_option default_val (parts_of c ifs k) (tables_of c ifs k) j =
       WUnsupported (concat (tables_of c ifs k)))
      \/ (exists i e, i < length (parts_of c ifs k) /\ In n (map vd_wire (nth i (parts_of c ifs k) [])) /\
                      decode_wrapper val dec is_option default_val (parts_of c ifs k) (tables_of c ifs k) j = WPartError i e)
  | JObj members =>
      decode_wrapper val dec is_option default_val (parts_of c ifs k) (tables_of c ifs k) j = WExpectedOne (length members)
  | _ => decode_wrapper val dec is_option default_val (parts_of c ifs k) (tables_of c ifs k) j = WWrongFormat
  end.
Proof. exact (c03f_errors val dec is_option default_val dec_collapse). Qed.

(* encodes back to the same JSON as the part alone *)
Theorem c03_encodes_like_part : forall parts i m,
  encode_wrapper val enc parts i m = encode_enum val enc (nth i parts []) m.
Proof. intros. reflexivity. Qed.

(* never reaches a different handler *)
Variable ctxT : Type.
Variable outcome : Type.
Variable handler : string -> ctxT -> list val -> outcome.

Theorem c03_routes_to_owning_part : forall c ifs k j ctx log o,
  enum_kind k = true -> parts_disjoint (parts_of c ifs k) -> nodup_keys j = true ->
  entry_enum val dec is_option default_val ctxT outcome handler (parts_of c ifs k) (tables_of c ifs k) j ctx = ECalled log o ->
  exists i m, decode_wrapper val dec is_option default_val (parts_of c ifs k) (tables_of c ifs k) j = WOk i m /\
              i < length (parts_of c ifs k) /\
              decode_enum val dec is_option default_val (nth i (parts_of c ifs k) []) j = inr m /\
              forall fn c' args, In (Call fn c' args) log -> In fn (map vd_fn (nth i (parts_of c ifs k) [])).
Proof. exact (c03f_routes_to_owning_part val dec is_option default_val ctxT outcome handler dec_collapse). Qed.

End C03.

Check c03_accepts_iff_exactly_one_part.

(* the published tables are the sorted wire names (serde's rule) of the parts *)
Theorem c03_tables_are_wire_names : forall c ifs k, enum_kind k = true ->
  tables_of c ifs k = map (fun e => StrOrder.sort (map vd_wire e)) (parts_of c ifs k).
Proof. intros c ifs k E. rewrite tables_of_spec by exact E. reflexivity. Qed.

(* Non-vacuity and the known finding, in the concrete universe of Sem.v *)
Definition ex_iface : iface :=
  mkIface "Whitelist" [("Error", [])] []
    [ mkMethod "add_member" [ASv "msg" (SvMsg "exec" None [] None)] [mkArg "who" (TName "String") []] (TName "R") [] [];
      mkMethod "foo1_bar" [ASv "msg" (SvMsg "exec" None [] None)] [mkArg "a" (TName "u32") []] (TName "R") [] [] ] [].
Definition ex_c03 : contract :=
  mkContract "Ctr" [] [] [ASv "messages" (SvMessages ["whitelist"] None false false)]
    [ mkMethod "instantiate" [ASv "msg" (SvMsg "instantiate" None [] None)] [] (TName "R") [] [];
      mkMethod "plain_name" [ASv "msg" (SvMsg "exec" None [] None)] [] (TName "R") [] [];
      mkMethod "set_x_y" [ASv "msg" (SvMsg "exec" None [] None)] [mkArg "a" (TName "u32") []] (TName "R") [] [] ]
    true false.

Example c03_example :
  tables_of ex_c03 [ex_iface] KExec = [["add_member"; "foo1_bar"]; ["plain_name"; "set_x_y"]] /\
  run_decode_wrapper (parts_of ex_c03 [ex_iface] KExec) (tables_of ex_c03 [ex_iface] KExec)
    (JObj [("foo1_bar", JObj [("a", JNum 7%Z)])]) = ["ok"; "0"; "foo1_bar"; "{""foo1_bar"":{""a"":7}}"] /\
  run_decode_wrapper (parts_of ex_c03 [ex_iface] KExec) (tables_of ex_c03 [ex_iface] KExec)
    (JObj [("set_x_y", JObj [("a", JNum 7%Z)])]) = ["ok"; "1"; "set_x_y"; "{""set_x_y"":{""a"":7}}"].
Proof. vm_compute. repeat split; reflexivity. Qed.

Lemma ex_c03_disjoint : parts_disjoint (parts_of ex_c03 [ex_iface] KExec).
Proof.
  intros i i' k L L'. simpl in L, L'.
  destruct i as [|[|i]]; destruct i' as [|[|i']]; try (exfalso; simpl in *; Lia.lia); auto;
    vm_compute; intros H H'; repeat (destruct H as [<-|H]; [repeat (destruct H' as [H'|H']; try discriminate H'); try contradiction|]);
    try contradiction.
Qed.

(* Known finding KF-C03-dupkey: a document that repeats a key is accepted by the contract-level
   message although no part accepts it (serde rejects a repeated variant key / field). *)
Theorem c03_repeated_key_refuted :
  exists j, nodup_keys j = false /\
    (exists i m, u_decode_wrapper (parts_of ex_c03 [ex_iface] KExec) (tables_of ex_c03 [ex_iface] KExec) j = WOk i m) /\
    (forall i, match u_decode_enum (nth i (parts_of ex_c03 [ex_iface] KExec) []) j with inr _ => False | inl _ => True end).
Proof.
  exists (JObj [("plain_name", JObj []); ("plain_name", JObj [])]). split; [reflexivity|]. split.
  - eexists; eexists; vm_compute; reflexivity.
  - intros i. destruct i as [|[|i]]; vm_compute; auto.
Qed.

Print Assumptions c03_accepts_iff_exactly_one_part.
Print Assumptions c03_every_other_document_is_an_error.
Print Assumptions c03_encodes_like_part.
Print Assumptions c03_routes_to_owning_part.
Print Assumptions c03_tables_are_wire_names.
Print Assumptions c03_repeated_key_refuted.
