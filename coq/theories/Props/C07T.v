(* C07, tie by TRANSLATION - the generated dispatch of one reply id in the four shapes the macro produces (templates of
   contract/communication/reply.rs, translated on every run: GenImp.reply_arm_fns, Facts/ReplyArmRefine.v). Statements only;
   see Props/C05T.v for the status of such theorems. Which shape a reply id gets is C07's model (Reply.v) and L1 tie; the data
   extraction block is Props/C09T. *)
From Coq Require Import String List Bool.
Require Import SV.Model.Imp SV.Model.GenImp SV.Facts.ImpFacts SV.Facts.ReplyArmRefine.
Import ListNotations.
Open Scope string_scope.
Open Scope list_scope.

(* both outcomes have a handler: a success runs the success handler with the sub-message's events and message responses in
   its context, the data and the decoded payload; a failure runs the error handler with an empty event context, the error
   and the decoded payload; a payload that does not decode runs NO handler *)
Theorem c07_translated_declared_handlers_run : forall deps env gas payload events data mr e,
  calls (RA true) 2 "ArmsT::handler_handler" [deps; env; gas; payload; sub_ok events data mr]
    (CVal (called "success_handler" (ctx_of deps env gas events mr) data (payload_of payload))) /\
  calls (RA true) 2 "ArmsT::handler_handler" [deps; env; gas; payload; sub_err e]
    (CVal (called "error_handler" (ctx_of deps env gas (VArr []) (VArr [])) e (payload_of payload))) /\
  calls (RA false) 2 "ArmsT::handler_handler" [deps; env; gas; payload; sub_ok events data mr] (CVal (payload_failure payload)) /\
  calls (RA false) 2 "ArmsT::handler_handler" [deps; env; gas; payload; sub_err e] (CVal (payload_failure payload)).
Proof. exact arms_handler_handler. Qed.

(* an outcome without a handler is passed through: a failure as the error it carries, a success as a response holding
   exactly the sub-message's events and its data (present or absent) - whatever the payload *)
Theorem c07_translated_pass_through : forall ok deps env gas payload (evs : list value) d mr e,
  calls (RA ok) 2 "ArmsT::handler_pass" [deps; env; gas; payload; sub_err e]
    (CVal (VCon "Err" [VCon "Into::into" [VCon "StdError::GenericErr" [e]]])) /\
  calls (RA ok) 2 "ArmsT::pass_handler" [deps; env; gas; payload; sub_ok (VArr evs) (VCon "Some" [d]) mr]
    (CVal (VCon "Ok" [response_of (VArr evs) (VCon "Some" [d])])) /\
  calls (RA ok) 2 "ArmsT::pass_handler" [deps; env; gas; payload; sub_ok (VArr evs) (VCon "None" []) mr]
    (CVal (VCon "Ok" [response_of (VArr evs) (VCon "None" [])])).
Proof. intros. split; [apply arms_handler_pass | apply arms_pass_handler]. Qed.

(* one handler for both outcomes gets the whole result *)
Theorem c07_translated_always_handler : forall deps env gas payload events data mr e,
  calls (RA true) 2 "ArmsT::always_always" [deps; env; gas; payload; sub_ok events data mr]
    (CVal (called "always_handler" (ctx_of deps env gas (VArr []) (VArr [])) (sub_ok events data mr) (payload_of payload))) /\
  calls (RA true) 2 "ArmsT::always_always" [deps; env; gas; payload; sub_err e]
    (CVal (called "always_handler" (ctx_of deps env gas (VArr []) (VArr [])) (sub_err e) (payload_of payload))).
Proof. exact arms_always. Qed.

Print Assumptions c07_translated_declared_handlers_run.
Print Assumptions c07_translated_pass_through.
Print Assumptions c07_translated_always_handler.
