(* C06 - the hand-written model the core theorems are about (Model/EntryPoints.v) and what was proved of the TRANSLATED
   `EntryPoints::emit` / `get_entry_point` agree (Facts/EntryBridge.v): the link between Props/C06.v and Props/C06T.v. Statements only. *)
From Coq Require Import String List Bool.
Require Import SV.Model.Kinds SV.Model.GenTables SV.Model.EntryPoints.
Require Import SV.Model.Imp SV.Facts.MacroRefine SV.Facts.EntryBridge.
Import ListNotations.
Open Scope string_scope.
Open Scope list_scope.

(* "kind k is overridden" of the hand model is the translated look-up (c06_translated_override_lookup) answering Some *)
Theorem c06_hand_model_overridden_is_the_translated_lookup : forall p m (ks : list kind) (k : kind),
  overridden ks k = match find (of_kind (kind_ctor k)) (map (as_override p m) ks) with Some _ => true | None => false end.
Proof. exact hand_model_overridden_is_the_translated_lookup. Qed.

(* the entry points the hand model emits are the non-empty pieces of the module the translated `EntryPoints::emit` builds
   (c06_translated_entry_point_set), kind by kind and in the same order *)
Theorem c06_hand_model_emitted_is_the_translated_module : forall (i : ep_input) (ks : list kind),
  map (fun k => default_ep (kind_ctor k)) (emitted i ks) =
  filter is_piece (pieces (overridden ks KInst) (overridden ks KExec) (overridden ks KQuery) (overridden ks KSudo)
                          (overridden ks KMigrate) (overridden ks KReply) (ep_has_migrate i) (ep_has_reply i)).
Proof. exact hand_model_emitted_is_the_translated_module. Qed.

Print Assumptions c06_hand_model_overridden_is_the_translated_lookup.
Print Assumptions c06_hand_model_emitted_is_the_translated_module.
