(* C05, tie by TRANSLATION (second part) - which name lists the overlap assertion is given. Statements only. *)
From Coq Require Import String List Bool.
Require Import SV.Model.Imp SV.Facts.ImpFacts.
Import ListNotations.
Open Scope string_scope.
Open Scope list_scope.

(* The lists the overlap assertion receives from the interfaces (`Interfaces::emit_messages_call`, translated on every run:
   GenImpMacro.bridge_fns, Facts/BridgeRefine.v): for ANY list of attached interfaces, one list per interface, in order, list i
   being `&module_i::sv::<entry point name of the kind>_messages()`. *)
Require Import SV.Model.GenImpMacro SV.Facts.MacroRefine SV.Facts.BridgeRefine.

Theorem c05_translated_overlap_lists_of_interfaces : forall kv (l : list (value * value)),
  calls BR 2 "Interfaces::emit_messages_call" [ifaces_v l; kv] (CVal (VArr (map (msgs_call_spec kv) l))).
Proof. exact translated_messages_call. Qed.

Print Assumptions c05_translated_overlap_lists_of_interfaces.
