(* C05, tie by TRANSLATION (second part) - which name lists the overlap assertion is given. Statements only. *)
From Coq Require Import String List Bool.
Require Import SV.Model.Imp SV.Facts.ImpFacts.
Import ListNotations.
Open Scope string_scope.
Open Scope list_scope.

(* The lists the overlap assertion receives from the interfaces (`Interfaces::emit_messages_call`, translated on every run:
   GenImpMacro.bridge_fns, Facts/BridgeRefine.v): for ANY list of attached interfaces, one list per interface, in order, list i
   being `&module_i::sv::<entry point name of the kind>_messages()`. *)
Require Import SV.Model.GenImpBridge SV.Facts.MacroRefine SV.Facts.BridgeRefine.

Theorem c05_translated_overlap_lists_of_interfaces : forall kv (l : list iface),
  calls BR 2 "Interfaces::emit_messages_call" [ifaces_v l; kv] (CVal (VArr (map (msgs_call_spec kv) l))).
Proof. exact translated_messages_call. Qed.

(* ... and the assertion of the contract-level message is given ALL of them followed by the contract's own list - no part is
   left out, whatever the number of interfaces - with the matching count *)
Theorem c05_translated_overlap_assertion_sees_every_part : forall params w contract k err custom (l : list iface), In k six_kinds ->
  exists r,
    calls BR 3 "GlueMessage::emit" [glue_self params w contract k err custom l] (CVal r) /\
    lookup "messages_call" (holes_of r) =
      Some (VArr (map (msgs_call_spec (kind_v k)) l ++ [quote_v "&# messages_fn_name ()" [("messages_fn_name", own_fn k contract)]])) /\
    lookup "variants_cnt" (holes_of r) = Some (VNat (S (length l))).
Proof.
  intros params w contract k err custom l Hk.
  destruct (translated_glue_message params w contract k err custom l Hk) as (r & H1 & H2 & H3 & _).
  exists r. split; [exact H1|]. split; [exact H2 | exact H3].
Qed.

Print Assumptions c05_translated_overlap_lists_of_interfaces.
Print Assumptions c05_translated_overlap_assertion_sees_every_part.
