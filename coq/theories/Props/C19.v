(* C19 — Generated code is hygienic about crate name and user type-parameter names. Statements only.
   `templates` are the token lists of every quote!/parse_quote! body of sylvia-derive/src, regenerated
   on every run. Whether rustc accepts the result is rustc's name resolution: decided by the compiled
   corpus (every harness crate imports the framework under another name). *)
From Coq Require Import String List Bool.
Require Import SV.Model.GenTemplates SV.Model.Hygiene SV.Facts.HygieneFacts.
Import ListNotations.
Open Scope string_scope.

(* no template writes a path rooted at the framework or one of its re-exported dependencies literally
   (every such path starts at an interpolation hole filled with the user's name of the crate), nor a
   string naming such a crate *)
Theorem c19_no_literal_framework_path : forall t,
  In t templates -> literal_roots "" (snd t) = [] /\ existsb literal_in_string (snd t) = false.
Proof. exact no_template_names_a_framework_crate_literally. Qed.

(* the type parameters a template introduces next to user parameters are not conventional names *)
Theorem c19_helper_parameters_are_unconventional : forall t x,
  In t templates -> In x (helper_params (snd t)) -> conventional x = false.
Proof. exact helper_parameters_are_unconventional. Qed.

Theorem c19_single_letters_are_free : forall t c,
  In t templates -> Casing.is_upper c = true -> ~ In (String c EmptyString) (helper_params (snd t)).
Proof. exact single_letters_are_free. Qed.

Check c19_no_literal_framework_path.

Example c19_example :
  literal_roots "" ["Ok"; "("; "sylvia"; "::"; "cw_std"; "::"; "Response"; "::"; "new"; "("; ")"; ")"] = ["sylvia"] /\
  literal_roots "" ["Ok"; "("; "#"; "sylvia"; "::"; "cw_std"; "::"; "Response"; "::"; "new"; "("; ")"; ")"] = [] /\
  helper_params ["impl"; "<"; "'a"; ","; "C"; ":"; "#"; "sylvia"; "::"; "cw_std"; "::"; "CustomQuery"; ","; "#"; "("; "#"; "generics"; ","; ")"; "*"; ">"; "Querier"] = ["C"] /\
  conventional "C" = true /\ conventional "Msg" = true /\ conventional "ContractT" = false /\ length templates > 200.
Proof. vm_compute. repeat split; try reflexivity. repeat constructor. Qed.

Print Assumptions c19_no_literal_framework_path.
Print Assumptions c19_helper_parameters_are_unconventional.
Print Assumptions c19_single_letters_are_free.
