(* C18, tie by TRANSLATION - what the parser of the framework's attributes refuses, and with which diagnostic:
   `ParsedSylviaAttributes::new` / `match_attribute` and `SylviaAttribute::new` of sylvia-derive/src/parser/attributes/mod.rs
   translated from the source on every run (GenImpParse.attrparse_fns; Facts/ParseRefine.v, ParseFacts.v). Diagnostics (`emit_error!`) are appended to a
   ghost field of the object being built, with the message text of the source. Statements only. *)
From Coq Require Import String List Bool.
Require Import SV.Model.Imp SV.Model.GenImpParse SV.Facts.ImpFacts SV.Facts.MacroRefine SV.Facts.ParseRefine SV.Facts.ParseFacts.
Import ListNotations.
Open Scope string_scope.
Open Scope list_scope.

(* For EVERY list of attributes on an item or method, the parser computes the left fold of `step` (one attribute: collected,
   ignored, or refused with a diagnostic) followed by `finish` (the check of `sv::attr` against the message kind) *)
Theorem c18_translated_attribute_parser : forall d (l : list ain),
  calls PARSE (S (S (S d))) "ParsedSylviaAttributes::new" [VArr (map ain_v l)] (CVal (st_v (finish (fold_left step l init)))).
Proof. exact translated_parsed_attributes. Qed.

(* a second `sv::msg(..)` on one method - whatever it says, wherever it stands - is refused; likewise the parser keeps the first *)
Theorem c18_translated_second_msg_attribute_is_refused : forall l1 a1 l2 a2 l3 v1 ok v2,
  classify (a_path a1) = Some KMsg -> a_content a1 = IsList true v1 ->
  classify (a_path a2) = Some KMsg -> a_content a2 = IsList ok v2 ->
  In (VStr "The attribute `sv::msg` is redefined") (s_diags (finish (fold_left step (l1 ++ a1 :: l2 ++ a2 :: l3) init))).
Proof. exact second_msg_attribute_is_refused. Qed.

Theorem c18_translated_first_msg_attribute_wins : forall l,
  s_msg (finish (fold_left step l init)) = hd_error (flat_map msg_of l).
Proof. exact parsed_msg_is_the_first. Qed.

(* `sv::attr(..)` on an instantiate / migrate handler is refused *)
Theorem c18_translated_variant_attr_on_struct_message_is_refused : forall l ty rs v,
  s_msg (fold_left step l init) = Some (ty, rs, v) -> s_vattrs (fold_left step l init) <> [] ->
  (ty = "Instantiate" -> In (VStr "The attribute `sv::attr` is not supported for `instantiate`") (s_diags (finish (fold_left step l init)))) /\
  (ty = "Migrate" -> In (VStr "The attribute `sv::attr` is not supported for `migrate`") (s_diags (finish (fold_left step l init)))).
Proof. exact variant_attr_on_struct_message_is_refused. Qed.

(* `#[sv::payload]` without parameters is refused; `#[sv::data]` without parameters is accepted with the default *)
Theorem c18_translated_bare_payload_and_data : forall s path e ty rs,
  (classify path = Some KPayload ->
   s_diags (step s {| a_path := path; a_content := NotList e; a_msg_type := ty; a_resp := rs |}) = s_diags s ++ [VStr "Missing parameters for `sv::payload`"]) /\
  (classify path = Some KData ->
   s_data (step s {| a_path := path; a_content := NotList e; a_msg_type := ty; a_resp := rs |}) = Some (VCon "DataFieldParams::default" []) /\
   s_diags (step s {| a_path := path; a_content := NotList e; a_msg_type := ty; a_resp := rs |}) = s_diags s).
Proof. intros s path e ty rs. unfold step. cbn [a_path a_content]. split; intros ->; cbn; auto. Qed.

(* non-vacuity: a method with `#[sv::msg(exec)] #[doc] #[sv::msg(query)]`: the first kind is kept, one diagnostic *)
Definition ex_attrs : list ain :=
  [ {| a_path := ["sv"; "msg"]; a_content := IsList true (VStr "exec"); a_msg_type := "Exec"; a_resp := none |};
    {| a_path := ["doc"]; a_content := NotList (VStr "not a list"); a_msg_type := ""; a_resp := none |};
    {| a_path := ["sv"; "msg"]; a_content := IsList true (VStr "query"); a_msg_type := "Query"; a_resp := none |} ].
Example c18_translated_example :
  length attrparse_fns = 4 /\
  s_msg (finish (fold_left step ex_attrs init)) = Some ("Exec", none, VStr "exec") /\
  s_diags (finish (fold_left step ex_attrs init)) = [VStr "The attribute `sv::msg` is redefined"].
Proof. vm_compute. repeat split; reflexivity. Qed.

Print Assumptions c18_translated_attribute_parser.
Print Assumptions c18_translated_second_msg_attribute_is_refused.
Print Assumptions c18_translated_first_msg_attribute_wins.
Print Assumptions c18_translated_variant_attr_on_struct_message_is_refused.
Print Assumptions c18_translated_bare_payload_and_data.
