(* C18, tie by TRANSLATION - what the parser of the framework's attributes refuses, and with which diagnostic:
   `ParsedSylviaAttributes::new` / `match_attribute` and `SylviaAttribute::new` of sylvia-derive/src/parser/attributes/mod.rs
   translated from the source on every run (GenImpParse.attrparse_fns; Facts/ParseRefine.v, ParseFacts.v), and the early
   `return None` of `StructMessage::new` (GenImpAttr.msgnew_fns; Facts/AttrRefine.v). Diagnostics (`emit_error!`) are appended to a
   ghost field of the object being built, with the message text of the source. Statements only. *)
From Coq Require Import String List Bool.
Require Import SV.Model.Imp SV.Model.GenImpParse SV.Model.GenImpAttr SV.Model.GenImpCheck SV.Facts.ImpFacts SV.Facts.MacroRefine SV.Facts.AttrRefine
               SV.Facts.ParseRefine SV.Facts.ParseFacts SV.Facts.CheckRefine.
Import ListNotations.
Open Scope string_scope.
Open Scope list_scope.

(* For EVERY list of attributes on an item or method, the parser computes the left fold of `step` (one attribute: collected,
   ignored, or refused with a diagnostic) followed by `finish` (the check of `sv::attr` against the message kind) *)
Theorem c18_translated_attribute_parser : forall d (l : list ain),
  calls PARSE (S (S (S d))) "ParsedSylviaAttributes::new" [VArr (map ain_v l)] (CVal (st_v (finish (fold_left step l init)))).
Proof. exact translated_parsed_attributes. Qed.

(* a second `sv::msg(..)` on one method - whatever it says, wherever it stands - is refused; likewise the parser keeps the first *)
Theorem c18_translated_second_msg_attribute_is_refused : forall l1 a1 l2 a2 l3 v1 ok v2,
  classify (a_path a1) = Some KMsg -> a_content a1 = IsList true v1 ->
  classify (a_path a2) = Some KMsg -> a_content a2 = IsList ok v2 ->
  In (VStr "The attribute `sv::msg` is redefined") (s_diags (finish (fold_left step (l1 ++ a1 :: l2 ++ a2 :: l3) init))).
Proof. exact second_msg_attribute_is_refused. Qed.

Theorem c18_translated_first_msg_attribute_wins : forall l,
  s_msg (finish (fold_left step l init)) = hd_error (flat_map msg_of l).
Proof. exact parsed_msg_is_the_first. Qed.

(* `sv::attr(..)` on an instantiate / migrate handler is refused *)
Theorem c18_translated_variant_attr_on_struct_message_is_refused : forall l ty v,
  s_msg (fold_left step l init) = Some (ty, v) -> s_vattrs (fold_left step l init) <> [] ->
  (ty = "Instantiate" -> In (VStr "The attribute `sv::attr` is not supported for `instantiate`") (s_diags (finish (fold_left step l init)))) /\
  (ty = "Migrate" -> In (VStr "The attribute `sv::attr` is not supported for `migrate`") (s_diags (finish (fold_left step l init)))).
Proof. exact variant_attr_on_struct_message_is_refused. Qed.

(* `#[sv::payload]` without parameters is refused; `#[sv::data]` without parameters is accepted with the default *)
Theorem c18_translated_bare_payload_and_data : forall s path e ty,
  (classify path = Some KPayload ->
   s_diags (step s {| a_path := path; a_content := NotList e; a_msg_type := ty |}) = s_diags s ++ [VStr "Missing parameters for `sv::payload`"]) /\
  (classify path = Some KData ->
   s_data (step s {| a_path := path; a_content := NotList e; a_msg_type := ty |}) = Some (VCon "DataFieldParams::default" []) /\
   s_diags (step s {| a_path := path; a_content := NotList e; a_msg_type := ty |}) = s_diags s).
Proof. intros s path e ty. unfold step. cbn [a_path a_content]. split; intros ->; cbn; auto. Qed.

(* no instantiate / migrate message type when the instantiate handler is missing or a handler of the kind is declared twice *)
Theorem c18_translated_missing_or_duplicated_handler :
  (forall l nx ae aq w g err custom,
     calls (ATTR l [] nx ae aq) 2 "StructMessage::new" [item_impl w (VStr "Self type"); kind_v "Instantiate"; g; err; custom] (CVal none)) /\
  (forall l v1 v2 vs (b : bool) nx ae aq ty w g err custom,
     calls (ATTR l (v1 :: v2 :: vs) (opt b nx) ae aq) 2 "StructMessage::new" [item_impl w (VStr "Self type"); kind_v ty; g; err; custom] (CVal none)).
Proof. exact (conj translated_struct_message_missing_instantiate translated_struct_message_duplicated). Qed.

(* the constructor: for EVERY impl block, `assert_new_method_defined` (parser/mod.rs) emits nothing exactly when the FIRST method
   called `new` takes no parameters; "Parameters not allowed .." when it takes some; "Missing `new` method .." when there is none *)
Theorem c18_translated_constructor_check : forall d (l : list impl_item) other,
  calls check_fns (S d) "assert_new_method_defined" [impl_v l other] (CVal (VArr (new_method_diags l))).
Proof. exact translated_assert_new_method_defined. Qed.

Theorem c18_translated_constructor_verdicts : forall l,
  (new_method_diags l = [] <-> exists o, find is_new l = Some (Method "new" [] o)) /\
  (find is_new l = None -> new_method_diags l = [VStr "Missing `new` method in `impl` block."]) /\
  (forall n x xs o, find is_new l = Some (Method n (x :: xs) o) -> new_method_diags l = [VStr "Parameters not allowed in `new` method."]).
Proof.
  intros l. unfold new_method_diags. split; [|split].
  - destruct (find is_new l) as [[n [|x xs] o|v]|] eqn:Hf.
    + apply find_some in Hf. destruct Hf as [_ Hf]. cbn in Hf. apply String.eqb_eq in Hf. subst n.
      split; [intros _; exists o; reflexivity | reflexivity].
    + split; [discriminate | intros [o' H]; discriminate].
    + apply find_some in Hf. destruct Hf as [_ Hf]. discriminate.
    + split; [discriminate | intros [o' H]; discriminate].
  - intros ->. reflexivity.
  - intros n x xs o ->. reflexivity.
Qed.

(* non-vacuity: a method with `#[sv::msg(exec)] #[doc] #[sv::msg(query)]`: the first kind is kept, one diagnostic *)
Definition ex_attrs : list ain :=
  [ {| a_path := ["sv"; "msg"]; a_content := IsList true (VStr "exec"); a_msg_type := "Exec" |};
    {| a_path := ["doc"]; a_content := NotList (VStr "not a list"); a_msg_type := "" |};
    {| a_path := ["sv"; "msg"]; a_content := IsList true (VStr "query"); a_msg_type := "Query" |} ].
Example c18_translated_example :
  length attrparse_fns = 4 /\
  s_msg (finish (fold_left step ex_attrs init)) = Some ("Exec", VStr "exec") /\
  s_diags (finish (fold_left step ex_attrs init)) = [VStr "The attribute `sv::msg` is redefined"].
Proof. vm_compute. repeat split; reflexivity. Qed.

Print Assumptions c18_translated_attribute_parser.
Print Assumptions c18_translated_second_msg_attribute_is_refused.
Print Assumptions c18_translated_first_msg_attribute_wins.
Print Assumptions c18_translated_variant_attr_on_struct_message_is_refused.
Print Assumptions c18_translated_bare_payload_and_data.
Print Assumptions c18_translated_missing_or_duplicated_handler.
Print Assumptions c18_translated_constructor_check.
Print Assumptions c18_translated_constructor_verdicts.
