(* C13 — The annotated source is passed through intact and expansion is deterministic. Statements only.
   `is_sv` uses the regenerated table `sv_attr_of_string`. Determinism of the real macro process
   cannot be a theorem about a Gallina function (which is deterministic by construction); it is
   decided by the correspondence check (same input expanded twice in one process and across processes). *)
From Coq Require Import String List Bool.
Require Import SV.Model.GenTables SV.Model.Strip SV.Facts.StripFacts.
Import ListNotations.
Open Scope string_scope.

Theorem c13_only_attributes_change : forall b, erase_block (strip_block b) = erase_block b.
Proof. exact strip_changes_only_attributes. Qed.

Theorem c13_item_attributes : forall b, b_attrs (strip_block b) = filter (fun a => negb (is_sv a)) (b_attrs b).
Proof. exact strip_item_attrs. Qed.

Theorem c13_method_attributes : forall f, fi_attrs (strip_fn f) = filter (fun a => negb (is_sv a)) (fi_attrs f).
Proof. exact strip_method_attrs. Qed.

Theorem c13_foreign_attributes_survive : forall l a, In a l -> is_sv a = false -> In a (strip_attrs l).
Proof. exact foreign_attribute_survives. Qed.

Theorem c13_handler_parameter_attributes_removed : forall f, is_handler f = true ->
  fi_recv_attrs (strip_fn f) = [] /\ Forall (fun p => p = []) (fi_param_attrs (strip_fn f)) /\
  length (fi_param_attrs (strip_fn f)) = length (fi_param_attrs f).
Proof. exact strip_handler_params. Qed.

Theorem c13_helper_methods_untouched : forall f, is_handler f = false -> strip_fn f = f.
Proof. exact strip_helper_untouched. Qed.

Theorem c13_idempotent : forall b, strip_block (strip_block b) = strip_block b.
Proof. exact strip_idempotent. Qed.

Check c13_helper_methods_untouched.

Definition at_ (p : list string) (t : string) : sattr := {| sa_path := p; sa_text := t |}.
Example c13_example :
  let helper := {| fi_attrs := [at_ ["inline"] "#[inline]"]; fi_recv_attrs := [];
                   fi_param_attrs := [[at_ ["cfg"] "#[cfg(test)]"]]; fi_rest := "fn helper(&self, extra: u32) {}" |} in
  let handler := {| fi_attrs := [at_ ["sv"; "msg"] "#[sv::msg(exec)]"; at_ ["sv"; "unknown"] "#[sv::unknown]"; at_ ["doc"] "#[doc = x]"];
                    fi_recv_attrs := []; fi_param_attrs := [[]; [at_ ["serde"] "#[serde(default)]"]]; fi_rest := "fn h(..)" |} in
  strip_fn helper = helper /\
  fi_attrs (strip_fn handler) = [at_ ["sv"; "unknown"] "#[sv::unknown]"; at_ ["doc"] "#[doc = x]"] /\
  fi_param_attrs (strip_fn handler) = [[]; []].
Proof. vm_compute. repeat split; reflexivity. Qed.

Print Assumptions c13_only_attributes_change.
Print Assumptions c13_item_attributes.
Print Assumptions c13_method_attributes.
Print Assumptions c13_foreign_attributes_survive.
Print Assumptions c13_handler_parameter_attributes_removed.
Print Assumptions c13_helper_methods_untouched.
Print Assumptions c13_idempotent.
