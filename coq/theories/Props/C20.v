(* C20 — A stored remote handle has a stable, type-independent encoding. Statements only.
   The field list and serde attributes of `Remote` are regenerated from sylvia/src/types.rs. *)
From Coq Require Import String List Bool ZArith.
Require Import SV.Base.Json SV.Model.GenLib SV.Model.Lib SV.Facts.RemoteHandleFacts.
Import ListNotations.
Open Scope string_scope.

(* the literal format: the single member `addr`, whatever the type parameter and ownership *)
Theorem c20_encoding_is_addr_object : forall type_param owned addr,
  encode_remote type_param owned addr = Some (JObj [("addr", JStr addr)]).
Proof. exact encode_remote_format. Qed.

Theorem c20_encoding_independent_of_type_and_ownership : forall t1 t2 o1 o2 addr,
  encode_remote t1 o1 addr = encode_remote t2 o2 addr.
Proof. intros. rewrite !encode_remote_format. reflexivity. Qed.

(* decoding gives back a handle to the same address (at any type parameter) *)
Theorem c20_decode_encode : forall t t' owned addr j,
  encode_remote t owned addr = Some j -> decode_remote t' j = Some addr.
Proof. exact decode_encode_remote. Qed.

Theorem c20_schema_name : remote_schema_name = "Remote".
Proof. exact (proj2 (proj2 remote_description)). Qed.

Check c20_encoding_is_addr_object : forall type_param owned addr,
  encode_remote type_param owned addr = Some (JObj [("addr", JStr addr)]).

Example c20_example : decode_remote "dyn Iface" (JObj [("extra", JNum 1%Z); ("addr", JStr "cosmos1xyz")]) = Some "cosmos1xyz"
                      /\ decode_remote "Ctr" (JObj [("address", JStr "a")]) = None.
Proof. vm_compute. split; reflexivity. Qed.

Print Assumptions c20_encoding_is_addr_object.
Print Assumptions c20_encoding_independent_of_type_and_ownership.
Print Assumptions c20_decode_encode.
Print Assumptions c20_schema_name.
