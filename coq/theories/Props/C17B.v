(* C17 - the hand-written model the core theorems are about and the specification proved of the TRANSLATED code agree on what is
   forwarded to the message types (Facts/ParseBridge.v): the link between Props/C17.v and Props/C17T.v / C17P.v. Statements only. *)
From Coq Require Import String List Bool.
Require Import SV.Model.Kinds SV.Model.GenTables SV.Model.Syntax SV.Model.Expand SV.Facts.AttrFacts.
Require Import SV.Model.Imp SV.Facts.MacroRefine SV.Facts.ParseRefine SV.Facts.ParseFacts SV.Facts.AttrRefine SV.Facts.ParseBridge.
Import ListNotations.
Open Scope string_scope.
Open Scope list_scope.

(* for EVERY list of attributes of the hand model: the `sv::msg_attr` lines its parser (`parse_attrs`, over the regenerated tables)
   forwards are exactly the ones the translated parser collects from the same attributes (mapped to its input by `ain_of`) *)
Theorem c17_hand_model_forwards_what_the_translated_parser_collects : forall (l : list attr),
  map (fun p => fwd_v (as_fwd p)) (p_msg_attrs (parse_attrs l)) = s_mattrs (finish (fold_left step (map ain_of l) init)).
Proof. exact hand_model_forwards_what_the_translated_parser_collects. Qed.

(* ... and the hand model's filter by kind (c17_type_attributes) is the filter proved of the translated message constructors
   (c17_translated_contract_enum_message ..) *)
Theorem c17_hand_model_filter_is_the_translated_filter : forall (k : kind) (l : list (kind * string)),
  map as_fwd (filter (fun p : kind * string => Kinds.kind_eqb (fst p) k) l) = filter (to_kind (kind_ctor k)) (map as_fwd l).
Proof. exact hand_model_filter_is_the_translated_filter. Qed.

Print Assumptions c17_hand_model_forwards_what_the_translated_parser_collects.
Print Assumptions c17_hand_model_filter_is_the_translated_filter.
