(* C10 — Remote helpers build messages the target contract accepts and routes identically.
   Statements only. The message a helper sends is `encode_enum` of the method's variant (C01); the
   builders that wrap it are modelled in Lib.v. *)
From Coq Require Import String List Bool ZArith.
Require Import SV.Base.Json SV.Model.Kinds SV.Model.Syntax SV.Model.Expand SV.Model.Sem SV.Model.Lib.
Require Import SV.Facts.SemFacts SV.Facts.WrapperFacts SV.Facts.RemoteFacts SV.Facts.BuilderFacts.
Import ListNotations.
Open Scope string_scope.

Section C10.
Variable val : Type.
Variable enc : ty -> val -> json.
Variable dec : ty -> json -> option val.
Variable is_option : ty -> bool.
Variable default_val : ty -> val.
Variable wt : ty -> val -> bool.
Hypothesis dec_enc : forall t v, wt t v = true -> dec t (enc t v) = Some v.
Hypothesis dec_collapse : forall t v, nodup_keys v = true -> dec t (collapse v) = dec t v.
Hypothesis enc_nodup : forall t v, wt t v = true -> nodup_keys (enc t v) = true.
Variable ctxT : Type.
Variable outcome : Type.
Variable handler : string -> ctxT -> list val -> outcome.

(* the body built for method v of part i (the contract's own message or an interface's), sent to the
   target's entry point of that kind, runs exactly that method with equal arguments *)
Theorem c10_body_routes_to_the_same_method : forall parts,
  (forall i i' k, i < length parts -> i' < length parts ->
     In k (map vd_wire (nth i parts [])) -> In k (map vd_wire (nth i' parts [])) -> i = i') ->
  forall i v vals c,
  i < length parts -> wf_enum (nth i parts []) -> In v (nth i parts []) -> well_typed val wt (vd_fields v) vals ->
  forall j, encode_enum val enc (nth i parts []) (mkMsg (vd_fn v) (fields_of val (vd_fields v) vals)) = Some j ->
  entry_enum val dec is_option default_val ctxT outcome handler parts (tables parts) j c =
  ECalled [Call (vd_fn v) c vals] (handler (vd_fn v) c vals).
Proof. exact (remote_body_reaches_method val enc dec is_option default_val wt dec_enc dec_collapse enc_nodup ctxT outcome handler). Qed.

End C10.

(* executor builder: addressed to the handle's address, carries the funds set last (none: empty) and the body *)
Theorem c10_executor_builder : forall addr funds_steps body,
  eb_build (eb_call (fold_left eb_with_funds funds_steps (eb_new addr)) body) =
  JObj [("execute", JObj [("contract_addr", JStr addr); ("msg", body); ("funds", last_of funds_steps (JArr []))])].
Proof. exact eb_build_spec. Qed.

(* instantiate builder: code id and message as given; admin, label, funds = the last one set, label
   empty when unset; the salted form adds the salt *)
Theorem c10_instantiate_builder : forall msg code steps salt,
  ib_build (fold_left ib_apply steps (ib_new msg code)) salt =
  let common := [("admin", opt_str_json (last_admin steps None)); ("code_id", code); ("msg", msg);
                 ("funds", last_funds steps (JArr [])); ("label", JStr (match last_label steps None with Some l => l | None => "" end))] in
  match salt with
  | None => JObj [("instantiate", JObj common)]
  | Some s => JObj [("instantiate2", JObj (common ++ [("salt", s)]))]
  end.
Proof. exact ib_build_spec. Qed.

Check c10_body_routes_to_the_same_method.

Example c10_example :
  ib_build (fold_left ib_apply [IBLabel "a"; IBAdmin "adm"; IBLabel "b"] (ib_new (JStr "e30=") (JNum 5%Z))) None =
  JObj [("instantiate", JObj [("admin", JStr "adm"); ("code_id", JNum 5%Z); ("msg", JStr "e30="); ("funds", JArr []); ("label", JStr "b")])].
Proof. reflexivity. Qed.

Print Assumptions c10_body_routes_to_the_same_method.
Print Assumptions c10_executor_builder.
Print Assumptions c10_instantiate_builder.
