(* C13, tie by TRANSLATION - what the contract / interface macros remove from the user's item before re-emitting it:
   `StripInput` of sylvia-derive/src/fold.rs translated from the source on every run (GenImpFold.fold_fns,
   Facts/FoldRefine.v). Statements only. *)
From Coq Require Import String List Bool.
Require Import SV.Model.Imp SV.Model.GenImpFold SV.Facts.ImpFacts SV.Facts.MacroRefine SV.Facts.FoldRefine.
Import ListNotations.
Open Scope string_scope.
Open Scope list_scope.

(* the impl block / the trait itself: for ANY list of attributes, the item handed on to syn's recursion is the same item with
   exactly the attributes that are not the framework's own, in their order; everything else of it is untouched *)
Theorem c13_translated_items_keep_foreign_attributes : forall d self la other,
  calls FOLD (S (S d)) "StripInput::fold_item_impl" [self; item_v "ItemImpl" la other]
    (CVal (VCon "fold::fold_item_impl" [self; item_v "ItemImpl" (filter foreign la) other])) /\
  calls FOLD (S (S d)) "StripInput::fold_item_trait" [self; item_v "ItemTrait" la other]
    (CVal (VCon "fold::fold_item_trait" [self; item_v "ItemTrait" (filter foreign la) other])).
Proof. intros d self la other. exact (conj (translated_fold_item_impl d self la other) (translated_fold_item_trait d self la other)). Qed.

(* a method of the impl block / of the trait: for ANY attributes and ANY parameters, the method handed on keeps exactly its
   foreign attributes; its parameters lose their attributes exactly when the method carries one of the framework's
   attributes, and are otherwise as written; the rest of the signature, the body, the visibility are untouched *)
Theorem c13_translated_methods : forall d self la li sig_other other,
  calls FOLD (S (S d)) "StripInput::fold_impl_item_fn" [self; method_v "ImplItemFn" la (map param_v li) sig_other other]
    (CVal (VCon "fold::fold_impl_item_fn" [self; method_v "ImplItemFn" (filter foreign la) (stripped_inputs la li) sig_other other])) /\
  calls FOLD (S (S d)) "StripInput::fold_trait_item_fn" [self; method_v "TraitItemFn" la (map param_v li) sig_other other]
    (CVal (VCon "fold::fold_trait_item_fn" [self; method_v "TraitItemFn" (filter foreign la) (stripped_inputs la li) sig_other other])).
Proof.
  intros d self la li sig_other other.
  exact (conj (translated_fold_impl_item_fn d self la li sig_other other) (translated_fold_trait_item_fn d self la li sig_other other)).
Qed.

(* a method without any of the framework's attributes (a helper) keeps its parameters, attributes included; a handler's
   parameters are each the same parameter without attributes *)
Theorem c13_translated_parameters : forall la li,
  (existsb fst la = false -> stripped_inputs la li = map param_v li) /\
  (existsb fst la = true -> stripped_inputs la li = map (fun p => param_v (bare p)) li).
Proof. intros la li. unfold stripped_inputs. split; intros ->; reflexivity. Qed.

Theorem c13_translated_remove_input_attr : forall d (l : list param),
  calls FOLD (S d) "remove_input_attr" [VArr (map param_v l)] (CVal (VArr (map (fun p => param_v (bare p)) l))).
Proof. exact translated_remove_input_attr. Qed.

(* non-vacuity *)
Example c13_translated_example :
  length fold_fns = 5 /\
  filter foreign [(true, VStr "sv::msg(exec)"); (false, VStr "doc = x"); (true, VStr "sv::attr(y)"); (false, VStr "inline")] =
    [(false, VStr "doc = x"); (false, VStr "inline")] /\
  stripped_inputs [(false, VStr "inline")] [(false, [VStr "cfg(test)"], VStr "extra: u32")] =
    [param_v (false, [VStr "cfg(test)"], VStr "extra: u32")].
Proof. vm_compute. repeat split; reflexivity. Qed.

Print Assumptions c13_translated_items_keep_foreign_attributes.
Print Assumptions c13_translated_methods.
Print Assumptions c13_translated_parameters.
Print Assumptions c13_translated_remove_input_attr.
