(* C04, tie by TRANSLATION - the macro's decision logic for the generated `impl cw_multi_test::Contract`
   (`MtHelpers::emit_impl_contract`, `emit_default_dispatch` of sylvia-derive/src/contract/mt.rs), translated from the Rust
   source on every run (GenImp.mtlogic_fns; `quote!` templates are symbolic values holding what they splice). Statements
   only; see Props/C05T.v for the status of such theorems. Values, stubs and the specification: Facts/MacroRefine.v. *)
From Coq Require Import String List Bool.
Require Import SV.Model.Imp SV.Model.GenImpMacro SV.Facts.ImpFacts SV.Facts.MacroRefine.
Import ListNotations.
Open Scope string_scope.
Open Scope list_scope.

(* For EVERY combination of overridden kinds (with any override values), of declared migrate / reply handlers, of the
   replies feature and of generic parameters, the generated impl is exactly `impl_contract_spec`: each of execute,
   instantiate, query, sudo gets the dispatch of the override registered for ITS OWN kind when there is one and otherwise the
   default dispatch, which decodes the contract's message accessor of ITS OWN kind with the context values of ITS OWN kind
   (`default_dispatch T k`); migrate gets its own override, else the default dispatch of the migrate kind when a migrate
   handler is declared, else `bail!`; reply gets its own override, else - when a reply handler is declared - the reply
   dispatch (replies feature) or a call of the handler under its own name, else `bail!`. No operation ever gets the
   dispatch or the override of another kind. *)
Theorem c04_translated_multitest_operations :
  exists T, forall (bi be bq bs bm br has_migrate has_reply replies : bool) vi ve vq vs vm vr cname custom ovs (gens : list value),
    calls (MTL (opt bi vi) (opt be ve) (opt bq vq) (opt bs vs) (opt bm vm) (opt br vr) has_migrate has_reply) 3
          "MtHelpers::emit_impl_contract" [mt_self cname custom ovs (VArr gens) replies]
      (CVal (impl_contract_spec T bi be bq bs bm br has_migrate has_reply replies vi ve vq vs vm vr cname custom gens)).
Proof. exact translated_emit_impl_contract. Qed.

(* what the specification says about one operation, spelled out: the accessor and the context values of the default
   dispatch of kind k name k and nothing else *)
Theorem c04_default_dispatch_names_its_own_kind : forall T k cname,
  default_dispatch T k cname =
    quote_v (t_dd T)
      [("sylvia", cm);
       ("api_msg", quote_v (t_api T) [("contract_name", cname); ("sylvia", cm); ("msg_name", VCon "as_accessor_wrapper_name" [kind_v k])]);
       ("values", VCon "emit_ctx_values" [kind_v k])].
Proof. reflexivity. Qed.

(* a concrete run: sudo overridden, no migrate handler, a legacy reply handler *)
Example c04_translated_example :
  match call (MTL none none none (some (VStr "ov_sudo")) none none false true) 3 300 "MtHelpers::emit_impl_contract"
             [mt_self (VStr "Ctr") (VStr "custom") (VArr []) (VArr []) false] with
  | Some (CVal (VCon "quote" [VStr _; VRec "holes" hs])) =>
      lookup "sudo_body" hs = Some (override_dispatch (VStr "ov_sudo")) /\
      (match lookup "migrate_body" hs with Some (VCon "quote" [VStr _; VRec "holes" [("sylvia", _)]]) => True | _ => False end) /\
      (match lookup "reply_body" hs with
       | Some (VCon "quote" [VStr _; VRec "holes" [("reply_name", VCon "function_name" [VStr "the reply handler"])]]) => True | _ => False end)
  | _ => False
  end.
Proof. vm_compute. repeat split. Qed.

Print Assumptions c04_translated_multitest_operations.
Print Assumptions c04_default_dispatch_names_its_own_kind.
