(* C02 — Dispatch runs exactly the annotated handler with the sent arguments.
   Statements only; proofs are in Facts/. User handlers are an arbitrary function `handler`, the
   context an arbitrary value `ctx` (storage handle, api, querier, env, sender/funds): the theorems
   hold for all handler bodies and all contexts, and the context reaches the handler unchanged. *)
From Coq Require Import String List Bool ZArith.
Require Import SV.Base.Json SV.Model.Kinds SV.Model.GenTables SV.Model.Casing SV.Model.Syntax SV.Model.Expand SV.Model.Sem SV.Model.Run.
Require Import SV.Facts.TblNames SV.Facts.TblCtx SV.Facts.SemFacts SV.Facts.ExpandFacts SV.Facts.ProgramFacts SV.Facts.MsgProgramFacts.
Import ListNotations.
Open Scope string_scope.

Section C02.
Variable val : Type.
Variable ctxT : Type.
Variable outcome : Type.
Variable handler : string -> ctxT -> list val -> outcome.

(* exec / query / sudo message of a contract: the call log is exactly one call, of the method the
   variant was generated from, with the context unchanged and the sent values in parameter order;
   the caller gets that handler's own outcome *)
Theorem c02_contract_dispatch : forall c k m vals ctx,
  enum_kind k = true -> wf_enum (contract_enum c k) ->
  In m (c_methods c) -> method_kind m = Some k -> length vals = length (m_args m) ->
  dispatch_enum val ctxT outcome handler (contract_enum c k) (mkMsg (m_name m) (arg_fields val (m_args m) vals)) ctx =
  Some ([Call (m_name m) ctx vals], handler (m_name m) ctx vals).
Proof. exact (c02f_contract_dispatch val ctxT outcome handler). Qed.

Theorem c02_interface_dispatch : forall i k m vals ctx,
  enum_kind k = true -> wf_enum (iface_enum i k) ->
  In m (i_methods i) -> method_kind m = Some k -> length vals = length (m_args m) ->
  dispatch_enum val ctxT outcome handler (iface_enum i k) (mkMsg (m_name m) (arg_fields val (m_args m) vals)) ctx =
  Some ([Call (m_name m) ctx vals], handler (m_name m) ctx vals).
Proof. exact (c02f_interface_dispatch val ctxT outcome handler). Qed.

(* every field value reaches the parameter of the same name, in whatever order the message value
   lists its fields (the generated arm binds by name and calls positionally) *)
Theorem c02_fields_reach_parameters_by_name : forall e v fields ctx,
  wf_enum e -> In v e -> (forall f, In f (vd_fields v) -> lookup (fd_name f) fields <> None) ->
  exists args,
    dispatch_enum val ctxT outcome handler e (mkMsg (vd_fn v) fields) ctx =
      Some ([Call (vd_fn v) ctx args], handler (vd_fn v) ctx args) /\
    length args = length (vd_fields v) /\
    forall i f, nth_error (vd_fields v) i = Some f ->
                option_map Some (nth_error args i) = Some (lookup (fd_name f) fields).
Proof. exact (c02f_dispatch_by_name val ctxT outcome handler). Qed.

(* instantiate / migrate *)
Theorem c02_struct_dispatch : forall s fn (args : list arg) vals ctx,
  vd_fn s = fn -> vd_fields s = map arg_fdesc args -> NoDup (map a_name args) -> length vals = length args ->
  dispatch_struct val ctxT outcome handler s (mkMsg fn (arg_fields val args vals)) ctx =
  Some ([Call fn ctx vals], handler fn ctx vals).
Proof. exact (c02f_struct_dispatch val ctxT outcome handler). Qed.

(* no other handler: whatever the message, every logged call is of a method of this very enum *)
Theorem c02_no_other_handler : forall e m ctx log o,
  dispatch_enum val ctxT outcome handler e m ctx = Some (log, o) ->
  forall fn c' args, In (Call fn c' args) log -> In fn (map vd_fn e).
Proof. exact (dispatch_enum_log_in_enum val ctxT outcome handler). Qed.

End C02.

(* the context tuple per kind (regenerated from emit_ctx_values): deps and env always, info exactly
   for instantiate and exec *)
Theorem c02_ctx_components : forall k,
  ctx_values k = if has_info k then ["deps"; "env"; "info"] else ["deps"; "env"].
Proof. exact ctx_values_shape. Qed.

Check c02_contract_dispatch.

(* Non-vacuity: two sibling handlers with identical signatures; the logged call is the right one *)
Definition ex_c02 : contract :=
  mkContract "Ctr" [] [] []
    [ mkMethod "instantiate" [ASv "msg" (SvMsg "instantiate" None [] None)] [mkArg "admin" (TName "String") []] (TName "R") [] [];
      mkMethod "send" [ASv "msg" (SvMsg "exec" None [] None)]
               [mkArg "from" (TName "u64") []; mkArg "to" (TName "u64") []] (TName "R") [] [];
      mkMethod "refund" [ASv "msg" (SvMsg "exec" None [] None)]
               [mkArg "from" (TName "u64") []; mkArg "to" (TName "u64") []] (TName "R") [] [] ]
    true false.

Example c02_example :
  co_diags (expand_contract ex_c02) = [] /\
  dispatch_enum json unit unit (fun _ _ _ => tt) (contract_enum ex_c02 KExec)
    (mkMsg "refund" [("to", JNum 2%Z); ("from", JNum 1%Z)]) tt =
  Some ([Call "refund" tt [JNum 1%Z; JNum 2%Z]], tt).
Proof. vm_compute. split; reflexivity. Qed.

Print Assumptions c02_contract_dispatch.
Print Assumptions c02_interface_dispatch.
Print Assumptions c02_fields_reach_parameters_by_name.
Print Assumptions c02_struct_dispatch.
Print Assumptions c02_no_other_handler.
Print Assumptions c02_ctx_components.
