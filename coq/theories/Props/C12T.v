(* C12, tie by TRANSLATION - the run-time half of the multitest proxies (sylvia/src/multitest.rs: ExecProxy, MigrateProxy,
   downcast_error), as translated from the current Rust source (GenImp.mt_program, regenerated on every run). The chain
   is an arbitrary component that answers a request with a success or with a failure of an arbitrary error type
   (Facts/MtRefine.v: the answer records the request, so the result shows which request was made). Statements only; see
   Props/C05T.v for the status of such theorems. *)
From Coq Require Import String List Bool.
Require Import SV.Model.Imp SV.Model.GenImp SV.Facts.ImpFacts SV.Facts.MtRefine.
Import ListNotations.
Open Scope string_scope.
Open Scope list_scope.

(* The execute proxy - `new`, any number of `with_funds`, `call` - makes exactly the request
   execute_contract(app, sender, the contract address it was built for, the message it was built with, the last funds set;
   no funds when none were set); the chain's success is returned unchanged, its failure through downcast_error. *)
Theorem c12_translated_exec_proxy_sends_the_raw_request : forall ok ty txt payload d addr msg inner fs sender,
  exists p0 p1,
    calls (with_chain ok ty txt payload) (S d) "ExecProxy::new" [addr; msg; app_val inner] (CVal p0) /\
    funds_chain ok ty txt payload d p0 fs p1 /\
    calls (with_chain ok ty txt payload) (S (S d)) "ExecProxy::call" [p1; sender]
      (CVal (proxied ok ty txt payload "extern::execute_contract" [inner; sender; addr; msg; last fs (VArr [])])).
Proof. exact translated_exec_proxy. Qed.

(* The migrate proxy makes exactly the request migrate_contract(app, sender, address, message, new code id). *)
Theorem c12_translated_migrate_proxy_sends_the_raw_request : forall ok ty txt payload d addr msg inner sender code,
  exists p0,
    calls (with_chain ok ty txt payload) (S d) "MigrateProxy::new" [addr; msg; app_val inner] (CVal p0) /\
    calls (with_chain ok ty txt payload) (S (S d)) "MigrateProxy::call" [p0; sender; code]
      (CVal (proxied ok ty txt payload "extern::migrate_contract" [inner; sender; addr; msg; code])).
Proof. exact translated_migrate_proxy. Qed.

(* A failure reaches the caller as the contract's own error when that is what the chain carried, as the StdError converted
   into the contract's error type when it carried a StdError, and otherwise as a generic StdError with the chain's text. *)
Theorem c12_translated_downcast_error : forall d ok ty txt payload t inner x,
  calls (with_chain ok ty txt payload) (S d) "downcast_error" [anyhow t inner x]
    (CVal (if t =? "Error" then inner
           else if t =? "StdError" then VCon "Into::into" [inner]
           else VCon "Into::into" [VCon "StdError::GenericErr" [VStr x]])).
Proof. exact translated_downcast_error. Qed.

(* a concrete run of the executable evaluator: two with_funds, then call, on a chain that fails with the contract's error *)
Example c12_translated_example :
  let P := with_chain false "Error" "boom" (VStr "payload") in
  let p0 := exec_proxy (VStr "contract0") (VStr "{msg}") (app_val (VStr "chain")) (VArr []) in
  call P 3 60 "ExecProxy::with_funds" [p0; VArr [VStr "5atom"]] =
    Some (CVal (exec_proxy (VStr "contract0") (VStr "{msg}") (app_val (VStr "chain")) (VArr [VStr "5atom"]))) /\
  call P 3 60 "ExecProxy::call" [exec_proxy (VStr "contract0") (VStr "{msg}") (app_val (VStr "chain")) (VArr [VStr "5atom"]); VStr "alice"] =
    Some (CVal (VCon "Err" [did "extern::execute_contract" [VStr "chain"; VStr "alice"; VStr "contract0"; VStr "{msg}"; VArr [VStr "5atom"]] (VStr "payload")])).
Proof. vm_compute. split; reflexivity. Qed.

Print Assumptions c12_translated_exec_proxy_sends_the_raw_request.
Print Assumptions c12_translated_migrate_proxy_sends_the_raw_request.
Print Assumptions c12_translated_downcast_error.

(* ------------------------------------------------------------------------------------------ *)
(* The GENERATED instantiate proxy (templates of sylvia-derive/src/contract/mt.rs, translated on every run with their
   type-level holes erased - the code every contract gets; Facts/MtGenRefine.v). *)
Require Import SV.Facts.MtGenRefine.

(* `CodeId::instantiate` starts with no funds, the label "Contract", no admin and no salt; then ANY sequence of
   with_funds / with_label / with_admin / with_salt (a value or an Option of it) changes exactly its own field, the last
   setter of a field winning *)
Theorem c12_translated_generated_instantiate_options : forall ok ok2 ty txt payload cid steps,
  calls (PG ok ok2 ty txt payload) 3 "CodeId::instantiate" [cid] (CVal (ip_rep cid (VRec "InstantiateMsg" []) ip_init)) /\
  forall msg, ip_chain ok ok2 ty txt payload (ip_rep cid msg ip_init) steps (ip_rep cid msg (fold_left ip_apply steps ip_init)).
Proof. intros. split; [apply calls_code_id_instantiate | intros; apply ip_chain_spec]. Qed.

(* `call` without a salt makes exactly the request instantiate_contract(app, code id, sender, message, funds, label, admin)
   with the proxy's fields; a success becomes a Proxy for the returned address on the same app, a failure goes through
   downcast_error *)
Theorem c12_translated_generated_instantiate_call : forall ok ok2 ty txt payload n inner msg sender f l a,
  calls (PG ok ok2 ty txt payload) 3 "InstantiateProxy::call" [ip_val (code_id_val n (app_val inner)) f l a none msg; sender]
    (CVal (let d := did "extern::instantiate_contract" [inner; n; sender; msg; f; l; a] payload in
           if ok then VCon "Ok" [proxy_val d (app_val inner)]
           else VCon "Err" [VCon "downcast_error" [anyhow ty d txt]])).
Proof. exact calls_ip_call_plain. Qed.

(* `call` with a salt makes exactly the request execute(app, sender, Instantiate2 {admin, code_id, msg = the serialised
   message, funds, label, salt}) - every option of the proxy reaches the message - and a failure goes through
   downcast_error; the new address is what cw_utils parses out of the response data, a parse failure a StdError *)
Theorem c12_translated_generated_instantiate2_call : forall ok2 ty txt payload n inner msg sender f l a salt,
  calls (PG true ok2 ty txt payload) 3 "InstantiateProxy::call" [ip_val (code_id_val n (app_val inner)) f l a (some salt) msg; sender]
    (CVal (let d := did "extern::execute" [inner; sender; inst2_msg n msg f l a salt] payload in
           if ok2 then VCon "Ok" [proxy_val d (app_val inner)]
           else VCon "Err" [VCon "Into::into" [VCon "StdError::GenericErr" [VStr "parse error"]]])) /\
  calls (PG false ok2 ty txt payload) 3 "InstantiateProxy::call" [ip_val (code_id_val n (app_val inner)) f l a (some salt) msg; sender]
    (CVal (VCon "Err" [VCon "From::from" [VCon "downcast_error"
       [anyhow ty (did "extern::execute" [inner; sender; inst2_msg n msg f l a salt] payload) txt]]])).
Proof.
  intros. split; [apply (calls_ip_call_salt_ok true ok2 ty txt payload); reflexivity
                 | apply (calls_ip_call_salt_err false ok2 ty txt payload); reflexivity].
Qed.

Print Assumptions c12_translated_generated_instantiate_options.
Print Assumptions c12_translated_generated_instantiate_call.
Print Assumptions c12_translated_generated_instantiate2_call.

(* ------------------------------------------------------------------------------------------ *)
(* The generated exec / query / sudo / migrate proxy METHODS (templates emit_mt_method_definition), for every contract,
   every method and all arguments (the argument list is one symbolic value), composed with the translated run-time
   library: each proxy call is exactly one raw chain operation. *)
Theorem c12_translated_generated_exec_path : forall ok ty txt payload addr inner args fs sender,
  exists p0 p1,
    calls (PM ok ty txt payload) 3 "ProxyT::exec_method" [proxy_val addr (app_val inner); args] (CVal p0) /\
    pm_funds_chain ok ty txt payload p0 fs p1 /\
    calls (PM ok ty txt payload) 3 "ExecProxy::call" [p1; sender]
      (CVal (answered ok ty txt payload via_downcast "extern::execute_contract"
               [inner; sender; addr; msg_of "ExecMsg::of" args; last fs (VArr [])])).
Proof. exact generated_exec_path. Qed.

Theorem c12_translated_generated_query_sudo_migrate : forall ok ty txt payload addr inner app args sender code,
  calls (PM ok ty txt payload) 3 "ProxyT::query_method" [proxy_val addr app; args]
    (CVal (answered ok ty txt payload via_into "extern::query_wasm_smart" [app; addr; msg_of "QueryMsg::of" args])) /\
  calls (PM ok ty txt payload) 3 "ProxyT::sudo_method" [proxy_val addr (app_val inner); args]
    (CVal (answered ok ty txt payload via_downcast "extern::wasm_sudo" [inner; addr; msg_of "SudoMsg::of" args])) /\
  exists p0,
    calls (PM ok ty txt payload) 3 "ProxyT::migrate_method" [proxy_val addr (app_val inner); args] (CVal p0) /\
    calls (PM ok ty txt payload) 3 "MigrateProxy::call" [p0; sender; code]
      (CVal (answered ok ty txt payload via_downcast "extern::migrate_contract"
               [inner; sender; addr; msg_of "MigrateMsg::new" args; code])).
Proof.
  intros. split; [apply generated_query_method|]. split; [apply generated_sudo_method | apply generated_migrate_path].
Qed.

Print Assumptions c12_translated_generated_exec_path.
Print Assumptions c12_translated_generated_query_sudo_migrate.

(* the proxy methods generated for an INTERFACE (templates of interface/mt.rs) are, as programs, the ones generated for a
   contract: the two theorems above hold for them word for word *)
Theorem c12_translated_generated_interface_methods_same : mtmeth_iface_fns = mtmeth_fns.
Proof. reflexivity. Qed.
Print Assumptions c12_translated_generated_interface_methods_same.
