(* C12, tie by TRANSLATION - the run-time half of the multitest proxies (sylvia/src/multitest.rs: ExecProxy, MigrateProxy,
   downcast_error), as translated from the current Rust source (GenImp.mt_program, regenerated on every run). The chain
   is an arbitrary component that answers a request with a success or with a failure of an arbitrary error type
   (Facts/MtRefine.v: the answer records the request, so the result shows which request was made). Statements only; see
   Props/C05T.v for the status of such theorems. *)
From Coq Require Import String List Bool.
Require Import SV.Model.Imp SV.Model.GenImp SV.Facts.ImpFacts SV.Facts.MtRefine.
Import ListNotations.
Open Scope string_scope.
Open Scope list_scope.

(* The execute proxy - `new`, any number of `with_funds`, `call` - makes exactly the request
   execute_contract(app, sender, the contract address it was built for, the message it was built with, the last funds set;
   no funds when none were set); the chain's success is returned unchanged, its failure through downcast_error. *)
Theorem c12_translated_exec_proxy_sends_the_raw_request : forall ok ty txt payload d addr msg inner fs sender,
  exists p0 p1,
    calls (with_chain ok ty txt payload) (S d) "ExecProxy::new" [addr; msg; app_val inner] (CVal p0) /\
    funds_chain ok ty txt payload d p0 fs p1 /\
    calls (with_chain ok ty txt payload) (S (S d)) "ExecProxy::call" [p1; sender]
      (CVal (proxied ok ty txt payload "extern::execute_contract" [inner; sender; addr; msg; last fs (VArr [])])).
Proof. exact translated_exec_proxy. Qed.

(* The migrate proxy makes exactly the request migrate_contract(app, sender, address, message, new code id). *)
Theorem c12_translated_migrate_proxy_sends_the_raw_request : forall ok ty txt payload d addr msg inner sender code,
  exists p0,
    calls (with_chain ok ty txt payload) (S d) "MigrateProxy::new" [addr; msg; app_val inner] (CVal p0) /\
    calls (with_chain ok ty txt payload) (S (S d)) "MigrateProxy::call" [p0; sender; code]
      (CVal (proxied ok ty txt payload "extern::migrate_contract" [inner; sender; addr; msg; code])).
Proof. exact translated_migrate_proxy. Qed.

(* A failure reaches the caller as the contract's own error when that is what the chain carried, as the StdError converted
   into the contract's error type when it carried a StdError, and otherwise as a generic StdError with the chain's text. *)
Theorem c12_translated_downcast_error : forall d ok ty txt payload t inner x,
  calls (with_chain ok ty txt payload) (S d) "downcast_error" [anyhow t inner x]
    (CVal (if t =? "Error" then inner
           else if t =? "StdError" then VCon "Into::into" [inner]
           else VCon "Into::into" [VCon "StdError::GenericErr" [VStr x]])).
Proof. exact translated_downcast_error. Qed.

(* a concrete run of the executable evaluator: two with_funds, then call, on a chain that fails with the contract's error *)
Example c12_translated_example :
  let P := with_chain false "Error" "boom" (VStr "payload") in
  let p0 := exec_proxy (VStr "contract0") (VStr "{msg}") (app_val (VStr "chain")) (VArr []) in
  call P 3 60 "ExecProxy::with_funds" [p0; VArr [VStr "5atom"]] =
    Some (CVal (exec_proxy (VStr "contract0") (VStr "{msg}") (app_val (VStr "chain")) (VArr [VStr "5atom"]))) /\
  call P 3 60 "ExecProxy::call" [exec_proxy (VStr "contract0") (VStr "{msg}") (app_val (VStr "chain")) (VArr [VStr "5atom"]); VStr "alice"] =
    Some (CVal (VCon "Err" [did "extern::execute_contract" [VStr "chain"; VStr "alice"; VStr "contract0"; VStr "{msg}"; VArr [VStr "5atom"]] (VStr "payload")])).
Proof. vm_compute. split; reflexivity. Qed.

Print Assumptions c12_translated_exec_proxy_sends_the_raw_request.
Print Assumptions c12_translated_migrate_proxy_sends_the_raw_request.
Print Assumptions c12_translated_downcast_error.
