(* C05, tie by TRANSLATION - the overlap check of sylvia/src/utils.rs as translated from the current Rust source.
   Statements only. GenImp.utils_program is regenerated on every run (harness/probe/probe.rs `ast` dump ->
   py/verif/imp_translate.py); `calls` is the result of running a translated function under the semantics of
   Model/Imp.v for any sufficiently large fuel. These theorems are about the source as it is now: when the source is
   rewritten they have to be re-proved, and the check then falls back on the tie by correspondence (Props/C05.v +
   the differential run), which it deepens. *)
From Coq Require Import List Sorted.
From Coq Require String.
Require Import SV.Base.StrOrder SV.Model.Intersect SV.Facts.IntersectFacts.
Require Import SV.Model.Imp SV.Model.GenImp SV.Model.ImpRun SV.Facts.ImpFacts SV.Facts.UtilsRefine.
Import ListNotations.
Import String.StringSyntax.
Local Open Scope string_scope.

(* The translated `assert_no_intersection` panics with the overlap message iff two different lists share a name, and
   returns normally iff none is shared - for any number of strictly sorted lists of any lengths. *)
Theorem c05_translated_source_panics_iff_shared :
  forall d (ls : list (list String.string)), Forall (StronglySorted slt) ls ->
    (calls utils_program (S (S d)) "assert_no_intersection" [enc_ls ls] (CPanic "panic" overlap_msg) <-> shares ls).
Proof. exact translated_source_panics_iff_shared. Qed.

Theorem c05_translated_source_passes_iff_disjoint :
  forall d (ls : list (list String.string)), Forall (StronglySorted slt) ls ->
    (calls utils_program (S (S d)) "assert_no_intersection" [enc_ls ls] (CVal VUnit) <-> ~ shares ls).
Proof. exact translated_source_passes_iff_disjoint. Qed.

Check c05_translated_source_panics_iff_shared :
  forall d (ls : list (list String.string)), Forall (StronglySorted slt) ls ->
    (calls utils_program (S (S d)) "assert_no_intersection" [enc_ls ls] (CPanic "panic" overlap_msg) <-> shares ls).


(* it refines the hand-written model of Model/Intersect.v on every input on which the model does not get stuck *)
Theorem c05_translated_source_refines_model :
  forall d (ls : list (list String.string)), assert_no_intersection ls <> Stuck ->
    calls utils_program (S (S d)) "assert_no_intersection" [enc_ls ls] (outcome_ctl (assert_no_intersection ls)).
Proof. exact translated_assert_no_intersection. Qed.

(* whatever the EXECUTABLE evaluator returns for the translated function on strictly sorted lists, with whatever fuel, is
   the model's outcome - this is the run the correspondence check performs next to the real function *)
Theorem c05_translated_source_any_run :
  forall (ls : list (list String.string)) fl c, Forall (StronglySorted slt) ls ->
    call utils_program 3 fl "assert_no_intersection" [enc_ls ls] = Some c ->
    c = outcome_ctl (assert_no_intersection ls).
Proof. exact translated_run_is_model_outcome. Qed.

(* results are unique: the evaluator is a function *)
Theorem c05_translated_source_deterministic :
  forall d g vs c1 c2, calls utils_program d g vs c1 -> calls utils_program d g vs c2 -> c1 = c2.
Proof. exact (calls_fun utils_program). Qed.

(* the translated source, executed: same inputs as above *)
Example c05_example_translated :
  imp_run_case [["a"; "c"]; []; ["b"; "c"; "d"]] = ["panic"] /\ imp_run_case [["a"; "c"]; []; ["b"; "d"]] = ["done"] /\
  overlap_msg <> "".
Proof. vm_compute. repeat split; discriminate. Qed.


Print Assumptions c05_translated_source_panics_iff_shared.
Print Assumptions c05_translated_source_passes_iff_disjoint.
Print Assumptions c05_translated_source_refines_model.
Print Assumptions c05_translated_source_deterministic.
Print Assumptions c05_translated_source_any_run.
