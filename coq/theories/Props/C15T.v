(* C15, tie by TRANSLATION - which type parameters a generated message type carries and which of the user's bounds it keeps:
   `CheckGenerics` (sylvia-derive/src/parser/check_generics.rs) and `filter_wheres`, `as_where_clause`,
   `emit_bracketed_generics` (utils.rs), translated from the source on every run (GenImpGenerics.generics_fns,
   Facts/GenericsRefine.v). syn's own traversal and `GetPath::get_path` are operations the theorems quantify over.
   Statements only. *)
From Coq Require Import String List Bool.
Require Import SV.Model.Imp SV.Model.GenImpGenerics SV.Facts.ImpFacts SV.Facts.MacroRefine SV.Facts.GenericsRefine.
Import ListNotations.
Open Scope string_scope.
Open Scope list_scope.

(* meeting a path: the generic it stands for (the FIRST entry of the generics list whose path equals it) is appended to the used
   ones unless it is there already - each parameter once, in order of first use - and the traversal goes on into the segments *)
Theorem c15_translated_visit_path : forall d (gens : list gentry) (used segs : list value) tokens,
  calls GEN (S (S d)) "CheckGenerics::visit_path" [checker_v (map gentry_v gens) used; path_v segs tokens]
    (CVal (checker_v (map gentry_v gens) (record gens used (path_v segs tokens) ++ map visited segs))).
Proof. exact translated_visit_path. Qed.

Theorem c15_translated_each_parameter_once : forall gens used p,
  record gens used p = used \/
  exists e, find (stands_for p) gens = Some e /\ mem (gentry_v e) used = false /\ record gens used p = used ++ [gentry_v e].
Proof.
  intros gens used p. unfold record. destruct (find (stands_for p) gens) as [e|]; [|left; reflexivity].
  destruct (mem (gentry_v e) used) eqn:E; [left; reflexivity|]. right. exists e. repeat split. exact E.
Qed.

(* the split handed to the generated types: the used parameters as collected, and the others in declaration order *)
Theorem c15_translated_used_unused : forall d (generics used : list value),
  calls GEN (S d) "CheckGenerics::used_unused" [checker_v generics used]
    (CVal (VCon "()" [VArr used; VArr (filter (fun g => negb (mem g used)) generics)])).
Proof. exact translated_used_unused. Qed.

(* the bounds a message type keeps: for EVERY where clause, exactly the predicates ALL of whose generics are used by the
   type, in their order; no where clause, no bounds *)
Theorem c15_translated_filter_wheres : forall d (ps : list pred) other gens used,
  calls GEN (S (S d)) "filter_wheres" [some (clause_v ps other); VArr gens; VArr used]
    (CVal (VArr (map pred_v (filter (keeps used) ps)))) /\
  calls GEN (S (S d)) "filter_wheres" [none; VArr gens; VArr used] (CVal (VArr [])).
Proof. intros. split; [apply translated_filter_wheres | apply translated_filter_wheres_none]. Qed.

Theorem c15_translated_kept_bounds_mention_no_other_parameter : forall used (ps : list pred) p,
  In p (filter (keeps used) ps) <-> In p ps /\ forall g, In g (fst p) -> mem g used = true.
Proof. intros used ps p. rewrite filter_In. unfold keeps. rewrite forallb_forall. tauto. Qed.

(* nothing is emitted for an empty list of bounds / parameters *)
Theorem c15_translated_emitters : forall d (l : list value),
  (exists t, calls GEN (S d) "as_where_clause" [VArr l] (CVal (match l with [] => none | _ => some (quote_v t [("where_predicates", VArr l)]) end))) /\
  (exists t, calls GEN (S d) "emit_bracketed_generics" [VArr l]
     (CVal (match l with [] => quote_v "" [] | _ => quote_v t [("unbonded_generics", VArr l)] end))).
Proof. intros d l. split; [apply translated_as_where_clause | apply translated_emit_bracketed_generics]. Qed.

(* non-vacuity: `where T: Trait, U: From<T>, V: Clone` for a type that uses T and V keeps the first and the third bound *)
Example c15_translated_example :
  length generics_fns = 13 /\
  map snd (filter (keeps [VStr "T"; VStr "V"])
    [([VStr "T"], VStr "T: Trait"); ([VStr "U"; VStr "T"], VStr "U: From<T>"); ([VStr "V"], VStr "V: Clone")]) =
  [VStr "T: Trait"; VStr "V: Clone"] /\
  record [(Some (VStr "T"), VStr "T"); (Some (VStr "U"), VStr "U")] [gentry_v (Some (VStr "U"), VStr "U")] (VStr "T") =
  [gentry_v (Some (VStr "U"), VStr "U"); gentry_v (Some (VStr "T"), VStr "T")].
Proof. vm_compute. repeat split; reflexivity. Qed.

Print Assumptions c15_translated_visit_path.
Print Assumptions c15_translated_each_parameter_once.
Print Assumptions c15_translated_used_unused.
Print Assumptions c15_translated_filter_wheres.
Print Assumptions c15_translated_kept_bounds_mention_no_other_parameter.
Print Assumptions c15_translated_emitters.
