(* C08, tie by TRANSLATION - the generated sub-message builders (templates of contract/communication/reply.rs with their
   value-level holes as parameters; GenImp.reply_builder_fns, Facts/ReplyGenRefine.v). Statements only; see Props/C05T.v for the
   status of such theorems. Which trigger and id the macro splices for a handler name is C08's model (Reply.v) and L1 tie. *)
From Coq Require Import String List Bool.
Require Import SV.Model.Imp SV.Model.GenImp SV.Facts.ImpFacts SV.Facts.ReplyGenRefine.
Import ListNotations.
Open Scope string_scope.
Open Scope list_scope.

(* For every contract, handler, trigger `ro`, id constant `id` and payload arguments: the builder on an existing sub-message
   sets exactly id, trigger and payload - the payload being the serialised tuple of the arguments, or the raw argument
   itself for `#[sv::payload(raw)]` - and keeps the message and the gas limit. *)
Theorem c08_translated_builder_on_sub_message : forall id0 payload0 msg gas ro0 args ro id,
  calls RB 2 "BuilderT::setter_typed" [sub_msg_v id0 payload0 msg gas ro0; args; ro; id]
    (CVal (VCon "Ok" [sub_msg_v id (typed_payload args) msg gas ro])) /\
  calls RB 2 "BuilderT::setter_raw" [sub_msg_v id0 payload0 msg gas ro0; args; ro; id]
    (CVal (VCon "Ok" [sub_msg_v id args msg gas ro])).
Proof. exact translated_submsg_setter. Qed.

(* ... and the builder on a WasmMsg / CosmosMsg wraps that message into a new sub-message with the id, the trigger, the
   payload and no gas limit *)
Theorem c08_translated_builder_on_message : forall m args ro id,
  calls RB 2 "BuilderT::converter_typed" [m; args; ro; id]
    (CVal (VCon "Ok" [VRec "SubMsg" [("reply_on", ro); ("id", id); ("msg", VCon "Into::into" [m]); ("payload", typed_payload args);
                                     ("gas_limit", VCon "None" [])]])) /\
  calls RB 2 "BuilderT::converter_raw" [m; args; ro; id]
    (CVal (VCon "Ok" [VRec "SubMsg" [("reply_on", ro); ("id", id); ("msg", VCon "Into::into" [m]); ("payload", args);
                                     ("gas_limit", VCon "None" [])]])).
Proof. exact translated_submsg_converter. Qed.

Example c08_translated_example :
  call RB 2 100 "BuilderT::setter_raw" [sub_msg_v (VNat 0) (VStr "") (VStr "m") (VCon "Some" [VNat 7]) (VCon "ReplyOn::Never" []);
                                        VStr "raw-bytes"; VCon "ReplyOn::Always" []; VNat 3] =
    Some (CVal (VCon "Ok" [sub_msg_v (VNat 3) (VStr "raw-bytes") (VStr "m") (VCon "Some" [VNat 7]) (VCon "ReplyOn::Always" [])])).
Proof. vm_compute. reflexivity. Qed.

Print Assumptions c08_translated_builder_on_sub_message.
Print Assumptions c08_translated_builder_on_message.
