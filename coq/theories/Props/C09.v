(* C09 — Reply data is extracted according to the declared data mode. Statements only.
   The envelope parsers (cw_utils) and the JSON decoder are arbitrary functions: the statements hold
   for arbitrary payload types. *)
From Coq Require Import String List Bool NArith ZArith.
Require Import SV.Base.Json SV.Model.Kinds SV.Model.Casing SV.Model.Syntax SV.Model.Expand SV.Model.Reply SV.Facts.ReplyFacts.
Import ListNotations.
Open Scope string_scope.

Section C09.
Variable parse_exec : string -> option (option string).
Variable parse_inst : string -> option json.
Variable dec_json : string -> string -> option json.
Variable parse_json : string -> option json.
Variable outcome : Type.
Variable handler : string -> rctx -> list rarg -> outcome.

(* the documented table: six modes x data absent / undecodable envelope / undecodable JSON / present *)
Theorem c09_data_mode_table : forall ty data,
  extract_data parse_exec parse_inst dec_json (mode true false false) ty data =
    match data with Some b => inr (DRaw b) | None => inl EDataMissing end /\
  extract_data parse_exec parse_inst dec_json (mode true true false) ty data = inr (DRawOpt data) /\
  extract_data parse_exec parse_inst dec_json (mode false false true) ty data =
    match data with
    | Some b => match parse_inst b with Some x => inr (DInst x) | None => inl EDataProtobuf end
    | None => inl EDataMissing end /\
  extract_data parse_exec parse_inst dec_json (mode false true true) ty data =
    match data with
    | Some b => match parse_inst b with Some x => inr (DInstOpt (Some x)) | None => inl EDataProtobuf end
    | None => inr (DInstOpt None) end /\
  extract_data parse_exec parse_inst dec_json (mode false false false) ty data =
    match data with
    | Some b => match parse_exec b with
                | None => inl EDataProtobuf
                | Some None => inl EDataMissing
                | Some (Some inner) => match dec_json ty inner with Some v => inr (DTyped v) | None => inl EDataJson end
                end
    | None => inl EDataMissing end /\
  extract_data parse_exec parse_inst dec_json (mode false true false) ty data =
    match data with
    | Some b => match parse_exec b with
                | None => inl EDataProtobuf
                | Some None => inl EDataMissing
                | Some (Some inner) => match dec_json ty inner with Some v => inr (DOpt (Some v)) | None => inl EDataJson end
                end
    | None => inr (DOpt None) end.
Proof. exact (data_mode_table parse_exec parse_inst dec_json). Qed.

(* a failing extraction is an error and the handler is not invoked; a successful one is exactly one
   invocation whose first argument is the extracted value *)
Theorem c09_success_handler_with_data : forall rd r ok fn f dp,
  rp_result r = SubOk ok -> success_handler rd = Some (fn, ROSuccess) -> rd_data rd = Some f -> rf_data f = Some dp ->
  forall pargs, dec_payload parse_json (rd_payload rd) (rp_payload r) = Some pargs ->
  match extract_data parse_exec parse_inst dec_json dp (rf_ty f) (so_data ok) with
  | inl e => dispatch_rd parse_exec parse_inst dec_json outcome handler parse_json rd r = RErr e
  | inr d =>
      let c := {| rc_gas := rp_gas r; rc_events := so_events ok; rc_msg_responses := so_msg_responses ok |} in
      dispatch_rd parse_exec parse_inst dec_json outcome handler parse_json rd r =
      RCalled fn c (AData d :: pargs) (handler fn c (AData d :: pargs))
  end.
Proof. exact (success_with_data parse_exec parse_inst dec_json parse_json outcome handler). Qed.

(* absent marker: no data argument *)
Theorem c09_success_handler_without_marker : forall rd r ok fn,
  rp_result r = SubOk ok -> success_handler rd = Some (fn, ROSuccess) -> rd_data rd = None ->
  forall pargs, dec_payload parse_json (rd_payload rd) (rp_payload r) = Some pargs ->
  let c := {| rc_gas := rp_gas r; rc_events := so_events ok; rc_msg_responses := so_msg_responses ok |} in
  dispatch_rd parse_exec parse_inst dec_json outcome handler parse_json rd r = RCalled fn c pargs (handler fn c pargs).
Proof. exact (success_without_data parse_exec parse_inst dec_json parse_json outcome handler). Qed.

End C09.

Check c09_data_mode_table.

Print Assumptions c09_data_mode_table.
Print Assumptions c09_success_handler_with_data.
Print Assumptions c09_success_handler_without_marker.
