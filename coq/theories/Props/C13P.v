(* C13, tie by TRANSLATION, second part - which attributes are the framework's own: `SylviaAttribute::new` of
   sylvia-derive/src/parser/attributes/mod.rs translated on every run (GenImpParse.attrparse_fns, Facts/ParseRefine.v). A file
   of its own so that a rewrite of the parser does not take the theorems about fold.rs (Props/C13T.v) with it. Statements only. *)
From Coq Require Import String List Bool.
Require Import SV.Model.Imp SV.Model.GenImpParse SV.Facts.ImpFacts SV.Facts.MacroRefine SV.Facts.ParseRefine SV.Facts.ParseFacts SV.Facts.TableBridge.
Import ListNotations.
Open Scope string_scope.
Open Scope list_scope.

(* which attributes count as the framework's own - the translated `SylviaAttribute::new` (parser/attributes/mod.rs): exactly the
   paths of two segments `sv::<name>` with <name> one of the ten known names; any other path (`doc`, `cfg`, `sv` alone,
   `sv::unknown`, `a::sv::msg`, ..) is a foreign attribute and stays *)
Theorem c13_translated_framework_attributes : forall d path meta,
  calls PARSE (S (S d)) "SylviaAttribute::new" [path_attr_v path meta] (CVal (kopt (classify path))).
Proof. exact translated_sv_new. Qed.

Theorem c13_translated_framework_attribute_names : forall path,
  classify path <> None <->
  exists n, path = ["sv"; n] /\ In n ["custom"; "error"; "messages"; "msg"; "override_entry_point"; "attr"; "msg_attr"; "payload"; "data"; "features"].
Proof. exact classify_names. Qed.

(* two translators, one table: the REGENERATED table of attribute names the core theorems of C13 / C17 use (GenTables, rendered
   from the arms of `match_attribute`) is the function proved of the TRANSLATED `match_attribute` *)
Theorem c13_regenerated_table_is_the_translated_function : forall s,
  SV.Model.GenTables.sv_attr_of_string s = option_map svkind_name (name_kind s).
Proof. exact regenerated_table_is_the_translated_function. Qed.

Example c13_parser_example : classify ["sv"; "msg"] = Some KMsg /\ classify ["sv"; "unknown_thing"] = None /\ classify ["doc"] = None.
Proof. vm_compute. repeat split; reflexivity. Qed.

Print Assumptions c13_translated_framework_attributes.
Print Assumptions c13_translated_framework_attribute_names.
Print Assumptions c13_regenerated_table_is_the_translated_function.
