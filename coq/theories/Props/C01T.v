(* C01, tie by TRANSLATION - the names a message enum publishes (`MsgVariants::as_names_snake_cased` of
   sylvia-derive/src/types/msg_variant.rs, translated on every run: GenImpLeg.leg_fns, Facts/LegRefine.v). Statements only;
   see Props/C05T.v for the status of such theorems. *)
From Coq Require Import String List Bool.
Require Import SV.Model.Imp SV.Model.GenImpLeg SV.Facts.ImpFacts SV.Facts.MacroRefine SV.Facts.LegRefine.
Import ListNotations.
Open Scope string_scope.
Open Scope list_scope.

(* For ANY number of variants (= annotated methods of the kind): the published names are exactly one per variant, in order,
   each serde's snake_case form of THAT variant's name - none is dropped, none is added (the enum's `*_messages()` function
   returns this list sorted; the casing function itself is modelled in Casing.v and validated against serde). *)
Theorem c01_translated_one_published_name_per_variant : forall l,
  calls LEG 2 "MsgVariants::as_names_snake_cased" [variants_v l] (CVal (VArr (map name_of_variant l))).
Proof. exact translated_variant_names. Qed.

Example c01_translated_example :
  call LEG 2 200 "MsgVariants::as_names_snake_cased"
       [variants_v [("SetOwner", [], VUnit, "Exec"); ("Mint2Batch", [VUnit], VUnit, "Exec")]] =
    Some (CVal (VArr [VCon "serde_snake_case" [VStr "SetOwner"]; VCon "serde_snake_case" [VStr "Mint2Batch"]])).
Proof. vm_compute. reflexivity. Qed.

Print Assumptions c01_translated_one_published_name_per_variant.
