(* C01 - the hand-written model the core theorems are about and the specification proved of the TRANSLATED code agree on which
   methods become messages of which kind (Facts/VariantBridge.v): the link between Props/C01.v and Props/C01V.v. Statements only. *)
From Coq Require Import String List Bool.
Require Import SV.Model.Kinds SV.Model.GenTables SV.Model.Syntax SV.Model.Expand.
Require Import SV.Model.Imp SV.Facts.MacroRefine SV.Facts.ParseRefine SV.Facts.ParseFacts SV.Facts.VariantBridge.
Import ListNotations.
Open Scope string_scope.
Open Scope list_scope.

(* the kind of message a method of the hand model is (what `scan` of Model/Expand.v tests): the FIRST well-formed `sv::msg` among its
   attributes - a later one never replaces it, a malformed one is skipped *)
Theorem c01_hand_model_method_kind : forall (l : list attr),
  option_map ma_kind (p_msg (parse_attrs l)) = hd_error (flat_map (fun a => match announced a with Some k => [k] | None => [] end) l).
Proof. exact hand_model_method_kind. Qed.

(* ... and that is the kind the translated `ParsedSylviaAttributes::new` + `MsgVariants::new` select the method for
   (c01_translated_from_items_to_variants: the first well-formed `sv::msg(..)` of the attributes as the parser sees them) *)
Theorem c01_hand_model_and_translated_code_select_the_same_methods : forall (l : list attr),
  option_map (fun m => kind_ctor (ma_kind m)) (p_msg (parse_attrs l)) =
  option_map (fun m : string * value * value => fst (fst m)) (hd_error (flat_map msg_of (map ain_of_msg l))).
Proof. exact hand_model_and_translated_code_select_the_same_methods. Qed.

Print Assumptions c01_hand_model_method_kind.
Print Assumptions c01_hand_model_and_translated_code_select_the_same_methods.
