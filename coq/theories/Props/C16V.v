(* C16, tie by TRANSLATION, second part - which response type a query variant records: `MsgVariant::new`
   (sylvia-derive/src/types/msg_variant.rs) translated on every run (GenImpGenerics.generics_fns, Facts/VariantsRefine.v).
   Statements only. *)
From Coq Require Import String List Bool.
Require Import SV.Model.Imp SV.Model.GenImpGenerics SV.Facts.ImpFacts SV.Facts.MacroRefine SV.Facts.GenericsRefine SV.Facts.VariantsRefine.
Import ListNotations.
Open Scope string_scope.
Open Scope list_scope.

(* the variant built for a method of kind k: its `return_type` component is `response_of` - and the checker traverses it *)
Theorem c16_translated_variant_records_the_response_type : forall d k resp r fwd ident output other gens used,
  is_option resp ->
  calls GEN (S (S d)) "MsgVariant::new" [sig_v ident output other; checker_v gens used; msg_attr_v (k, resp, r); fwd]
    (CVal (VCon "()" [variant_v k resp r fwd ident output other; checker_v gens (used ++ traversal k resp ident output other)])).
Proof. exact translated_msg_variant_new. Qed.

(* for a query: the type written in `resp=` wins over whatever the signature returns; without it, the signature's return type;
   for any other kind there is no response type *)
Theorem c16_translated_explicit_response_type_wins : forall r ident output other output',
  fst (response_of "Query" (VCon "Some" [r]) ident output other) = some (quote_v "# resp_type" [("resp_type", r)]) /\
  fst (response_of "Query" (VCon "Some" [r]) ident output other) = fst (response_of "Query" (VCon "Some" [r]) ident output' other) /\
  fst (response_of "Query" (VCon "None" []) ident output other) =
    some (quote_v "# return_type" [("return_type", VCon "extract_return_type" [output])]).
Proof. intros. repeat split. Qed.

Theorem c16_translated_only_queries_have_a_response_type : forall k resp ident output other,
  (k =? "Query") = false -> response_of k resp ident output other = (none, []).
Proof. intros k resp ident output other H. unfold response_of. rewrite H. reflexivity. Qed.

Print Assumptions c16_translated_variant_records_the_response_type.
Print Assumptions c16_translated_explicit_response_type_wins.
Print Assumptions c16_translated_only_queries_have_a_response_type.
