(* C11, tie by TRANSLATION - sylvia/src/into_response.rs (IntoMsg for SubMsg<Empty>, IntoResponse for Response<Empty>) as
   translated from the current Rust source (GenImp.resp_program, regenerated on every run; a function of the enabled cargo
   features because match arms are compiled conditionally). Statements only; see Props/C05T.v for the status of such
   theorems. Values: Facts/RespRefine.v. *)
From Coq Require Import String List Bool.
Require Import SV.Model.Imp SV.Model.GenImp SV.Model.GenLib SV.Model.Lib SV.Facts.ImpFacts SV.Facts.RespRefine.
Import ListNotations.
Open Scope string_scope.
Open Scope list_scope.

(* Under EVERY selection of sylvia's cargo features: a response whose sub-messages carry only message kinds that
   cosmwasm-std defines under that selection, none of them Custom, comes back from the conversion UNCHANGED - every
   sub-message with its id, gas limit, reply_on and payload, in order; attributes, events and data as they were. *)
Theorem c11_translated_into_response_preserves_under_every_feature_set :
  forall (sel : string -> bool) d ms attrs events data,
  Forall (present_msg (filter sel feature_names)) ms ->
  calls (resp_program (enabled (filter sel feature_names))) (S (S d)) "Response::into_response"
    [resp_val ms attrs events data] (CVal (VCon "Ok" [resp_val ms attrs events data])).
Proof. exact translated_into_response_keeps_existing_kinds. Qed.

(* ... and for any enabled set E, stated on the arms alone (kept E m: the arm of m's kind is compiled in) *)
Theorem c11_translated_into_response_preserves : forall E d ms attrs events data,
  Forall (good E) ms ->
  calls (resp_program E) (S (S d)) "Response::into_response" [resp_val ms attrs events data]
    (CVal (VCon "Ok" [resp_val ms attrs events data])).
Proof. exact translated_into_response_preserves. Qed.

(* The first sub-message carrying a chain-custom message makes the conversion fail with the custom-message error, whatever
   precedes (kept kinds) or follows it: nothing is dropped silently. *)
Theorem c11_translated_into_response_fails_on_custom : forall E d pre c post attrs events data,
  Forall (good E) pre -> is_custom_msg c ->
  calls (resp_program E) (S (S d)) "Response::into_response" [resp_val (pre ++ c :: post) attrs events data]
    (CVal (VCon "Err" [VCon "From::from" [custom_err]])).
Proof. exact translated_into_response_custom. Qed.

(* one sub-message: kept with all five fields; Custom is the custom-message error; a kind whose arm is compiled out is an
   error too (never a silently altered message) *)
Theorem c11_translated_into_msg : forall E d m x K fs i g r p,
  (kept E m -> calls (resp_program E) (S d) "SubMsg::into_msg" [sub_msg m i g r p] (CVal (VCon "Ok" [sub_msg m i g r p]))) /\
  calls (resp_program E) (S d) "SubMsg::into_msg" [sub_msg (VCon "CosmosMsg::Custom" [x]) i g r p] (CVal (VCon "Err" [custom_err])) /\
  (In (K, fs) tuple_kinds -> feats_on E fs = false ->
   exists e, calls (resp_program E) (S d) "SubMsg::into_msg" [sub_msg (VCon K [x]) i g r p] (CVal (VCon "Err" [e]))).
Proof.
  intros. split; [apply calls_into_msg_kept|]. split; [apply calls_into_msg_custom|apply calls_into_msg_compiled_out].
Qed.

(* concrete runs of the executable evaluator: two kept messages under the feature staking; a custom one in the middle *)
Example c11_translated_example :
  let sm k := sub_msg (VCon k [VStr "body"]) (VNat 7) (VCon "Some" [VNat 5]) (VCon "ReplyOn::Error" []) (VStr "payload") in
  let r ms := resp_val ms [VStr "a=1"] [VStr "ev"] (VCon "Some" [VStr "data"]) in
  call (resp_program ["staking"]) 3 200 "Response::into_response" [r [sm "CosmosMsg::Bank"; sm "CosmosMsg::Staking"]] =
    Some (CVal (VCon "Ok" [r [sm "CosmosMsg::Bank"; sm "CosmosMsg::Staking"]])) /\
  call (resp_program ["staking"]) 3 200 "Response::into_response" [r [sm "CosmosMsg::Bank"; sm "CosmosMsg::Custom"; sm "CosmosMsg::Wasm"]] =
    Some (CVal (VCon "Err" [VCon "From::from" [custom_err]])) /\
  good ["staking"] (sm "CosmosMsg::Staking") /\
  present_msg ["staking"] (sm "CosmosMsg::Staking").
Proof.
  cbv zeta. split; [vm_compute; reflexivity|]. split; [vm_compute; reflexivity|]. split.
  - eexists _, _, _, _, _. split; [reflexivity|]. eapply kept_tuple with (fs := ["staking"]); [simpl; tauto | reflexivity].
  - exists "Staking", (VStr "body"), VUnit, VUnit. eexists _, _, _, _. split; [reflexivity|].
    split; [vm_compute; tauto|]. split; [discriminate | vm_compute; reflexivity].
Qed.

Print Assumptions c11_translated_into_response_preserves_under_every_feature_set.
Print Assumptions c11_translated_into_response_preserves.
Print Assumptions c11_translated_into_response_fails_on_custom.
Print Assumptions c11_translated_into_msg.

(* ------------------------------------------------------------------------------------------ *)
(* The other half of the bridge - the macro's decision which arms of the contract-level dispatch convert the response and
   the context (Interfaces::emit_dispatch_arms, MsgType::emit_ctx_dispatch_values of sylvia-derive, translated on every
   run: GenImpMacro.bridge_fns, Facts/BridgeRefine.v). *)
Require Import SV.Model.GenImpBridge SV.Facts.MacroRefine SV.Facts.BridgeRefine.

(* For ANY list of attached interfaces and every kind: one arm per interface, in order; the arm converts the handler's
   response with IntoResponse exactly when the kind is exec or sudo and the interface is marked custom(msg), and never
   otherwise; every arm dispatches the interface's own variant with the context computed for that interface's markers. *)
Theorem c11_translated_bridged_arms : forall k (l : list iface), In k six_kinds ->
  calls BR 2 "Interfaces::emit_dispatch_arms" [ifaces_v l; kind_v k]
    (CVal (VArr (map (arm_spec k) l))).
Proof. exact translated_dispatch_arms. Qed.

(* the context handed to the interface is emptied of the custom query type exactly for exec / query / sudo of an interface
   marked custom(query) (keeping env - and info for exec - as they are); otherwise it is passed on unchanged *)
Theorem c11_translated_bridged_context : forall k (has_msg has_query : bool), In k six_kinds ->
  calls BR 2 "MsgType::emit_ctx_dispatch_values" [kind_v k; customs_v has_msg has_query] (CVal (ctx_spec k has_query)).
Proof. exact translated_ctx_dispatch_values. Qed.

Example c11_translated_bridge_example :
  arm_spec "Exec" (VStr "cw1", VStr "Cw1", true, false) <> arm_spec "Exec" (VStr "cw1", VStr "Cw1", false, false) /\
  arm_spec "Query" (VStr "cw1", VStr "Cw1", true, false) = arm_spec "Query" (VStr "cw1", VStr "Cw1", true, false) /\
  converts_response "Query" true = false /\ converts_response "Sudo" true = true /\
  ctx_spec "Exec" true <> ctx_spec "Exec" false /\ ctx_spec "Instantiate" true = ctx_spec "Instantiate" false.
Proof. vm_compute. repeat split; discriminate. Qed.

Print Assumptions c11_translated_bridged_arms.
Print Assumptions c11_translated_bridged_context.
