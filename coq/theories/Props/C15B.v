(* C15 - the hand-written model the core theorems are about and the specification proved of the TRANSLATED code agree on the unused
   generics and on the kept bounds (Facts/GenericsBridge.v): the link between Props/C15.v and Props/C15T.v. Statements only. *)
From Coq Require Import String List Bool.
Require Import SV.Model.Syntax SV.Model.Expand.
Require Import SV.Model.Imp SV.Facts.MacroRefine SV.Facts.GenericsRefine SV.Facts.GenericsBridge.
Import ListNotations.
Open Scope string_scope.
Open Scope list_scope.

Theorem c15_hand_model_unused_generics_are_the_translated_ones : forall (gens used : list string),
  map VStr (filter (fun g => negb (Expand.mem g used)) gens) =
  filter (fun g => negb (GenericsRefine.mem g (map VStr used))) (map VStr gens).
Proof. exact hand_model_unused_generics_are_the_translated_ones. Qed.

Theorem c15_hand_model_kept_bounds_are_the_translated_ones : forall gens tokens (wh : list wpred) (used : list string),
  map (as_pred gens tokens) (Expand.filter_wheres wh gens used) = filter (keeps (map VStr used)) (map (as_pred gens tokens) wh).
Proof. exact hand_model_kept_bounds_are_the_translated_ones. Qed.

Print Assumptions c15_hand_model_unused_generics_are_the_translated_ones.
Print Assumptions c15_hand_model_kept_bounds_are_the_translated_ones.
