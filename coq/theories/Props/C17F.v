(* C17, tie by TRANSLATION, third part - an attribute written on a handler argument lands on the corresponding message field:
   `MsgField::new` / `emit` / `emit_pub` (sylvia-derive/src/types/msg_field.rs) and `process_fields` (parser/mod.rs), translated on
   every run (GenImpFields.field_fns, Facts/FieldsRefine.v). Statements only. *)
From Coq Require Import String List Bool.
Require Import SV.Model.Imp SV.Model.GenImpFields SV.Facts.ImpFacts SV.Facts.MacroRefine SV.Facts.FieldsRefine.
Import ListNotations.
Open Scope string_scope.
Open Scope list_scope.

(* one field from one typed parameter: named after the parameter, of the parameter's type, carrying EXACTLY the parameter's
   attributes (whatever they are); a parameter whose pattern is not a plain name gives no field; the generics checker traverses
   the (Self-stripped) type of a field and nothing else *)
Theorem c17_translated_field_of_a_parameter : forall d name op ty attrs gens used,
  calls FLD (S (S d)) "MsgField::new" [pat_type_v name op ty attrs; checker_v gens used]
    (CVal (VCon "()" [match name with Some n => some (field_v n ty attrs) | None => none end;
                      checker_v gens (used ++ visit_of (FTyped name op ty attrs))])).
Proof. exact translated_msg_field_new. Qed.

(* ... and it is written into the generated type with those attributes, that name and that type - both as an enum variant's field
   and as a `pub` struct field *)
Theorem c17_translated_field_is_emitted_with_its_attributes : forall d n ty attrs,
  exists t1 t2,
    calls FLD (S d) "MsgField::emit" [field_v n ty attrs] (CVal (quote_v t1 [("attrs", attrs); ("name", n); ("stripped_ty", stripped ty)])) /\
    calls FLD (S d) "MsgField::emit_pub" [field_v n ty attrs] (CVal (quote_v t2 [("attrs", attrs); ("name", n); ("stripped_ty", stripped ty)])).
Proof. exact translated_msg_field_emit. Qed.

(* the fields of a handler: for EVERY parameter list, one field per typed parameter AFTER the first two (the receiver and the
   context), in order - each from its own parameter - and the checker is threaded through exactly those *)
Theorem c17_translated_fields_of_a_signature : forall d (inputs : list fparam) other gens used,
  let rest := skipn 2 inputs in
  calls FLD (S (S (S (S d)))) "process_fields" [sig_v inputs other; checker_v gens used]
    (CVal (VCon "()" [VArr (flat_map field_of rest); checker_v gens (used ++ flat_map visit_of rest)])).
Proof. exact translated_process_fields. Qed.

(* non-vacuity: `(&self, ctx: ExecCtx, #[serde(default)] n: u32, (a, b): (u8, u8), to: Addr)` gives the fields n and to *)
Example c17_translated_fields_example :
  length field_fns = 5 /\
  map (fun f => match f with VRec _ (("name", n) :: _ :: _ :: ("attrs", a) :: _) => (n, a) | _ => (VUnit, VUnit) end)
    (flat_map field_of (skipn 2
       [FReceiver (VStr "&self"); FTyped (Some (VStr "ctx")) VUnit (VStr "ExecCtx") (VArr []);
        FTyped (Some (VStr "n")) VUnit (VStr "u32") (VArr [VStr "#[serde(default)]"]);
        FTyped None (VStr "(a, b)") (VStr "(u8, u8)") (VArr []);
        FTyped (Some (VStr "to")) VUnit (VStr "Addr") (VArr [])])) =
  [(VStr "n", VArr [VStr "#[serde(default)]"]); (VStr "to", VArr [])].
Proof. vm_compute. split; reflexivity. Qed.

Print Assumptions c17_translated_field_of_a_parameter.
Print Assumptions c17_translated_field_is_emitted_with_its_attributes.
Print Assumptions c17_translated_fields_of_a_signature.
