(* C09, tie by TRANSLATION - the generated extraction of the reply data for each declared data mode (templates of
   `<MsgField as DataField>::emit_data_deserialization`, sylvia-derive/src/contract/communication/reply.rs, translated on
   every run: GenImp.reply_data_fns, Facts/ReplyDataRefine.v). Statements only; see Props/C05T.v for the status of such
   theorems. cw_utils' envelope parsers and from_json answer in every possible way (EnvErr / EnvEmpty / EnvData, ok / failing);
   which template a handler's marker selects is C09's model and L1 tie. *)
From Coq Require Import String List Bool.
Require Import SV.Model.Imp SV.Model.GenImp SV.Facts.ImpFacts SV.Facts.ReplyDataRefine.
Import ListNotations.
Open Scope string_scope.
Open Scope list_scope.

(* raw modes hand the bytes over as they are; mandatory modes turn absent data into the missing-data error, optional ones
   into None *)
Theorem c09_translated_raw_modes : forall a inst_ok json_ok data d mtxt itxt,
  calls (RD a inst_ok json_ok) 2 "DataT::raw_opt" [data; mtxt; itxt] (CVal (ok data)) /\
  calls (RD a inst_ok json_ok) 2 "DataT::raw" [some d; mtxt; itxt] (CVal (ok d)) /\
  calls (RD a inst_ok json_ok) 2 "DataT::raw" [none; mtxt; itxt] (CVal (missing_err mtxt)).
Proof. intros. split; [apply mode_raw_opt|]. split; [apply mode_raw_some | apply mode_raw_none]. Qed.

(* typed modes parse the execute envelope and decode the inner JSON: a broken envelope, a missing inner field and undecodable
   JSON are errors IN BOTH modes (an optional mode never swallows them); only absent data differs: error vs None *)
Theorem c09_translated_typed_modes : forall a inst_ok json_ok d mtxt itxt,
  calls (RD a inst_ok json_ok) 2 "DataT::typed" [some d; mtxt; itxt] (CVal (typed_of a json_ok d mtxt itxt (fun v => v))) /\
  calls (RD a inst_ok json_ok) 2 "DataT::typed" [none; mtxt; itxt] (CVal (missing_err mtxt)) /\
  calls (RD a inst_ok json_ok) 2 "DataT::opt" [some d; mtxt; itxt] (CVal (typed_of a json_ok d mtxt itxt some)) /\
  calls (RD a inst_ok json_ok) 2 "DataT::opt" [none; mtxt; itxt] (CVal (ok none)).
Proof.
  intros. split; [apply mode_typed_some|]. split; [apply mode_typed_none|]. split; [apply mode_opt_some | apply mode_opt_none].
Qed.

(* instantiate modes parse the instantiate envelope and pass the parsed response on; a broken envelope is an error in both *)
Theorem c09_translated_instantiate_modes : forall a inst_ok json_ok d mtxt itxt,
  calls (RD a inst_ok json_ok) 2 "DataT::inst" [some d; mtxt; itxt]
    (CVal (if inst_ok then ok (VCon "instantiate_response_of" [d]) else envelope_err d)) /\
  calls (RD a inst_ok json_ok) 2 "DataT::inst" [none; mtxt; itxt] (CVal (missing_err mtxt)) /\
  calls (RD a inst_ok json_ok) 2 "DataT::inst_opt" [some d; mtxt; itxt]
    (CVal (if inst_ok then ok (some (VCon "instantiate_response_of" [d])) else envelope_err d)) /\
  calls (RD a inst_ok json_ok) 2 "DataT::inst_opt" [none; mtxt; itxt] (CVal (ok none)).
Proof.
  intros. split; [apply mode_inst_some|]. split; [apply mode_inst_none|]. split; [apply mode_inst_opt_some | apply mode_inst_opt_none].
Qed.

Example c09_translated_example :
  call (RD EnvData true false) 2 200 "DataT::opt" [some (VStr "bytes"); VStr "missing"; VStr "invalid"] = Some (CVal (invalid_err (VStr "invalid"))) /\
  call (RD EnvData true true) 2 200 "DataT::opt" [some (VStr "bytes"); VStr "missing"; VStr "invalid"] =
    Some (CVal (ok (some (VCon "decoded" [VCon "inner_of" [VStr "bytes"]])))).
Proof. vm_compute. split; reflexivity. Qed.

Print Assumptions c09_translated_raw_modes.
Print Assumptions c09_translated_typed_modes.
Print Assumptions c09_translated_instantiate_modes.
