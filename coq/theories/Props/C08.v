(* C08 — Sub-message builders and reply dispatch agree on id, trigger and payload. Statements only. *)
From Coq Require Import String List Bool NArith ZArith.
Require Import SV.Base.Json SV.Model.Kinds SV.Model.Casing SV.Model.Syntax SV.Model.Expand SV.Model.Reply SV.Facts.ReplyFacts SV.Facts.ReplyTableFacts.
Import ListNotations.
Open Scope string_scope.

(* distinct handler names (whose id constants differ) get distinct ids, and an id leads back to the
   entry of its own handler name *)
Theorem c08_distinct_ids : forall t h1 h2 i1 i2,
  reply_id_of h1 <> reply_id_of h2 -> id_of t h1 = Some i1 -> id_of t h2 = Some i2 -> i1 <> i2.
Proof. exact distinct_handlers_distinct_ids. Qed.

(* for every table the macro accepts, any two handler names that differ as written (also those whose
   constants would coincide, `handler1` / `handler_1`: such tables are rejected) have ids, and different ones *)
Theorem c08_distinct_names_distinct_ids : forall ms, snd (build_table ms) = [] ->
  forall m1 h1 m2 h2, In (m1, h1) (all_pairs ms) -> In (m2, h2) (all_pairs ms) -> h1 <> h2 ->
  exists i1 i2, id_of (fst (build_table ms)) h1 = Some i1 /\ id_of (fst (build_table ms)) h2 = Some i2 /\ i1 <> i2.
Proof. exact accepted_distinct_names_distinct_ids. Qed.

Theorem c08_id_finds_its_entry : forall t hid i, id_of t hid = Some i ->
  exists rd, lookup_id t i = Some rd /\ rd_reply_id rd = reply_id_of hid.
Proof. exact id_of_sound. Qed.

(* the builder requests a reply for exactly the outcomes that have a method: both (or an always
   method) means always *)
Theorem c08_trigger_covers_exactly_the_declared_outcomes : forall rd, rd_handlers rd <> [] ->
  cw_reply_on rd = (if covers_ok rd && covers_err rd then ROAlways else if covers_ok rd then ROSuccess else ROError)
  /\ (covers_ok rd || covers_err rd = true).
Proof. exact cw_reply_on_covers. Qed.

(* stamps id, trigger and payload ... *)
Theorem c08_builder_stamps : forall to_text id rd recv a,
  (match recv with RSubMsg _ fields => In "id" (map fst fields) /\ In "reply_on" (map fst fields) /\ In "payload" (map fst fields) | _ => True end) ->
  let out := snd (build_submsg to_text id rd recv a) in
  lookup "id" out = Some (JNum (Z.of_N id)) /\
  lookup "reply_on" out = Some (JStr (show_reply_on (cw_reply_on rd))) /\
  lookup "payload" out = Some (JStr (ser_payload to_text a)).
Proof. exact build_stamps. Qed.

(* ... keeps the wrapped message and, for an existing sub-message, every other field (its gas limit) *)
Theorem c08_builder_keeps_message_and_gas_limit : forall to_text id rd msg fields a k,
  k <> "id" -> k <> "reply_on" -> k <> "payload" ->
  fst (build_submsg to_text id rd (RSubMsg msg fields) a) = msg /\
  lookup k (snd (build_submsg to_text id rd (RSubMsg msg fields) a)) = lookup k fields /\
  map fst (snd (build_submsg to_text id rd (RSubMsg msg fields) a)) = map fst fields.
Proof. exact build_on_submsg_keeps_the_rest. Qed.

Theorem c08_builder_on_plain_messages : forall to_text id rd msg a,
  build_submsg to_text id rd (RWasmMsg msg) a = build_submsg to_text id rd (RCosmosMsg msg) a /\
  fst (build_submsg to_text id rd (RWasmMsg msg) a) = msg /\
  lookup "gas_limit" (snd (build_submsg to_text id rd (RWasmMsg msg) a)) = Some JNull.
Proof. exact build_on_plain_message. Qed.

(* payload: what the builder encodes, the dispatcher decodes to equal values (raw: byte for byte),
   for any JSON printer / parser pair that round-trips *)
Theorem c08_payload_round_trip : forall (to_text : json -> string) (parse_json : string -> option json),
  (forall j, parse_json (to_text j) = Some j) ->
  forall payload a, payload_matches payload a ->
  dec_payload parse_json payload (ser_payload to_text a) = Some (delivered a).
Proof. exact payload_round_trip. Qed.

Check c08_payload_round_trip.

Definition ex_rd : reply_data :=
  {| rd_reply_id := "ON_DONE_REPLY_ID"; rd_handler_id := "on_done";
     rd_handlers := [("fail_1", ROError); ("ok_2", ROSuccess)]; rd_data := None;
     rd_payload := [{| rf_name := "p"; rf_ty := "u32"; rf_data := None; rf_payload := false; rf_bad := false |};
                    {| rf_name := "q"; rf_ty := "String"; rf_data := None; rf_payload := false; rf_bad := false |}] |}.

Example c08_example :
  cw_reply_on ex_rd = ROAlways /\
  build_submsg (fun _ => "[7,x]") 3 ex_rd (RSubMsg (JStr "m") [("id", JNum 4242%Z); ("gas_limit", JNum 60000%Z); ("reply_on", JStr "error"); ("payload", JStr "old")])
               (PVals [JNum 7%Z; JStr "x"]) =
  (JStr "m", [("id", JNum 3%Z); ("gas_limit", JNum 60000%Z); ("reply_on", JStr "always"); ("payload", JStr "[7,x]")]).
Proof. split; reflexivity. Qed.

Print Assumptions c08_distinct_ids.
Print Assumptions c08_distinct_names_distinct_ids.
Print Assumptions c08_id_finds_its_entry.
Print Assumptions c08_trigger_covers_exactly_the_declared_outcomes.
Print Assumptions c08_builder_stamps.
Print Assumptions c08_builder_keeps_message_and_gas_limit.
Print Assumptions c08_builder_on_plain_messages.
Print Assumptions c08_payload_round_trip.
