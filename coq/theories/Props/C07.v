(* C07 — Reply routing honours the declared handler and outcome. Statements only.
   `compatible` is the validator's acceptance condition on the claims (no two methods claiming one
   handler name exclude each other); it is what C18 proves the macro enforces. The table `t` is the
   result of the real accumulating fold; the statements speak about the methods as declared, in any
   order, with any sharing of names. *)
From Coq Require Import String List Bool NArith ZArith.
Require Import SV.Base.Json SV.Model.Kinds SV.Model.Casing SV.Model.Syntax SV.Model.Expand SV.Model.Reply.
Require Import SV.Facts.ReplyFacts SV.Facts.ReplyTableFacts.
Import ListNotations.
Open Scope string_scope.

Section C07.
Variable parse_exec : string -> option (option string).
Variable parse_inst : string -> option json.
Variable dec_json : string -> string -> option json.
Variable parse_json : string -> option json.
Variable outcome : Type.
Variable handler : string -> rctx -> list rarg -> outcome.
Variable ms : list rmethod.
Hypothesis C : compatible (all_pairs ms).
Notation t := (fst (build_table ms)).
Notation dispatch_rd := (dispatch_rd parse_exec parse_inst dec_json outcome handler parse_json).
Notation dispatch_reply := (dispatch_reply parse_exec parse_inst dec_json outcome handler parse_json).

Theorem c07_known_id_reaches_its_entry : forall r rd,
  lookup_id t (rp_id r) = Some rd -> dispatch_reply t r = dispatch_rd rd r /\ In rd t.
Proof. exact (known_id_dispatches_its_entry parse_exec parse_inst dec_json parse_json outcome handler ms). Qed.

Theorem c07_success_runs_the_method_declared_for_success : forall rd p r ok pargs,
  In rd t -> In p (claimants (all_pairs ms) (rd_reply_id rd)) -> rm_on (fst p) = ROSuccess ->
  rp_result r = SubOk ok -> dec_payload parse_json (rd_payload rd) (rp_payload r) = Some pargs ->
  match rd_data rd with
  | None => dispatch_rd rd r = RCalled (rm_name (fst p)) (full_ctx r ok) pargs (handler (rm_name (fst p)) (full_ctx r ok) pargs)
  | Some f =>
      match extract_data parse_exec parse_inst dec_json
              (match rf_data f with Some d => d | None => {| dp_raw := false; dp_opt := false; dp_inst := false |} end) (rf_ty f) (so_data ok) with
      | inl err => dispatch_rd rd r = RErr err
      | inr d => dispatch_rd rd r = RCalled (rm_name (fst p)) (full_ctx r ok) (AData d :: pargs)
                                            (handler (rm_name (fst p)) (full_ctx r ok) (AData d :: pargs))
      end
  end.
Proof. exact (successful_reply_runs_the_success_method parse_exec parse_inst dec_json parse_json outcome handler ms C). Qed.

Theorem c07_failure_runs_the_method_declared_for_error : forall rd p r e pargs,
  In rd t -> In p (claimants (all_pairs ms) (rd_reply_id rd)) -> rm_on (fst p) = ROError ->
  rp_result r = SubErr e -> dec_payload parse_json (rd_payload rd) (rp_payload r) = Some pargs ->
  dispatch_rd rd r = RCalled (rm_name (fst p)) (empty_ctx r) (AError e :: pargs)
                             (handler (rm_name (fst p)) (empty_ctx r) (AError e :: pargs)).
Proof. exact (failed_reply_runs_the_error_method parse_exec parse_inst dec_json parse_json outcome handler ms C). Qed.

Theorem c07_either_outcome_runs_the_method_declared_for_always : forall rd p r pargs,
  In rd t -> In p (claimants (all_pairs ms) (rd_reply_id rd)) -> rm_on (fst p) = ROAlways ->
  dec_payload parse_json (rd_payload rd) (rp_payload r) = Some pargs ->
  dispatch_rd rd r = RCalled (rm_name (fst p)) (empty_ctx r) (AResult (rp_result r) :: pargs)
                             (handler (rm_name (fst p)) (empty_ctx r) (AResult (rp_result r) :: pargs)).
Proof. exact (reply_runs_the_always_method parse_exec parse_inst dec_json parse_json outcome handler ms C). Qed.

Theorem c07_uncovered_success_is_passed_through : forall rd r ok,
  In rd t -> (forall p, In p (claimants (all_pairs ms) (rd_reply_id rd)) -> covers_ok_on (rm_on (fst p)) = false) ->
  rp_result r = SubOk ok -> dispatch_rd rd r = RPass (so_events ok) (so_data ok).
Proof. exact (uncovered_success_is_passed_through parse_exec parse_inst dec_json parse_json outcome handler ms C). Qed.

Theorem c07_uncovered_failure_is_that_error : forall rd r e,
  In rd t -> (forall p, In p (claimants (all_pairs ms) (rd_reply_id rd)) -> covers_err_on (rm_on (fst p)) = false) ->
  rp_result r = SubErr e -> dispatch_rd rd r = RErr (ESubError e).
Proof. exact (uncovered_failure_is_that_error parse_exec parse_inst dec_json parse_json outcome handler ms C). Qed.

Theorem c07_unknown_id_is_an_error : forall r,
  lookup_id t (rp_id r) = None -> dispatch_reply t r = RErr (EUnknownId (rp_id r)).
Proof. exact (unknown_id_is_an_error parse_exec parse_inst dec_json parse_json outcome handler ms). Qed.

(* the table has one entry per distinct handler-name constant, and every claimed name has one *)
Theorem c07_one_entry_per_name : NoDup (map rd_reply_id t) /\
  forall p, In p (all_pairs ms) -> exists rd, In rd t /\ rd_reply_id rd = rid_of p.
Proof. exact (conj (table_ids_distinct ms C) (every_claim_has_an_entry ms C)). Qed.

End C07.

Check c07_success_runs_the_method_declared_for_success.

(* Non-vacuity: error method declared BEFORE the success method that carries the data parameter *)
Definition fld (n t : string) (d : option data_params) (p : bool) : rfield := {| rf_name := n; rf_ty := t; rf_data := d; rf_payload := p; rf_bad := false |}.
Definition ex_ms : list rmethod :=
  [ {| rm_name := "on_err"; rm_on := ROError; rm_handlers := ["on_done"]; rm_fields := [fld "error" "String" None false; fld "p" "u32" None false] |};
    {| rm_name := "on_ok"; rm_on := ROSuccess; rm_handlers := ["on_done"];
       rm_fields := [fld "data" "Option<Binary>" (Some {| dp_raw := true; dp_opt := true; dp_inst := false |}) false; fld "p" "u32" None false] |};
    {| rm_name := "other"; rm_on := ROAlways; rm_handlers := []; rm_fields := [fld "result" "SubMsgResult" None false; fld "pl" "Binary" None true] |} ].

Example c07_example_table :
  snd (build_table ex_ms) = [] /\
  map rd_reply_id (fst (build_table ex_ms)) = ["ON_DONE_REPLY_ID"; "OTHER_REPLY_ID"] /\
  map rd_handlers (fst (build_table ex_ms)) = [[("on_err", ROError); ("on_ok", ROSuccess)]; [("other", ROAlways)]] /\
  map (fun rd => is_some (rd_data rd)) (fst (build_table ex_ms)) = [true; false].
Proof. vm_compute. repeat split; reflexivity. Qed.

Example c07_example_compatible : compatible (all_pairs ex_ms).
Proof. apply compatibleb_sound. vm_compute. reflexivity. Qed.

Print Assumptions c07_known_id_reaches_its_entry.
Print Assumptions c07_success_runs_the_method_declared_for_success.
Print Assumptions c07_failure_runs_the_method_declared_for_error.
Print Assumptions c07_either_outcome_runs_the_method_declared_for_always.
Print Assumptions c07_uncovered_success_is_passed_through.
Print Assumptions c07_uncovered_failure_is_that_error.
Print Assumptions c07_unknown_id_is_an_error.
Print Assumptions c07_one_entry_per_name.
