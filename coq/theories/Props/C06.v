(* C06 — Entry points exist exactly for defined, non-overridden kinds and forward calls.
   Only statements, each closed by `exact`, pinned by `Check`, followed by Print Assumptions. *)
From Coq Require Import String List Bool Arith.
Require Import SV.Model.Kinds SV.Model.GenTables SV.Model.EntryPoints.
Require Import SV.Facts.KindsFacts SV.Facts.TblOverride SV.Facts.TblNames SV.Facts.TblCtx SV.Facts.EntryPointsFacts.
Import ListNotations.
Open Scope string_scope.

(* The override attribute parses iff every name is a documented kind name, and then denotes exactly
   those kinds (regenerated table `override_kind_of_string`). *)
Theorem c06_override_names :
  forall ns, (exists ks, parse_overrides ns = Some ks) <-> Forall (fun n => exists k, n = kind_attr_name k) ns.
Proof. exact parse_overrides_some_iff. Qed.

(* Main statement: for every list of override names (any length, order, duplicates), presence of
   migrate/reply handlers: kind k has an entry point iff it is defined and its own name is not
   among the overridden names. *)
Theorem c06_entry_point_set :
  forall i ns ks, parse_overrides ns = Some ks ->
  forall k, In k (emitted i ks) <-> (defined i k /\ ~ In (kind_attr_name k) ns).
Proof. exact emitted_by_names. Qed.

(* Overriding one kind never removes or adds another: membership of k depends on k's own name only. *)
Theorem c06_override_independent :
  forall i ns ns' ks ks' k,
    parse_overrides ns = Some ks -> parse_overrides ns' = Some ks' ->
    (In (kind_attr_name k) ns <-> In (kind_attr_name k) ns') ->
    (In k (emitted i ks) <-> In k (emitted i ks')).
Proof. exact emitted_independent. Qed.

(* ... nor alters it: what an entry point does is a function of the kind and the contract only. *)
Theorem c06_body_independent_of_overrides :
  forall i i' k, ep_reply_fn i = ep_reply_fn i' -> ep_replies_feature i = ep_replies_feature i' ->
                 ep_body_of i k = ep_body_of i' k.
Proof. exact ep_body_indep. Qed.

(* Each kind at most once, under pairwise distinct CosmWasm entry-point names. *)
Theorem c06_no_duplicates : forall i ks, NoDup (map ep_name (emitted i ks)).
Proof. exact emitted_names_nodup. Qed.

Theorem c06_names_are_cosmwasm : forall k, ep_name k = cw_entry_point_name k.
Proof. exact ep_name_is_cw. Qed.

(* Forwarding: every non-reply entry point decodes the contract-level message of its own kind and
   dispatches it with all of deps, env (and info where CosmWasm provides it). *)
Theorem c06_forwarding :
  forall i k, k <> KReply ->
    ep_body_of i k = BDispatch (wrapper_accessor_name k)
                               (if has_info k then ["deps"; "env"; "info"] else ["deps"; "env"]).
Proof. exact ep_body_forward. Qed.

Theorem c06_reply_forwarding :
  forall i, ep_body_of i KReply =
            if ep_replies_feature i then BReplyDispatch ["deps"; "env"]
            else BReplyLegacy (match ep_reply_fn i with Some f => f | None => "" end) ["deps"; "env"].
Proof. exact ep_body_reply. Qed.

(* Non-vacuity: a concrete input meeting the hypotheses, with a non-trivial result. *)
Example c06_example :
  let i := {| ep_overrides := ["query"; "sudo"]; ep_has_inst := true; ep_has_migrate := true;
              ep_reply_fn := Some "on_reply"; ep_replies_feature := true;
              ep_contract_generics := 0; ep_given_generics := 0 |} in
  parse_overrides (ep_overrides i) = Some [KQuery; KSudo] /\
  emitted i [KQuery; KSudo] = [KInst; KExec; KMigrate; KReply].
Proof. split; reflexivity. Qed.

Check c06_entry_point_set :
  forall i ns ks, parse_overrides ns = Some ks ->
  forall k, In k (emitted i ks) <-> (defined i k /\ ~ In (kind_attr_name k) ns).

Print Assumptions c06_override_names.
Print Assumptions c06_entry_point_set.
Print Assumptions c06_override_independent.
Print Assumptions c06_body_independent_of_overrides.
Print Assumptions c06_no_duplicates.
Print Assumptions c06_names_are_cosmwasm.
Print Assumptions c06_forwarding.
Print Assumptions c06_reply_forwarding.
