(* C05 — Name collisions between a contract and its interfaces are rejected at build time.
   Part A: the overlap check (sylvia/src/utils.rs), for any number of strictly sorted lists. *)
From Coq Require Import List Sorted.
From Coq Require String.
Require Import SV.Base.StrOrder SV.Model.Intersect SV.Facts.IntersectFacts.
Require Import SV.Model.Kinds SV.Model.Syntax SV.Model.Expand SV.Model.Sem SV.Model.Run SV.Facts.TblNames SV.Facts.SemFacts
               SV.Facts.ProgramFacts SV.Facts.TablesFacts.
Import ListNotations.
Import String.StringSyntax.
Local Open Scope string_scope.

(* The const block panics (= the contract fails to compile) iff two different parts share a name. *)
Theorem c05_overlap_check_panics_iff_shared :
  forall ls : list (list String.string), Forall (StronglySorted slt) ls ->
    (assert_no_intersection ls = Panic <-> shares ls).
Proof. exact assert_no_intersection_panic_iff. Qed.

(* ... and otherwise it finishes normally (the contract compiles). *)
Theorem c05_overlap_check_passes_iff_disjoint :
  forall ls : list (list String.string), Forall (StronglySorted slt) ls ->
    (assert_no_intersection ls = Done <-> ~ shares ls).
Proof. exact assert_no_intersection_done_iff. Qed.

(* No out-of-range index, no `unreachable!()`, no non-termination: for every number of lists and
   every length (including empty lists). *)
Theorem c05_overlap_check_total :
  forall ls : list (list String.string), Forall (StronglySorted slt) ls -> assert_no_intersection ls <> Stuck.
Proof. exact assert_no_intersection_never_stuck. Qed.

Check c05_overlap_check_panics_iff_shared :
  forall ls : list (list String.string), Forall (StronglySorted slt) ls ->
    (assert_no_intersection ls = Panic <-> shares ls).

(* Part B: the published lists. Each part's list is sorted ... *)
Theorem c05_published_list_sorted : forall c ifs k t,
  enum_kind k = true -> In t (tables_of c ifs k) -> StronglySorted sle t.
Proof. exact tables_sorted. Qed.

(* ... and is exactly the set of names its messages serialise under (serde's rule on the variant identifier) *)
Theorem c05_published_list_is_wire_names : forall c ifs k, enum_kind k = true ->
  tables_of c ifs k = map (fun e => sort (map vd_wire e)) (parts_of c ifs k).
Proof. exact tables_are_wire_names. Qed.

(* A + B: for a program whose parts each have pairwise distinct message names (rustc rejects duplicate
   variants), the const block panics - the contract fails to compile - iff two different parts expose
   a message under the same wire name. *)
Theorem c05_contract_compiles_iff_no_shared_name : forall c ifs k,
  enum_kind k = true -> Forall (fun e => NoDup (map vd_wire e)) (parts_of c ifs k) ->
  (assert_no_intersection (tables_of c ifs k) = Panic <->
   exists i j n, i <> j /\ In n (map vd_wire (nth i (parts_of c ifs k) [])) /\ In n (map vd_wire (nth j (parts_of c ifs k) []))) /\
  (assert_no_intersection (tables_of c ifs k) = Done <->
   ~ exists i j n, i <> j /\ In n (map vd_wire (nth i (parts_of c ifs k) [])) /\ In n (map vd_wire (nth j (parts_of c ifs k) []))).
Proof. exact overlap_check_on_program. Qed.

(* Non-vacuity: sorted inputs exist on both sides of the iff. *)
Example c05_example_shared :
  Forall (StronglySorted slt) [["a"; "c"]; []; ["b"; "c"; "d"]] /\
  assert_no_intersection [["a"; "c"]; []; ["b"; "c"; "d"]] = Panic.
Proof.
  split; [|reflexivity].
  repeat constructor.
Qed.

Example c05_example_disjoint :
  Forall (StronglySorted slt) [["a"; "c"]; []; ["b"; "d"]] /\
  assert_no_intersection [["a"; "c"]; []; ["b"; "d"]] = Done.
Proof. split; [|reflexivity]. repeat constructor. Qed.

Print Assumptions c05_overlap_check_panics_iff_shared.
Print Assumptions c05_overlap_check_passes_iff_disjoint.
Print Assumptions c05_overlap_check_total.
Print Assumptions c05_published_list_sorted.
Print Assumptions c05_published_list_is_wire_names.
Print Assumptions c05_contract_compiles_iff_no_shared_name.
