(* C05 — Name collisions between a contract and its interfaces are rejected at build time.
   Part A: the overlap check (sylvia/src/utils.rs), for any number of strictly sorted lists. *)
From Coq Require Import List Sorted.
From Coq Require String.
Require Import SV.Base.StrOrder SV.Model.Intersect SV.Facts.IntersectFacts.
Import ListNotations.
Import String.StringSyntax.
Local Open Scope string_scope.

(* The const block panics (= the contract fails to compile) iff two different parts share a name. *)
Theorem c05_overlap_check_panics_iff_shared :
  forall ls : list (list String.string), Forall (StronglySorted slt) ls ->
    (assert_no_intersection ls = Panic <-> shares ls).
Proof. exact assert_no_intersection_panic_iff. Qed.

(* ... and otherwise it finishes normally (the contract compiles). *)
Theorem c05_overlap_check_passes_iff_disjoint :
  forall ls : list (list String.string), Forall (StronglySorted slt) ls ->
    (assert_no_intersection ls = Done <-> ~ shares ls).
Proof. exact assert_no_intersection_done_iff. Qed.

(* No out-of-range index, no `unreachable!()`, no non-termination: for every number of lists and
   every length (including empty lists). *)
Theorem c05_overlap_check_total :
  forall ls : list (list String.string), Forall (StronglySorted slt) ls -> assert_no_intersection ls <> Stuck.
Proof. exact assert_no_intersection_never_stuck. Qed.

Check c05_overlap_check_panics_iff_shared :
  forall ls : list (list String.string), Forall (StronglySorted slt) ls ->
    (assert_no_intersection ls = Panic <-> shares ls).

(* Non-vacuity: sorted inputs exist on both sides of the iff. *)
Example c05_example_shared :
  Forall (StronglySorted slt) [["a"; "c"]; []; ["b"; "c"; "d"]] /\
  assert_no_intersection [["a"; "c"]; []; ["b"; "c"; "d"]] = Panic.
Proof.
  split; [|reflexivity].
  repeat constructor.
Qed.

Example c05_example_disjoint :
  Forall (StronglySorted slt) [["a"; "c"]; []; ["b"; "d"]] /\
  assert_no_intersection [["a"; "c"]; []; ["b"; "d"]] = Done.
Proof. split; [|reflexivity]. repeat constructor. Qed.

Print Assumptions c05_overlap_check_panics_iff_shared.
Print Assumptions c05_overlap_check_passes_iff_disjoint.
Print Assumptions c05_overlap_check_total.
