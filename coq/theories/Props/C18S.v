(* C18, tie by TRANSLATION, second part - the structural checks of the contract macro: the early `return None` of
   `StructMessage::new` (contract/communication/struct_msg.rs; GenImpAttr.msgnew_fns, Facts/AttrRefine.v) and
   `assert_new_method_defined` (parser/mod.rs; GenImpCheck.check_fns, Facts/CheckRefine.v). A file of its own so that a rewrite of
   the attribute parser does not take these with it. Statements only. *)
From Coq Require Import String List Bool.
Require Import SV.Model.Imp SV.Model.GenImpAttr SV.Model.GenImpCheck SV.Facts.ImpFacts SV.Facts.MacroRefine SV.Facts.AttrRefine SV.Facts.CheckRefine.
Import ListNotations.
Open Scope string_scope.
Open Scope list_scope.

(* no instantiate / migrate message type when the instantiate handler is missing or a handler of the kind is declared twice *)
Theorem c18_translated_missing_or_duplicated_handler :
  (forall l nx ae aq w g err custom,
     calls (ATTR l [] nx ae aq) 2 "StructMessage::new" [item_impl w (VStr "Self type"); kind_v "Instantiate"; g; err; custom] (CVal none)) /\
  (forall l v1 v2 vs (b : bool) nx ae aq ty w g err custom,
     calls (ATTR l (v1 :: v2 :: vs) (opt b nx) ae aq) 2 "StructMessage::new" [item_impl w (VStr "Self type"); kind_v ty; g; err; custom] (CVal none)).
Proof. exact (conj translated_struct_message_missing_instantiate translated_struct_message_duplicated). Qed.

(* the constructor: for EVERY impl block, `assert_new_method_defined` (parser/mod.rs) emits nothing exactly when the FIRST method
   called `new` takes no parameters; "Parameters not allowed .." when it takes some; "Missing `new` method .." when there is none *)
Theorem c18_translated_constructor_check : forall d (l : list impl_item) other,
  calls check_fns (S d) "assert_new_method_defined" [impl_v l other] (CVal (VArr (new_method_diags l))).
Proof. exact translated_assert_new_method_defined. Qed.

Theorem c18_translated_constructor_verdicts : forall l,
  (new_method_diags l = [] <-> exists o, find is_new l = Some (Method "new" [] o)) /\
  (find is_new l = None -> new_method_diags l = [VStr "Missing `new` method in `impl` block."]) /\
  (forall n x xs o, find is_new l = Some (Method n (x :: xs) o) -> new_method_diags l = [VStr "Parameters not allowed in `new` method."]).
Proof.
  intros l. unfold new_method_diags. split; [|split].
  - destruct (find is_new l) as [[n [|x xs] o|v]|] eqn:Hf.
    + apply find_some in Hf. destruct Hf as [_ Hf]. cbn in Hf. apply String.eqb_eq in Hf. subst n.
      split; [intros _; exists o; reflexivity | reflexivity].
    + split; [discriminate | intros [o' H]; discriminate].
    + apply find_some in Hf. destruct Hf as [_ Hf]. discriminate.
    + split; [discriminate | intros [o' H]; discriminate].
  - intros ->. reflexivity.
  - intros n x xs o ->. reflexivity.
Qed.

(* two handlers declared for one reply name exclude each other exactly when they name the same outcome or one of them is
   `always` - in either order of declaration (`ReplyOn::excludes`, parser/attributes/msg.rs) *)
Theorem c18_translated_reply_outcomes_exclude : forall d (a b : outcome),
  calls check_fns (S d) "ReplyOn::excludes" [outcome_v a; outcome_v b] (CVal (VBool (outcome_eqb a b || is_always a || is_always b))) /\
  calls check_fns (S d) "ReplyOn::excludes" [outcome_v b; outcome_v a] (CVal (VBool (outcome_eqb a b || is_always a || is_always b))).
Proof.
  intros d a b. split; [apply translated_reply_on_excludes|].
  rewrite (excludes_is_symmetric a b). apply translated_reply_on_excludes.
Qed.

(* the outcome names a handler may be declared for: exactly `success`, `error`, `always`; anything else is an error *)
Theorem c18_translated_reply_outcome_names : forall d (s : string),
  exists e, calls check_fns (S d) "ReplyOn::new" [VStr s]
    (CVal (match outcome_of_name s with Some o => VCon "Ok" [outcome_v o] | None => VCon "Err" [e] end)).
Proof. exact translated_reply_on_new. Qed.

(* two translators, one table: the regenerated table of outcome names the hand model of the reply table uses equals the function proved
   of the translated `ReplyOn::new` *)
Theorem c18_regenerated_outcome_table_is_the_translated_function : forall s,
  SV.Model.GenTables.reply_on_tag_of_string s = option_map outcome_tag (outcome_of_name s).
Proof. exact regenerated_outcome_table_is_the_translated_function. Qed.

Example c18_structural_example :
  new_method_diags [Other (VStr "const X"); Method "helper" [VStr "&self"] (VStr ""); Method "new" [] (VStr "pub const fn")] = [] /\
  new_method_diags [Method "new" [VStr "owner: Addr"] (VStr "")] = [VStr "Parameters not allowed in `new` method."] /\
  new_method_diags [Method "instantiate" [] (VStr "")] = [VStr "Missing `new` method in `impl` block."].
Proof. vm_compute. repeat split; reflexivity. Qed.

Print Assumptions c18_translated_missing_or_duplicated_handler.
Print Assumptions c18_translated_constructor_check.
Print Assumptions c18_translated_constructor_verdicts.
Print Assumptions c18_translated_reply_outcomes_exclude.
Print Assumptions c18_translated_reply_outcome_names.
Print Assumptions c18_regenerated_outcome_table_is_the_translated_function.
