(* C14, tie by TRANSLATION - the order of the repeatable attributes on an item (`sv::messages`, `sv::override_entry_point`,
   `sv::msg_attr`): the TRANSLATED attribute parser (parser/attributes/mod.rs; Facts/ParseRefine.v, ParseFacts.v) collects
   them in order of appearance, so reordering the attributes permutes the collected lists and changes nothing else about
   them. (That the consumers of these lists do not depend on their order is the core theorems of Props/C14.v and the L1 tie.)
   Statements only. *)
From Coq Require Import String List Bool Permutation.
Require Import SV.Model.Imp SV.Model.GenImpParse SV.Facts.ImpFacts SV.Facts.MacroRefine SV.Facts.ParseRefine SV.Facts.ParseFacts.
Import ListNotations.
Open Scope string_scope.
Open Scope list_scope.

Theorem c14_translated_repeatable_attributes_are_collected_in_order : forall d (l : list ain),
  calls PARSE (S (S (S d))) "ParsedSylviaAttributes::new" [VArr (map ain_v l)] (CVal (st_v (finish (fold_left step l init)))) /\
  s_messages (finish (fold_left step l init)) = flat_map (is_list_ok KMessages) l /\
  s_overrides (finish (fold_left step l init)) = flat_map (is_list_ok KOverride) l.
Proof.
  intros d l. destruct (parsed_repeatable_attributes l) as (_ & H2 & H3).
  split; [apply translated_parsed_attributes | exact (conj H2 H3)].
Qed.

Theorem c14_translated_reordering_attributes_permutes_the_collected : forall l l',
  Permutation l l' ->
  Permutation (s_messages (finish (fold_left step l init))) (s_messages (finish (fold_left step l' init))) /\
  Permutation (s_overrides (finish (fold_left step l init))) (s_overrides (finish (fold_left step l' init))) /\
  Permutation (s_mattrs (finish (fold_left step l init))) (s_mattrs (finish (fold_left step l' init))).
Proof. exact reordering_attributes_permutes_the_collected. Qed.

Example c14_translated_example :
  s_messages (finish (fold_left step
     [ {| a_path := ["sv"; "messages"]; a_content := IsList true (VStr "a as A"); a_msg_type := ""; a_resp := none |};
       {| a_path := ["sv"; "error"]; a_content := IsList true (VStr "E"); a_msg_type := ""; a_resp := none |};
       {| a_path := ["sv"; "messages"]; a_content := IsList false (VStr "syntax error"); a_msg_type := ""; a_resp := none |};
       {| a_path := ["sv"; "messages"]; a_content := IsList true (VStr "b as B"); a_msg_type := ""; a_resp := none |} ] init)) =
  [VStr "a as A"; VStr "b as B"].
Proof. vm_compute. reflexivity. Qed.

Print Assumptions c14_translated_repeatable_attributes_are_collected_in_order.
Print Assumptions c14_translated_reordering_attributes_permutes_the_collected.
