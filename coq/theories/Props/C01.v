(* C01 — Generated messages have the JSON shape named by the method signature.
   Statements only; proofs are in Facts/. For every codec (enc/dec) that round-trips well-typed
   values — i.e. for all JSON-encodable argument types — and every program. *)
From Coq Require Import String List Bool ZArith.
Require Import SV.Base.Json SV.Model.Kinds SV.Model.Casing SV.Model.Syntax SV.Model.Expand SV.Model.Sem SV.Model.Run.
Require Import SV.Facts.CasingFacts SV.Facts.TblNames SV.Facts.SemFacts SV.Facts.ExpandFacts SV.Facts.ProgramFacts.
Import ListNotations.
Open Scope string_scope.

(* The casing core: for method names made of lower-case words, each optionally ending in digits,
   joined by single underscores, serde's snake_case of convert_case's UpperCamel is the identity. *)
Theorem c01_wire_name_is_method_name : forall n, nf_name n = true -> wire_name n = n.
Proof. exact wire_name_of_nf_name. Qed.

Section C01.
Variable val : Type.
Variable enc : ty -> val -> json.
Variable dec : ty -> json -> option val.
Variable is_option : ty -> bool.
Variable default_val : ty -> val.
Variable wt : ty -> val -> bool.
Hypothesis dec_enc : forall t v, wt t v = true -> dec t (enc t v) = Some v.

(* exec / query / sudo message of a contract: exactly one key, the method's name; one entry per
   argument after the context, in order, keyed by the argument's name, holding its own encoding *)
Theorem c01_contract_message_shape : forall c k m vals,
  enum_kind k = true -> wf_enum (contract_enum c k) ->
  In m (c_methods c) -> method_kind m = Some k -> nf_name (m_name m) = true ->
  length vals = length (m_args m) ->
  encode_enum val enc (contract_enum c k) (mkMsg (m_name m) (arg_fields val (m_args m) vals)) =
  Some (JObj [(m_name m, JObj (arg_body val enc (m_args m) vals))]).
Proof. exact (c01f_contract_message_shape val enc). Qed.

Theorem c01_interface_message_shape : forall i k m vals,
  enum_kind k = true -> wf_enum (iface_enum i k) ->
  In m (i_methods i) -> method_kind m = Some k -> nf_name (m_name m) = true ->
  length vals = length (m_args m) ->
  encode_enum val enc (iface_enum i k) (mkMsg (m_name m) (arg_fields val (m_args m) vals)) =
  Some (JObj [(m_name m, JObj (arg_body val enc (m_args m) vals))]).
Proof. exact (c01f_interface_message_shape val enc). Qed.

(* parsing that JSON gives back an equal message *)
Theorem c01_contract_round_trip : forall c k m vals j,
  enum_kind k = true -> wf_enum (contract_enum c k) ->
  In m (c_methods c) -> method_kind m = Some k -> length vals = length (m_args m) ->
  Forall (fun p : arg * val => wt (strip_self (a_ty (fst p))) (snd p) = true) (combine (m_args m) vals) ->
  encode_enum val enc (contract_enum c k) (mkMsg (m_name m) (arg_fields val (m_args m) vals)) = Some j ->
  decode_enum val dec is_option default_val (contract_enum c k) j = inr (mkMsg (m_name m) (arg_fields val (m_args m) vals)).
Proof. exact (c01f_contract_round_trip val enc dec is_option default_val wt dec_enc). Qed.

Theorem c01_interface_round_trip : forall i k m vals j,
  enum_kind k = true -> wf_enum (iface_enum i k) ->
  In m (i_methods i) -> method_kind m = Some k -> length vals = length (m_args m) ->
  Forall (fun p : arg * val => wt (strip_self (a_ty (fst p))) (snd p) = true) (combine (m_args m) vals) ->
  encode_enum val enc (iface_enum i k) (mkMsg (m_name m) (arg_fields val (m_args m) vals)) = Some j ->
  decode_enum val dec is_option default_val (iface_enum i k) j = inr (mkMsg (m_name m) (arg_fields val (m_args m) vals)).
Proof. exact (c01f_interface_round_trip val enc dec is_option default_val wt dec_enc). Qed.

(* each message type accepts one message name per annotated method of its kind ... *)
Theorem c01_accepted_names : forall c k n,
  enum_kind k = true ->
  (In n (map vd_wire (contract_enum c k)) <->
   exists m, In m (c_methods c) /\ method_kind m = Some k /\ wire_name (m_name m) = n).
Proof. exact (c01f_accepted_names). Qed.

(* ... and no other *)
Theorem c01_other_names_rejected : forall c k n body,
  ~ In n (map vd_wire (contract_enum c k)) ->
  decode_enum val dec is_option default_val (contract_enum c k) (JObj [(n, body)]) = inl (EUnknownVariant n).
Proof. exact (c01f_other_names_rejected val dec is_option default_val). Qed.

End C01.

Check c01_contract_message_shape.

(* Non-vacuity: a three-method contract with the digit-bearing name `foo1_bar`, in the concrete
   universe of Sem.v; hypotheses checked by computation, and the theorem's conclusion observed. *)
Definition ex_contract : contract :=
  mkContract "Ctr" [] [] []
    [ mkMethod "instantiate" [ASv "msg" (SvMsg "instantiate" None [] None)] [] (TName "R") [] [];
      mkMethod "foo1_bar" [ASv "msg" (SvMsg "exec" None [] None)]
               [mkArg "amount" (TName "u64") []; mkArg "to" (TPath [("Option", [TName "String"])]) []] (TName "R") [] [];
      mkMethod "set_owner" [ASv "msg" (SvMsg "exec" None [] None)] [mkArg "who" (TName "String") []] (TName "R") [] [];
      mkMethod "get" [ASv "msg" (SvMsg "query" None [] None)] [] (TPath [("StdResult", [TName "u32"])]) [] [] ]
    true false.

Example c01_example :
  co_diags (expand_contract ex_contract) = [] /\
  map vd_wire (contract_enum ex_contract KExec) = ["foo1_bar"; "set_owner"] /\
  nf_name "foo1_bar" = true /\
  encode_enum json u_enc (contract_enum ex_contract KExec)
    (mkMsg "foo1_bar" [("amount", JNum 7%Z); ("to", JNull)]) =
  Some (JObj [("foo1_bar", JObj [("amount", JNum 7%Z); ("to", JNull)])]).
Proof. vm_compute. repeat split; reflexivity. Qed.

Print Assumptions c01_wire_name_is_method_name.
Print Assumptions c01_contract_message_shape.
Print Assumptions c01_interface_message_shape.
Print Assumptions c01_contract_round_trip.
Print Assumptions c01_interface_round_trip.
Print Assumptions c01_accepted_names.
Print Assumptions c01_other_names_rejected.
