(* C03, tie by TRANSLATION - the macro's construction of the contract-level message from the attached interfaces
   (`Interfaces::emit_deserialization_attempts`, `emit_glue_message_variants`, `emit_glue_message_types` of
   sylvia-derive/src/types/interfaces.rs, translated on every run: GenImpMacro.bridge_fns, Facts/BridgeRefine.v). Statements
   only; see Props/C05T.v for the status of such theorems. *)
From Coq Require Import String List Bool.
Require Import SV.Model.Imp SV.Model.GenImpBridge SV.Facts.ImpFacts SV.Facts.MacroRefine SV.Facts.BridgeRefine.
Import ListNotations.
Open Scope string_scope.
Open Scope list_scope.

(* For ANY list of attached interfaces (module, variant) and any kind: the deserialiser tries the interfaces in order, and
   the attempt for interface i consults the name list of THAT interface's module for THIS kind
   (`module_i::sv::<entry point name of the kind>_messages()`) and, when the name is listed, decodes into THAT
   interface's variant. *)
Theorem c03_translated_deserialization_attempts : forall kv (l : list iface),
  calls BR 2 "Interfaces::emit_deserialization_attempts" [ifaces_v l; kv] (CVal (VArr (map (attempt_spec kv) l))).
Proof. exact translated_deserialization_attempts. Qed.

(* the variants of the contract-level message: one per interface, in order, variant i wrapping the message type of
   interface i for this kind - `<Contract as module_i::sv::InterfaceMessagesApi>::<accessor of the kind>` *)
Theorem c03_translated_glue_variants_and_types : forall kv contract (l : list iface),
  calls BR 2 "Interfaces::emit_glue_message_variants" [ifaces_v l; kv; contract] (CVal (VArr (map (glue_variant_spec kv contract) l))) /\
  calls BR 2 "Interfaces::emit_glue_message_types" [ifaces_v l; kv; contract] (CVal (VArr (map (glue_type_spec kv contract) l))).
Proof. intros. split; [apply translated_glue_variants | apply translated_glue_types]. Qed.

(* `GlueMessage::emit` puts the contract-level message of a kind together, for ANY list of attached interfaces: the variants,
   types, dispatch arms and deserialisation attempts are the per-interface ones above, in order; the lists checked for
   overlap (and quoted in the "unsupported message" error) are those of every interface followed by the contract's own,
   `1 + number of interfaces` of them; the contract's own attempt consults the contract's own list; the response table exists for queries only and
   is fed by every interface's table followed by the contract's own. *)
Theorem c03_translated_contract_level_message :
  forall params w contract k err custom (l : list iface), In k six_kinds ->
  exists r,
    calls BR 3 "GlueMessage::emit" [glue_self params w contract k err custom l] (CVal r) /\
    lookup "messages_call" (holes_of r) =
      Some (VArr (map (msgs_call_spec (kind_v k)) l ++ [quote_v "&# messages_fn_name ()" [("messages_fn_name", own_fn k contract)]])) /\
    lookup "variants_cnt" (holes_of r) = Some (VNat (S (length l))) /\
    lookup "variants" (holes_of r) = Some (VArr (map (glue_variant_spec (kind_v k) contract) l)) /\
    lookup "types" (holes_of r) = Some (VArr (map (glue_type_spec (kind_v k) contract) l)) /\
    lookup "dispatch_arms" (holes_of r) = Some (VArr (map (arm_spec k) l)) /\
    lookup "interfaces_deserialization_attempts" (holes_of r) = Some (VArr (map (attempt_spec (kind_v k)) l)) /\
    is_quote_with (lookup "contract_deserialization_attempt" (holes_of r))
      [("messages_fn_name", own_fn k contract); ("contract_name", VCon ".fold_type" [VCon "StripGenerics" []; contract])] /\
    (if k =? "Query"
     then exists rs t own, lookup "response_schemas" (holes_of r) = Some rs /\
            lookup "response_schemas_calls" (holes_of rs) = Some (VArr (map (schemas_call_spec (kind_v k) contract) l ++ [quote_v t own]))
     else lookup "response_schemas" (holes_of r) = Some (quote_v "" [])).
Proof. exact translated_glue_message. Qed.

(* the templates were found (the statements are not about empty texts), and a concrete run *)
Example c03_translated_example :
  t_attempt <> "" /\ t_glue_variant <> "" /\ t_glue_type <> "" /\ t_iface_enum <> "" /\
  call BR 2 200 "Interfaces::emit_deserialization_attempts" [ifaces_v [(VStr "cw1", VStr "Cw1", false, false); (VStr "cw20", VStr "Cw20", false, false)]; kind_v "Exec"] =
    Some (CVal (VArr [attempt_spec (kind_v "Exec") (VStr "cw1", VStr "Cw1", false, false); attempt_spec (kind_v "Exec") (VStr "cw20", VStr "Cw20", false, false)])).
Proof. vm_compute. repeat split; discriminate. Qed.

Print Assumptions c03_translated_deserialization_attempts.
Print Assumptions c03_translated_glue_variants_and_types.
Print Assumptions c03_translated_contract_level_message.
