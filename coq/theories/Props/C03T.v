(* C03, tie by TRANSLATION - the macro's construction of the contract-level message from the attached interfaces
   (`Interfaces::emit_deserialization_attempts`, `emit_glue_message_variants`, `emit_glue_message_types` of
   sylvia-derive/src/types/interfaces.rs, translated on every run: GenImpMacro.bridge_fns, Facts/BridgeRefine.v). Statements
   only; see Props/C05T.v for the status of such theorems. *)
From Coq Require Import String List Bool.
Require Import SV.Model.Imp SV.Model.GenImpMacro SV.Facts.ImpFacts SV.Facts.MacroRefine SV.Facts.BridgeRefine.
Import ListNotations.
Open Scope string_scope.
Open Scope list_scope.

(* For ANY list of attached interfaces (module, variant) and any kind: the deserialiser tries the interfaces in order, and
   the attempt for interface i consults the name list of THAT interface's module for THIS kind
   (`module_i::sv::<entry point name of the kind>_messages()`) and, when the name is listed, decodes into THAT
   interface's variant. *)
Theorem c03_translated_deserialization_attempts : forall kv (l : list (value * value)),
  calls BR 2 "Interfaces::emit_deserialization_attempts" [ifaces_v l; kv] (CVal (VArr (map (attempt_spec kv) l))).
Proof. exact translated_deserialization_attempts. Qed.

(* the variants of the contract-level message: one per interface, in order, variant i wrapping the message type of
   interface i for this kind - `<Contract as module_i::sv::InterfaceMessagesApi>::<accessor of the kind>` *)
Theorem c03_translated_glue_variants_and_types : forall kv contract (l : list (value * value)),
  calls BR 2 "Interfaces::emit_glue_message_variants" [ifaces_v l; kv; contract] (CVal (VArr (map (glue_variant_spec kv contract) l))) /\
  calls BR 2 "Interfaces::emit_glue_message_types" [ifaces_v l; kv; contract] (CVal (VArr (map (glue_type_spec kv contract) l))).
Proof. intros. split; [apply translated_glue_variants | apply translated_glue_types]. Qed.

(* the templates were found (the statements are not about empty texts), and a concrete run *)
Example c03_translated_example :
  t_attempt <> "" /\ t_glue_variant <> "" /\ t_glue_type <> "" /\ t_iface_enum <> "" /\
  call BR 2 200 "Interfaces::emit_deserialization_attempts" [ifaces_v [(VStr "cw1", VStr "Cw1"); (VStr "cw20", VStr "Cw20")]; kind_v "Exec"] =
    Some (CVal (VArr [attempt_spec (kind_v "Exec") (VStr "cw1", VStr "Cw1"); attempt_spec (kind_v "Exec") (VStr "cw20", VStr "Cw20")])).
Proof. vm_compute. repeat split; discriminate. Qed.

Print Assumptions c03_translated_deserialization_attempts.
Print Assumptions c03_translated_glue_variants_and_types.
