(* The hand model's selection of the methods that become variants of a kind (`scan` of Model/Expand.v: the methods whose parsed
   attributes carry a `sv::msg` of that kind) and the selection PROVED of the translated code (`is_message_of` of
   Facts/ImplRefine.v: the first well-formed `sv::msg(..)` names the kind) agree, for every method list. *)
From Coq Require Import String List Bool.
Require Import SV.Base.Util SV.Model.Kinds SV.Model.GenTables SV.Model.Syntax SV.Model.Expand SV.Facts.AttrFacts.
Require Import SV.Model.Imp SV.Facts.MacroRefine SV.Facts.ParseRefine SV.Facts.ParseFacts SV.Facts.TableBridge.
Import ListNotations.
Open Scope string_scope.
Open Scope list_scope.

Definition kind_ctor (k : kind) : string :=
  match k with KInst => "Instantiate" | KExec => "Exec" | KQuery => "Query" | KMigrate => "Migrate" | KReply => "Reply" | KSudo => "Sudo" end.

(* the kind a `sv::msg(..)` attribute of the hand model announces, when its content is well-formed *)
Definition announced (a : attr) : option kind :=
  match a with
  | ASv name (SvMsg kn _ _ ro) =>
      match sv_attr_of_string name with
      | Some tag =>
          if tag =? "Msg" then
            match msg_kind_of_string kn with
            | Some k => match (match ro with None => Some ROAlways | Some r => reply_on_of_string r end) with Some _ => Some k | None => None end
            | None => None
            end
          else None
      | None => None
      end
  | _ => None
  end.

Lemma add_diag_msg p d : p_msg (add_diag p d) = p_msg p. Proof. reflexivity. Qed.

Lemma parse_one_msg_kind p a :
  option_map ma_kind (p_msg (parse_one p a)) = match p_msg p with Some m => Some (ma_kind m) | None => announced a end.
Proof.
  destruct a as [path text|name b]; cbn [parse_one announced]; [destruct (p_msg p); reflexivity|].
  destruct (sv_attr_of_string name) as [tag|]; [|destruct b; destruct (p_msg p); reflexivity].
  unfold apply_sv.
  repeat match goal with
         | |- context [if (tag =? ?s)%string then _ else _] => destruct (tag =? s)
         end;
    destruct b; cbn; try (destruct (p_msg p); reflexivity).
  all: repeat match goal with
              | |- context [match ?x with Some _ => _ | None => _ end] => destruct x eqn:?
              | |- context [if ?c then _ else _] => destruct c
              | |- context [match ?l with [] => _ | _ :: _ => _ end] => destruct l
              end; cbn; try reflexivity;
    match goal with |- option_map ma_kind (p_msg ?q) = _ => destruct (p_msg q) eqn:?; cbn; congruence end.
Qed.

Lemma fold_parse_msg_kind l : forall p,
  option_map ma_kind (p_msg (fold_left parse_one l p)) =
  match p_msg p with Some m => Some (ma_kind m) | None => hd_error (flat_map (fun a => match announced a with Some k => [k] | None => [] end) l) end.
Proof.
  induction l as [|a l IH]; intros p; cbn [fold_left flat_map]; [destruct (p_msg p); reflexivity|].
  rewrite IH. pose proof (parse_one_msg_kind p a) as H.
  destruct (p_msg (parse_one p a)) as [m'|]; cbn in H.
  - destruct (p_msg p) as [m|]; [exact H|]. rewrite <- H. reflexivity.
  - destruct (p_msg p) as [m|]; [discriminate|]. rewrite <- H. reflexivity.
Qed.

Lemma parse_attrs_msg l : p_msg (parse_attrs l) = p_msg (fold_left parse_one l empty_parsed).
Proof.
  unfold parse_attrs. destruct (p_variant_attrs (fold_left parse_one l empty_parsed)); [reflexivity|].
  destruct (p_msg (fold_left parse_one l empty_parsed)) as [m|] eqn:E; [|rewrite E; reflexivity].
  destruct (is_struct_kind (ma_kind m)); [rewrite add_diag_msg|]; rewrite E; reflexivity.
Qed.

(* the kind of message a method of the hand model is: the first well-formed `sv::msg` among its attributes *)
Theorem hand_model_method_kind l :
  option_map ma_kind (p_msg (parse_attrs l)) = hd_error (flat_map (fun a => match announced a with Some k => [k] | None => [] end) l).
Proof. rewrite parse_attrs_msg, fold_parse_msg_kind. reflexivity. Qed.

(* ---- the same attributes as the translated parser sees them ---- *)
Definition ain_of_msg (a : attr) : ain :=
  match a with
  | AForeign path text => {| a_path := path; a_content := NotList (VStr text); a_msg_type := ""; a_resp := none |}
  | ASv name b =>
      {| a_path := ["sv"; name];
         a_content := match announced a with Some _ => IsList true (VStr "well-formed") | None => IsList false (VStr "refused by its parser") end;
         a_msg_type := match announced a with Some k => kind_ctor k | None => "" end; a_resp := none |}
  end.

Lemma one_attribute_announces_the_same (a : attr) :
  map (fun m : string * value * value => fst (fst m)) (msg_of (ain_of_msg a)) = match announced a with Some k => [kind_ctor k] | None => [] end.
Proof.
  destruct a as [path text|name b]; unfold msg_of; cbn [ain_of_msg a_path a_content a_msg_type a_resp].
  - destruct (classify path) as [[]|]; reflexivity.
  - cbn [classify]. rewrite String.eqb_refl.
    assert (Hk : forall k, announced (ASv name b) = Some k -> name_kind name = Some KMsg).
    { intros k. cbn [announced]. destruct b; try discriminate. rewrite regenerated_table_is_the_translated_function.
      destruct (name_kind name) as [[]|]; cbn; try discriminate. reflexivity. }
    destruct (announced (ASv name b)) as [k|] eqn:Ea.
    + rewrite (Hk k eq_refl). reflexivity.
    + destruct (name_kind name) as [[]|]; reflexivity.
Qed.

(* for EVERY method of the hand model: the kind its parsed attributes carry is the kind the translated code selects it for *)
Theorem hand_model_and_translated_code_select_the_same_methods (l : list attr) :
  option_map (fun m => kind_ctor (ma_kind m)) (p_msg (parse_attrs l)) =
  option_map (fun m : string * value * value => fst (fst m)) (hd_error (flat_map msg_of (map ain_of_msg l))).
Proof.
  pose proof (hand_model_method_kind l) as H.
  assert (E : option_map (fun m => kind_ctor (ma_kind m)) (p_msg (parse_attrs l)) = option_map kind_ctor (option_map ma_kind (p_msg (parse_attrs l))))
    by (destruct (p_msg (parse_attrs l)); reflexivity).
  rewrite E, H. clear E H.
  induction l as [|a l IH]; [reflexivity|]. cbn [map flat_map].
  pose proof (one_attribute_announces_the_same a) as Ha.
  destruct (announced a) as [k|].
  - destruct (msg_of (ain_of_msg a)) as [|m r]; [discriminate|]. cbn in Ha. injection Ha as Hm _. cbn. rewrite Hm. reflexivity.
  - destruct (msg_of (ain_of_msg a)) as [|m r]; [|discriminate]. cbn. exact IH.
Qed.
