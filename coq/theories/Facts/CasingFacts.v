(* For normal-form method names the wire name equals the method name (C01), via an
   accumulator-free reformulation of the boundary splitter. *)
From Coq Require Import String Ascii List NArith Bool Lia.
Require Import SV.Model.Casing.
Import ListNotations.
Open Scope list_scope.

Definition us : ascii := "_"%char.

(* ---------- character facts by exhaustive case analysis (256 cases) ---------- *)
Lemma lower_props c : is_lower c = true ->
  is_upper c = false /\ is_digit c = false /\ is_delim c = false /\ to_lower c = c /\
  is_upper (to_upper c) = true /\ to_lower (to_upper c) = c.
Proof. destruct c as [[] [] [] [] [] [] [] []]; vm_compute; intros H; try discriminate H; repeat split; reflexivity. Qed.

Lemma digit_props c : is_digit c = true ->
  is_upper c = false /\ is_lower c = false /\ is_delim c = false /\ to_lower c = c /\ to_upper c = c.
Proof. destruct c as [[] [] [] [] [] [] [] []]; vm_compute; intros H; try discriminate H; repeat split; reflexivity. Qed.

Lemma us_props : is_upper us = false /\ is_lower us = false /\ is_digit us = false /\ is_delim us = true.
Proof. vm_compute. repeat split; reflexivity. Qed.

Ltac bs := simpl; repeat rewrite andb_false_r; simpl; try reflexivity.

(* ---------- accumulator-free splitter ---------- *)
Fixpoint split' (s : list ascii) : list (list ascii) :=
  match s with
  | [] => [[]]
  | c :: rest =>
      if is_delim c then [] :: split' rest
      else if boundary_after c rest then [c] :: split' rest
      else match split' rest with w :: ws => (c :: w) :: ws | [] => [[c]] end
  end.

Lemma split'_nonnil s : split' s <> [].
Proof. destruct s as [|c r]; simpl; [discriminate|]. destruct (is_delim c); [discriminate|]. destruct (boundary_after c r); [discriminate|]. destruct (split' r); discriminate. Qed.

Lemma split_aux_split' : forall s cur,
  split_aux cur s = match split' s with w :: ws => (rev cur ++ w) :: ws | [] => [rev cur] end.
Proof.
  induction s as [|c r IH]; intros cur; simpl.
  - now rewrite app_nil_r.
  - destruct (is_delim c).
    + rewrite app_nil_r. rewrite (IH []). simpl. destruct (split' r) eqn:E; [exfalso; eapply split'_nonnil; eauto|]. reflexivity.
    + destruct (boundary_after c r).
      * rewrite (IH []). simpl. destruct (split' r) eqn:E; [exfalso; eapply split'_nonnil; eauto|]. reflexivity.
      * rewrite (IH (c :: cur)). destruct (split' r) eqn:E; [exfalso; eapply split'_nonnil; eauto|].
        simpl. now rewrite <- app_assoc.
Qed.

Lemma split_aux_nil s : split_aux [] s = split' s.
Proof. rewrite split_aux_split'. simpl. destruct (split' s) eqn:E; [exfalso; eapply split'_nonnil; eauto|]. reflexivity. Qed.

(* ---------- normal-form names ---------- *)
Record word := { letters : list ascii; digits : list ascii }.
Definition wf_word (w : word) : Prop :=
  letters w <> [] /\ forallb is_lower (letters w) = true /\ forallb is_digit (digits w) = true.
Definition render_word (w : word) := letters w ++ digits w.
Fixpoint render (ws : list word) : list ascii :=
  match ws with [] => [] | [w] => render_word w | w :: r => render_word w ++ us :: render r end.

(* tail of a word inside a rendered name: end of string, or "_" followed by more *)
Definition tail_ok (t : list ascii) : Prop := t = [] \/ exists t', t = us :: t'.

Lemma boundary_digit_tail c t : is_digit c = true -> tail_ok t -> boundary_after c t = false.
Proof.
  intros Hc [->|[t' ->]]; simpl; auto.
  destruct (digit_props c Hc) as (Hu & Hl & _). destruct us_props as (Uu & Ul & Ud & _).
  rewrite Hu, Hl, Uu, Ul, Ud. bs.
Qed.

Lemma split'_digits : forall ds t, forallb is_digit ds = true -> tail_ok t ->
  split' (ds ++ t) = match split' t with w :: ws => (ds ++ w) :: ws | [] => [ds] end.
Proof.
  induction ds as [|c r IH]; intros t Hds Ht; simpl.
  - destruct (split' t) eqn:E; [exfalso; eapply split'_nonnil; eauto|reflexivity].
  - simpl in Hds. apply andb_true_iff in Hds as [Hc Hr].
    destruct (digit_props c Hc) as (Hu & Hl & Hd & _). rewrite Hd.
    assert (Hb : boundary_after c (r ++ t) = false).
    { destruct r as [|c2 r2]; simpl app.
      - apply boundary_digit_tail; auto.
      - simpl in Hr. apply andb_true_iff in Hr as [Hc2 _].
        destruct (digit_props c2 Hc2) as (Hu2 & Hl2 & _). simpl. rewrite Hu, Hl, Hu2, Hl2. bs. }
    rewrite Hb. rewrite (IH t Hr Ht). destruct (split' t) eqn:E; [exfalso; eapply split'_nonnil; eauto|]. reflexivity.
Qed.

(* what follows the letters of a word: its digits then the tail *)
Lemma split'_letters : forall ls ds t, ls <> [] -> forallb is_lower ls = true -> forallb is_digit ds = true -> tail_ok t ->
  split' (ls ++ ds ++ t) =
    match ds with
    | [] => match split' t with w :: ws => (ls ++ w) :: ws | [] => [ls] end
    | _ => ls :: split' (ds ++ t)
    end.
Proof.
  induction ls as [|c r IH]; intros ds t Hne Hls Hds Ht; [congruence|].
  simpl in Hls. apply andb_true_iff in Hls as [Hc Hr].
  destruct (lower_props c Hc) as (Hu & Hd & Hdel & _).
  simpl. rewrite Hdel.
  destruct r as [|c2 r2].
  - (* last letter *)
    simpl app. destruct ds as [|d ds'].
    + simpl app.
      assert (Hb : boundary_after c t = false).
      { destruct Ht as [->|[t' ->]]; simpl; auto. destruct us_props as (Uu & Ul & Ud & _).
        rewrite Hu, Hd, Uu, Ud. simpl. now rewrite !andb_false_r. }
      rewrite Hb. destruct (split' t) eqn:E; [exfalso; eapply split'_nonnil; eauto|]. reflexivity.
    + simpl in Hds. apply andb_true_iff in Hds as [Hdd _].
      simpl app. simpl boundary_after. rewrite Hc, Hdd. simpl. rewrite orb_true_r. reflexivity.
  - (* more letters follow *)
    simpl in Hr. pose proof Hr as Hr'. apply andb_true_iff in Hr' as [Hc2 _].
    destruct (lower_props c2 Hc2) as (Hu2 & Hd2 & _).
    assert (Hb : boundary_after c ((c2 :: r2) ++ ds ++ t) = false).
    { simpl. rewrite Hu, Hd, Hu2, Hd2. simpl. now rewrite !andb_false_r. }
    rewrite Hb. rewrite (IH ds t); auto; [|discriminate].
    destruct ds.
    + destruct (split' t) eqn:E; [exfalso; eapply split'_nonnil; eauto|]. reflexivity.
    + reflexivity.
Qed.

Definition words_of (w : word) : list (list ascii) :=
  letters w :: match digits w with [] => [] | ds => [ds] end.

Lemma split'_word w t : wf_word w -> tail_ok t ->
  split' (render_word w ++ t) =
    match t with
    | [] => words_of w
    | _ :: t' => words_of w ++ split' t'
    end.
Proof.
  intros (Hne & Hl & Hd) Ht. unfold render_word, words_of. rewrite <- app_assoc.
  rewrite split'_letters; auto.
  destruct (digits w) as [|d ds] eqn:Ed.
  - destruct Ht as [->|[t' ->]]; simpl.
    + now rewrite app_nil_r.
    + now rewrite ?app_nil_r.
  - rewrite split'_digits; auto.
    destruct Ht as [->|[t' ->]]; simpl.
    + now rewrite app_nil_r.
    + now rewrite ?app_nil_r.
Qed.

Lemma split'_render : forall ws, ws <> [] -> Forall wf_word ws ->
  split' (render ws) = flat_map words_of ws.
Proof.
  induction ws as [|w r IH]; intros Hne Hwf; [congruence|].
  inversion Hwf as [|? ? Hw Hr]; subst.
  destruct r as [|w2 r2].
  - simpl render. rewrite <- (app_nil_r (render_word w)). rewrite split'_word; auto; [|now left].
    simpl. now rewrite app_nil_r.
  - change (render (w :: w2 :: r2)) with (render_word w ++ us :: render (w2 :: r2)).
    rewrite split'_word; auto; [|right; eauto].
    rewrite IH; [reflexivity | discriminate | assumption].
Qed.

Lemma words_nonempty w : wf_word w -> forallb nonempty (words_of w) = true.
Proof.
  intros (Hne & _). unfold words_of. destruct (letters w); [congruence|]. simpl. destruct (digits w); reflexivity.
Qed.

Lemma filter_all {B} (f : B -> bool) l : forallb f l = true -> filter f l = l.
Proof. induction l as [|x r IH]; simpl; auto. intros H. apply andb_true_iff in H as [Hx Hr]. rewrite Hx. f_equal. auto. Qed.

Lemma split_words_render ws : ws <> [] -> Forall wf_word ws -> split_words (render ws) = flat_map words_of ws.
Proof.
  intros Hne Hwf. unfold split_words. rewrite split_aux_nil, split'_render; auto.
  apply filter_all. clear Hne. induction Hwf as [|w r Hw Hr IH]; [reflexivity|].
  cbn [flat_map]. rewrite forallb_app. rewrite (words_nonempty w Hw). exact IH.
Qed.

(* ---------- upper camel and serde ---------- *)
Lemma map_to_lower_lower ls : forallb is_lower ls = true -> map to_lower ls = ls.
Proof. induction ls as [|c r IH]; simpl; auto. intros H. apply andb_true_iff in H as [Hc Hr]. destruct (lower_props c Hc) as (_ & _ & _ & -> & _). f_equal; auto. Qed.

Lemma map_to_lower_digit ds : forallb is_digit ds = true -> map to_lower ds = ds.
Proof. induction ds as [|c r IH]; simpl; auto. intros H. apply andb_true_iff in H as [Hc Hr]. destruct (digit_props c Hc) as (_ & _ & _ & -> & _). f_equal; auto. Qed.

Lemma serde_aux_plain : forall s rest, forallb (fun c => is_lower c || is_digit c)%bool s = true ->
  serde_aux false (s ++ rest) = s ++ serde_aux false rest.
Proof.
  induction s as [|c r IH]; intros rest H; simpl; auto.
  simpl in H. apply andb_true_iff in H as [Hc Hr].
  apply orb_true_iff in Hc as [Hc|Hc].
  - destruct (lower_props c Hc) as (-> & _ & _ & -> & _). simpl. f_equal. auto.
  - destruct (digit_props c Hc) as (-> & _ & _ & -> & _). simpl. f_equal. auto.
Qed.

Definition camel_word (w : word) : list ascii := concat (map capital (words_of w)).

Lemma camel_word_eq w : wf_word w -> exists c r, letters w = c :: r /\ is_lower c = true /\
  camel_word w = to_upper c :: r ++ digits w.
Proof.
  intros (Hne & Hl & Hd). destruct (letters w) as [|c r] eqn:El; [congruence|].
  simpl in Hl. apply andb_true_iff in Hl as [Hc Hr].
  exists c, r. repeat split; auto. unfold camel_word, words_of. rewrite El.
  destruct (digits w) as [|d ds] eqn:Ed; simpl.
  - rewrite map_to_lower_lower by auto. now rewrite ?app_nil_r.
  - simpl in Hd. apply andb_true_iff in Hd as [Hdd Hds].
    destruct (digit_props d Hdd) as (_ & _ & _ & _ & ->).
    rewrite map_to_lower_lower by auto. rewrite map_to_lower_digit by auto. rewrite ?app_nil_r. reflexivity.
Qed.

Lemma plain_word w : wf_word w -> forall c r, letters w = c :: r ->
  forallb (fun c => is_lower c || is_digit c)%bool (r ++ digits w) = true.
Proof.
  intros (Hne & Hl & Hd) c r El. rewrite El in Hl. simpl in Hl. apply andb_true_iff in Hl as [_ Hr].
  rewrite forallb_app. apply andb_true_iff. split.
  - rewrite forallb_forall in *. intros x Hx. rewrite (Hr x Hx). reflexivity.
  - rewrite forallb_forall in *. intros x Hx. rewrite (Hd x Hx). apply orb_true_r.
Qed.

Lemma upper_camel_render ws : ws <> [] -> Forall wf_word ws ->
  cc_upper_camel (render ws) = concat (map camel_word ws).
Proof.
  intros Hne Hwf. unfold cc_upper_camel. rewrite split_words_render; auto.
  clear Hne Hwf. induction ws as [|w r IH]; [reflexivity|].
  cbn [flat_map map concat]. rewrite map_app, concat_app. rewrite IH. reflexivity.
Qed.

Lemma serde_rest : forall ws, Forall wf_word ws ->
  serde_aux false (concat (map camel_word ws)) = concat (map (fun w => us :: render_word w) ws).
Proof.
  induction 1 as [|w r Hw Hr IH]; simpl; auto.
  destruct (camel_word_eq w Hw) as (c & rr & El & Hc & ->).
  destruct (lower_props c Hc) as (_ & _ & _ & _ & Hup & Hback).
  cbn [map concat]. change ((to_upper c :: rr ++ digits w) ++ concat (map camel_word r))
    with (to_upper c :: (rr ++ digits w) ++ concat (map camel_word r)).
  cbn [serde_aux negb andb]. rewrite Hup, Hback.
  rewrite (serde_aux_plain (rr ++ digits w)) by (eapply plain_word; eauto).
  rewrite IH. unfold render_word. rewrite El. simpl. now rewrite <- app_assoc.
Qed.

Lemma render_cons w r : r <> [] -> render (w :: r) = render_word w ++ concat (map (fun w => us :: render_word w) r).
Proof.
  revert w. induction r as [|w2 r2 IH]; intros w Hne; [congruence|].
  change (render (w :: w2 :: r2)) with (render_word w ++ us :: render (w2 :: r2)).
  cbn [map concat]. f_equal. cbn [app]. f_equal.
  destruct r2 as [|w3 r3].
  - cbn. now rewrite app_nil_r.
  - apply IH. discriminate.
Qed.

Theorem serde_of_camel_is_identity ws : ws <> [] -> Forall wf_word ws ->
  serde_variant_snake (cc_upper_camel (render ws)) = render ws.
Proof.
  intros Hne Hwf. rewrite upper_camel_render; auto.
  destruct ws as [|w r]; [congruence|]. inversion Hwf as [|? ? Hw Hr]; subst.
  cbn [map concat]. destruct (camel_word_eq w Hw) as (c & rr & El & Hc & ->).
  destruct (lower_props c Hc) as (_ & _ & _ & _ & Hup & Hback).
  unfold serde_variant_snake.
  change ((to_upper c :: rr ++ digits w) ++ concat (map camel_word r))
    with (to_upper c :: (rr ++ digits w) ++ concat (map camel_word r)).
  cbn [serde_aux negb andb app]. rewrite Hback.
  rewrite (serde_aux_plain (rr ++ digits w)) by (eapply plain_word; eauto).
  rewrite serde_rest by auto.
  destruct r as [|w2 r2].
  - cbn. unfold render_word. rewrite El. cbn. now rewrite app_nil_r.
  - rewrite render_cons by discriminate. unfold render_word at 2. rewrite El. cbn [app]. now rewrite <- app_assoc.
Qed.


Lemma render_cons_us w w2 r2 : render (w :: w2 :: r2) = render_word w ++ us :: render (w2 :: r2).
Proof. reflexivity. Qed.

(* ---------- from the boolean guard `nf_name` to the structured normal form ---------- *)
Lemma render_single w : render [w] = render_word w.
Proof. reflexivity. Qed.

Lemma nf_parse : forall s,
  (nf_words false false s = true -> exists ws, ws <> [] /\ Forall wf_word ws /\ s = render ws) /\
  (forall ls, ls <> [] -> forallb is_lower ls = true -> nf_words true false s = true ->
     exists ws, ws <> [] /\ Forall wf_word ws /\ ls ++ s = render ws) /\
  (forall ls ds, ls <> [] -> forallb is_lower ls = true -> forallb is_digit ds = true -> nf_words true true s = true ->
     exists ws, ws <> [] /\ Forall wf_word ws /\ ls ++ ds ++ s = render ws).
Proof.
  induction s as [|c r [IHC [IHA IHB]]].
  - split; [simpl; discriminate|]. split.
    + intros ls Hne Hl _. exists [{| letters := ls; digits := [] |}].
      split; [discriminate|]. split; [repeat constructor; auto|]. cbn. unfold render_word. reflexivity.
    + intros ls ds Hne Hl Hd _. exists [{| letters := ls; digits := ds |}].
      split; [discriminate|]. split; [repeat constructor; auto|]. cbn. unfold render_word. cbn. now rewrite app_nil_r.
  - split; [|split].
    + cbn [nf_words]. destruct (is_lower c) eqn:El.
      * intros H. destruct (IHA [c]) as (ws & Hne & Hwf & E); auto; [discriminate|cbn; now rewrite El|]. exists ws. auto.
      * destruct (is_digit c); [discriminate|]. destruct (Ascii.eqb c "_"); discriminate.
    + intros ls Hne Hl. cbn [nf_words]. destruct (is_lower c) eqn:El.
      * intros H. destruct (IHA (ls ++ [c])) as (ws & Hne' & Hwf & E); auto.
        { destruct ls; discriminate. }
        { rewrite forallb_app, Hl. cbn. now rewrite El. }
        exists ws. repeat split; auto. rewrite <- E. now rewrite <- app_assoc.
      * destruct (is_digit c) eqn:Ed.
        { intros H. destruct (IHB ls [c]) as (ws & Hne' & Hwf & E); auto; [cbn; now rewrite Ed|]. exists ws. auto. }
        destruct (Ascii.eqb_spec c "_") as [->|Hn]; [|discriminate].
        intros H. destruct (IHC H) as (ws & Hne' & Hwf & E).
        exists ({| letters := ls; digits := [] |} :: ws). split; [discriminate|]. split.
        { constructor; auto. repeat split; auto. }
        destruct ws as [|w2 r2]; [congruence|]. rewrite render_cons_us. unfold render_word at 1. cbn [letters digits].
        subst r. rewrite app_nil_r. reflexivity.
    + intros ls ds Hne Hl Hd. cbn [nf_words]. destruct (is_lower c) eqn:El; [discriminate|].
      destruct (is_digit c) eqn:Ed.
      { intros H. destruct (IHB ls (ds ++ [c])) as (ws & Hne' & Hwf & E); auto.
        { rewrite forallb_app, Hd. cbn. now rewrite Ed. }
        exists ws. repeat split; auto. rewrite <- E. now rewrite <- !app_assoc. }
      destruct (Ascii.eqb_spec c "_") as [->|Hn]; [|discriminate].
      intros H. destruct (IHC H) as (ws & Hne' & Hwf & E).
      exists ({| letters := ls; digits := ds |} :: ws). split; [discriminate|]. split.
      { constructor; auto. repeat split; auto. }
      destruct ws as [|w2 r2]; [congruence|]. rewrite render_cons_us. unfold render_word at 1. cbn [letters digits].
      subst r. now rewrite <- app_assoc.
Qed.

Theorem wire_name_of_nf_name : forall s, nf_name s = true -> wire_name s = s.
Proof.
  intros s H. unfold nf_name in H. destruct (nf_parse (list_ascii_of_string s)) as [HC _].
  destruct (HC H) as (ws & Hne & Hwf & E).
  unfold wire_name, serde_snake, upper_camel, on_str.
  rewrite list_ascii_of_string_of_list_ascii, E, serde_of_camel_is_identity by assumption.
  rewrite <- E. apply string_of_list_ascii_of_string.
Qed.

(* non-vacuity: foo1_bar *)
Example nf_foo1_bar : nf_name "foo1_bar" = true /\ wire_name "foo1_bar" = "foo1_bar"%string.
Proof. split; reflexivity. Qed.
