(* Correctness of the model of assert_no_intersection for any number of strictly sorted lists. *)
From Coq Require Import List Arith Bool Lia Sorted.
From Coq Require String.
Require Import SV.Model.Intersect SV.Base.StrOrder.
Import ListNotations.

Lemma length_set_nth {B} (l : list B) k v : length (set_nth l k v) = length l.
Proof. revert k; induction l as [|x r IH]; intros [|k]; simpl; auto. Qed.

Lemma nth_error_set_nth_eq {B} (l : list B) k v :
  k < length l -> nth_error (set_nth l k v) k = Some v.
Proof. revert k; induction l as [|x r IH]; intros [|k] H; simpl in *; try lia; auto. apply IH; lia. Qed.

Lemma nth_error_set_nth_neq {B} (l : list B) k k' v :
  k <> k' -> nth_error (set_nth l k v) k' = nth_error l k'.
Proof.
  revert k k'; induction l as [|x r IH]; intros [|k] [|k'] H; simpl; auto; try congruence.
Qed.


Section Merge.
Context {A : Type} {O : Ord A}.
Variable lt : A -> A -> Prop.
Hypothesis ltb_spec : forall a b, ltb a b = true <-> lt a b.
Hypothesis eqb_spec : forall a b, eqb a b = true <-> a = b.
Hypothesis lt_irrefl : forall a, ~ lt a a.
Hypothesis lt_trans : forall a b c, lt a b -> lt b c -> lt a c.
Hypothesis lt_total : forall a b, lt a b \/ a = b \/ lt b a.

(* ------------------------------------------------------------------ *)
(* Specification                                                        *)

Definition intersects (ls : list (list A)) : Prop :=
  exists k k' l l' x, k <> k' /\ nth_error ls k = Some l /\ nth_error ls k' = Some l' /\ In x l /\ In x l'.

Inductive ssorted : list A -> Prop :=
| ss_nil : ssorted []
| ss_cons a l : ssorted l -> (forall b, In b l -> lt a b) -> ssorted (a :: l).

Lemma ssorted_nth l : ssorted l -> forall i j a b, i < j -> nth_error l i = Some a -> nth_error l j = Some b -> lt a b.
Proof.
  induction 1 as [|a l Hs IH Hall]; intros i j x y Hij Hi Hj.
  - destruct i; discriminate.
  - destruct i as [|i]; destruct j as [|j]; try lia; simpl in *.
    + inversion Hi; subst. apply Hall. eapply nth_error_In; eauto.
    + apply (IH i j x y); [lia|assumption|assumption].
Qed.

(* ------------------------------------------------------------------ *)
(* Invariants                                                           *)

Section Inv.
Variable ls : list (list A).
Hypothesis sorted : forall k l, nth_error ls k = Some l -> ssorted l.

Definition wf_st (l : list A) (s : st) : Prop :=
  match s with
  | Empty => l = []
  | Ongoing i => i < length l
  | Finished i => S i = length l
  end.

Definition WF (sts : list st) : Prop :=
  length sts = length ls /\
  forall k l s, nth_error ls k = Some l -> nth_error sts k = Some s -> wf_st l s.

Definition consumed (s : st) (a : nat) : Prop :=
  match s with Ongoing i => a < i | Finished i => a <= i | Empty => False end.

Definition J (sts : list st) : Prop :=
  forall k k' l l' s a x y, k <> k' ->
    nth_error ls k = Some l -> nth_error ls k' = Some l' ->
    nth_error sts k = Some s -> consumed s a -> nth_error l a = Some x -> In y l' -> x <> y.

Definition remaining_st (l : list A) (s : st) : nat :=
  match s with Ongoing i => length l - i | _ => 0 end.

Fixpoint remaining (ls0 : list (list A)) (sts : list st) : nat :=
  match ls0, sts with
  | l :: lr, s :: sr => remaining_st l s + remaining lr sr
  | _, _ => 0
  end.

Lemma WF_init : WF (init_states ls).
Proof.
  split. { unfold init_states; now rewrite map_length. }
  intros k l s Hl Hs. unfold init_states in Hs.
  rewrite nth_error_map, Hl in Hs. simpl in Hs. inversion Hs; subst.
  destruct l; simpl; auto; lia.
Qed.

Lemma J_init : J (init_states ls).
Proof.
  intros k k' l l' s a x y _ Hl _ Hs Hc _ _.
  unfold init_states in Hs. rewrite nth_error_map, Hl in Hs. simpl in Hs.
  inversion Hs; subst. destruct l; simpl in Hc; lia.
Qed.

(* get_next specification *)
Definition is_min (sts : list st) (k : nat) (bound : nat) : Prop :=
  exists i, nth_error sts k = Some (Ongoing i) /\
    forall k' i' a b, k' < bound -> nth_error sts k' = Some (Ongoing i') ->
      elem ls k i = Some a -> elem ls k' i' = Some b -> ~ lt b a.

Lemma elem_some sts k i : WF sts -> nth_error sts k = Some (Ongoing i) -> exists a, elem ls k i = Some a.
Proof.
  intros [Hlen Hwf] Hs. unfold elem.
  assert (Hk : k < length ls). { rewrite <- Hlen. apply nth_error_Some. congruence. }
  destruct (nth_error ls k) as [l|] eqn:El. 2:{ apply nth_error_None in El. lia. }
  specialize (Hwf _ _ _ El Hs). simpl in Hwf.
  destruct (nth_error l i) eqn:E; eauto. apply nth_error_None in E. lia.
Qed.

Lemma get_next_from_spec sts : WF sts ->
  forall n j out, j + n = length sts ->
    ((forall k', k' < j -> forall i', nth_error sts k' <> Some (Ongoing i')) /\ out = 0 /\ (0 < length sts)
     \/ (out < j /\ is_min sts out j)) ->
    exists out', get_next_from ls sts out (seq j n) = Some out' /\
      ((forall k', k' < length sts -> forall i', nth_error sts k' <> Some (Ongoing i')) /\ out' = 0
       \/ (out' < length sts /\ is_min sts out' (length sts))).
Proof.
  intros HWF n. induction n as [|n IH]; intros j out Hj Hinv.
  - simpl. exists out. split; auto. assert (j = length sts) by lia. subst j.
    destruct Hinv as [(Hno & -> & _)|[Ho Hm]]; [left|right]; auto.
  - simpl. assert (Hjlt : j < length sts) by lia.
    destruct (nth_error sts j) as [sj|] eqn:Esj. 2:{ apply nth_error_None in Esj. lia. }
    unfold next_step. rewrite Esj.
    destruct sj as [oi|fi|].
    + (* j is ongoing *)
      destruct Hinv as [(Hno & -> & Hpos)|[Ho (ii & Hout & Hmin)]].
      * (* no ongoing so far, out = 0 *)
        destruct (nth_error sts 0) as [s0|] eqn:Es0. 2:{ apply nth_error_None in Es0. lia. }
        destruct s0 as [i0|f0|].
        -- (* sts[0] ongoing: then j must be 0 *)
           destruct j as [|j']. 2:{ exfalso. eapply (Hno 0); eauto. lia. }
           rewrite Esj in Es0. inversion Es0; subst i0.
           destruct (elem_some sts 0 oi HWF Esj) as [a Ea]. rewrite Ea.
           assert (ltb a a = false) as ->.
           { destruct (ltb a a) eqn:E; auto. apply ltb_spec in E. exfalso; eapply lt_irrefl; eauto. }
           apply IH; [lia|]. right. split; [lia|]. exists oi. split; auto.
           intros k' i' x y Hk' Hs' Hx Hy. assert (k' = 0) by lia. subst k'.
           rewrite Esj in Hs'. inversion Hs'; subst i'. rewrite Hx in Hy. inversion Hy; subst. apply lt_irrefl.
        -- apply IH; [lia|]. right. split; [lia|]. exists oi. split; auto.
           intros k' i' x y Hk' Hs' Hx Hy.
           assert (k' = j). { destruct (Nat.eq_dec k' j); auto. exfalso. eapply (Hno k'); eauto. lia. }
           subst k'. rewrite Esj in Hs'. inversion Hs'; subst i'. rewrite Hx in Hy. inversion Hy; subst. apply lt_irrefl.
        -- apply IH; [lia|]. right. split; [lia|]. exists oi. split; auto.
           intros k' i' x y Hk' Hs' Hx Hy.
           assert (k' = j). { destruct (Nat.eq_dec k' j); auto. exfalso. eapply (Hno k'); eauto. lia. }
           subst k'. rewrite Esj in Hs'. inversion Hs'; subst i'. rewrite Hx in Hy. inversion Hy; subst. apply lt_irrefl.
      * rewrite Hout.
        destruct (elem_some sts out ii HWF Hout) as [a Ea].
        destruct (elem_some sts j oi HWF Esj) as [b Eb]. rewrite Ea, Eb.
        destruct (ltb b a) eqn:Eba.
        -- apply ltb_spec in Eba. apply IH; [lia|]. right. split; [lia|]. exists oi. split; auto.
           intros k' i' x y Hk' Hs' Hx Hy. rewrite Eb in Hx. inversion Hx; subst x.
           destruct (Nat.eq_dec k' j) as [->|Hne].
           ++ rewrite Esj in Hs'. inversion Hs'; subst i'. rewrite Eb in Hy. inversion Hy; subst. apply lt_irrefl.
           ++ intro Hyb. eapply (Hmin k' i' a y); eauto; try lia.
        -- apply IH; [lia|]. right. split; [lia|]. exists ii. split; auto.
           intros k' i' x y Hk' Hs' Hx Hy. rewrite Ea in Hx. inversion Hx; subst x.
           destruct (Nat.eq_dec k' j) as [->|Hne].
           ++ rewrite Esj in Hs'. inversion Hs'; subst i'. rewrite Eb in Hy. inversion Hy; subst y.
              intro Hlt. apply ltb_spec in Hlt. congruence.
           ++ apply (Hmin k' i' a y); auto; lia.
    + (* j finished: out unchanged *)
      apply IH; [lia|].
      destruct Hinv as [(Hno & -> & Hpos)|[Ho (ii & Hout & Hmin)]].
      * left. repeat split; auto. intros k' Hk' i' Hs'.
        destruct (Nat.eq_dec k' j) as [->|Hne]; [congruence|]. eapply (Hno k'); eauto. lia.
      * right. split; [lia|]. exists ii. split; auto.
        intros k' i' x y Hk' Hs' Hx Hy.
        destruct (Nat.eq_dec k' j) as [->|Hne]; [congruence|]. apply (Hmin k' i' x y); auto; lia.
    + apply IH; [lia|].
      destruct Hinv as [(Hno & -> & Hpos)|[Ho (ii & Hout & Hmin)]].
      * left. repeat split; auto. intros k' Hk' i' Hs'.
        destruct (Nat.eq_dec k' j) as [->|Hne]; [congruence|]. eapply (Hno k'); eauto. lia.
      * right. split; [lia|]. exists ii. split; auto.
        intros k' i' x y Hk' Hs' Hx Hy.
        destruct (Nat.eq_dec k' j) as [->|Hne]; [congruence|]. apply (Hmin k' i' x y); auto; lia.
Qed.

Lemma should_end_false sts : should_end sts = false -> exists k i, nth_error sts k = Some (Ongoing i).
Proof.
  unfold should_end. induction sts as [|s r IH]; simpl; [discriminate|].
  destruct s as [i|i|]; simpl.
  - intros _. exists 0, i. reflexivity.
  - intros H. destruct (IH H) as (k & i' & Hk). exists (S k), i'. exact Hk.
  - intros H. destruct (IH H) as (k & i' & Hk). exists (S k), i'. exact Hk.
Qed.

Lemma should_end_true sts : should_end sts = true -> forall k i, nth_error sts k <> Some (Ongoing i).
Proof.
  unfold should_end. intros H k i Hk. rewrite forallb_forall in H.
  specialize (H _ (nth_error_In _ _ Hk)). discriminate.
Qed.

Lemma get_next_spec sts : WF sts -> should_end sts = false ->
  exists k, get_next ls sts = Some k /\ k < length sts /\ is_min sts k (length sts).
Proof.
  intros HWF Hse. destruct (should_end_false _ Hse) as (k0 & i0 & Hk0).
  assert (Hpos : 0 < length sts). { assert (k0 < length sts) by (apply nth_error_Some; congruence). lia. }
  destruct (get_next_from_spec sts HWF (length sts) 0 0) as (out' & Hg & Hres); [lia| |].
  - left. repeat split; auto. intros k' Hk'. lia.
  - exists out'. split; [exact Hg|].
    destruct Hres as [(Hno & _)|[Ho Hm]]; auto.
    exfalso. eapply (Hno k0); eauto. apply nth_error_Some. congruence.
Qed.

(* verify specification *)
Lemma verify_from_spec sts index inner b : WF sts -> nth_error sts index = Some (Ongoing inner) ->
  elem ls index inner = Some b ->
  forall n j, j + n = length sts ->
    exists r, verify_from ls sts index (seq j n) = Some r /\
      (r = true -> exists i o, i <> index /\ (nth_error sts i = Some (Ongoing o) \/ nth_error sts i = Some (Finished o))
                              /\ elem ls i o = Some b) /\
      (r = false -> forall i o a, j <= i -> i < length sts -> i <> index ->
          (nth_error sts i = Some (Ongoing o) \/ nth_error sts i = Some (Finished o)) ->
          elem ls i o = Some a -> a <> b).
Proof.
  intros HWF Hidx Eb n. induction n as [|n IH]; intros j Hj.
  - simpl. exists false. repeat split; try discriminate. intros; lia.
  - simpl. assert (Hjlt : j < length sts) by lia.
    unfold verify_one. destruct (Nat.eqb j index) eqn:Eji.
    + apply Nat.eqb_eq in Eji. subst j.
      destruct (IH (S index)) as (r & Hr & Ht & Hf); [lia|]. exists r. split; auto. split; auto.
      intros Hrf i o a Hle Hlt Hne. apply Hf; auto. lia.
    + apply Nat.eqb_neq in Eji.
      destruct (nth_error sts j) as [sj|] eqn:Esj. 2:{ apply nth_error_None in Esj. lia. }
      assert (Hwfj : forall o, sj = Ongoing o \/ sj = Finished o -> exists a, elem ls j o = Some a).
      { intros o Ho. destruct HWF as [Hlen Hwf]. unfold elem.
        assert (Hk : j < length ls) by lia.
        destruct (nth_error ls j) as [l|] eqn:El. 2:{ apply nth_error_None in El. lia. }
        specialize (Hwf _ _ _ El Esj). destruct Ho; subst sj; simpl in Hwf;
          (destruct (nth_error l o) eqn:E; eauto; apply nth_error_None in E; lia). }
      assert (Hcase : forall o, sj = Ongoing o \/ sj = Finished o ->
         exists r, match (match elem ls j o, elem ls index inner with Some a, Some b0 => Some (eqb a b0) | _, _ => None end) with
                   | Some true => Some true | Some false => verify_from ls sts index (seq (S j) n) | None => None end = Some r /\
      (r = true -> exists i o, i <> index /\ (nth_error sts i = Some (Ongoing o) \/ nth_error sts i = Some (Finished o))
                              /\ elem ls i o = Some b) /\
      (r = false -> forall i o a, j <= i -> i < length sts -> i <> index ->
          (nth_error sts i = Some (Ongoing o) \/ nth_error sts i = Some (Finished o)) ->
          elem ls i o = Some a -> a <> b)).
      { intros o Ho. destruct (Hwfj o Ho) as [a Ea]. rewrite Ea, Eb.
        destruct (eqb a b) eqn:Eab.
        - exists true. split; auto. split; [|discriminate]. intros _.
          apply eqb_spec in Eab. subst b. exists j, o. repeat split; auto.
          destruct Ho; subst sj; auto.
        - destruct (IH (S j)) as (r & Hr & Ht & Hf); [lia|]. exists r. split; auto. split; auto.
          intros Hrf i o' a' Hle Hlt Hne Hs Ha'.
          destruct (Nat.eq_dec i j) as [->|Hnej].
          + assert (o' = o). { rewrite Esj in Hs. destruct Ho as [->| ->]; destruct Hs as [Hs|Hs]; inversion Hs; auto. }
            subst o'. rewrite Ea in Ha'. inversion Ha'; subst a'.
            intro; subst. assert (eqb b b = true) by (apply eqb_spec; auto). congruence.
          + apply (Hf Hrf i o' a'); auto; lia. }
      destruct sj as [o|o|].
      * rewrite Hidx. apply (Hcase o). auto.
      * rewrite Hidx. apply (Hcase o). auto.
      * destruct (IH (S j)) as (r & Hr & Ht & Hf); [lia|]. exists r. split; auto. split; auto.
        intros Hrf i o' a' Hle Hlt Hne Hs Ha'.
        destruct (Nat.eq_dec i j) as [->|Hnej].
        -- rewrite Esj in Hs. destruct Hs; discriminate.
        -- apply (Hf Hrf i o' a'); auto; lia.
Qed.


Lemma remaining_set_nth : forall (ls0 : list (list A)) sts k l i new,
  nth_error ls0 k = Some l -> nth_error sts k = Some (Ongoing i) ->
  remaining_st l new < remaining_st l (Ongoing i) ->
  remaining ls0 (set_nth sts k new) < remaining ls0 sts.
Proof.
  induction ls0 as [|l0 lr IH]; intros sts k l i new Hl Hs Hlt.
  - destruct k; discriminate.
  - destruct sts as [|s sr]; [destruct k; discriminate|].
    destruct k as [|k]; simpl in *.
    + inversion Hl; inversion Hs; subst. simpl in *. lia.
    + specialize (IH sr k l i new Hl Hs Hlt). lia.
Qed.

Lemma remaining_init : forall ls0 : list (list A), remaining ls0 (init_states ls0) <= length (concat ls0).
Proof.
  induction ls0 as [|l lr IH]; simpl; [lia|].
  rewrite app_length. destruct l; simpl in *; lia.
Qed.

Lemma advance_spec sts k i : WF sts -> nth_error sts k = Some (Ongoing i) ->
  exists l new, nth_error ls k = Some l /\ advance ls sts k = Some (set_nth sts k new) /\
    (new = Finished i /\ S i = length l \/ new = Ongoing (S i) /\ S i < length l) /\
    WF (set_nth sts k new) /\ remaining ls (set_nth sts k new) < remaining ls sts.
Proof.
  intros HWF Hs. pose proof HWF as [Hlen Hwf].
  assert (Hk : k < length sts) by (apply nth_error_Some; congruence).
  destruct (nth_error ls k) as [l|] eqn:El. 2:{ apply nth_error_None in El. lia. }
  pose proof (Hwf _ _ _ El Hs) as Hi. simpl in Hi.
  unfold advance. rewrite Hs, El.
  replace (i + 1) with (S i) by lia.
  destruct (Nat.eqb (length l) (S i)) eqn:E.
  - apply Nat.eqb_eq in E. exists l, (Finished i). repeat split; auto.
    + now rewrite length_set_nth.
    + intros k' l' s' Hl' Hs'. destruct (Nat.eq_dec k k') as [<-|Hne].
      * rewrite nth_error_set_nth_eq in Hs' by lia. inversion Hs'; subst. rewrite El in Hl'. inversion Hl'; subst. simpl. lia.
      * rewrite nth_error_set_nth_neq in Hs' by auto. eapply Hwf; eauto.
    + eapply remaining_set_nth; eauto. simpl. lia.
  - apply Nat.eqb_neq in E. exists l, (Ongoing (S i)). repeat split; auto.
    + right. split; auto. lia.
    + now rewrite length_set_nth.
    + intros k' l' s' Hl' Hs'. destruct (Nat.eq_dec k k') as [<-|Hne].
      * rewrite nth_error_set_nth_eq in Hs' by lia. inversion Hs'; subst. rewrite El in Hl'. inversion Hl'; subst. simpl. lia.
      * rewrite nth_error_set_nth_neq in Hs' by auto. eapply Hwf; eauto.
    + eapply remaining_set_nth; eauto. simpl. lia.
Qed.

Lemma J_step sts k i l new x :
  WF sts -> J sts -> nth_error sts k = Some (Ongoing i) -> nth_error ls k = Some l ->
  nth_error l i = Some x ->
  (new = Finished i \/ new = Ongoing (S i)) ->
  (* x is minimal among ongoing heads *)
  (forall k' i' b, nth_error sts k' = Some (Ongoing i') -> elem ls k' i' = Some b -> ~ lt b x) ->
  (* no collision at the cursors *)
  (forall k' o a, k' <> k -> (nth_error sts k' = Some (Ongoing o) \/ nth_error sts k' = Some (Finished o)) ->
       elem ls k' o = Some a -> a <> x) ->
  J (set_nth sts k new).
Proof.
  intros HWF HJ Hs Hl Hx Hnew Hmin Hver.
  pose proof HWF as [Hlen Hwf].
  assert (Hk : k < length sts) by (apply nth_error_Some; congruence).
  intros k1 k2 l1 l2 s1 a x1 y Hne Hl1 Hl2 Hs1 Hcons Hx1 Hy.
  destruct (Nat.eq_dec k k1) as [<-|Hk1].
  - rewrite nth_error_set_nth_eq in Hs1 by lia. inversion Hs1; subst s1.
    rewrite Hl in Hl1. inversion Hl1; subst l1.
    assert (Ha : a < i \/ a = i). { destruct Hnew; subst new; simpl in Hcons; lia. }
    destruct Ha as [Ha| ->].
    + eapply (HJ k k2 l l2 (Ongoing i) a x1 y); eauto.
    + rewrite Hx in Hx1. inversion Hx1; subst x1.
      destruct (In_nth_error _ _ Hy) as [b Hb].
      assert (Hk2 : k2 < length sts). { rewrite Hlen. apply nth_error_Some. congruence. }
      destruct (nth_error sts k2) as [s2|] eqn:Es2. 2:{ apply nth_error_None in Es2. lia. }
      pose proof (Hwf _ _ _ Hl2 Es2) as Hw2.
      assert (Hblt : b < length l2) by (apply nth_error_Some; congruence).
      intro Hxy. subst y.
      destruct s2 as [c|c|]; simpl in Hw2.
      * destruct (lt_eq_lt_dec b c) as [[Hbc|Hbc]|Hbc].
        -- eapply (HJ k2 k l2 l (Ongoing c) b x x); eauto. eapply nth_error_In; eauto.
        -- subst b. eapply (Hver k2 c x); eauto. unfold elem. now rewrite Hl2.
        -- destruct (nth_error l2 c) as [h|] eqn:Eh. 2:{ apply nth_error_None in Eh. lia. }
           assert (lt h x). { eapply ssorted_nth; [eapply sorted; eauto| |eauto|eauto]. exact Hbc. }
           eapply (Hmin k2 c h); eauto. unfold elem. now rewrite Hl2.
      * eapply (HJ k2 k l2 l (Finished c) b x x); eauto. simpl. lia. eapply nth_error_In; eauto.
      * subst l2. destruct b; discriminate.
  - rewrite nth_error_set_nth_neq in Hs1 by auto. eapply (HJ k1 k2); eauto.
Qed.

Lemma done_disjoint sts : WF sts -> J sts -> should_end sts = true -> ~ intersects ls.
Proof.
  intros [Hlen Hwf] HJ Hend (k & k' & l & l' & x & Hne & Hl & Hl' & Hx & Hx').
  destruct (In_nth_error _ _ Hx) as [a Ha].
  assert (Hk : k < length sts). { rewrite Hlen. apply nth_error_Some. congruence. }
  destruct (nth_error sts k) as [s|] eqn:Es. 2:{ apply nth_error_None in Es. lia. }
  pose proof (Hwf _ _ _ Hl Es) as Hw.
  assert (Halt : a < length l) by (apply nth_error_Some; congruence).
  destruct s as [i|i|]; simpl in Hw.
  - eapply should_end_true; eauto.
  - eapply (HJ k k' l l' (Finished i) a x x); eauto. simpl. lia.
  - subst l. destruct a; discriminate.
Qed.

Theorem run_correct : forall fuel sts, WF sts -> J sts -> remaining ls sts < fuel ->
  (run fuel ls sts = Done /\ ~ intersects ls) \/ (run fuel ls sts = Panic /\ intersects ls).
Proof.
  induction fuel as [|f IH]; intros sts HWF HJ Hrem; [lia|].
  simpl. destruct (should_end sts) eqn:Hend.
  - left. split; auto. eapply done_disjoint; eauto.
  - destruct (get_next_spec sts HWF Hend) as (k & Hg & Hk & (i & Hs & Hmin)). rewrite Hg.
    destruct (elem_some sts k i HWF Hs) as [x Ex].
    destruct (verify_from_spec sts k i x HWF Hs Ex (length sts) 0 eq_refl) as (r & Hr & Ht & Hf).
    unfold verify. rewrite Hr. destruct r.
    + right. split; auto.
      destruct (Ht eq_refl) as (k' & o & Hne & Hso & Eo).
      unfold elem in Ex, Eo.
      destruct (nth_error ls k) as [l|] eqn:El; [|discriminate].
      destruct (nth_error ls k') as [l'|] eqn:El'; [|discriminate].
      exists k, k', l, l', x. repeat split; auto; eapply nth_error_In; eauto.
    + destruct (advance_spec sts k i HWF Hs) as (l & new & El & Hadv & Hnew & HWF' & Hrem').
      rewrite Hadv. apply IH; auto; [|lia].
      assert (Hx : nth_error l i = Some x). { unfold elem in Ex. now rewrite El in Ex. }
      eapply (J_step sts k i l new x); eauto.
      * destruct Hnew as [[-> _]|[-> _]]; auto.
      * intros k' i' b Hs' Eb. eapply (Hmin k' i' x b); eauto.
        apply nth_error_Some. congruence.
      * intros k' o a Hne Hso Ea. eapply (Hf eq_refl k' o a); eauto; try lia.
        destruct Hso as [H|H]; apply nth_error_Some; congruence.
Qed.

Theorem assert_no_intersection_correct :
  (assert_no_intersection ls = Panic /\ intersects ls) \/ (assert_no_intersection ls = Done /\ ~ intersects ls).
Proof.
  unfold assert_no_intersection.
  destruct (run_correct (S (length (concat ls))) (init_states ls) WF_init J_init) as [H|H]; auto.
  pose proof (remaining_init ls). lia.
Qed.

End Inv.
End Merge.

(* ------------------------------------------------------------------ *)
(* Instance for strings under the byte-wise order, and a plainer reading of `intersects`. *)

Lemma ssorted_of_strongly (l : list String.string) : StronglySorted slt l -> ssorted slt l.
Proof.
  induction 1 as [|a l S IH F]; constructor; [exact IH|].
  rewrite Forall_forall in F. exact F.
Qed.

Definition shares (ls : list (list String.string)) : Prop :=
  exists i j s, i <> j /\ In s (nth i ls []) /\ In s (nth j ls []).

Lemma intersects_shares ls : intersects ls <-> shares ls.
Proof.
  split.
  - intros (k & k' & l & l' & x & Hne & Hk & Hk' & Hx & Hx').
    exists k, k', x. repeat split; auto.
    + rewrite (nth_error_nth _ _ _ Hk). exact Hx.
    + rewrite (nth_error_nth _ _ _ Hk'). exact Hx'.
  - intros (i & j & s & Hne & Hi & Hj).
    assert (Li : i < length ls).
    { destruct (Nat.lt_ge_cases i (length ls)) as [H|H]; auto. rewrite nth_overflow in Hi by exact H. destruct Hi. }
    assert (Lj : j < length ls).
    { destruct (Nat.lt_ge_cases j (length ls)) as [H|H]; auto. rewrite nth_overflow in Hj by exact H. destruct Hj. }
    exists i, j, (nth i ls []), (nth j ls []), s. repeat split; auto; apply nth_error_nth'; assumption.
Qed.

Lemma ltb_spec_str (a b : String.string) : ltb a b = true <-> slt a b.
Proof. split; intros H; exact H. Qed.

Lemma eqb_spec_str (a b : String.string) : eqb a b = true <-> a = b.
Proof. apply String.eqb_eq. Qed.

Theorem assert_no_intersection_strings (ls : list (list String.string)) :
  Forall (StronglySorted slt) ls ->
  (assert_no_intersection ls = Panic /\ shares ls) \/ (assert_no_intersection ls = Done /\ ~ shares ls).
Proof.
  intros Hs.
  assert (Hsorted : forall k l, nth_error ls k = Some l -> ssorted slt l).
  { intros k l Hk. apply ssorted_of_strongly. rewrite Forall_forall in Hs. apply Hs. eapply nth_error_In; eauto. }
  destruct (assert_no_intersection_correct slt ltb_spec_str eqb_spec_str slt_irrefl slt_trans ls Hsorted)
    as [[H1 H2]|[H1 H2]]; [left|right]; split; auto; rewrite <- intersects_shares; exact H2.
Qed.

Corollary assert_no_intersection_panic_iff ls :
  Forall (StronglySorted slt) ls -> (assert_no_intersection ls = Panic <-> shares ls).
Proof.
  intros Hs. destruct (assert_no_intersection_strings ls Hs) as [[H1 H2]|[H1 H2]]; split; intros H; auto; try contradiction.
  rewrite H1 in H. discriminate.
Qed.

Corollary assert_no_intersection_done_iff ls :
  Forall (StronglySorted slt) ls -> (assert_no_intersection ls = Done <-> ~ shares ls).
Proof.
  intros Hs. destruct (assert_no_intersection_strings ls Hs) as [[H1 H2]|[H1 H2]]; split; intros H; auto; try contradiction.
  rewrite H1 in H. discriminate.
Qed.

Corollary assert_no_intersection_never_stuck ls :
  Forall (StronglySorted slt) ls -> assert_no_intersection ls <> Stuck.
Proof.
  intros Hs. destruct (assert_no_intersection_strings ls Hs) as [[H1 _]|[H1 _]]; rewrite H1; discriminate.
Qed.
