(* Which arms of the contract-level dispatch convert the response and the context - macro logic translated from
   sylvia-derive (GenImpMacro.bridge_fns): `Interfaces::emit_dispatch_arms` (types/interfaces.rs) and
   `MsgType::emit_ctx_dispatch_values` (types/msg_type.rs). *)
From Coq Require Import String List Bool Arith Lia.
Require Import SV.Model.Imp SV.Model.GenImpBridge SV.Facts.ImpFacts SV.Facts.MacroRefine.
Import ListNotations.
Open Scope string_scope.
Open Scope list_scope.

Definition BR : program := bridge_fns ++ [rec_stub "crate_module" []].

(* an interface attached to the contract: its variant in the contract-level message and its custom(..) markers *)
Definition customs_v (has_msg has_query : bool) : value := VRec "Customs" [("has_msg", VBool has_msg); ("has_query", VBool has_query)].
Definition iface := (value * value * bool * bool)%type.          (* module, variant, custom(msg), custom(query) *)
Definition iface_v (i : iface) : value :=
  let '(m, variant, has_msg, has_query) := i in
  VRec "ContractMessageAttr" [("module", m); ("variant", variant); ("customs", customs_v has_msg has_query)].

Definition ifaces_v (l : list iface) : value := VRec "Interfaces" [("interfaces", VArr (map iface_v l))].

Definition run1 (k : string) (i : iface) : option ctl :=
  call BR 2 200 "Interfaces::emit_dispatch_arms" [VRec "Interfaces" [("interfaces", VArr [iface_v i])]; kind_v k].
Definition arm_text (r : option ctl) : string :=
  match r with Some (CVal (VArr [VCon "quote" [VStr t; _]])) => t | _ => "" end.
Definition ctx_text (k : string) (q : bool) : string :=
  match call BR 2 100 "MsgType::emit_ctx_dispatch_values" [kind_v k; customs_v false q] with
  | Some (CVal (VCon "quote" [VStr t; _])) => t | _ => "" end.

(* the texts, read off the translated program by running it once *)
Definition t_bridged : string := Eval vm_compute in arm_text (run1 "Exec" (VUnit, VUnit, true, false)).
Definition t_plain : string := Eval vm_compute in arm_text (run1 "Exec" (VUnit, VUnit, false, false)).
Definition t_ctx : string := Eval vm_compute in ctx_text "Instantiate" false.
Definition t_ctx3 : string := Eval vm_compute in ctx_text "Exec" true.
Definition t_ctx2 : string := Eval vm_compute in ctx_text "Query" true.

(* the response of an interface's handler is converted (IntoResponse) exactly for exec and sudo of an interface marked
   custom(msg) *)
Definition converts_response (k : string) (has_msg : bool) : bool := ((k =? "Exec") || (k =? "Sudo")) && has_msg.

Definition arm_spec (k : string) (i : iface) : value :=
  let '(_, variant, has_msg, has_query) := i in
  let ctx := VCon ".emit_ctx_dispatch_values" [kind_v k; customs_v has_msg has_query] in
  let wrapper := VCon ".emit_msg_wrapper_name" [kind_v k] in
  if converts_response k has_msg
  then quote_v t_bridged [("contract_enum_name", wrapper); ("variant", variant); ("sylvia", cm); ("ctx", ctx)]
  else quote_v t_plain [("contract_enum_name", wrapper); ("variant", variant); ("ctx", ctx)].

(* the context handed on is emptied of the custom query type (into_empty) exactly for exec / query / sudo of an interface
   marked custom(query); it is passed on unchanged otherwise *)
Definition ctx_spec (k : string) (has_query : bool) : value :=
  if (k =? "Exec") && has_query then quote_v t_ctx3 []
  else if ((k =? "Query") || (k =? "Sudo")) && has_query then quote_v t_ctx2 []
  else quote_v t_ctx [].

Lemma translated_ctx_dispatch_values k (has_msg has_query : bool) : In k six_kinds ->
  calls BR 2 "MsgType::emit_ctx_dispatch_values" [kind_v k; customs_v has_msg has_query] (CVal (ctx_spec k has_query)).
Proof.
  intros Hk. unfold six_kinds in Hk. simpl in Hk.
  destruct Hk as [<-|[<-|[<-|[<-|[<-|[<-|[]]]]]]]; destruct has_msg, has_query;
    (apply (calls_of_run _ 2 100); [reflexivity | vm_compute; reflexivity]).
Qed.

Local Ltac cmp K := apply (evals_compute _ K); intros ?gg ?fl; reflexivity.

Lemma firstn_snoc' {A} (l : list A) j x : nth_error l j = Some x -> firstn (S j) l = firstn j l ++ [x].
Proof.
  revert j. induction l as [|a l IH]; intros [|j] H; simpl in H; try discriminate.
  - injection H as ->. reflexivity.
  - change (firstn (S (S j)) (a :: l)) with (a :: firstn (S j) l). rewrite (IH j H). reflexivity.
Qed.

(* for ANY list of interfaces: one arm per interface, in order, each as arm_spec says *)
Theorem translated_dispatch_arms k (l : list iface) : In k six_kinds ->
  calls BR 2 "Interfaces::emit_dispatch_arms" [ifaces_v l; kind_v k]
    (CVal (VArr (map (arm_spec k) l))).
Proof.
  intros Hk.
  eapply calls_intro with (c := CVal _); try reflexivity.
  simpl fn_body. cbn [app combine fn_params].
  eapply ev_block; [|reflexivity].
  eapply ev_stmts_let.
  - eapply ev_call; [apply ev_list_nil|]. apply (calls_of_run _ 1 20); reflexivity.
  - reflexivity.
  - cbn [app]. eapply ev_stmts_let; [cmp 4 | reflexivity |]. cbn [app].
    apply ev_stmts_tail. eapply ev_block; [|reflexivity].
    eapply ev_stmts_let; [cmp 4 | reflexivity |].
    eapply ev_stmts_let; [cmp 4 | reflexivity |]. cbn [app].
    match goal with |- evals_stmts ?P ?dd (SExpr (EFor ?i ?lo ?hi ?b) :: ?rest) ?en ?res =>
      destruct (ev_for_inv P dd i b
                 (fun j en' => en' = ("map_acc1", VArr (map (arm_spec k) (firstn j l))) :: List.tl en)
                 (length l) 0 en) as (enf & Hfor & Hinv) end.
    + reflexivity.
    + intros j en' Hj ->. cbn [List.tl].
      destruct (nth_error l j) as [[[[m variant] hm] hq]|] eqn:Hnth; [|apply nth_error_None in Hnth; lia].
      assert (Hm : nth_error (map iface_v l) j = Some (iface_v (m, variant, hm, hq))) by (rewrite nth_error_map, Hnth; reflexivity).
      rewrite (firstn_snoc' _ _ _ Hnth), map_app. cbn [map].
      unfold six_kinds in Hk. simpl in Hk.
      destruct Hk as [<-|[<-|[<-|[<-|[<-|[<-|[]]]]]]]; destruct hm;
        (eexists; eexists; split;
         [ eapply ev_block; [|reflexivity];
           eapply ev_stmts_let; [apply (evals_compute _ 6); intros gg fl; simpl; rewrite Hm; reflexivity | reflexivity |];
           apply ev_stmts_tail; cmp 30
         | reflexivity ]).
    + rewrite Hinv in Hfor. cbn [List.tl] in Hfor.
      eapply ev_stmts_expr.
      * eapply ev_for; [cmp 2 | |].
        -- apply (evals_compute _ 4). intros gg fl. simpl. rewrite map_length. reflexivity.
        -- rewrite Nat.sub_0_r. exact Hfor.
      * apply ev_stmts_tail. cbn [Nat.add]. rewrite firstn_all. cmp 4.
Qed.

(* ------------------------------------------------------------------------------------------ *)
(* The other per-interface pieces of the contract-level message (`Interfaces::emit_*` of types/interfaces.rs), for ANY list of
   attached interfaces and any kind: each is one template instance per interface, in order, mentioning THAT interface's module
   and variant and the kind's own names. *)


Definition one_text (f : string) (extra : list value) : string :=
  match call BR 2 200 f (ifaces_v [(VUnit, VUnit, false, false)] :: VUnit :: extra) with
  | Some (CVal (VArr [VCon "quote" [VStr t; _]])) => t | _ => "" end.
Definition inner_text (f : string) (extra : list value) (hole : string) : string :=
  match call BR 2 200 f (ifaces_v [(VUnit, VUnit, false, false)] :: VUnit :: extra) with
  | Some (CVal (VArr [VCon "quote" [_; VRec "holes" hs]])) =>
      match lookup hole hs with Some (VCon "quote" [VStr t; _]) => t | _ => "" end
  | _ => "" end.

Definition t_attempt : string := Eval vm_compute in one_text "Interfaces::emit_deserialization_attempts" [].
Definition t_msgs_call : string := Eval vm_compute in one_text "Interfaces::emit_messages_call" [].
Definition t_glue_variant : string := Eval vm_compute in one_text "Interfaces::emit_glue_message_variants" [VUnit].
Definition t_glue_type : string := Eval vm_compute in one_text "Interfaces::emit_glue_message_types" [VUnit].
Definition t_iface_enum : string := Eval vm_compute in inner_text "Interfaces::emit_glue_message_types" [VUnit] "interface_enum".
Definition t_schemas_call : string := Eval vm_compute in one_text "Interfaces::emit_response_schemas_calls" [VUnit].

(* the name list of a part for this kind: `<ep name of the kind>_messages` *)
Definition messages_fn (kv m : value) : value :=
  VCon "Ident::new" [VCon "format" [VStr "{}_messages"; VCon ".emit_ep_name" [kv]]; VCon ".span" [m]].
(* the message type of an interface for this kind: `<Contract as module::sv::InterfaceMessagesApi>::<accessor of the kind>` *)
Definition iface_enum (contract m : value) : value := quote_v t_iface_enum [("contract", contract); ("module", m)].

Definition attempt_spec (kv : value) (i : iface) : value :=
  let '(m, v, _, _) := i in quote_v t_attempt [("module", m); ("messages_fn_name", messages_fn kv m); ("variant", v)].
Definition msgs_call_spec (kv : value) (i : iface) : value :=
  let '(m, _, _, _) := i in quote_v t_msgs_call [("module", m); ("messages_fn_name", messages_fn kv m)].
Definition glue_variant_spec (kv contract : value) (i : iface) : value :=
  let '(m, v, _, _) := i in
  quote_v t_glue_variant [("variant", v); ("interface_enum", iface_enum contract m); ("type_name", VCon ".as_accessor_name" [kv])].
Definition glue_type_spec (kv contract : value) (i : iface) : value :=
  let '(m, _, _, _) := i in quote_v t_glue_type [("interface_enum", iface_enum contract m); ("type_name", VCon ".as_accessor_name" [kv])].
Definition schemas_call_spec (kv contract : value) (i : iface) : value :=
  let '(m, _, _, _) := i in quote_v t_schemas_call [("contract", contract); ("module", m); ("type_name", VCon ".as_accessor_name" [kv])].

Local Ltac map_proof l spec :=
  eapply calls_intro with (c := CVal _); try reflexivity;
  simpl fn_body; cbn [app combine fn_params];
  eapply ev_block; [|reflexivity]; apply ev_stmts_tail; eapply ev_block; [|reflexivity];
  (eapply ev_stmts_let; [cmp 4 | reflexivity |]);
  (eapply ev_stmts_let; [cmp 4 | reflexivity |]); cbn [app];
  match goal with |- evals_stmts ?P ?dd (SExpr (EFor ?i ?lo ?hi ?b) :: ?rest) ?en ?res =>
    let Hfor := fresh "Hfor" in let Hinv := fresh "Hinv" in let enf := fresh "enf" in
    destruct (ev_for_inv P dd i b (fun j en' => en' = ("map_acc1", VArr (map spec (firstn j l))) :: List.tl en) (length l) 0 en)
      as (enf & Hfor & Hinv);
    [ reflexivity
    | let j := fresh "j" in let en' := fresh "en'" in let Hj := fresh "Hj" in
      intros j en' Hj ->; cbn [List.tl];
      let m := fresh "m" in let v := fresh "v" in let Hnth := fresh "Hnth" in let Hm := fresh "Hm" in
      let hm := fresh "hm" in let hq := fresh "hq" in
      destruct (nth_error l j) as [[[[m v] hm] hq]|] eqn:Hnth; [|apply nth_error_None in Hnth; lia];
      assert (Hm : nth_error (map iface_v l) j = Some (iface_v (m, v, hm, hq))) by (rewrite nth_error_map, Hnth; reflexivity);
      rewrite (firstn_snoc' _ _ _ Hnth), map_app; cbn [map];
      eexists; eexists; split;
        [ eapply ev_block; [|reflexivity];
          eapply ev_stmts_let; [apply (evals_compute _ 6); intros gg fl; simpl; rewrite Hm; reflexivity | reflexivity |];
          apply ev_stmts_tail; cmp 40
        | reflexivity ]
    | rewrite Hinv in Hfor; cbn [List.tl] in Hfor;
      eapply ev_stmts_expr;
        [ eapply ev_for; [cmp 2 | apply (evals_compute _ 4); intros gg fl; simpl; rewrite map_length; reflexivity
                         | rewrite Nat.sub_0_r; exact Hfor]
        | apply ev_stmts_tail; cbn [Nat.add]; rewrite firstn_all; cmp 4 ] ]
  end.

Theorem translated_deserialization_attempts kv (l : list iface) :
  calls BR 2 "Interfaces::emit_deserialization_attempts" [ifaces_v l; kv] (CVal (VArr (map (attempt_spec kv) l))).
Proof. map_proof l (attempt_spec kv). Qed.

Theorem translated_messages_call kv (l : list iface) :
  calls BR 2 "Interfaces::emit_messages_call" [ifaces_v l; kv] (CVal (VArr (map (msgs_call_spec kv) l))).
Proof. map_proof l (msgs_call_spec kv). Qed.

Theorem translated_glue_variants kv contract (l : list iface) :
  calls BR 2 "Interfaces::emit_glue_message_variants" [ifaces_v l; kv; contract] (CVal (VArr (map (glue_variant_spec kv contract) l))).
Proof. map_proof l (glue_variant_spec kv contract). Qed.

Theorem translated_glue_types kv contract (l : list iface) :
  calls BR 2 "Interfaces::emit_glue_message_types" [ifaces_v l; kv; contract] (CVal (VArr (map (glue_type_spec kv contract) l))).
Proof. map_proof l (glue_type_spec kv contract). Qed.

Theorem translated_response_schemas_calls kv contract (l : list iface) :
  calls BR 2 "Interfaces::emit_response_schemas_calls" [ifaces_v l; kv; contract] (CVal (VArr (map (schemas_call_spec kv contract) l))).
Proof. map_proof l (schemas_call_spec kv contract). Qed.

(* ------------------------------------------------------------------------------------------ *)
(* `GlueMessage::emit` (contract/communication/wrapper_msg.rs): the contract-level message put together from the per-interface
   pieces above and the contract's own part. *)
Definition glue_self (params w contract : value) (k : string) (err custom : value) (l : list iface) : value :=
  VRec "GlueMessage" [("source", VRec "ItemImpl" [("generics", VRec "Generics" [("params", params); ("where_clause", w)])]);
                      ("contract", contract); ("msg_ty", kind_v k); ("error", VRec "ContractErrorAttr" [("error", err)]);
                      ("custom", custom); ("interfaces", ifaces_v l)].

Definition holes_of (r : value) : list (string * value) := match r with VCon "quote" [VStr _; VRec "holes" hs] => hs | _ => [] end.
Definition own_fn (k : string) (contract : value) : value := messages_fn (kind_v k) contract.
Definition is_quote_with (q : option value) (hs : list (string * value)) : Prop :=
  exists t, q = Some (quote_v t hs).

Local Ltac lemma_call :=
  first [ apply translated_glue_variants | apply translated_glue_types | apply translated_messages_call
        | (apply translated_dispatch_arms; simpl; tauto) | apply translated_deserialization_attempts
        | apply translated_response_schemas_calls | (apply (calls_of_run _ 2 20); reflexivity) ].
Local Ltac glue_step :=
  first [ (eapply ev_stmts_let; [cmp 14 | reflexivity |]); cbn [app]
        | (eapply ev_stmts_let; [eapply ev_call; [apply (evals_list_compute _ 8); intros ?gg ?fl; reflexivity | lemma_call] | reflexivity |]); cbn [app]
        | (eapply ev_stmts_expr; [cmp 14 |]) ].

Theorem translated_glue_message params w contract k err custom (l : list iface) : In k six_kinds ->
  exists r,
    calls BR 3 "GlueMessage::emit" [glue_self params w contract k err custom l] (CVal r) /\
    (* the overlap assertion and the final error message see the list of EVERY attached interface, in order, then the contract's own *)
    lookup "messages_call" (holes_of r) =
      Some (VArr (map (msgs_call_spec (kind_v k)) l ++ [quote_v "&# messages_fn_name ()" [("messages_fn_name", own_fn k contract)]])) /\
    lookup "variants_cnt" (holes_of r) = Some (VNat (S (length l))) /\
    (* one variant / type / dispatch arm / deserialisation attempt per interface, as proved above *)
    lookup "variants" (holes_of r) = Some (VArr (map (glue_variant_spec (kind_v k) contract) l)) /\
    lookup "types" (holes_of r) = Some (VArr (map (glue_type_spec (kind_v k) contract) l)) /\
    lookup "dispatch_arms" (holes_of r) = Some (VArr (map (arm_spec k) l)) /\
    lookup "interfaces_deserialization_attempts" (holes_of r) = Some (VArr (map (attempt_spec (kind_v k)) l)) /\
    (* the contract's own attempt consults the contract's own list for this kind *)
    is_quote_with (lookup "contract_deserialization_attempt" (holes_of r))
      [("messages_fn_name", own_fn k contract); ("contract_name", VCon ".fold_type" [VCon "StripGenerics" []; contract])] /\
    (* the contract-level response table exists for the query kind only and is fed by every interface's table, then the contract's own *)
    (if k =? "Query"
     then exists rs t own, lookup "response_schemas" (holes_of r) = Some rs /\
            lookup "response_schemas_calls" (holes_of rs) = Some (VArr (map (schemas_call_spec (kind_v k) contract) l ++ [quote_v t own]))
     else lookup "response_schemas" (holes_of r) = Some (quote_v "" [])).
Proof.
  intros Hk. unfold six_kinds in Hk. simpl in Hk.
  destruct Hk as [<-|[<-|[<-|[<-|[<-|[<-|[]]]]]]];
    (eexists; split;
     [ eapply calls_intro with (c := CVal _); try reflexivity;
       simpl fn_body; cbn [app combine fn_params];
       eapply ev_block; [|reflexivity];
       repeat glue_step;
       apply ev_stmts_tail; cmp 80
     | cbn [holes_of lookup String.eqb Ascii.eqb Bool.eqb];
       repeat split; try reflexivity;
       try (rewrite app_length, map_length; cbn [length]; rewrite Nat.add_1_r; reflexivity);
       try (eexists; reflexivity);
       try (do 3 eexists; split; reflexivity) ]).
Qed.
