(* Which arms of the contract-level dispatch convert the response and the context - macro logic translated from
   sylvia-derive (GenImpMacro.bridge_fns): `Interfaces::emit_dispatch_arms` (types/interfaces.rs) and
   `MsgType::emit_ctx_dispatch_values` (types/msg_type.rs). *)
From Coq Require Import String List Bool Arith Lia.
Require Import SV.Model.Imp SV.Model.GenImpMacro SV.Facts.ImpFacts SV.Facts.MacroRefine.
Import ListNotations.
Open Scope string_scope.
Open Scope list_scope.

Definition BR : program := bridge_fns ++ [rec_stub "crate_module" []].

(* an interface attached to the contract: its variant in the contract-level message and its custom(..) markers *)
Definition customs_v (has_msg has_query : bool) : value := VRec "Customs" [("has_msg", VBool has_msg); ("has_query", VBool has_query)].
Definition iface_v (i : value * bool * bool) : value :=
  let '(variant, has_msg, has_query) := i in
  VRec "ContractMessageAttr" [("module", VStr "module"); ("variant", variant); ("customs", customs_v has_msg has_query)].

Definition run1 (k : string) (i : value * bool * bool) : option ctl :=
  call BR 2 200 "Interfaces::emit_dispatch_arms" [VRec "Interfaces" [("interfaces", VArr [iface_v i])]; kind_v k].
Definition arm_text (r : option ctl) : string :=
  match r with Some (CVal (VArr [VCon "quote" [VStr t; _]])) => t | _ => "" end.
Definition ctx_text (k : string) (q : bool) : string :=
  match call BR 2 100 "MsgType::emit_ctx_dispatch_values" [kind_v k; customs_v false q] with
  | Some (CVal (VCon "quote" [VStr t; _])) => t | _ => "" end.

(* the texts, read off the translated program by running it once *)
Definition t_bridged : string := Eval vm_compute in arm_text (run1 "Exec" (VUnit, true, false)).
Definition t_plain : string := Eval vm_compute in arm_text (run1 "Exec" (VUnit, false, false)).
Definition t_ctx : string := Eval vm_compute in ctx_text "Instantiate" false.
Definition t_ctx3 : string := Eval vm_compute in ctx_text "Exec" true.
Definition t_ctx2 : string := Eval vm_compute in ctx_text "Query" true.

(* the response of an interface's handler is converted (IntoResponse) exactly for exec and sudo of an interface marked
   custom(msg) *)
Definition converts_response (k : string) (has_msg : bool) : bool := ((k =? "Exec") || (k =? "Sudo")) && has_msg.

Definition arm_spec (k : string) (i : value * bool * bool) : value :=
  let '(variant, has_msg, has_query) := i in
  let ctx := VCon ".emit_ctx_dispatch_values" [kind_v k; customs_v has_msg has_query] in
  let wrapper := VCon ".emit_msg_wrapper_name" [kind_v k] in
  if converts_response k has_msg
  then quote_v t_bridged [("contract_enum_name", wrapper); ("variant", variant); ("sylvia", cm); ("ctx", ctx)]
  else quote_v t_plain [("contract_enum_name", wrapper); ("variant", variant); ("ctx", ctx)].

(* the context handed on is emptied of the custom query type (into_empty) exactly for exec / query / sudo of an interface
   marked custom(query); it is passed on unchanged otherwise *)
Definition ctx_spec (k : string) (has_query : bool) : value :=
  if (k =? "Exec") && has_query then quote_v t_ctx3 []
  else if ((k =? "Query") || (k =? "Sudo")) && has_query then quote_v t_ctx2 []
  else quote_v t_ctx [].

Lemma translated_ctx_dispatch_values k (has_msg has_query : bool) : In k six_kinds ->
  calls BR 2 "MsgType::emit_ctx_dispatch_values" [kind_v k; customs_v has_msg has_query] (CVal (ctx_spec k has_query)).
Proof.
  intros Hk. unfold six_kinds in Hk. simpl in Hk.
  destruct Hk as [<-|[<-|[<-|[<-|[<-|[<-|[]]]]]]]; destruct has_msg, has_query;
    (apply (calls_of_run _ 2 100); [reflexivity | vm_compute; reflexivity]).
Qed.

Local Ltac cmp K := apply (evals_compute _ K); intros ?gg ?fl; reflexivity.

Lemma firstn_snoc' {A} (l : list A) j x : nth_error l j = Some x -> firstn (S j) l = firstn j l ++ [x].
Proof.
  revert j. induction l as [|a l IH]; intros [|j] H; simpl in H; try discriminate.
  - injection H as ->. reflexivity.
  - change (firstn (S (S j)) (a :: l)) with (a :: firstn (S j) l). rewrite (IH j H). reflexivity.
Qed.

(* for ANY list of interfaces: one arm per interface, in order, each as arm_spec says *)
Theorem translated_dispatch_arms k (l : list (value * bool * bool)) : In k six_kinds ->
  calls BR 2 "Interfaces::emit_dispatch_arms" [VRec "Interfaces" [("interfaces", VArr (map iface_v l))]; kind_v k]
    (CVal (VArr (map (arm_spec k) l))).
Proof.
  intros Hk.
  eapply calls_intro with (c := CVal _); try reflexivity.
  simpl fn_body. cbn [app combine fn_params].
  eapply ev_block; [|reflexivity].
  eapply ev_stmts_let.
  - eapply ev_call; [apply ev_list_nil|]. apply (calls_of_run _ 1 20); reflexivity.
  - reflexivity.
  - cbn [app]. eapply ev_stmts_let; [cmp 4 | reflexivity |]. cbn [app].
    apply ev_stmts_tail. eapply ev_block; [|reflexivity].
    eapply ev_stmts_let; [cmp 4 | reflexivity |].
    eapply ev_stmts_let; [cmp 4 | reflexivity |]. cbn [app].
    match goal with |- evals_stmts ?P ?dd (SExpr (EFor ?i ?lo ?hi ?b) :: ?rest) ?en ?res =>
      destruct (ev_for_inv P dd i b
                 (fun j en' => en' = ("map_acc1", VArr (map (arm_spec k) (firstn j l))) :: List.tl en)
                 (length l) 0 en) as (enf & Hfor & Hinv) end.
    + reflexivity.
    + intros j en' Hj ->. cbn [List.tl].
      destruct (nth_error l j) as [[[variant hm] hq]|] eqn:Hnth; [|apply nth_error_None in Hnth; lia].
      assert (Hm : nth_error (map iface_v l) j = Some (iface_v (variant, hm, hq))) by (rewrite nth_error_map, Hnth; reflexivity).
      rewrite (firstn_snoc' _ _ _ Hnth), map_app. cbn [map].
      unfold six_kinds in Hk. simpl in Hk.
      destruct Hk as [<-|[<-|[<-|[<-|[<-|[<-|[]]]]]]]; destruct hm;
        (eexists; eexists; split;
         [ eapply ev_block; [|reflexivity];
           eapply ev_stmts_let; [apply (evals_compute _ 6); intros gg fl; simpl; rewrite Hm; reflexivity | reflexivity |];
           apply ev_stmts_tail; cmp 30
         | reflexivity ]).
    + rewrite Hinv in Hfor. cbn [List.tl] in Hfor.
      eapply ev_stmts_expr.
      * eapply ev_for; [cmp 2 | |].
        -- apply (evals_compute _ 4). intros gg fl. simpl. rewrite map_length. reflexivity.
        -- rewrite Nat.sub_0_r. exact Hfor.
      * apply ev_stmts_tail. cbn [Nat.add]. rewrite firstn_all. cmp 4.
Qed.
