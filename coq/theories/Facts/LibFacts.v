(* Facts about the run-time library model (C10, C11, C20). The table lemmas are computed over the
   regenerated GenLib.v: they fail when the Rust source drops an arm, a field or a serde attribute. *)
From Coq Require Import String List Bool ZArith Lia.
Require Import SV.Base.Json SV.Model.GenLib SV.Model.Lib.
Import ListNotations.
Open Scope string_scope.
Open Scope list_scope.

(* ---- regenerated tables ---- *)
Lemma arms_keep_every_non_custom_variant :
  forallb (fun v => if v =? "Custom" then true else match arm_of v with Some a => a =? "keep" | None => false end)
          cosmos_variants = true.
Proof. vm_compute. reflexivity. Qed.

Lemma arm_custom_is_error : match arm_of "Custom" with Some a => negb (a =? "keep") | None => false end = true.
Proof. vm_compute. reflexivity. Qed.

Lemma field_map_is_identity :
  submsg_field_map = map (fun n => (n, n)) ("msg" :: submsg_field_names).
Proof. vm_compute. reflexivity. Qed.

Lemma arm_keep v : In v cosmos_variants -> v <> "Custom" -> arm_of v = Some "keep".
Proof.
  intros I N. pose proof arms_keep_every_non_custom_variant as H. rewrite forallb_forall in H.
  specialize (H v I). destruct (String.eqb_spec v "Custom") as [E|_]; [contradiction|].
  destruct (arm_of v) as [a|]; [|discriminate]. apply String.eqb_eq in H. subst. reflexivity.
Qed.

Lemma arm_custom : exists a, arm_of "Custom" = Some a /\ (a =? "keep") = false.
Proof.
  pose proof arm_custom_is_error as H. destruct (arm_of "Custom") as [a|]; [|discriminate].
  exists a. split; [reflexivity|]. destruct (a =? "keep"); [discriminate | reflexivity].
Qed.

(* ---- into_msg / into_response ---- *)
Lemma rebuild_fields_id fs : map fst fs = submsg_field_names -> rebuild_fields fs = fs.
Proof.
  unfold rebuild_fields. rewrite field_map_is_identity. unfold submsg_field_names.
  destruct fs as [|[k1 v1] [|[k2 v2] [|[k3 v3] [|[k4 v4] [|? ?]]]]]; simpl; intros H; try discriminate.
  injection H as -> -> -> ->. reflexivity.
Qed.

Lemma into_msg_ok s : wf_submsg s -> In (cm_variant (sm_msg s)) cosmos_variants -> is_custom (sm_msg s) = false ->
  into_msg s = inr s.
Proof.
  intros W I C. unfold into_msg. rewrite arm_keep; auto.
  - simpl. rewrite rebuild_fields_id by exact W. destruct s; reflexivity.
  - unfold is_custom in C. intros E. rewrite E in C. discriminate.
Qed.

Lemma into_msg_custom s : is_custom (sm_msg s) = true -> into_msg s = inl ErrCustomMsg.
Proof.
  unfold is_custom. intros C. apply String.eqb_eq in C. unfold into_msg. rewrite C.
  destruct arm_custom as (a & -> & ->). reflexivity.
Qed.

Lemma collect_ok l :
  Forall wf_submsg l -> Forall (fun s => In (cm_variant (sm_msg s)) cosmos_variants) l ->
  (forall s, In s l -> is_custom (sm_msg s) = false) -> collect_msgs l = inr l.
Proof.
  induction l as [|s r IH]; intros W V C; [reflexivity|]. simpl.
  inversion W as [|? ? Ws Wr]; subst. inversion V as [|? ? Vs Vr]; subst.
  rewrite into_msg_ok; auto; [|apply C; left; reflexivity].
  rewrite IH; auto. intros x Ix. apply C. right. exact Ix.
Qed.

Lemma collect_err l :
  Forall wf_submsg l -> Forall (fun s => In (cm_variant (sm_msg s)) cosmos_variants) l ->
  (exists s, In s l /\ is_custom (sm_msg s) = true) -> collect_msgs l = inl ErrCustomMsg.
Proof.
  induction l as [|s r IH]; intros W V (x & Ix & Cx); [destruct Ix|]. simpl.
  inversion W as [|? ? Ws Wr]; subst. inversion V as [|? ? Vs Vr]; subst.
  destruct (is_custom (sm_msg s)) eqn:Cs.
  - rewrite into_msg_custom by exact Cs. reflexivity.
  - rewrite into_msg_ok by auto. destruct Ix as [<-|Ix]; [congruence|].
    rewrite IH; auto. exists x. auto.
Qed.

Definition wf_response (r : response) : Prop :=
  Forall wf_submsg (r_messages r) /\ Forall (fun s => In (cm_variant (sm_msg s)) cosmos_variants) (r_messages r).

Definition has_custom (r : response) : Prop := exists s, In s (r_messages r) /\ is_custom (sm_msg s) = true.

Lemma has_custom_dec r : has_custom r \/ forall s, In s (r_messages r) -> is_custom (sm_msg s) = false.
Proof.
  unfold has_custom. induction (r_messages r) as [|s l IH]; [right; intros s []|].
  destruct (is_custom (sm_msg s)) eqn:C.
  - left. exists s. split; [left; reflexivity | exact C].
  - destruct IH as [(x & Ix & Cx)|N].
    + left. exists x. split; [right; exact Ix | exact Cx].
    + right. intros x [<-|Ix]; auto.
Qed.

Theorem into_response_preserves r : wf_response r -> ~ has_custom r -> into_response r = inr r.
Proof.
  intros (W & V) N. unfold into_response. rewrite collect_ok; auto.
  - destruct r; reflexivity.
  - destruct (has_custom_dec r) as [H|H]; [contradiction | exact H].
Qed.

Theorem into_response_fails_iff_custom r : wf_response r ->
  ((exists e, into_response r = inl e) <-> has_custom r).
Proof.
  intros WF. split.
  - intros (e & E). destruct (has_custom_dec r) as [H|H]; [exact H|].
    rewrite into_response_preserves in E; [discriminate | exact WF |].
    intros (s & Is & Cs). rewrite H in Cs by exact Is. discriminate.
  - intros H. destruct WF as (W & V). exists ErrCustomMsg. unfold into_response. rewrite collect_err; auto.
Qed.

(* ------------------------------------------------------------------------------------------ *)
(* Cargo features: under EVERY choice of sylvia features the arm of a message kind exists exactly when cosmwasm-std
   defines the kind - so the match compiles (no arm names a missing variant) and no existing non-custom kind falls
   into the `_ => Err("Unknown message variant")` arm. Checked by computation over all subsets of the regenerated
   feature table, lifted to every selection of features. *)
Lemma filter_in_sublists {A} (sel : A -> bool) (l : list A) : In (filter sel l) (sublists l).
Proof.
  induction l as [|x r IH]; simpl; [left; reflexivity|].
  apply in_or_app. destruct (sel x); [left; apply in_map; exact IH|right; exact IH].
Qed.

Lemma arms_match_variants_all_subsets : forallb features_agree (sublists feature_names) = true.
Proof. vm_compute. reflexivity. Qed.

Lemma features_agree_spec F v :
  features_agree F = true -> In v cosmos_variants -> arm_present F v = variant_present F v.
Proof.
  unfold features_agree, arm_present, variant_present, std_enabled. intros H Hv.
  rewrite forallb_forall in H. specialize (H v Hv). apply Bool.eqb_prop in H. symmetry. exact H.
Qed.

Lemma arm_present_iff_variant_present (sel : string -> bool) v :
  In v cosmos_variants ->
  arm_present (filter sel feature_names) v = variant_present (filter sel feature_names) v.
Proof.
  intros Hv.
  exact (features_agree_spec _ v
           (proj1 (forallb_forall features_agree (sublists feature_names)) arms_match_variants_all_subsets
                  (filter sel feature_names) (filter_in_sublists sel feature_names)) Hv).
Qed.

(* every arm names a variant of the enum, and there is an arm for every variant *)
Lemma arms_cover_variants :
  forallb (fun v => memb v (map fst into_msg_arm_features)) cosmos_variants = true /\
  forallb (fun a => memb a cosmos_variants) (map fst into_msg_arm_features) = true.
Proof. vm_compute. split; reflexivity. Qed.
