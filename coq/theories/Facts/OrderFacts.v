(* Behaviour does not depend on the order of declarations (C14). *)
From Coq Require Import String List Bool Arith Lia Sorted Permutation.
Require Import SV.Base.Util SV.Base.StrOrder SV.Base.Json SV.Model.Kinds SV.Model.GenTables SV.Model.Casing SV.Model.Syntax
               SV.Model.Expand SV.Model.Sem SV.Model.Reply SV.Model.EntryPoints.
Require Import SV.Facts.KindsFacts SV.Facts.ExpandFacts SV.Facts.SemFacts SV.Facts.EntryPointsFacts SV.Facts.ReplyFacts SV.Facts.ReplyTableFacts.
Import ListNotations.
Open Scope string_scope.
Open Scope list_scope.

(* ---- message types: the variants are a permutation, the published list is the same list ---- *)
Lemma flat_map_perm {A B} (f : A -> list B) l l' : Permutation l l' -> Permutation (flat_map f l) (flat_map f l').
Proof.
  induction 1; simpl.
  - constructor.
  - apply Permutation_app_head. assumption.
  - rewrite !app_assoc. apply Permutation_app_tail. apply Permutation_app_comm.
  - eapply perm_trans; eassumption.
Qed.

Theorem variants_permute ms ms' k gens wh wh' :
  Permutation ms ms' -> Permutation (vs_list (mk_variants ms k gens wh)) (vs_list (mk_variants ms' k gens wh')).
Proof. intros P. rewrite !vs_list_spec. apply flat_map_perm. exact P. Qed.

Theorem published_list_is_order_independent ms ms' k gens wh wh' name name' it it' iw iw' :
  Permutation ms ms' ->
  eo_table (mk_enum name it (mk_variants ms k gens wh) iw) = eo_table (mk_enum name' it' (mk_variants ms' k gens wh') iw').
Proof.
  intros P. unfold mk_enum, table_of. simpl. apply sort_canonical. apply Permutation_map. apply variants_permute. exact P.
Qed.

Theorem message_descriptions_permute ms ms' k gens wh wh' name it iw :
  Permutation ms ms' ->
  Permutation (edesc_of (mk_enum name it (mk_variants ms k gens wh) iw)) (edesc_of (mk_enum name it (mk_variants ms' k gens wh') iw)).
Proof.
  intros P. rewrite !edesc_of_mk_enum, !vs_kind_spec. apply Permutation_map. apply variants_permute. exact P.
Qed.

(* ---- decoding and dispatch depend on the set of variants only ---- *)
Lemma find_perm_unique {A} (f : A -> bool) (l l' : list A) :
  Permutation l l' -> (forall x y, In x l -> In y l -> f x = true -> f y = true -> x = y) -> find f l = find f l'.
Proof.
  intros P U.
  destruct (find f l) as [x|] eqn:F.
  - apply find_some in F. destruct F as [Ix Fx]. symmetry.
    destruct (find f l') as [y|] eqn:F'.
    + apply find_some in F'. destruct F' as [Iy Fy]. f_equal. apply U; auto. eapply Permutation_in; [apply Permutation_sym; exact P | exact Iy].
    + exfalso. pose proof (find_none _ _ F' x (Permutation_in _ P Ix)) as N. congruence.
  - destruct (find f l') as [y|] eqn:F'; [|reflexivity]. exfalso.
    apply find_some in F'. destruct F' as [Iy Fy]. pose proof (find_none _ _ F y (Permutation_in _ (Permutation_sym P) Iy)) as N. congruence.
Qed.

Lemma nodup_map_inj_in {A B} (f : A -> B) l x y : NoDup (map f l) -> In x l -> In y l -> f x = f y -> x = y.
Proof.
  induction l as [|a r IH]; simpl; intros N Ix Iy E; [destruct Ix|].
  inversion N as [|? ? Na Nr]; subst.
  destruct Ix as [->|Ix], Iy as [->|Iy]; auto.
  - exfalso. apply Na. rewrite E. apply in_map. exact Iy.
  - exfalso. apply Na. rewrite <- E. apply in_map. exact Ix.
Qed.

Section Sem.
Variable val : Type.
Variable enc : ty -> val -> json.
Variable dec : ty -> json -> option val.
Variable is_option : ty -> bool.
Variable default_val : ty -> val.
Variable ctxT outcome : Type.
Variable handler : string -> ctxT -> list val -> outcome.

Theorem find_by_fn_perm e e' n : Permutation e e' -> NoDup (map vd_fn e) -> find_by_fn e n = find_by_fn e' n.
Proof.
  intros P N. apply find_perm_unique; [exact P|]. intros x y Ix Iy Fx Fy.
  apply String.eqb_eq in Fx, Fy. apply (nodup_map_inj_in vd_fn e); auto. congruence.
Qed.

Theorem find_by_wire_perm e e' n : Permutation e e' -> NoDup (map vd_wire e) -> find_by_wire e n = find_by_wire e' n.
Proof.
  intros P N. apply find_perm_unique; [exact P|]. intros x y Ix Iy Fx Fy.
  apply String.eqb_eq in Fx, Fy. apply (nodup_map_inj_in vd_wire e); auto. congruence.
Qed.

Theorem encode_is_order_independent e e' m : Permutation e e' -> NoDup (map vd_fn e) ->
  encode_enum val enc e m = encode_enum val enc e' m.
Proof. intros P N. unfold encode_enum. rewrite (find_by_fn_perm e e' _ P N). reflexivity. Qed.

Theorem decode_is_order_independent e e' j : Permutation e e' -> NoDup (map vd_wire e) ->
  decode_enum val dec is_option default_val e j = decode_enum val dec is_option default_val e' j.
Proof.
  intros P N. unfold decode_enum. destruct j as [| | | | |[|[k b] [|? ?]]]; try reflexivity.
  rewrite (find_by_wire_perm e e' k P N). reflexivity.
Qed.

Theorem dispatch_is_order_independent e e' m c : Permutation e e' -> NoDup (map vd_fn e) ->
  dispatch_enum val ctxT outcome handler e m c = dispatch_enum val ctxT outcome handler e' m c.
Proof. intros P N. unfold dispatch_enum. rewrite (find_by_fn_perm e e' _ P N). reflexivity. Qed.
End Sem.

(* ---- entry points: the set depends on which names are overridden, not on the order of the attributes ---- *)
Theorem entry_point_set_is_order_independent i ns ns' ks ks' k :
  Permutation ns ns' -> parse_overrides ns = Some ks -> parse_overrides ns' = Some ks' ->
  (In k (emitted i ks) <-> In k (emitted i ks')).
Proof.
  intros P H H'. apply (emitted_independent i ns ns' ks ks' k H H').
  split; intros I; [eapply Permutation_in; [exact P | exact I] | eapply Permutation_in; [apply Permutation_sym; exact P | exact I]].
Qed.

(* ---- replies ---- *)
Lemma conflict_sym p q : conflict p q = conflict q p.
Proof. unfold conflict. rewrite (String.eqb_sym (snd p) (snd q)), (excludes_sym (rm_on (fst p))). reflexivity. Qed.

Lemma compatible_cons p ps : compatible (p :: ps) <->
  (compatible ps /\ forall q, In q ps -> rid_of p = rid_of q -> conflict p q = false).
Proof.
  split.
  - intros C. split.
    + intros a x b E q Iq Eq. apply (C (p :: a) x b); [rewrite E; reflexivity | right; exact Iq | exact Eq].
    + intros q Iq Eq. apply in_split in Iq. destruct Iq as (l1 & l2 & ->).
      apply (C (p :: l1) q l2 eq_refl p (or_introl eq_refl) Eq).
  - intros (C & H) a x b E q Iq Eq. destruct a as [|y a]; simpl in E; injection E as <- E; [destruct Iq|].
    destruct Iq as [<-|Iq].
    + apply H; [rewrite E; apply in_or_app; right; left; reflexivity | exact Eq].
    + apply (C a x b E q Iq Eq).
Qed.

Theorem compatible_perm ps ps' : Permutation ps ps' -> compatible ps -> compatible ps'.
Proof.
  induction 1; intros C.
  - exact C.
  - apply compatible_cons in C. destruct C as [C H0]. apply compatible_cons. split; [apply IHPermutation; exact C|].
    intros q Iq. apply H0. eapply Permutation_in; [apply Permutation_sym; eassumption | exact Iq].
  - apply compatible_cons in C. destruct C as [C Hy]. apply compatible_cons in C. destruct C as [C Hx].
    apply compatible_cons. split.
    + apply compatible_cons. split; [exact C|]. intros q Iq. apply Hy. right. exact Iq.
    + intros q [<-|Iq] Eq.
      * rewrite conflict_sym. apply Hy; [left; reflexivity | symmetry; exact Eq].
      * apply Hx; auto.
  - apply IHPermutation2. apply IHPermutation1. exact C.
Qed.

Lemma all_pairs_perm ms ms' : Permutation ms ms' -> Permutation (all_pairs ms) (all_pairs ms').
Proof. apply flat_map_perm. Qed.

Lemma claimants_perm ps ps' rid : Permutation ps ps' -> Permutation (claimants ps rid) (claimants ps' rid).
Proof.
  unfold claimants. induction 1; simpl.
  - constructor.
  - destruct (rid_of x =? rid); [constructor|]; assumption.
  - destruct (rid_of x =? rid), (rid_of y =? rid); try apply perm_swap; apply Permutation_refl.
  - eapply perm_trans; eassumption.
Qed.

(* the method that answers an outcome of a handler name is the same whatever the declaration order *)
Theorem reply_routing_is_order_independent ms ms' rd rd' :
  Permutation ms ms' -> compatible (all_pairs ms) ->
  In rd (fst (build_table ms)) -> In rd' (fst (build_table ms')) -> rd_reply_id rd = rd_reply_id rd' ->
  success_handler rd = success_handler rd' /\ error_handler rd = error_handler rd'.
Proof.
  intros P C I I' E.
  pose proof (compatible_perm _ _ (all_pairs_perm _ _ P) C) as C'.
  pose proof (claimants_perm _ _ (rd_reply_id rd) (all_pairs_perm _ _ P)) as PC.
  split.
  - destruct (find (fun p => covers_ok_on (rm_on (fst p))) (claimants (all_pairs ms) (rd_reply_id rd))) as [p|] eqn:F.
    + apply find_some in F. destruct F as [Ip Fp].
      rewrite (success_handler_is_the_declared_method ms C rd p I Ip Fp).
      rewrite (success_handler_is_the_declared_method ms' C' rd' p I'); auto.
      rewrite <- E. eapply Permutation_in; eassumption.
    + rewrite (no_success_method ms C rd I), (no_success_method ms' C' rd' I'); auto.
      * intros p Ip. rewrite <- E in Ip. apply (Permutation_in _ (Permutation_sym PC)) in Ip.
        destruct (covers_ok_on (rm_on (fst p))) eqn:K; [|reflexivity]. pose proof (find_none _ _ F p Ip) as N. simpl in N. congruence.
      * intros p Ip. destruct (covers_ok_on (rm_on (fst p))) eqn:K; [|reflexivity]. pose proof (find_none _ _ F p Ip) as N. simpl in N. congruence.
  - destruct (find (fun p => covers_err_on (rm_on (fst p))) (claimants (all_pairs ms) (rd_reply_id rd))) as [p|] eqn:F.
    + apply find_some in F. destruct F as [Ip Fp].
      rewrite (error_handler_is_the_declared_method ms C rd p I Ip Fp).
      rewrite (error_handler_is_the_declared_method ms' C' rd' p I'); auto.
      rewrite <- E. eapply Permutation_in; eassumption.
    + rewrite (no_error_method ms C rd I), (no_error_method ms' C' rd' I'); auto.
      * intros p Ip. rewrite <- E in Ip. apply (Permutation_in _ (Permutation_sym PC)) in Ip.
        destruct (covers_err_on (rm_on (fst p))) eqn:K; [|reflexivity]. pose proof (find_none _ _ F p Ip) as N. simpl in N. congruence.
      * intros p Ip. destruct (covers_err_on (rm_on (fst p))) eqn:K; [|reflexivity]. pose proof (find_none _ _ F p Ip) as N. simpl in N. congruence.
Qed.

(* both orders have an entry for exactly the same handler-name constants *)
Theorem reply_names_are_order_independent ms ms' rid :
  Permutation ms ms' -> compatible (all_pairs ms) ->
  (In rid (map rd_reply_id (fst (build_table ms))) <-> In rid (map rd_reply_id (fst (build_table ms')))).
Proof.
  intros P C. pose proof (compatible_perm _ _ (all_pairs_perm _ _ P) C) as C'.
  assert (H : forall m1 m2, Permutation m1 m2 -> compatible (all_pairs m1) -> compatible (all_pairs m2) ->
                In rid (map rd_reply_id (fst (build_table m1))) -> In rid (map rd_reply_id (fst (build_table m2)))).
  { intros m1 m2 P12 C1 C2 I. apply in_map_iff in I. destruct I as (rd & <- & Ird).
    destruct (inv_payload _ _ (build_table_inv m1 C1) rd Ird) as (p & Hp & _).
    assert (Ip : In p (claimants (all_pairs m1) (rd_reply_id rd))) by (destruct (claimants (all_pairs m1) (rd_reply_id rd)); [discriminate | injection Hp as <-; left; reflexivity]).
    apply filter_In in Ip. destruct Ip as [Ip Ep]. apply String.eqb_eq in Ep.
    destruct (every_claim_has_an_entry m2 C2 p (Permutation_in _ (all_pairs_perm _ _ P12) Ip)) as (rd2 & I2 & E2).
    apply in_map_iff. exists rd2. split; [congruence | exact I2]. }
  split; [apply (H ms ms' P C C') | apply (H ms' ms (Permutation_sym P) C' C)].
Qed.
