(* Which type parameters a generated message type carries (C15): the generic-usage visitor of
   MsgVariants::new (parser/check_generics.rs) and utils.rs::filter_wheres. *)
From Coq Require Import String List Bool Arith Lia Permutation.
Require Import SV.Base.Util SV.Model.Kinds SV.Model.GenTables SV.Model.Casing SV.Model.Syntax SV.Model.Expand.
Require Import SV.Facts.ExpandFacts.
Import ListNotations.
Open Scope string_scope.
Open Scope list_scope.

(* parameter g occurs in type t: some path inside t is exactly `g` (direct or nested at any depth) *)
Definition occurs (g : string) (t : ty) : Prop := In (TName g) (paths_of t).

Lemma mem_In x l : mem x l = true <-> In x l.
Proof.
  unfold mem. rewrite existsb_exists. split.
  - intros (y & I & E). apply String.eqb_eq in E. subst. exact I.
  - intros I. exists x. split; [exact I | apply String.eqb_refl].
Qed.

Lemma generic_of_path_some gens p g : generic_of_path gens p = Some g <-> (p = TName g /\ In g gens).
Proof.
  unfold generic_of_path, TName. split.
  - destruct p as [segs| |]; try discriminate. destruct segs as [|[n args] r]; try discriminate.
    destruct args; destruct r; try discriminate. destruct (mem n gens) eqn:M; [|discriminate].
    intros H. injection H as <-. split; [reflexivity | apply mem_In; exact M].
  - intros (-> & I). apply mem_In in I. rewrite I. reflexivity.
Qed.

Lemma mark_path_in gens used p g :
  In g (mark_path gens used p) <-> In g used \/ (p = TName g /\ In g gens).
Proof.
  unfold mark_path. destruct (generic_of_path gens p) as [h|] eqn:G.
  - apply generic_of_path_some in G. destruct G as (-> & Ih).
    destruct (mem h used) eqn:M.
    + split; [auto|]. intros [I|(E & _)]; [exact I|]. injection E as <-. apply mem_In. exact M.
    + rewrite in_app_iff. simpl. split.
      * intros [I|[<-|[]]]; auto.
      * intros [I|(E & _)]; [auto|]. injection E as <-. auto.
  - split; [auto|]. intros [I|(E & I)]; [exact I|]. exfalso.
    assert (generic_of_path gens p = Some g) by (apply generic_of_path_some; auto). congruence.
Qed.

Lemma mark_path_nodup gens used p : NoDup used -> NoDup (mark_path gens used p).
Proof.
  intros N. unfold mark_path. destruct (generic_of_path gens p) as [h|]; [|exact N].
  destruct (mem h used) eqn:M; [exact N|]. apply NoDup_app; [exact N | repeat constructor; intros [] |].
  intros x I [<-|[]]. apply mem_In in I. congruence.
Qed.

Lemma mark_path_subset gens used p : (forall x, In x used -> In x gens) -> forall x, In x (mark_path gens used p) -> In x gens.
Proof. intros S x I. apply mark_path_in in I. destruct I as [I|(_ & I)]; auto. Qed.

Lemma fold_mark_in gens : forall ps used g,
  In g (fold_left (mark_path gens) ps used) <-> In g used \/ (In (TName g) ps /\ In g gens).
Proof.
  induction ps as [|p r IH]; intros used g; simpl; [tauto|].
  rewrite IH, mark_path_in. split.
  - intros [[I|(E & Ig)]|(I & Ig)]; [left; exact I | right; split; [left; exact E | exact Ig] | right; split; [right; exact I | exact Ig]].
  - intros [I|([E|I] & Ig)]; [left; left; exact I | left; right; split; [exact E | exact Ig] | right; split; [exact I | exact Ig]].
Qed.

Lemma fold_mark_nodup gens : forall ps used, NoDup used -> NoDup (fold_left (mark_path gens) ps used).
Proof. induction ps as [|p r IH]; intros used N; simpl; [exact N|]. apply IH. apply mark_path_nodup. exact N. Qed.

Lemma visit_ty_in gens used t g : In g (visit_ty gens used t) <-> In g used \/ (occurs g t /\ In g gens).
Proof. apply fold_mark_in. Qed.

Lemma visit_tys_in gens : forall ts used g,
  In g (fold_left (visit_ty gens) ts used) <-> In g used \/ ((exists t, In t ts /\ occurs g t) /\ In g gens).
Proof.
  induction ts as [|t r IH]; intros used g; simpl.
  - split; [auto|]. intros [I|((t & [] & _) & _)]. exact I.
  - rewrite IH, visit_ty_in. split.
    + intros [[I|(O & Ig)]|((t' & I & O) & Ig)]; auto.
      * right. split; [exists t; auto | exact Ig].
      * right. split; [exists t'; auto | exact Ig].
    + intros [I|((t' & [<-|I] & O) & Ig)]; auto. right. split; [exists t'; auto | exact Ig].
Qed.

Lemma visit_tys_nodup gens : forall ts used, NoDup used -> NoDup (fold_left (visit_ty gens) ts used).
Proof. induction ts as [|t r IH]; intros used N; simpl; [exact N|]. apply IH. apply fold_mark_nodup. exact N. Qed.

(* the types of a handler that the visitor walks: its (Self-stripped) argument types and, for a
   query, its response type (explicit `resp=` or the success type of the returned Result) *)
Definition visited_types (m : method) (ma : msg_attr) : list ty :=
  map (fun a => strip_self (a_ty a)) (m_args m) ++
  match ma_kind ma with
  | KQuery => match ma_resp ma with
              | Some r => [TName r]
              | None => match extract_return (m_ret m) with Some r => [strip_self r] | None => [] end
              end
  | _ => []
  end.

Lemma fold_fields_visit gens (args : list arg) used :
  fold_left (fun u f => visit_ty gens u (f_sty f)) (map mk_field args) used =
  fold_left (visit_ty gens) (map (fun a => strip_self (a_ty a)) args) used.
Proof. revert used; induction args as [|a r IH]; intros used; simpl; [reflexivity | apply IH]. Qed.

Lemma mk_variant_used gens used m ma fwd :
  snd (fst (mk_variant gens used m ma fwd)) = fold_left (visit_ty gens) (visited_types m ma) used.
Proof.
  unfold mk_variant, visited_types. rewrite fold_left_app, <- fold_fields_visit.
  destruct (ma_kind ma); try reflexivity.
  destruct (ma_resp ma); [reflexivity|]. destruct (extract_return (m_ret m)); reflexivity.
Qed.

(* the handlers of kind k with their annotation *)
Definition handlers_of (k : kind) (ms : list method) : list (method * msg_attr) :=
  flat_map (fun m => match p_msg (parse_attrs (m_attrs m)) with
                     | Some ma => if kind_eqb (ma_kind ma) k then [(m, ma)] else []
                     | None => [] end) ms.

Lemma scan_used gens k : forall ms used,
  snd (fst (scan gens k ms used)) =
  fold_left (visit_ty gens) (flat_map (fun p : method * msg_attr => visited_types (fst p) (snd p)) (handlers_of k ms)) used.
Proof.
  induction ms as [|m r IH]; intros used; [reflexivity|].
  cbn [scan handlers_of flat_map].
  destruct (p_msg (parse_attrs (m_attrs m))) as [ma|] eqn:P.
  - destruct (kind_eqb (ma_kind ma) k) eqn:K.
    + pose proof (mk_variant_used gens used m ma (p_variant_attrs (parse_attrs (m_attrs m)))) as MU.
      destruct (mk_variant gens used m ma (p_variant_attrs (parse_attrs (m_attrs m)))) as [[v u1] d]. cbn [fst snd] in MU.
      specialize (IH u1). destruct (scan gens k r u1) as [[vs u2] ds]. cbn [fst snd] in *.
      cbn [app flat_map fst snd]. rewrite fold_left_app, <- MU. exact IH.
    + specialize (IH used). destruct (scan gens k r used) as [[vs u2] ds]. cbn [fst snd app] in *. exact IH.
  - specialize (IH used). destruct (scan gens k r used) as [[vs u2] ds]. cbn [fst snd app] in *. exact IH.
Qed.

Lemma vs_used_spec ms k gens wh :
  vs_used (mk_variants ms k gens wh) =
  fold_left (visit_ty gens) (flat_map (fun p : method * msg_attr => visited_types (fst p) (snd p)) (handlers_of k ms)) [].
Proof.
  unfold mk_variants. rewrite <- (scan_used gens k ms []). destruct (scan gens k ms []) as [[vs u] d]. reflexivity.
Qed.

Lemma vs_unused_spec ms k gens wh :
  vs_unused (mk_variants ms k gens wh) = filter (fun g => negb (mem g (vs_used (mk_variants ms k gens wh)))) gens.
Proof. unfold mk_variants. destruct (scan gens k ms []) as [[vs u] d]. reflexivity. Qed.

Lemma vs_where_spec ms k gens wh :
  vs_where (mk_variants ms k gens wh) =
  filter (fun w => forallb (fun g => mem g (vs_used (mk_variants ms k gens wh))) (wpred_generics gens w)) wh.
Proof. unfold mk_variants. destruct (scan gens k ms []) as [[vs u] d]. reflexivity. Qed.

(* ---- C15 main statements ---- *)
(* exactly the parameters that occur in an argument (or query response) type of a handler of the kind *)
Theorem used_iff_occurs ms k gens wh g :
  In g (vs_used (mk_variants ms k gens wh)) <->
  (In g gens /\ exists m ma t, In (m, ma) (handlers_of k ms) /\ In t (visited_types m ma) /\ occurs g t).
Proof.
  rewrite vs_used_spec, visit_tys_in. split.
  - intros [[]|((t & I & O) & Ig)]. split; [exact Ig|]. apply in_flat_map in I. destruct I as ([m ma] & Ih & It).
    exists m, ma, t. auto.
  - intros (Ig & m & ma & t & Ih & It & O). right. split; [|exact Ig]. exists t. split; [|exact O].
    apply in_flat_map. exists (m, ma). auto.
Qed.

(* each once *)
Theorem used_nodup ms k gens wh : NoDup (vs_used (mk_variants ms k gens wh)).
Proof. rewrite vs_used_spec. apply visit_tys_nodup. constructor. Qed.

(* used and unused partition the declared parameters *)
Theorem used_unused_partition ms k gens wh : NoDup gens ->
  Permutation (vs_used (mk_variants ms k gens wh) ++ vs_unused (mk_variants ms k gens wh)) gens.
Proof.
  intros N.
  assert (Hu : forall x, In x (vs_unused (mk_variants ms k gens wh)) <->
                         In x gens /\ mem x (vs_used (mk_variants ms k gens wh)) = false).
  { intros x. rewrite vs_unused_spec, filter_In, negb_true_iff. tauto. }
  apply NoDup_Permutation.
  - apply NoDup_app; [apply used_nodup | rewrite vs_unused_spec; apply NoDup_filter; exact N |].
    intros x Iu Iun. apply Hu in Iun. destruct Iun as [_ H]. apply mem_In in Iu. congruence.
  - exact N.
  - intros x. rewrite in_app_iff, Hu. split.
    + intros [I|[I _]]; [|exact I]. apply used_iff_occurs in I. exact (proj1 I).
    + intros I. destruct (mem x (vs_used (mk_variants ms k gens wh))) eqn:M;
        [left; apply mem_In; exact M | right; split; [exact I | reflexivity]].
Qed.

(* constrained only by those of the user's bounds that mention no other parameter *)
Theorem kept_where_predicates ms k gens wh w :
  In w (vs_where (mk_variants ms k gens wh)) <->
  (In w wh /\ forall g, In g (wpred_generics gens w) -> In g (vs_used (mk_variants ms k gens wh))).
Proof.
  rewrite vs_where_spec, filter_In, forallb_forall. split; intros (I & H); split; auto; intros g Ig.
  - apply mem_In. apply H. exact Ig.
  - apply mem_In. apply H. exact Ig.
Qed.

(* the generics a predicate mentions: parameters occurring in its bounded type or one of its bounds *)
Theorem wpred_generics_spec gens w g :
  In g (wpred_generics gens w) <-> (In g gens /\ exists t, In t (w_bounded w :: w_bounds w) /\ occurs g t).
Proof.
  unfold wpred_generics. rewrite visit_tys_in. split.
  - intros [[]|(H & Ig)]. auto.
  - intros (Ig & H). right. auto.
Qed.
