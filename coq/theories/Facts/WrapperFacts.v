(* The contract-level message accepts exactly the union of its parts and routes right (C03). *)
From Coq Require Import String List Bool Arith Lia ZArith Sorted Permutation.
Require Import SV.Base.Util SV.Base.StrOrder SV.Base.Json SV.Model.Kinds SV.Model.Syntax SV.Model.Expand SV.Model.Sem.
Require Import SV.Facts.JsonFacts SV.Facts.SemFacts.
Import ListNotations.
Open Scope string_scope.
Open Scope list_scope.

Lemma nodup_keys_obj members :
  nodup_keys (JObj members) = true ->
  NoDup (map fst members) /\ forall k x, In (k, x) members -> nodup_keys x = true.
Proof.
  simpl. rewrite andb_true_iff. intros [N F]. split; [apply nodupb_NoDup; exact N|].
  intros k x I. rewrite forallb_forall in F. exact (F (k, x) I).
Qed.

Section Wrapper.
Variable val : Type.
Variable enc : ty -> val -> json.
Variable dec : ty -> json -> option val.
Variable is_option : ty -> bool.
Variable default_val : ty -> val.
(* decoding an argument does not depend on the order of object members (true of serde's derived
   and built-in Deserialize impls for documents that repeat no key) *)
Hypothesis dec_collapse : forall t v, nodup_keys v = true -> dec t (collapse v) = dec t v.

Notation dec_fields := (dec_fields val dec is_option default_val).
Notation decode_struct := (decode_struct val dec is_option default_val).
Notation decode_enum := (decode_enum val dec is_option default_val).
Notation decode_wrapper := (decode_wrapper val dec is_option default_val).

Lemma dec_fields_collapse fs body :
  NoDup (map fst body) -> (forall k x, In (k, x) body -> nodup_keys x = true) ->
  dec_fields fs (btree_of (map (fun p : string * json => (fst p, collapse (snd p))) body)) = dec_fields fs body.
Proof.
  intros N F.
  assert (N' : NoDup (map fst (map (fun p : string * json => (fst p, collapse (snd p))) body)))
    by (rewrite map_fst_second; exact N).
  induction fs as [|f r IH]; simpl; [reflexivity|].
  rewrite (btree_count _ (fd_name f) N'), count_key_map_second.
  rewrite (btree_lookup _ (fd_name f) N'), lookup_map_second.
  rewrite IH.
  destruct (count_key (fd_name f) body) as [|[|n]]; [reflexivity| |reflexivity].
  destruct (lookup (fd_name f) body) as [x|] eqn:L; simpl; [|reflexivity].
  rewrite dec_collapse; [reflexivity|]. apply lookup_in in L. eapply F. exact L.
Qed.

Lemma decode_struct_collapse v b :
  nodup_keys b = true -> decode_struct v (collapse b) = decode_struct v b.
Proof.
  intros H. destruct b as [| | | | |body]; try reflexivity.
  destruct (nodup_keys_obj body H) as [N F]. unfold Sem.decode_struct. simpl collapse. cbv beta iota.
  rewrite dec_fields_collapse; auto.
Qed.

Lemma decode_enum_collapse e k b :
  nodup_keys b = true -> decode_enum e (JObj [(k, collapse b)]) = decode_enum e (JObj [(k, b)]).
Proof.
  intros H. unfold Sem.decode_enum. destruct (find_by_wire e k); [|reflexivity]. apply decode_struct_collapse. exact H.
Qed.

(* shape of the buffered document *)
Lemma collapse_single k b : collapse (JObj [(k, b)]) = JObj [(k, collapse b)].
Proof. reflexivity. Qed.

Lemma collapse_obj_length members :
  NoDup (map fst members) ->
  exists ms', collapse (JObj members) = JObj ms' /\ length ms' = length members.
Proof.
  intros N. simpl. eexists. split; [reflexivity|].
  rewrite btree_length; [apply map_length | rewrite map_fst_second; exact N].
Qed.

(* ---- the routing table ---- *)
Variable parts : list edesc.
Definition table (e : edesc) : list string := sort (map vd_wire e).
Definition tables : list (list string) := map table parts.

Hypothesis disjoint : forall i i' k, i < length parts -> i' < length parts ->
  In k (map vd_wire (nth i parts [])) -> In k (map vd_wire (nth i' parts [])) -> i = i'.

Lemma in_table e k : In k (table e) <-> In k (map vd_wire e).
Proof. unfold table. apply sort_in. Qed.

Lemma existsb_in k l : existsb (String.eqb k) l = true <-> In k l.
Proof.
  rewrite existsb_exists. split.
  - intros [x [I E]]. apply String.eqb_eq in E. subst. exact I.
  - intros I. exists k. split; [exact I | apply String.eqb_refl].
Qed.

Lemma find_part_spec : forall ts k base i,
  find_part ts k base = Some i ->
  base <= i /\ i - base < length ts /\ In k (nth (i - base) ts []) /\
  forall i', base <= i' -> i' < i -> ~ In k (nth (i' - base) ts []).
Proof.
  induction ts as [|t r IH]; intros k base i H; simpl in H; [discriminate|].
  destruct (existsb (String.eqb k) t) eqn:E.
  - injection H as <-. rewrite Nat.sub_diag. simpl. split; [lia|]. split; [lia|]. split; [apply existsb_in; exact E|]. intros; lia.
  - apply IH in H. destruct H as (H1 & H2 & H3 & H4). split; [lia|]. split; [simpl; lia|].
    replace (i - base) with (S (i - S base)) by lia. simpl. split; [exact H3|].
    intros i' L1 L2. destruct (Nat.eq_dec i' base) as [->|Ne].
    + rewrite Nat.sub_diag. simpl. intros I. apply existsb_in in I. congruence.
    + replace (i' - base) with (S (i' - S base)) by lia. simpl. apply H4; lia.
Qed.

Lemma find_part_none : forall ts k base, find_part ts k base = None -> forall t, In t ts -> ~ In k t.
Proof.
  induction ts as [|t r IH]; intros k base H t' I; simpl in *; [destruct I|].
  destruct (existsb (String.eqb k) t) eqn:E; [discriminate|].
  destruct I as [<-|I]; [intros J; apply existsb_in in J; congruence | eapply IH; eauto].
Qed.

Lemma find_part_found : forall ts k base n, n < length ts -> In k (nth n ts []) ->
  exists i, find_part ts k base = Some i /\ i <= base + n.
Proof.
  induction ts as [|t r IH]; intros k base n L I; simpl in *; [lia|].
  destruct (existsb (String.eqb k) t) eqn:E; [exists base; split; [reflexivity | lia]|].
  destruct n as [|n]; [apply existsb_in in I; congruence|].
  destruct (IH k (S base) n) as (i & F & Li); [lia | exact I|]. exists i. split; [exact F | lia].
Qed.

Lemma nth_tables i : i < length parts -> nth i tables [] = table (nth i parts []).
Proof.
  intros L. unfold tables. rewrite (nth_indep _ [] (table [])) by (rewrite map_length; exact L).
  apply map_nth.
Qed.

Lemma tables_length : length tables = length parts.
Proof. unfold tables. apply map_length. Qed.

(* ---- C03 main theorem ---- *)
Theorem wrapper_accepts_iff_exactly_one_part j i m :
  nodup_keys j = true ->
  (decode_wrapper parts tables j = WOk i m <->
   (i < length parts /\ decode_enum (nth i parts []) j = inr m /\
    forall i' m', i' < length parts -> decode_enum (nth i' parts []) j = inr m' -> i' = i)).
Proof.
  intros ND. split.
  - unfold Sem.decode_wrapper. intros H.
    destruct j as [| | | | |members]; try (cbn [collapse] in H; discriminate).
    destruct (nodup_keys_obj members ND) as [N F].
    destruct (collapse_obj_length members N) as (ms' & Ec & Lc). rewrite Ec in H.
    destruct ms' as [|[k body] [|? ?]]; try discriminate.
    destruct members as [|[k0 b] [|? ?]]; simpl in Lc; try discriminate.
    rewrite collapse_single in Ec. injection Ec as <- <-.
    destruct (find_part tables k0 0) as [i0|] eqn:FP; [|discriminate].
    destruct (decode_enum (nth i0 parts []) (JObj [(k0, collapse b)])) as [e|m0] eqn:D; [discriminate|].
    injection H as <- <-.
    apply find_part_spec in FP. destruct FP as (_ & L & I & _). rewrite Nat.sub_0_r in *. rewrite tables_length in L.
    rewrite nth_tables in I by exact L. apply in_table in I.
    assert (NDb : nodup_keys b = true) by (apply (F k0 b); left; reflexivity).
    rewrite decode_enum_collapse in D by exact NDb.
    split; [exact L|]. split; [exact D|].
    intros i' m' L' D'. apply (decode_enum_accepts_only_own_names val dec is_option default_val) in D'.
    destruct D' as (k' & body' & v & Ej & Iv & Ew & _). injection Ej as <- <-.
    apply (disjoint i' i0 k0); auto. rewrite <- Ew. apply in_map. exact Iv.
  - intros (L & D & U).
    pose proof (decode_enum_accepts_only_own_names val dec is_option default_val _ _ _ D) as (k & b & v & -> & Iv & Ew & _).
    destruct (nodup_keys_obj _ ND) as [_ F].
    assert (NDb : nodup_keys b = true) by (apply (F k b); left; reflexivity).
    unfold Sem.decode_wrapper. rewrite collapse_single.
    assert (Ik : In k (nth i tables [])).
    { rewrite nth_tables by exact L. apply in_table. rewrite <- Ew. apply in_map. exact Iv. }
    destruct (find_part_found tables k 0 i) as (i0 & FP & Li0); [rewrite tables_length; exact L | exact Ik|].
    rewrite FP. pose proof (find_part_spec _ _ _ _ FP) as (_ & L0 & I0 & _). rewrite Nat.sub_0_r, tables_length in *.
    rewrite nth_tables in I0 by exact L0. apply in_table in I0.
    assert (i0 = i). { apply (disjoint i0 i k); auto. rewrite <- Ew. apply in_map. exact Iv. }
    subst i0. rewrite decode_enum_collapse by exact NDb. rewrite D. reflexivity.
Qed.

(* ---- every other document is an error of the documented class; never stuck ---- *)
Theorem wrapper_error_classes j :
  nodup_keys j = true ->
  (forall i m, i < length parts -> decode_enum (nth i parts []) j <> inr m) ->
  match j with
  | JObj [(k, b)] =>
      (* unknown name: the error lists every supported message *)
      ((forall t, In t tables -> ~ In k t) /\ decode_wrapper parts tables j = WUnsupported (concat tables))
      \/ (* the owning part rejects the body *)
      (exists i e, i < length parts /\ In k (map vd_wire (nth i parts [])) /\ decode_wrapper parts tables j = WPartError i e)
  | JObj members => decode_wrapper parts tables j = WExpectedOne (length members)
  | _ => decode_wrapper parts tables j = WWrongFormat
  end.
Proof.
  intros ND None_accepts. destruct j as [| | | | |members]; try reflexivity.
  destruct (nodup_keys_obj members ND) as [N F].
  destruct members as [|[k b] [|p2 r]].
  - reflexivity.
  - unfold Sem.decode_wrapper. rewrite collapse_single.
    assert (NDb : nodup_keys b = true) by (apply (F k b); left; reflexivity).
    destruct (find_part tables k 0) as [i|] eqn:FP.
    + right. pose proof (find_part_spec _ _ _ _ FP) as (_ & L & I & _). rewrite Nat.sub_0_r, tables_length in *.
      rewrite nth_tables in I by exact L. apply in_table in I.
      rewrite decode_enum_collapse by exact NDb.
      destruct (decode_enum (nth i parts []) (JObj [(k, b)])) as [e|m] eqn:D.
      * exists i, e. auto.
      * exfalso. exact (None_accepts i m L D).
    + left. split; [eapply find_part_none; exact FP | reflexivity].
  - destruct (collapse_obj_length ((k, b) :: p2 :: r) N) as (ms' & Ec & Lc).
    unfold Sem.decode_wrapper. rewrite Ec. simpl in Lc.
    destruct ms' as [|q1 [|q2 r']]; simpl in Lc; try lia.
    destruct q1. f_equal. simpl. lia.
Qed.

(* ---- transparent encoding (serde untagged) ---- *)
Theorem wrapper_encodes_like_part i m : encode_wrapper val enc parts i m = encode_enum val enc (nth i parts []) m.
Proof. reflexivity. Qed.

(* ---- routing: the entry point runs only handlers of the owning part ---- *)
Variable ctxT : Type.
Variable outcome : Type.
Variable handler : string -> ctxT -> list val -> outcome.

Theorem entry_runs_only_the_owning_part j c log o :
  nodup_keys j = true ->
  entry_enum val dec is_option default_val ctxT outcome handler parts tables j c = ECalled log o ->
  exists i m, decode_wrapper parts tables j = WOk i m /\ i < length parts /\
              decode_enum (nth i parts []) j = inr m /\
              forall fn c' args, In (Call fn c' args) log -> In fn (map vd_fn (nth i parts [])).
Proof.
  intros ND. unfold entry_enum. destruct (decode_wrapper parts tables j) as [i m| | | |] eqn:W; try discriminate.
  destruct (dispatch_enum val ctxT outcome handler (nth i parts []) m c) as [[lg oo]|] eqn:Dp; [|discriminate].
  intros H. injection H as <- <-.
  apply (wrapper_accepts_iff_exactly_one_part j i m ND) in W. destruct W as (L & D & _).
  exists i, m. repeat split; auto.
  eapply dispatch_enum_log_in_enum. exact Dp.
Qed.

End Wrapper.
