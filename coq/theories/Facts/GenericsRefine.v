(* Which type parameters a generated message type carries and which of the user's bounds it keeps - translated from
   sylvia-derive on every run (GenImpGenerics.generics_fns): `CheckGenerics::{new, used, used_unused, visit_path}` of
   parser/check_generics.rs and `filter_wheres`, `as_where_clause`, `emit_bracketed_generics` of utils.rs.

   Outside the translated functions (stubs the theorems quantify over): syn's own traversal - `visit_where_predicate`
   (answers, for a predicate, the generics it mentions: any list) and `visit_path_segment` (recorded) - and
   `GetPath::get_path` (the path an entry of the generics list stands for: any Option). Generic parameters, predicates and
   paths are arbitrary values, compared with the structural equality of `Imp.v`. *)
From Coq Require Import String List Bool Arith Lia.
Require Import SV.Model.Imp SV.Model.GenImpGenerics SV.Facts.ImpFacts SV.Facts.MacroRefine.
Import ListNotations.
Open Scope string_scope.
Open Scope list_scope.

Definition mem (g : value) (l : list value) : bool := existsb (fun x => value_eqb x g) l.

(* a where-predicate: the generics it mentions (what syn's traversal reports), and its tokens *)
Definition pred := (list value * value)%type.
Definition pred_v (p : pred) : value := VRec "WherePredicate" [("mentions", VArr (fst p)); ("tokens", snd p)].
(* an entry of the generics list: the path it stands for (if any) and the parameter itself *)
Definition gen_v (path : value) (g : value) : value := VRec "Generic" [("path", path); ("param", g)].

Definition GEN : program :=
  generics_fns ++
  [stub "extern::visit_where_predicate" ["checker"; "pred"]
     (ERecord "CheckGenerics" [("used", EField (EVar "pred") "mentions")] (Some (EVar "checker")));
   stub "extern::visit_path_segment" ["checker"; "el"]
     (ERecord "CheckGenerics" [("used", ECall "push" [EField (EVar "checker") "used"; ECon "visited the segment" [EVar "el"]])]
        (Some (EVar "checker")));
   stub "extern::get_path" ["g"] (EField (EVar "g") "path");
   (* what `MsgVariant::new` (translated) asks of other components: the fields of a signature (the traversal of the
      signature is recorded as one more entry of the checker's `used`), syn's traversal of a type / a path (recorded
      likewise), `StripSelfPath.fold_path` (recorded) *)
   stub "extern::process_fields" ["sig"; "checker"]
     (ECon "()" [ECon "fields of" [EVar "sig"];
                 ERecord "CheckGenerics" [("used", ECall "push" [EField (EVar "checker") "used"; ECon "visited the signature" [EVar "sig"]])]
                   (Some (EVar "checker"))]);
   stub "extern::visit_type" ["checker"; "t"]
     (ERecord "CheckGenerics" [("used", ECall "push" [EField (EVar "checker") "used"; ECon "visited the type" [EVar "t"]])] (Some (EVar "checker")));
   stub "extern::visit_path" ["checker"; "p"]
     (ERecord "CheckGenerics" [("used", ECall "push" [EField (EVar "checker") "used"; ECon "visited the path" [EVar "p"]])] (Some (EVar "checker")));
   stub "extern::fold_path" ["folder"; "p"] (ECon "folded by" [EVar "folder"; EVar "p"])].

Lemma evals_compute_calls P K d e en r :
  (forall g h, eval (call P d (K + h)) (K + g) e en = Some r) -> evals P d e en r.
Proof.
  intros H. exists K. intros f fl Hf Hfl. replace f with (K + (f - K)) by lia. replace fl with (K + (fl - K)) by lia. apply H.
Qed.

Lemma firstn_snoc {A} (l : list A) j x : nth_error l j = Some x -> firstn (S j) l = firstn j l ++ [x].
Proof.
  revert j. induction l as [|a l IH]; intros [|j] H; simpl in H; try discriminate.
  - injection H as ->. reflexivity.
  - change (firstn (S (S j)) (a :: l)) with (a :: firstn (S j) l). rewrite (IH _ H). reflexivity.
Qed.

Lemma filter_snoc {A} (f : A -> bool) l x : filter f (l ++ [x]) = filter f l ++ (if f x then [x] else []).
Proof. induction l as [|a l IH]; simpl; [destruct (f x); reflexivity|]. rewrite IH. destruct (f a); reflexivity. Qed.

Lemma forallb_snoc {A} (f : A -> bool) l x : forallb f (l ++ [x]) = forallb f l && f x.
Proof. rewrite forallb_app. simpl. rewrite andb_true_r. reflexivity. Qed.

Local Ltac cmp K := apply (evals_compute _ K); intros ?gg ?fl; reflexivity.

(* ---- the two trivial emitters: nothing for an empty list ---- *)
Theorem translated_as_where_clause d (ps : list value) :
  exists t, calls GEN (S d) "as_where_clause" [VArr ps]
    (CVal (match ps with [] => none | _ => some (quote_v t [("where_predicates", VArr ps)]) end)).
Proof. eexists. destruct ps; (apply (calls_of_run _ _ 20); [reflexivity | vm_compute; reflexivity]). Qed.

Theorem translated_emit_bracketed_generics d (gs : list value) :
  exists t, calls GEN (S d) "emit_bracketed_generics" [VArr gs]
    (CVal (match gs with [] => quote_v "" [] | _ => quote_v t [("unbonded_generics", VArr gs)] end)).
Proof. eexists. destruct gs; (apply (calls_of_run _ _ 20); [reflexivity | vm_compute; reflexivity]). Qed.

(* ---- used_unused: the split of the generics into the used ones (as collected) and the others, in declaration order ---- *)
Definition checker_v (generics used : list value) : value := VRec "CheckGenerics" [("generics", VArr generics); ("used", VArr used)].

Theorem translated_used_unused d (generics used : list value) :
  calls GEN (S d) "CheckGenerics::used_unused" [checker_v generics used]
    (CVal (VCon "()" [VArr used; VArr (filter (fun g => negb (mem g used)) generics)])).
Proof.
  eapply calls_intro with (c := CVal (VCon "()" [VArr used; VArr (filter (fun g => negb (mem g used)) generics)]))
                          (en' := [("self", checker_v generics used)]); try reflexivity.
  simpl fn_body. cbn [app combine fn_params].
  match goal with |- context [EFor "flt_i1" ?lo ?hi ?b] =>
    destruct (ev_for_inv GEN d "flt_i1" b
                (fun j en' => en' = [("flt_acc1", VArr (filter (fun g => negb (mem g used)) (firstn j generics)));
                                     ("flt_src1", VArr generics); ("self", checker_v generics used)])
                (length generics) 0
                [("flt_acc1", VArr []); ("flt_src1", VArr generics); ("self", checker_v generics used)])
      as (enf & Hfor & Hinv) end.
  - reflexivity.
  - intros j en' Hj ->.
    destruct (nth_error generics j) as [g|] eqn:Hnth; [|apply nth_error_None in Hnth; lia].
    rewrite (firstn_snoc _ _ _ Hnth), filter_snoc.
    destruct (mem g used) eqn:E; cbn [negb]; rewrite ?app_nil_r; unfold mem in E;
      (eexists; eexists; split;
        [ eapply ev_block; [|reflexivity];
          eapply ev_stmts_let; [apply (evals_compute _ 6); intros gg fl; simpl; rewrite Hnth; reflexivity | reflexivity |];
          apply ev_stmts_tail; apply (evals_compute _ 14); intros gg fl; simpl; rewrite E; reflexivity
        | reflexivity ]).
  - rewrite Hinv in Hfor. cbn [Nat.add] in Hfor. rewrite firstn_all in Hfor.
    eapply ev_block;
      [ eapply ev_stmts_let;
          [ eapply ev_block; [|reflexivity];
            (eapply ev_stmts_let; [cmp 6 | reflexivity |]); (eapply ev_stmts_let; [cmp 4 | reflexivity |]); cbn [app];
            eapply ev_stmts_expr;
              [ eapply ev_for; [cmp 2 | cmp 4 | rewrite Nat.sub_0_r; exact Hfor]
              | apply ev_stmts_tail; cmp 4 ]
          | reflexivity
          | cbn [app]; apply ev_stmts_tail; cmp 14 ]
      | reflexivity ].
Qed.

Lemma ev_if P d c t e en (b : bool) en1 res :
  evals P d c en (CVal (VBool b), en1) -> evals P d (if b then t else e) en1 res -> evals P d (EIf c t e) en res.
Proof.
  intros [f1 H1] [f2 H2]. exists (S (max f1 f2)). intros f fl Hf Hfl. destruct f as [|f]; [lia|]. simpl.
  rewrite H1 by lia. simpl. destruct b; apply H2; lia.
Qed.

(* ---- filter_wheres: the user's bounds a message type keeps ---- *)
(* a predicate is kept exactly when EVERY generic it mentions is among the used ones *)
Definition keeps (used : list value) (p : pred) : bool := forallb (fun g => mem g used) (fst p).
Definition clause_v (ps : list pred) (other : value) : value := VRec "WhereClause" [("predicates", VArr (map pred_v ps)); ("other", other)].

Theorem translated_filter_wheres_none d gens used :
  calls GEN (S (S d)) "filter_wheres" [none; VArr gens; VArr used] (CVal (VArr [])).
Proof. apply (calls_of_run _ _ 30); [reflexivity | vm_compute; reflexivity]. Qed.

Theorem translated_filter_wheres d (ps : list pred) other gens used :
  calls GEN (S (S d)) "filter_wheres" [some (clause_v ps other); VArr gens; VArr used]
    (CVal (VArr (map pred_v (filter (keeps used) ps)))).
Proof.
  set (base := [("clause", some (clause_v ps other)); ("generics", VArr gens); ("used_generics", VArr used)]).
  eapply calls_intro with (c := CVal (VArr (map pred_v (filter (keeps used) ps)))) (en' := base); try reflexivity.
  simpl fn_body. cbn [app combine fn_params]. fold base.
  set (outer := ("flt_src3", VArr (map pred_v ps)) :: ("clause", clause_v ps other) :: ("hof_v1", clause_v ps other) :: base).
  match goal with |- context [EFor "flt_i3" ?lo ?hi ?b] =>
    destruct (ev_for_inv GEN (S d) "flt_i3" b
                (fun j en' => en' = ("flt_acc3", VArr (map pred_v (filter (keeps used) (firstn j ps)))) :: outer)
                (length ps) 0 (("flt_acc3", VArr []) :: outer))
      as (enf & Hfor & Hinv) end.
  - reflexivity.
  - intros j en' Hj ->.
    destruct (nth_error ps j) as [[ms tk]|] eqn:Hnth; [|apply nth_error_None in Hnth; lia].
    assert (Hm : nth_error (map pred_v ps) j = Some (pred_v (ms, tk))) by (rewrite nth_error_map, Hnth; reflexivity).
    rewrite (firstn_snoc _ _ _ Hnth), filter_snoc, map_app.
    set (acc := map pred_v (filter (keeps used) (firstn j ps))).
    set (inner := ("generics_checker", checker_v gens ms) :: ("pred", pred_v (ms, tk)) :: ("flt_i3", VNat j) :: ("flt_acc3", VArr acc) :: outer).
    (* the inner loop: `.all(|gen| used_generics.contains(&gen))` over the generics the predicate mentions *)
    match goal with |- context [EFor "all_i2" ?lo ?hi ?bi] =>
      destruct (ev_for_inv GEN (S d) "all_i2" bi
                  (fun k en' => en' = ("all_res2", VBool (forallb (fun g => mem g used) (firstn k ms))) :: ("all_src2", VArr ms) :: inner)
                  (length ms) 0 (("all_res2", VBool true) :: ("all_src2", VArr ms) :: inner))
        as (eni & Hall & Hinvi) end.
    + reflexivity.
    + intros k en' Hk ->.
      destruct (nth_error ms k) as [g|] eqn:Hg; [|apply nth_error_None in Hg; lia].
      rewrite (firstn_snoc _ _ _ Hg), forallb_snoc.
      destruct (forallb (fun g0 => mem g0 used) (firstn k ms)); destruct (mem g used) eqn:E; unfold mem in E; cbn [andb];
        (eexists; eexists; split;
          [ eapply ev_block; [|reflexivity];
            eapply ev_stmts_let; [apply (evals_compute _ 6); intros gg fl; simpl; rewrite Hg; reflexivity | reflexivity |];
            apply ev_stmts_tail; apply (evals_compute _ 14); intros gg fl; simpl; rewrite E; reflexivity
          | reflexivity ]).
    + rewrite Hinvi in Hall. cbn [Nat.add] in Hall. rewrite firstn_all in Hall.
      change (forallb (fun g => mem g used) ms) with (keeps used (ms, tk)) in Hall.
      destruct (keeps used (ms, tk)) eqn:Ek; cbn [map]; rewrite ?app_nil_r;
        (eexists; eexists; split;
          [ eapply ev_block;
              [ eapply ev_stmts_let; [apply (evals_compute _ 6); intros gg fl; simpl; rewrite Hm; reflexivity | reflexivity |];
                apply ev_stmts_tail;
                eapply ev_if;
                  [ eapply ev_block;
                      [ (eapply ev_stmts_let; [apply (evals_compute_calls _ 10); intros gg hh; reflexivity | reflexivity |]);
                        (eapply ev_stmts_expr; [apply (evals_compute_calls _ 20); intros gg hh; reflexivity |]);
                        apply ev_stmts_tail;
                        eapply ev_block;
                          [ (eapply ev_stmts_let; [apply (evals_compute_calls _ 10); intros gg hh; reflexivity | reflexivity |]);
                            (eapply ev_stmts_let; [cmp 4 | reflexivity |]); cbn [app];
                            eapply ev_stmts_expr;
                              [ eapply ev_for; [cmp 2 | cmp 4 | rewrite Nat.sub_0_r; exact Hall]
                              | apply ev_stmts_tail; cmp 4 ]
                          | reflexivity ]
                      | reflexivity ]
                  | cbv iota; cmp 14 ]
              | reflexivity ]
          | reflexivity ]).
  - rewrite Hinv in Hfor. cbn [Nat.add] in Hfor. rewrite firstn_all in Hfor.
    eapply ev_block;
      [ apply ev_stmts_tail;
        eapply ev_match;
          [ eapply ev_match; [cmp 6|];
            eapply ev_arm_miss; [reflexivity|]; eapply ev_arm_miss; [reflexivity|];
            eapply ev_arm_hit; [reflexivity|];
            apply ev_con; eapply ev_list_cons; [|apply ev_list_nil];
            eapply ev_block;
              [ (eapply ev_stmts_let; [cmp 4 | reflexivity |]); cbn [app];
                apply ev_stmts_tail; eapply ev_block; [|reflexivity]; apply ev_stmts_tail;
                eapply ev_block;
                  [ (eapply ev_stmts_let; [cmp 6 | reflexivity |]); (eapply ev_stmts_let; [cmp 4 | reflexivity |]); cbn [app];
                    eapply ev_stmts_expr;
                      [ eapply ev_for; [cmp 2 | apply (evals_compute _ 4); intros gg fl; simpl; rewrite map_length; reflexivity
                                       | rewrite Nat.sub_0_r; exact Hfor]
                      | apply ev_stmts_tail; cmp 4 ]
                  | reflexivity ]
              | reflexivity ]
          | eapply ev_arm_hit; [reflexivity|]; cmp 4 ]
      | reflexivity ].
Qed.

(* ---- visit_path: a generic is recorded as used the first time a path equal to its own is met ---- *)
Definition gentry := (option value * value)%type.      (* the path the entry stands for (if any), the parameter *)
Definition gentry_v (e : gentry) : value := gen_v (match fst e with Some q => some q | None => none end) (snd e).
Definition path_v (segs : list value) (tokens : value) : value := VRec "Path" [("segments", VArr segs); ("tokens", tokens)].
Definition stands_for (p : value) (e : gentry) : bool := match fst e with Some q => value_eqb q p | None => false end.
Definition visited (el : value) : value := VCon "visited the segment" [el].
Definition found_g (r : option gentry) : value := match r with Some e => some (gentry_v e) | None => none end.

(* the entry recorded for path p, if it is not recorded yet *)
Definition record (gens : list gentry) (used : list value) (p : value) : list value :=
  match find (stands_for p) gens with
  | Some e => if mem (gentry_v e) used then used else used ++ [gentry_v e]
  | None => used
  end.

Theorem translated_visit_path d (gens : list gentry) (used segs : list value) tokens :
  calls GEN (S (S d)) "CheckGenerics::visit_path" [checker_v (map gentry_v gens) used; path_v segs tokens]
    (CVal (checker_v (map gentry_v gens) (record gens used (path_v segs tokens) ++ map visited segs))).
Proof.
  set (p := path_v segs tokens). set (gv := map gentry_v gens).
  eapply calls_intro with (c := CVal (checker_v gv (record gens used p ++ map visited segs)))
                          (en' := [("self", checker_v gv (record gens used p ++ map visited segs)); ("p", p)]); try reflexivity.
  simpl fn_body. cbn [app combine fn_params]. fold p. fold gv.
  (* the look-up `self.generics.iter().find(|gen| gen.get_path().as_ref() == Some(p))` *)
  match goal with |- context [EFor "find_i1" ?lo ?hi ?b] =>
    destruct (ev_for_inv GEN (S d) "find_i1" b
                (fun j en' => en' = [("find_res1", found_g (find (stands_for p) (firstn j gens))); ("find_src1", VArr gv);
                                     ("self", checker_v gv used); ("p", p)])
                (length gens) 0 [("find_res1", none); ("find_src1", VArr gv); ("self", checker_v gv used); ("p", p)])
      as (enf & Hfind & Hinvf) end.
  { reflexivity. }
  { intros j en' Hj ->.
    destruct (nth_error gens j) as [[pa g]|] eqn:Hnth; [|apply nth_error_None in Hnth; lia].
    assert (Hm : nth_error gv j = Some (gentry_v (pa, g))) by (unfold gv; rewrite nth_error_map, Hnth; reflexivity).
    rewrite (find_firstn_S _ _ _ _ Hnth).
    destruct (find (stands_for p) (firstn j gens)) as [o|] eqn:Hf.
    - eexists. eexists. split.
      + eapply ev_block; [|reflexivity]. apply ev_stmts_tail.
        eapply ev_iflet_miss; [cmp 4 | destruct o; reflexivity | cmp 2].
      + reflexivity.
    - unfold stands_for at 1. cbn [fst]. destruct pa as [q|]; [destruct (value_eqb q p) eqn:Eh|];
        (eexists; eexists; split;
          [ eapply ev_block; [|reflexivity]; apply ev_stmts_tail;
            eapply ev_iflet_hit; [cmp 4 | reflexivity |];
            eapply ev_block; [|reflexivity];
            eapply ev_stmts_let; [apply (evals_compute _ 6); intros gg fl; simpl; rewrite Hm; reflexivity | reflexivity |];
            apply ev_stmts_tail; apply (evals_compute_calls _ 20); intros gg hh; simpl; rewrite ?Eh; reflexivity
          | reflexivity ]). }
  rewrite Hinvf in Hfind. cbn [Nat.add] in Hfind. rewrite firstn_all in Hfind.
  (* the segments: `for el in &p.segments { self.visit_path_segment(el) }` *)
  set (used1 := record gens used p).
  match goal with |- context [EFor "for_i2" ?lo ?hi ?b] =>
    destruct (ev_for_inv GEN (S d) "for_i2" b
                (fun j en' => en' = [("for_src2", VArr segs); ("self", checker_v gv (used1 ++ map visited (firstn j segs))); ("p", p)])
                (length segs) 0 [("for_src2", VArr segs); ("self", checker_v gv (used1 ++ [])); ("p", p)])
      as (ens & Hseg & Hinvs) end.
  { reflexivity. }
  { intros j en' Hj ->.
    destruct (nth_error segs j) as [el|] eqn:Hnth; [|apply nth_error_None in Hnth; lia].
    rewrite (firstn_snoc _ _ _ Hnth), map_app, app_assoc. cbn [map].
    eexists. eexists. split.
    - eapply ev_block; [|reflexivity].
      eapply ev_stmts_let; [apply (evals_compute _ 6); intros gg fl; simpl; rewrite Hnth; reflexivity | reflexivity |].
      eapply ev_stmts_expr; [|apply ev_stmts_nil].
      apply (evals_compute_calls _ 20). intros gg hh. reflexivity.
    - reflexivity. }
  rewrite Hinvs in Hseg. cbn [Nat.add] in Hseg. rewrite firstn_all in Hseg. rewrite app_nil_r in Hseg.
  assert (Hlen : forall gg fl en, eval (call GEN (S d) fl) (4 + gg) (ECall "len" [EVar "find_src1"]) (("find_res1", none) :: ("find_src1", VArr gv) :: en) =
                   Some (CVal (VNat (length gens)), ("find_res1", none) :: ("find_src1", VArr gv) :: en))
    by (intros gg fl en; simpl; unfold gv; rewrite map_length; reflexivity).
  unfold used1, record in *. clear used1.
  Local Ltac find_block Hfind Hlen :=
    eapply ev_block;
      [ (eapply ev_stmts_let; [cmp 6 | reflexivity |]); (eapply ev_stmts_let; [cmp 4 | reflexivity |]); cbn [app];
        eapply ev_stmts_expr;
          [ eapply ev_for; [cmp 2 | apply (evals_compute _ 4); intros ?gg ?fl; apply Hlen | rewrite Nat.sub_0_r; exact Hfind]
          | apply ev_stmts_tail; cmp 4 ]
      | reflexivity ].
  Local Ltac segments Hseg :=
    apply ev_stmts_tail;
    eapply ev_block;
      [ (eapply ev_stmts_let; [cmp 6 | reflexivity |]); cbn [app];
        eapply ev_stmts_expr; [eapply ev_for; [cmp 2 | cmp 4 | rewrite Nat.sub_0_r; exact Hseg] | apply ev_stmts_nil]
      | reflexivity ].
  revert Hfind Hseg. destruct (find (stands_for p) gens) as [e|]; intros Hfind Hseg.
  - destruct (mem (gentry_v e) used) eqn:Em; unfold mem in Em;
      (eapply ev_block;
        [ eapply ev_stmts_expr;
            [ eapply ev_block;
                [ eapply ev_stmts_expr;
                    [ eapply ev_iflet_hit;
                        [ find_block Hfind Hlen | reflexivity
                        | apply (evals_compute _ 14); intros gg fl; simpl; rewrite Em; reflexivity ]
                    | segments Hseg ]
                | reflexivity ]
            | apply ev_stmts_tail; cmp 4 ]
        | reflexivity ]).
  - eapply ev_block;
      [ eapply ev_stmts_expr;
          [ eapply ev_block;
              [ eapply ev_stmts_expr;
                  [ eapply ev_iflet_miss; [ find_block Hfind Hlen | reflexivity | cmp 2 ]
                  | segments Hseg ]
              | reflexivity ]
          | apply ev_stmts_tail; cmp 4 ]
      | reflexivity ].
Qed.
