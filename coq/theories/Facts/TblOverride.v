(* `#[sv::override_entry_point(<name>=..)]`: exactly the documented names, each to its own kind. *)
From Coq Require Import String List Bool.
Require Import SV.Model.Kinds SV.Model.GenTables SV.Facts.TblTactics.

Lemma override_kind_sound k : override_kind_of_string (kind_attr_name k) = Some k.
Proof. destruct k; reflexivity. Qed.

Lemma override_kind_complete : forall s k, override_kind_of_string s = Some k -> s = kind_attr_name k.
Proof. table_complete override_kind_of_string. Qed.
