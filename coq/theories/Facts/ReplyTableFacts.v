(* Refinement of the accumulating table fold (`as_reply_data`) to a declarative grouping of the
   methods by handler name (C07, C14, C18). *)
From Coq Require Import String List Bool NArith ZArith Arith Lia Permutation.
Require Import SV.Base.Util SV.Base.Json SV.Model.Kinds SV.Model.Casing SV.Model.Syntax SV.Model.Expand SV.Model.Reply.
Require Import SV.Facts.ReplyFacts.
Import ListNotations.
Open Scope string_scope.
Open Scope list_scope.

Definition pair := (rmethod * string)%type.
Definition claim_of (p : pair) : string * reply_on := (rm_name (fst p), rm_on (fst p)).
Definition rid_of (p : pair) : string := reply_id_of (snd p).
Definition claimants (ps : list pair) (rid : string) : list pair := filter (fun p => rid_of p =? rid) ps.

(* two claims of one reply id constant are in conflict when they are written with different handler
   names (`handler1` / `handler_1`) or when their outcomes overlap *)
Definition conflict (q p : pair) : bool := negb (snd q =? snd p) || excludes (rm_on (fst q)) (rm_on (fst p)).

Lemma conflict_false q p : conflict q p = false -> snd q = snd p /\ excludes (rm_on (fst q)) (rm_on (fst p)) = false.
Proof.
  unfold conflict. intros H. apply orb_false_iff in H. destruct H as [H1 H2]. split; [|exact H2].
  apply negb_false_iff in H1. apply String.eqb_eq in H1. exact H1.
Qed.

(* no two methods claiming one reply id conflict *)
Definition compatible (ps : list pair) : Prop :=
  forall a p b, ps = a ++ p :: b -> forall q, In q a -> rid_of q = rid_of p -> conflict q p = false.

Definition first_data (l : list pair) : option rfield :=
  fold_left (fun acc p => match acc with Some d => Some d | None => fst (as_data_field (fst p)) end) l None.

Definition payload_of (m : rmethod) : list rfield := rd_payload (fst (rd_new m "")).

Record Inv (ps : list pair) (t : list reply_data) : Prop := {
  inv_handlers : forall rd, In rd t -> rd_handlers rd = map claim_of (claimants ps (rd_reply_id rd));
  inv_nodup : NoDup (map rd_reply_id t);
  inv_cover : forall p, In p ps -> exists rd, In rd t /\ rd_reply_id rd = rid_of p;
  inv_data : forall rd, In rd t -> rd_data rd = first_data (claimants ps (rd_reply_id rd));
  inv_payload : forall rd, In rd t -> exists p, hd_error (claimants ps (rd_reply_id rd)) = Some p /\ rd_payload rd = payload_of (fst p);
  inv_hid : forall rd, In rd t -> forall q, In q (claimants ps (rd_reply_id rd)) -> snd q = rd_handler_id rd
}.

Lemma find_rd_some t rid rd : find_rd t rid = Some rd -> In rd t /\ rd_reply_id rd = rid.
Proof.
  unfold find_rd. intros H. apply find_some in H. destruct H as [I E]. apply String.eqb_eq in E. auto.
Qed.

Lemma find_rd_none t rid : find_rd t rid = None -> forall rd, In rd t -> rd_reply_id rd <> rid.
Proof.
  unfold find_rd. intros H rd I E. pose proof (find_none _ _ H rd I) as N. simpl in N. rewrite E, String.eqb_refl in N. discriminate.
Qed.

Lemma replace_rd_ids t rid f : (forall x, rd_reply_id (f x) = rd_reply_id x) ->
  map rd_reply_id (replace_rd t rid f) = map rd_reply_id t.
Proof.
  intros Hf. induction t as [|x r IH]; simpl; [reflexivity|].
  destruct (rd_reply_id x =? rid); simpl; [rewrite Hf; reflexivity | rewrite IH; reflexivity].
Qed.

Lemma replace_rd_in t rid f rd' : NoDup (map rd_reply_id t) -> In rd' (replace_rd t rid f) ->
  (In rd' t /\ rd_reply_id rd' <> rid) \/ (exists x, In x t /\ rd_reply_id x = rid /\ rd' = f x).
Proof.
  induction t as [|x r IH]; simpl; intros N I; [destruct I|].
  inversion N as [|? ? Nx Nr]; subst.
  destruct (String.eqb_spec (rd_reply_id x) rid) as [E|Ne].
  - destruct I as [<-|I].
    + right. exists x. auto.
    + left. split; [right; exact I|]. intros E'. apply Nx. rewrite E, <- E'. apply in_map. exact I.
  - destruct I as [<-|I].
    + left. auto.
    + destruct (IH Nr I) as [[A B]|(y & A & B & C)]; [left; auto | right; exists y; auto].
Qed.

Lemma in_replace_rd t rid f x : In x t -> rd_reply_id x = rid -> NoDup (map rd_reply_id t) -> In (f x) (replace_rd t rid f).
Proof.
  induction t as [|y r IH]; simpl; intros I E N; [destruct I|].
  inversion N as [|? ? Ny Nr]; subst.
  destruct (String.eqb_spec (rd_reply_id y) (rd_reply_id x)) as [Ey|Ne].
  - destruct I as [->|I]; [left; reflexivity|]. exfalso. apply Ny. rewrite Ey. apply in_map. exact I.
  - destruct I as [->|I]; [contradiction|]. right. apply IH; auto.
Qed.

Lemma in_replace_rd_other t rid f x : In x t -> rd_reply_id x <> rid -> In x (replace_rd t rid f).
Proof.
  induction t as [|y r IH]; simpl; intros I Ne; [destruct I|].
  destruct (String.eqb_spec (rd_reply_id y) rid) as [Ey|Ny].
  - destruct I as [->|I]; [contradiction | right; exact I].
  - destruct I as [->|I]; [left; reflexivity | right; apply IH; auto].
Qed.

Lemma claimants_snoc_same ps p : claimants (ps ++ [p]) (rid_of p) = claimants ps (rid_of p) ++ [p].
Proof. unfold claimants. rewrite filter_app. simpl. rewrite String.eqb_refl. reflexivity. Qed.

Lemma claimants_snoc_other ps p rid : rid_of p <> rid -> claimants (ps ++ [p]) rid = claimants ps rid.
Proof.
  intros N. unfold claimants. rewrite filter_app. simpl. destruct (String.eqb_spec (rid_of p) rid); [contradiction|]. apply app_nil_r.
Qed.

Lemma claimants_nil_iff ps rid : claimants ps rid = [] <-> forall p, In p ps -> rid_of p <> rid.
Proof.
  unfold claimants. split.
  - intros H p I E. assert (In p (filter (fun p => rid_of p =? rid) ps)) by (apply filter_In; split; [exact I | rewrite E; apply String.eqb_refl]).
    rewrite H in H0. destruct H0.
  - intros H. induction ps as [|x r IH]; simpl; [reflexivity|].
    destruct (String.eqb_spec (rid_of x) rid) as [E|_]; [exfalso; exact (H x (or_introl eq_refl) E)|].
    apply IH. intros p I. apply H. right. exact I.
Qed.

Lemma first_data_snoc l p : first_data (l ++ [p]) = match first_data l with Some d => Some d | None => fst (as_data_field (fst p)) end.
Proof. unfold first_data. rewrite fold_left_app. reflexivity. Qed.

Lemma rd_new_fields m hid : rd_reply_id (fst (rd_new m hid)) = reply_id_of hid /\ rd_handlers (fst (rd_new m hid)) = [(rm_name m, rm_on m)]
  /\ rd_data (fst (rd_new m hid)) = fst (as_data_field m) /\ rd_payload (fst (rd_new m hid)) = payload_of m.
Proof. unfold payload_of, rd_new. destruct (as_data_field m) as [d ds]. simpl. auto. Qed.

Lemma rd_merge_fields rd m : rd_reply_id (fst (rd_merge rd m)) = rd_reply_id rd /\
  rd_handlers (fst (rd_merge rd m)) = rd_handlers rd ++ [(rm_name m, rm_on m)] /\
  rd_data (fst (rd_merge rd m)) = (match rd_data rd with Some d => Some d | None => fst (as_data_field m) end) /\
  rd_payload (fst (rd_merge rd m)) = rd_payload rd.
Proof.
  unfold rd_merge. pose proof (rd_new_fields m (rd_handler_id rd)) as (_ & _ & D & _).
  destruct (rd_new m (rd_handler_id rd)) as [n dn]. simpl in *. rewrite D. auto.
Qed.

Lemma rd_new_hid m hid : rd_handler_id (fst (rd_new m hid)) = hid.
Proof. unfold rd_new. destruct (as_data_field m). reflexivity. Qed.

Lemma rd_merge_hid rd m : rd_handler_id (fst (rd_merge rd m)) = rd_handler_id rd.
Proof. unfold rd_merge. destruct (rd_new m (rd_handler_id rd)). reflexivity. Qed.

Lemma existsb_excludes_false (l : list pair) on :
  (forall q, In q l -> excludes (rm_on (fst q)) on = false) ->
  existsb (fun h : string * reply_on => excludes (snd h) on) (map claim_of l) = false.
Proof.
  intros H. induction l as [|q r IH]; simpl; [reflexivity|]. rewrite (H q (or_introl eq_refl)). apply IH.
  intros x I. apply H. right. exact I.
Qed.

(* the entry of a reply id carries the handler name of every claim that does not conflict with its claimants *)
Lemma hid_of_entry ps t x p :
  Inv ps t -> In x t -> rd_reply_id x = rid_of p ->
  (forall q, In q ps -> rid_of q = rid_of p -> conflict q p = false) -> rd_handler_id x = snd p.
Proof.
  intros I Ix E NE. destruct (inv_payload _ _ I x Ix) as (p0 & H0 & _).
  assert (I0 : In p0 (claimants ps (rd_reply_id x))) by (destruct (claimants ps (rd_reply_id x)); [discriminate H0 | injection H0 as ->; left; reflexivity]).
  rewrite <- (inv_hid _ _ I x Ix p0 I0). apply filter_In in I0. destruct I0 as [I0 E0]. apply String.eqb_eq in E0.
  apply (conflict_false p0 p). apply NE; [exact I0 | congruence].
Qed.

(* ---- one step of the fold ---- *)
Lemma table_step_inv ps t ds p :
  Inv ps t -> (forall q, In q ps -> rid_of q = rid_of p -> conflict q p = false) ->
  Inv (ps ++ [p]) (fst (table_step (t, ds) p)).
Proof.
  intros I NE. pose proof (fun x Ix E => hid_of_entry ps t x p I Ix E NE) as HID.
  destruct p as [m hid]. unfold table_step. set (rid := reply_id_of hid).
  change (reply_id_of hid) with (rid_of (m, hid)) in rid.
  destruct (find_rd t rid) as [ex|] eqn:F.
  - destruct (find_rd_some _ _ _ F) as [Iex Eex].
    rewrite (HID ex Iex Eex). cbn [snd]. rewrite String.eqb_refl. cbn [negb].
    rewrite (inv_handlers _ _ I ex Iex), Eex.
    rewrite existsb_excludes_false.
    2:{ intros q Iq. apply filter_In in Iq. destruct Iq as [Iq Eq]. apply String.eqb_eq in Eq. apply (conflict_false q (m, hid)). apply NE; auto. }
    destruct (rd_merge ex m) as [mg dm] eqn:MG. simpl.
    assert (Hf : forall x, rd_reply_id (fst (rd_merge x m)) = rd_reply_id x) by (intros x; apply rd_merge_fields).
    constructor.
    + intros rd' I'. destruct (replace_rd_in _ _ _ _ (inv_nodup _ _ I) I') as [[A B]|(x & A & B & ->)].
      * rewrite claimants_snoc_other by (intros E; apply B; symmetry; exact E). apply (inv_handlers _ _ I); exact A.
      * destruct (rd_merge_fields x m) as (R & H & _). rewrite H, R, B. unfold rid. rewrite claimants_snoc_same, map_app.
        rewrite (inv_handlers _ _ I x A), B. reflexivity.
    + rewrite replace_rd_ids by exact Hf. apply (inv_nodup _ _ I).
    + intros q Iq. apply in_app_or in Iq. destruct Iq as [Iq|[<-|[]]].
      * destruct (inv_cover _ _ I q Iq) as (rd & A & B).
        destruct (String.eqb_spec (rd_reply_id rd) rid) as [E|Ne].
        -- exists (fst (rd_merge rd m)). split; [exact (in_replace_rd t rid (fun x => fst (rd_merge x m)) rd A E (inv_nodup _ _ I)) | rewrite Hf; exact B].
        -- exists rd. split; [apply in_replace_rd_other; auto | exact B].
      * exists (fst (rd_merge ex m)). split; [exact (in_replace_rd t rid (fun x => fst (rd_merge x m)) ex Iex Eex (inv_nodup _ _ I)) | rewrite Hf; exact Eex].
    + intros rd' I'. destruct (replace_rd_in _ _ _ _ (inv_nodup _ _ I) I') as [[A B]|(x & A & B & ->)].
      * rewrite claimants_snoc_other by (intros E; apply B; symmetry; exact E). apply (inv_data _ _ I); exact A.
      * destruct (rd_merge_fields x m) as (R & _ & D & _). rewrite D, R, B. rewrite (inv_data _ _ I x A), B.
        unfold rid. rewrite claimants_snoc_same, first_data_snoc. reflexivity.
    + intros rd' I'. destruct (replace_rd_in _ _ _ _ (inv_nodup _ _ I) I') as [[A B]|(x & A & B & ->)].
      * rewrite claimants_snoc_other by (intros E; apply B; symmetry; exact E). apply (inv_payload _ _ I); exact A.
      * destruct (rd_merge_fields x m) as (R & _ & _ & P). rewrite P, R, B. unfold rid. rewrite claimants_snoc_same.
        destruct (inv_payload _ _ I x A) as (p0 & H0 & P0). rewrite B in H0.
        exists p0. split; [|exact P0]. fold rid. destruct (claimants ps rid); [discriminate H0 | exact H0].
    + intros rd' I'. destruct (replace_rd_in _ _ _ _ (inv_nodup _ _ I) I') as [[A B]|(x & A & B & ->)].
      * rewrite claimants_snoc_other by (intros E; apply B; symmetry; exact E). apply (inv_hid _ _ I); exact A.
      * rewrite rd_merge_hid. destruct (rd_merge_fields x m) as (R & _). rewrite R, B. unfold rid. rewrite claimants_snoc_same.
        intros q Iq. apply in_app_or in Iq. destruct Iq as [Iq|[<-|[]]].
        -- apply (inv_hid _ _ I x A). rewrite B. exact Iq.
        -- symmetry. apply (HID x A B).
  - pose proof (find_rd_none _ _ F) as Nn.
    assert (CN : claimants ps rid = []).
    { apply claimants_nil_iff. intros q Iq E. destruct (inv_cover _ _ I q Iq) as (rd & A & B). apply (Nn rd A). congruence. }
    destruct (rd_new m hid) as [n dn] eqn:RN. simpl.
    pose proof (rd_new_fields m hid) as (R & H & D & P). rewrite RN in R, H, D, P. simpl in R, H, D, P.
    constructor.
    + intros rd' I'. apply in_app_or in I'. destruct I' as [A|[<-|[]]].
      * rewrite claimants_snoc_other by (intros E; apply (Nn rd' A); symmetry; exact E). apply (inv_handlers _ _ I); exact A.
      * rewrite H, R. change (reply_id_of hid) with (rid_of (m, hid)). rewrite claimants_snoc_same. fold rid. rewrite CN. reflexivity.
    + rewrite map_app. simpl. apply NoDup_app; [apply (inv_nodup _ _ I) | repeat constructor; intros [] |].
      intros x Ix [<-|[]]. apply in_map_iff in Ix. destruct Ix as (rd & E & A). apply (Nn rd A). rewrite E, R. reflexivity.
    + intros q Iq. apply in_app_or in Iq. destruct Iq as [Iq|[<-|[]]].
      * destruct (inv_cover _ _ I q Iq) as (rd & A & B). exists rd. split; [apply in_or_app; left; exact A | exact B].
      * exists n. split; [apply in_or_app; right; left; reflexivity | exact R].
    + intros rd' I'. apply in_app_or in I'. destruct I' as [A|[<-|[]]].
      * rewrite claimants_snoc_other by (intros E; apply (Nn rd' A); symmetry; exact E). apply (inv_data _ _ I); exact A.
      * rewrite D, R. change (reply_id_of hid) with (rid_of (m, hid)). rewrite claimants_snoc_same. fold rid. rewrite CN. reflexivity.
    + intros rd' I'. apply in_app_or in I'. destruct I' as [A|[<-|[]]].
      * rewrite claimants_snoc_other by (intros E; apply (Nn rd' A); symmetry; exact E). apply (inv_payload _ _ I); exact A.
      * rewrite R. change (reply_id_of hid) with (rid_of (m, hid)). rewrite claimants_snoc_same. fold rid. rewrite CN.
        exists (m, hid). split; [reflexivity | exact P].
    + intros rd' I'. apply in_app_or in I'. destruct I' as [A|[<-|[]]].
      * rewrite claimants_snoc_other by (intros E; apply (Nn rd' A); symmetry; exact E). apply (inv_hid _ _ I); exact A.
      * rewrite R. change (reply_id_of hid) with (rid_of (m, hid)). rewrite claimants_snoc_same. fold rid. rewrite CN.
        intros q [<-|[]]. pose proof (rd_new_hid m hid) as Hh. rewrite RN in Hh. symmetry. exact Hh.
Qed.

Lemma inv_nil : Inv [] [].
Proof. constructor; simpl; try (intros ? []); constructor. Qed.

Lemma compatible_prefix pre ps : compatible (pre ++ ps) -> compatible pre.
Proof. intros C a p b E q Iq. apply (C a p (b ++ ps)); [rewrite E, <- app_assoc; reflexivity | exact Iq]. Qed.

Lemma fold_inv : forall ps pre t ds, Inv pre t -> compatible (pre ++ ps) ->
  Inv (pre ++ ps) (fst (fold_left table_step ps (t, ds))).
Proof.
  induction ps as [|p r IH]; intros pre t ds I C; cbn [fold_left].
  - rewrite app_nil_r. exact I.
  - destruct (table_step (t, ds) p) as [t' ds'] eqn:TS.
    replace (pre ++ p :: r) with ((pre ++ [p]) ++ r) by (rewrite <- app_assoc; reflexivity).
    apply IH.
    + replace t' with (fst (table_step (t, ds) p)) by (rewrite TS; reflexivity).
      apply table_step_inv; [exact I|]. intros q Iq E. apply (C pre p r eq_refl q Iq E).
    + rewrite <- app_assoc. exact C.
Qed.

(* ---- the table of a method list ---- *)
Theorem build_table_inv ms : compatible (all_pairs ms) -> Inv (all_pairs ms) (fst (build_table ms)).
Proof. intros C. unfold build_table. apply (fold_inv (all_pairs ms) [] [] _ inv_nil C). Qed.

(* ---- routing: the method chosen for an outcome is THE method declared for it under that name ---- *)
Definition covers_ok_on (r : reply_on) : bool := reply_on_eqb r ROSuccess || reply_on_eqb r ROAlways.
Definition covers_err_on (r : reply_on) : bool := reply_on_eqb r ROError || reply_on_eqb r ROAlways.

Lemma excludes_ok a b : covers_ok_on a = true -> covers_ok_on b = true -> excludes a b = true.
Proof. destruct a, b; simpl; intros; try discriminate; reflexivity. Qed.
Lemma excludes_err a b : covers_err_on a = true -> covers_err_on b = true -> excludes a b = true.
Proof. destruct a, b; simpl; intros; try discriminate; reflexivity. Qed.
Lemma excludes_sym a b : excludes a b = excludes b a.
Proof. destruct a, b; reflexivity. Qed.

Lemma filter_split {A} (f : A -> bool) : forall ps a p b,
  filter f ps = a ++ p :: b -> exists a' b', ps = a' ++ p :: b' /\ a = filter f a' /\ b = filter f b'.
Proof.
  induction ps as [|x r IH]; intros a p b E; simpl in E; [destruct a; discriminate|].
  destruct (f x) eqn:Fx.
  - destruct a as [|y a].
    + simpl in E. injection E as <- <-. exists [], r. simpl. auto.
    + simpl in E. injection E as <- E. destruct (IH a p b E) as (a' & b' & -> & -> & ->).
      exists (x :: a'), b'. simpl. rewrite Fx. auto.
  - destruct (IH a p b E) as (a' & b' & -> & -> & ->). exists (x :: a'), b'. simpl. rewrite Fx. auto.
Qed.

Lemma compatible_claimants ps rid a p b :
  compatible ps -> claimants ps rid = a ++ p :: b -> forall q, In q a -> excludes (rm_on (fst q)) (rm_on (fst p)) = false.
Proof.
  intros C E q Iq. unfold claimants in E. destruct (filter_split _ _ _ _ _ E) as (a' & b' & Eps & -> & _).
  apply filter_In in Iq. destruct Iq as [Iq Eq]. apply String.eqb_eq in Eq.
  assert (Ip : In p (filter (fun p0 : pair => rid_of p0 =? rid) ps)) by (rewrite E; apply in_or_app; right; left; reflexivity).
  apply filter_In in Ip. destruct Ip as [_ Ep]. apply String.eqb_eq in Ep.
  apply (conflict_false q p). apply (C a' p b' Eps q Iq). congruence.
Qed.

(* at most one claimant of a name covers a given outcome *)
Lemma find_unique {A} (f : A -> bool) (l : list A) x :
  In x l -> f x = true -> (forall a p b, l = a ++ p :: b -> forall q, In q a -> f q = true -> f p = true -> False) ->
  find f l = Some x.
Proof.
  induction l as [|y r IH]; intros I Fx U; [destruct I|]. simpl. destruct (f y) eqn:Fy.
  - destruct I as [->|I]; [reflexivity|]. exfalso.
    apply in_split in I. destruct I as (l1 & l2 & ->).
    apply (U (y :: l1) x l2 eq_refl y (or_introl eq_refl) Fy Fx).
  - destruct I as [->|I]; [congruence|]. apply IH; auto.
    intros a p b E q Iq Fq Fp. apply (U (y :: a) p b (f_equal (cons y) E) q (or_intror Iq) Fq Fp).
Qed.

Lemma find_map_claim (f : reply_on -> bool) (l : list pair) :
  find (fun h : string * reply_on => f (snd h)) (map claim_of l) = option_map claim_of (find (fun p => f (rm_on (fst p))) l).
Proof. induction l as [|x r IH]; simpl; [reflexivity|]. destruct (f (rm_on (fst x))); [reflexivity | exact IH]. Qed.

Section Routing.
Variable ms : list rmethod.
Hypothesis C : compatible (all_pairs ms).
Let t := fst (build_table ms).

(* success: the method declared for success (or always) under the name of this entry *)
Theorem success_handler_is_the_declared_method rd p :
  In rd t -> In p (claimants (all_pairs ms) (rd_reply_id rd)) -> covers_ok_on (rm_on (fst p)) = true ->
  success_handler rd = Some (claim_of p).
Proof.
  intros I Ip Cp. unfold success_handler. rewrite (inv_handlers _ _ (build_table_inv ms C) rd I).
  rewrite (find_map_claim covers_ok_on). erewrite find_unique; [reflexivity | exact Ip | exact Cp |].
  intros a q b E x Ix Fx Fq. pose proof (compatible_claimants _ _ _ _ _ C E x Ix) as H.
  rewrite (excludes_ok _ _ Fx Fq) in H. discriminate.
Qed.

Theorem error_handler_is_the_declared_method rd p :
  In rd t -> In p (claimants (all_pairs ms) (rd_reply_id rd)) -> covers_err_on (rm_on (fst p)) = true ->
  error_handler rd = Some (claim_of p).
Proof.
  intros I Ip Cp. unfold error_handler. rewrite (inv_handlers _ _ (build_table_inv ms C) rd I).
  rewrite (find_map_claim covers_err_on). erewrite find_unique; [reflexivity | exact Ip | exact Cp |].
  intros a q b E x Ix Fx Fq. pose proof (compatible_claimants _ _ _ _ _ C E x Ix) as H.
  rewrite (excludes_err _ _ Fx Fq) in H. discriminate.
Qed.

(* no method declared for the outcome: the dispatcher passes through *)
Theorem no_success_method rd :
  In rd t -> (forall p, In p (claimants (all_pairs ms) (rd_reply_id rd)) -> covers_ok_on (rm_on (fst p)) = false) ->
  success_handler rd = None.
Proof.
  intros I H. unfold success_handler. rewrite (inv_handlers _ _ (build_table_inv ms C) rd I).
  rewrite (find_map_claim covers_ok_on).
  destruct (find (fun p => covers_ok_on (rm_on (fst p))) (claimants (all_pairs ms) (rd_reply_id rd))) as [x|] eqn:F; [|reflexivity].
  apply find_some in F. destruct F as [Ix Fx]. rewrite (H x Ix) in Fx. discriminate.
Qed.

Theorem no_error_method rd :
  In rd t -> (forall p, In p (claimants (all_pairs ms) (rd_reply_id rd)) -> covers_err_on (rm_on (fst p)) = false) ->
  error_handler rd = None.
Proof.
  intros I H. unfold error_handler. rewrite (inv_handlers _ _ (build_table_inv ms C) rd I).
  rewrite (find_map_claim covers_err_on).
  destruct (find (fun p => covers_err_on (rm_on (fst p))) (claimants (all_pairs ms) (rd_reply_id rd))) as [x|] eqn:F; [|reflexivity].
  apply find_some in F. destruct F as [Ix Fx]. rewrite (H x Ix) in Fx. discriminate.
Qed.

(* one entry per distinct handler-name constant, and every claimed name has an entry *)
Theorem table_ids_distinct : NoDup (map rd_reply_id t).
Proof. apply (inv_nodup _ _ (build_table_inv ms C)). Qed.

Theorem every_claim_has_an_entry p : In p (all_pairs ms) -> exists rd, In rd t /\ rd_reply_id rd = rid_of p.
Proof. apply (inv_cover _ _ (build_table_inv ms C)). Qed.

(* the data parameter of an entry is the one of its success method, wherever that is declared *)
Theorem entry_data rd : In rd t -> rd_data rd = first_data (claimants (all_pairs ms) (rd_reply_id rd)).
Proof. apply (inv_data _ _ (build_table_inv ms C)). Qed.

End Routing.

(* ---- the behaviour of dispatch_reply in terms of the declared methods ---- *)
Section Dispatch.
Variable parse_exec : string -> option (option string).
Variable parse_inst : string -> option json.
Variable dec_json : string -> string -> option json.
Variable parse_json : string -> option json.
Variable outcome : Type.
Variable handler : string -> rctx -> list rarg -> outcome.
Variable ms : list rmethod.
Hypothesis C : compatible (all_pairs ms).
Let t := fst (build_table ms).
Notation dispatch_rd := (dispatch_rd parse_exec parse_inst dec_json outcome handler parse_json).
Notation dispatch_reply := (dispatch_reply parse_exec parse_inst dec_json outcome handler parse_json).

Definition empty_ctx (r : reply) : rctx := {| rc_gas := rp_gas r; rc_events := []; rc_msg_responses := [] |}.
Definition full_ctx (r : reply) (ok : sub_ok) : rctx :=
  {| rc_gas := rp_gas r; rc_events := so_events ok; rc_msg_responses := so_msg_responses ok |}.

(* the sub-message failed and a method is declared for error under this name: it runs, once, with
   the gas used in the context (no events), the error text, then the payload *)
Theorem failed_reply_runs_the_error_method rd p r e pargs :
  In rd t -> In p (claimants (all_pairs ms) (rd_reply_id rd)) -> rm_on (fst p) = ROError ->
  rp_result r = SubErr e -> dec_payload parse_json (rd_payload rd) (rp_payload r) = Some pargs ->
  dispatch_rd rd r = RCalled (rm_name (fst p)) (empty_ctx r) (AError e :: pargs)
                             (handler (rm_name (fst p)) (empty_ctx r) (AError e :: pargs)).
Proof.
  intros I Ip On R P. unfold Reply.dispatch_rd. rewrite R.
  rewrite (error_handler_is_the_declared_method ms C rd p I Ip) by (rewrite On; reflexivity).
  unfold claim_of. rewrite On, P. reflexivity.
Qed.

(* ... a method declared for always gets the full result instead *)
Theorem reply_runs_the_always_method rd p r pargs :
  In rd t -> In p (claimants (all_pairs ms) (rd_reply_id rd)) -> rm_on (fst p) = ROAlways ->
  dec_payload parse_json (rd_payload rd) (rp_payload r) = Some pargs ->
  dispatch_rd rd r = RCalled (rm_name (fst p)) (empty_ctx r) (AResult (rp_result r) :: pargs)
                             (handler (rm_name (fst p)) (empty_ctx r) (AResult (rp_result r) :: pargs)).
Proof.
  intros I Ip On P. unfold Reply.dispatch_rd. destruct (rp_result r) as [ok|e] eqn:R.
  - rewrite (success_handler_is_the_declared_method ms C rd p I Ip) by (rewrite On; reflexivity).
    unfold claim_of. rewrite On, P. reflexivity.
  - rewrite (error_handler_is_the_declared_method ms C rd p I Ip) by (rewrite On; reflexivity).
    unfold claim_of. rewrite On, P. reflexivity.
Qed.

(* the sub-message succeeded and a method is declared for success: it runs, once, with gas, the
   sub-message's events and message responses in the context, the data as declared (C09), the payload *)
Theorem successful_reply_runs_the_success_method rd p r ok pargs :
  In rd t -> In p (claimants (all_pairs ms) (rd_reply_id rd)) -> rm_on (fst p) = ROSuccess ->
  rp_result r = SubOk ok -> dec_payload parse_json (rd_payload rd) (rp_payload r) = Some pargs ->
  match rd_data rd with
  | None => dispatch_rd rd r = RCalled (rm_name (fst p)) (full_ctx r ok) pargs (handler (rm_name (fst p)) (full_ctx r ok) pargs)
  | Some f =>
      match extract_data parse_exec parse_inst dec_json
              (match rf_data f with Some d => d | None => {| dp_raw := false; dp_opt := false; dp_inst := false |} end) (rf_ty f) (so_data ok) with
      | inl err => dispatch_rd rd r = RErr err
      | inr d => dispatch_rd rd r = RCalled (rm_name (fst p)) (full_ctx r ok) (AData d :: pargs)
                                            (handler (rm_name (fst p)) (full_ctx r ok) (AData d :: pargs))
      end
  end.
Proof.
  intros I Ip On R P. unfold Reply.dispatch_rd. rewrite R.
  rewrite (success_handler_is_the_declared_method ms C rd p I Ip) by (rewrite On; reflexivity).
  unfold claim_of. rewrite On, P. destruct (rd_data rd) as [f|]; [|reflexivity].
  destruct (extract_data _ _ _ _ _ _); reflexivity.
Qed.

(* no method covers the outcome: as if no reply had been requested *)
Theorem uncovered_success_is_passed_through rd r ok :
  In rd t -> (forall p, In p (claimants (all_pairs ms) (rd_reply_id rd)) -> covers_ok_on (rm_on (fst p)) = false) ->
  rp_result r = SubOk ok -> dispatch_rd rd r = RPass (so_events ok) (so_data ok).
Proof. intros I H R. unfold Reply.dispatch_rd. rewrite R, (no_success_method ms C rd I H). reflexivity. Qed.

Theorem uncovered_failure_is_that_error rd r e :
  In rd t -> (forall p, In p (claimants (all_pairs ms) (rd_reply_id rd)) -> covers_err_on (rm_on (fst p)) = false) ->
  rp_result r = SubErr e -> dispatch_rd rd r = RErr (ESubError e).
Proof. intros I H R. unfold Reply.dispatch_rd. rewrite R, (no_error_method ms C rd I H). reflexivity. Qed.

(* an id belonging to no handler is an error *)
Theorem unknown_id_is_an_error r : lookup_id t (rp_id r) = None -> dispatch_reply t r = RErr (EUnknownId (rp_id r)).
Proof. intros H. unfold Reply.dispatch_reply. rewrite H. reflexivity. Qed.

Lemma lookup_id_in : forall (l : list reply_data) id rd, lookup_id l id = Some rd -> In rd l.
Proof.
  induction l as [|x r IH]; intros id rd H; simpl in H; [discriminate|].
  destruct (N.eqb id 0); [injection H as <-; left; reflexivity | right; eapply IH; exact H].
Qed.

Theorem known_id_dispatches_its_entry r rd : lookup_id t (rp_id r) = Some rd -> dispatch_reply t r = dispatch_rd rd r /\ In rd t.
Proof. intros H. unfold Reply.dispatch_reply. rewrite H. split; [reflexivity | eapply lookup_id_in; exact H]. Qed.

End Dispatch.

(* ---- a decision procedure for `compatible` ---- *)
Definition compat_with (seen : list pair) (p : pair) : bool :=
  forallb (fun q => negb (rid_of q =? rid_of p) || negb (conflict q p)) seen.

Fixpoint compatibleb_aux (seen ps : list pair) : bool :=
  match ps with
  | [] => true
  | p :: r => compat_with seen p && compatibleb_aux (seen ++ [p]) r
  end.
Definition compatibleb (ps : list pair) : bool := compatibleb_aux [] ps.

Lemma compatibleb_aux_sound : forall ps seen, compatibleb_aux seen ps = true ->
  forall a p b, ps = a ++ p :: b -> forall q, In q (seen ++ a) -> rid_of q = rid_of p -> conflict q p = false.
Proof.
  induction ps as [|x r IH]; intros seen H a p b E q Iq Eq; [destruct a; discriminate|].
  simpl in H. apply andb_true_iff in H. destruct H as [Hx Hr].
  destruct a as [|y a]; simpl in E; injection E as -> E.
  - rewrite app_nil_r in Iq. unfold compat_with in Hx. rewrite forallb_forall in Hx. specialize (Hx q Iq).
    rewrite Eq, String.eqb_refl in Hx. cbn [negb orb] in Hx. destruct (conflict q p); [discriminate | reflexivity].
  - apply (IH (seen ++ [y]) Hr a p b E q); [|exact Eq]. rewrite <- app_assoc. exact Iq.
Qed.

Theorem compatibleb_sound ps : compatibleb ps = true -> compatible ps.
Proof. intros H a p b E q Iq. apply (compatibleb_aux_sound ps [] H a p b E q). exact Iq. Qed.

(* ------------------------------------------------------------------------------------------ *)
(* Which tables the macro accepts (C18): the diagnostics of the fold, characterised declaratively. *)
Definition same_sig (a b : list rfield) : bool :=
  Nat.eqb (length a) (length b) && match zip_mismatch a b with [] => true | _ => false end
  && Bool.eqb (is_payload_marked a) (is_payload_marked b).

(* the claim at this position breaks no rule, given the claims before it *)
Definition claim_ok (before : list pair) (p : pair) : Prop :=
  snd (rd_new (fst p) (snd p)) = [] /\
  (forall q, In q before -> rid_of q = rid_of p -> conflict q p = false) /\
  (forall q, hd_error (claimants before (rid_of p)) = Some q -> same_sig (payload_of (fst q)) (payload_of (fst p)) = true).

Definition valid_claims (ps : list pair) : Prop := forall a p b, ps = a ++ p :: b -> claim_ok a p.

Lemma rd_new_diags_indep m h1 h2 : snd (rd_new m h1) = snd (rd_new m h2).
Proof. unfold rd_new. destruct (as_data_field m). reflexivity. Qed.

Lemma rd_new_payload_indep m h : rd_payload (fst (rd_new m h)) = payload_of m.
Proof. unfold payload_of, rd_new. destruct (as_data_field m). reflexivity. Qed.

Lemma step_diags_grow t ds p : exists extra, snd (table_step (t, ds) p) = ds ++ extra.
Proof.
  destruct p as [m hid]. unfold table_step. destruct (find_rd t (reply_id_of hid)) as [ex|].
  - destruct (negb _); [eexists; reflexivity|].
    destruct (existsb _ (rd_handlers ex)); [eexists; reflexivity|]. destruct (rd_merge ex m). eexists; reflexivity.
  - destruct (rd_new m hid). eexists; reflexivity.
Qed.

Lemma fold_diags_grow : forall ps t ds, exists extra, snd (fold_left table_step ps (t, ds)) = ds ++ extra.
Proof.
  induction ps as [|p r IH]; intros t ds; cbn [fold_left]; [exists []; rewrite app_nil_r; reflexivity|].
  destruct (table_step (t, ds) p) as [t' ds'] eqn:TS. destruct (step_diags_grow t ds p) as (e1 & E1). rewrite TS in E1. simpl in E1.
  destruct (IH t' ds') as (e2 & E2). exists (e1 ++ e2). rewrite E2, E1, app_assoc. reflexivity.
Qed.

Lemma app_eq_self_nil {A} (l e : list A) : l ++ e = l -> e = [].
Proof. intros H. rewrite <- (app_nil_r l) in H at 2. apply app_inv_head in H. exact H. Qed.

(* one step adds no diagnostic iff the claim is ok (given the invariant for the claims so far) *)
Lemma step_no_diag_iff ps t ds p : Inv ps t ->
  (snd (table_step (t, ds) p) = ds <-> claim_ok ps p).
Proof.
  intros I. destruct p as [m hid]. unfold claim_ok, table_step. cbn [fst snd].
  set (rid := reply_id_of hid). change (rid_of (m, hid)) with rid.
  destruct (find_rd t rid) as [ex|] eqn:F.
  - destruct (find_rd_some _ _ _ F) as [Iex Eex].
    pose proof (inv_handlers _ _ I ex Iex) as H. rewrite Eex in H.
    destruct (inv_payload _ _ I ex Iex) as (q0 & HQ & PQ). rewrite Eex in HQ.
    assert (Iq0 : In q0 (claimants ps rid)) by (destruct (claimants ps rid); [discriminate HQ | injection HQ as ->; left; reflexivity]).
    pose proof (inv_hid _ _ I ex Iex) as HH. rewrite Eex in HH.
    destruct (rd_handler_id ex =? hid) eqn:HE; cbn [negb].
    2:{ split.
        - intros D. cbn [snd] in D. apply app_eq_self_nil in D. discriminate D.
        - intros (_ & NE & _). exfalso. pose proof Iq0 as Iq0'. apply filter_In in Iq0'. destruct Iq0' as [Iq0' Eq0]. apply String.eqb_eq in Eq0.
          destruct (conflict_false _ _ (NE q0 Iq0' Eq0)) as [Hs _]. cbn [snd] in Hs. rewrite (HH q0 Iq0) in Hs.
          rewrite Hs, String.eqb_refl in HE. discriminate. }
    apply String.eqb_eq in HE.
    destruct (existsb (fun h : string * reply_on => excludes (snd h) (rm_on m)) (rd_handlers ex)) eqn:EX.
    + split.
      * intros D. cbn [snd] in D. apply app_eq_self_nil in D. rewrite H in D.
        destruct (claimants ps rid); [discriminate HQ | discriminate D].
      * intros (_ & NE & _). exfalso. rewrite H in EX. apply existsb_exists in EX. destruct EX as (h & Ih & Eh).
        apply in_map_iff in Ih. destruct Ih as (q & <- & Iq). apply filter_In in Iq. destruct Iq as [Iq Eq]. apply String.eqb_eq in Eq.
        simpl in Eh. destruct (conflict_false _ _ (NE q Iq Eq)) as [_ Hx]. cbn [fst] in Hx. rewrite Hx in Eh. discriminate.
    + unfold rd_merge. destruct (rd_new m (rd_handler_id ex)) as [n dn] eqn:RN. cbn [snd].
      assert (Edn : dn = snd (rd_new m hid)) by (rewrite (rd_new_diags_indep m hid (rd_handler_id ex)), RN; reflexivity).
      assert (Epn : rd_payload n = payload_of m) by (rewrite <- (rd_new_payload_indep m (rd_handler_id ex)), RN; reflexivity).
      split.
      * intros D. apply app_eq_self_nil in D. apply app_eq_nil in D. destruct D as [D1 D2]. apply app_eq_nil in D2. destruct D2 as [D2 D3].
        apply app_eq_nil in D3. destruct D3 as [D3 D4].
        split; [rewrite <- Edn; exact D1|]. split.
        -- intros q Iq Eq. rewrite H in EX.
           assert (Iqc : In q (claimants ps rid)) by (apply filter_In; split; [exact Iq | rewrite Eq; apply String.eqb_refl]).
           unfold conflict. cbn [fst snd]. rewrite (HH q Iqc), HE, String.eqb_refl. cbn [negb orb].
           destruct (excludes (rm_on (fst q)) (rm_on m)) eqn:E; [|reflexivity]. exfalso.
           assert (existsb (fun h : string * reply_on => excludes (snd h) (rm_on m)) (map claim_of (claimants ps rid)) = true).
           { apply existsb_exists. exists (claim_of q). split; [apply in_map; apply filter_In; split; [exact Iq | rewrite Eq; apply String.eqb_refl] | exact E]. }
           congruence.
        -- intros q Hq. rewrite HQ in Hq. injection Hq as <-. unfold same_sig. rewrite <- PQ, <- Epn.
           destruct (Nat.eqb (length (rd_payload ex)) (length (rd_payload n))); [|discriminate D2]. rewrite D3.
           destruct (Bool.eqb (is_payload_marked (rd_payload ex)) (is_payload_marked (rd_payload n))); [reflexivity | discriminate D4].
      * intros (D1 & NE & SS). specialize (SS q0 HQ). unfold same_sig in SS. rewrite <- PQ, <- Epn in SS.
        apply andb_true_iff in SS. destruct SS as [SS M]. apply andb_true_iff in SS. destruct SS as [L Z]. rewrite L, M, Edn, D1. simpl.
        destruct (zip_mismatch (rd_payload ex) (rd_payload n)); [rewrite app_nil_r; reflexivity | discriminate Z].
  - pose proof (find_rd_none _ _ F) as Nn.
    assert (CN : claimants ps rid = []).
    { apply claimants_nil_iff. intros q Iq E. destruct (inv_cover _ _ I q Iq) as (rd & A & B). apply (Nn rd A). congruence. }
    destruct (rd_new m hid) as [n dn] eqn:RN. cbn [snd]. split.
    + intros D. apply app_eq_self_nil in D. split; [exact D|]. split.
      * intros q Iq Eq. exfalso. pose proof (proj1 (claimants_nil_iff ps rid) CN q Iq) as Hn. exact (Hn Eq).
      * intros q Hq. rewrite CN in Hq. discriminate.
    + intros (D & _ & _). rewrite D, app_nil_r. reflexivity.
Qed.

Lemma valid_claims_prefix pre ps : valid_claims (pre ++ ps) -> valid_claims pre.
Proof. intros V a p b E. apply (V a p (b ++ ps)). rewrite E, <- app_assoc. reflexivity. Qed.

Lemma valid_compatible ps : valid_claims ps -> compatible ps.
Proof. intros V a p b E q Iq Eq. destruct (V a p b E) as (_ & NE & _). apply NE; auto. Qed.

(* the fold reports no diagnostic iff every claim is ok *)
Lemma fold_no_diag_iff : forall ps pre t ds, Inv pre t ->
  (snd (fold_left table_step ps (t, ds)) = ds <-> (forall a p b, ps = a ++ p :: b -> claim_ok (pre ++ a) p)).
Proof.
  induction ps as [|p r IH]; intros pre t ds I; cbn [fold_left].
  - split; [intros _ a p b E; destruct a; discriminate | reflexivity].
  - destruct (table_step (t, ds) p) as [t' ds'] eqn:TS.
    pose proof (step_no_diag_iff pre t ds p I) as S. rewrite TS in S. cbn [snd] in S.
    destruct (step_diags_grow t ds p) as (e1 & E1). rewrite TS in E1. cbn [snd] in E1.
    destruct (fold_diags_grow r t' ds') as (e2 & E2).
    split.
    + intros D. rewrite E2, E1, <- app_assoc in D. apply app_eq_self_nil in D. apply app_eq_nil in D. destruct D as [D1 D2]. subst e1 e2.
      rewrite app_nil_r in E1. subst ds'. rewrite app_nil_r in E2.
      assert (OKp : claim_ok pre p) by (apply S; reflexivity).
      assert (I' : Inv (pre ++ [p]) t').
      { replace t' with (fst (table_step (t, ds) p)) by (rewrite TS; reflexivity). apply table_step_inv; [exact I|].
        destruct OKp as (_ & NE & _). exact NE. }
      pose proof (proj1 (IH (pre ++ [p]) t' ds I') E2) as R.
      intros a q b E. destruct a as [|x a]; simpl in E; injection E as <- E.
      * rewrite app_nil_r. exact OKp.
      * specialize (R a q b E). rewrite <- app_assoc in R. exact R.
    + intros V. assert (OKp : claim_ok pre p) by (specialize (V [] p r eq_refl); rewrite app_nil_r in V; exact V).
      apply S in OKp. subst ds'. apply app_eq_self_nil in OKp. subst e1. rewrite app_nil_r in *.
      assert (I' : Inv (pre ++ [p]) t').
      { replace t' with (fst (table_step (t, ds) p)) by (rewrite TS; reflexivity). apply table_step_inv; [exact I|].
        specialize (V [] p r eq_refl). rewrite app_nil_r in V. destruct V as (_ & NE & _). exact NE. }
      apply (IH (pre ++ [p]) t' ds I'). intros a q b E. specialize (V (p :: a) q b). rewrite <- app_assoc. apply V. rewrite E. reflexivity.
Qed.

Theorem table_accepted_iff ms :
  snd (build_table ms) = [] <-> (flat_map field_attr_diags ms = [] /\ valid_claims (all_pairs ms)).
Proof.
  unfold build_table. set (d0 := flat_map field_attr_diags ms).
  destruct (fold_diags_grow (all_pairs ms) [] d0) as (e & E). split.
  - intros H. rewrite E in H. apply app_eq_nil in H. destruct H as [H0 He]. split; [exact H0|].
    subst e. rewrite app_nil_r in E. intros a p b Eq. apply (proj1 (fold_no_diag_iff (all_pairs ms) [] [] d0 inv_nil) E a p b Eq).
  - intros (H0 & V). rewrite H0 in *. apply (fold_no_diag_iff (all_pairs ms) [] [] [] inv_nil). intros a p b Eq. simpl. exact (V a p b Eq).
Qed.

(* accepted tables satisfy the hypothesis of the routing theorems *)
Corollary accepted_table_is_compatible ms : snd (build_table ms) = [] -> compatible (all_pairs ms).
Proof. intros H. apply valid_compatible. apply (proj1 (table_accepted_iff ms) H). Qed.

(* ------------------------------------------------------------------------------------------ *)
(* C08: in an accepted table, handler names that differ as written get different ids - also the
   names whose reply id constants would coincide (`handler1` / `handler_1`): those are rejected. *)
Lemma in_two_split {A} (l : list A) x y : In x l -> In y l ->
  x = y \/ (exists a b, l = a ++ y :: b /\ In x a) \/ (exists a b, l = a ++ x :: b /\ In y a).
Proof.
  induction l as [|z r IH]; intros Ix Iy; [destruct Ix|].
  destruct Ix as [->|Ix], Iy as [->|Iy].
  - left; reflexivity.
  - right; left. apply in_split in Iy. destruct Iy as (l1 & l2 & ->). exists (x :: l1), l2. split; [reflexivity | left; reflexivity].
  - right; right. apply in_split in Ix. destruct Ix as (l1 & l2 & ->). exists (y :: l1), l2. split; [reflexivity | left; reflexivity].
  - destruct (IH Ix Iy) as [E|[(a & b & -> & I)|(a & b & -> & I)]].
    + left; exact E.
    + right; left. exists (z :: a), b. split; [reflexivity | right; exact I].
    + right; right. exists (z :: a), b. split; [reflexivity | right; exact I].
Qed.

Theorem compatible_names_have_their_own_constant ps : compatible ps ->
  forall p1 p2, In p1 ps -> In p2 ps -> snd p1 <> snd p2 -> rid_of p1 <> rid_of p2.
Proof.
  intros C p1 p2 I1 I2 N E.
  destruct (in_two_split ps p1 p2 I1 I2) as [->|[(a & b & Eps & I)|(a & b & Eps & I)]].
  - apply N; reflexivity.
  - destruct (conflict_false _ _ (C a p2 b Eps p1 I E)) as [H _]. exact (N H).
  - destruct (conflict_false _ _ (C a p1 b Eps p2 I (eq_sym E))) as [H _]. exact (N (eq_sym H)).
Qed.

Lemma id_of_aux_complete t : forall hid base rd, In rd t -> rd_reply_id rd = reply_id_of hid -> exists i, id_of_aux t hid base = Some i.
Proof.
  induction t as [|x r IH]; intros hid base rd I E; [destruct I|]. simpl.
  destruct (String.eqb_spec (rd_reply_id x) (reply_id_of hid)) as [_|Nx]; [eexists; reflexivity|].
  destruct I as [->|I]; [contradiction|]. apply (IH hid (N.succ base) rd I E).
Qed.

Theorem accepted_distinct_names_distinct_ids ms : snd (build_table ms) = [] ->
  forall m1 h1 m2 h2, In (m1, h1) (all_pairs ms) -> In (m2, h2) (all_pairs ms) -> h1 <> h2 ->
  exists i1 i2, id_of (fst (build_table ms)) h1 = Some i1 /\ id_of (fst (build_table ms)) h2 = Some i2 /\ i1 <> i2.
Proof.
  intros Acc m1 h1 m2 h2 I1 I2 N.
  pose proof (accepted_table_is_compatible ms Acc) as C.
  pose proof (compatible_names_have_their_own_constant _ C (m1, h1) (m2, h2) I1 I2 N) as NR. unfold rid_of in NR. cbn [snd] in NR.
  destruct (inv_cover _ _ (build_table_inv ms C) (m1, h1) I1) as (r1 & A1 & B1).
  destruct (inv_cover _ _ (build_table_inv ms C) (m2, h2) I2) as (r2 & A2 & B2).
  destruct (id_of_aux_complete _ h1 0%N r1 A1 B1) as (i1 & E1). destruct (id_of_aux_complete _ h2 0%N r2 A2 B2) as (i2 & E2).
  exists i1, i2. split; [exact E1|]. split; [exact E2|]. apply (distinct_handlers_distinct_ids _ h1 h2 i1 i2 NR E1 E2).
Qed.
