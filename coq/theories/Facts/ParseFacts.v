(* Pure consequences of the fold that `ParsedSylviaAttributes::new` was proved to compute (Facts/ParseRefine.v). *)
From Coq Require Import String List Bool Arith Lia Permutation.
Require Import SV.Model.Imp SV.Facts.MacroRefine SV.Facts.ParseRefine.
Import ListNotations.
Open Scope string_scope.
Open Scope list_scope.

(* ------------------------------------------------------------------------------------------ *)
(* What the fold collects, field by field (pure consequences of `step` / `finish`). *)
Definition is_list_ok (k : svkind) (a : ain) : list value :=
  match classify (a_path a), a_content a with
  | Some k', IsList true v => if String.eqb (svkind_name k) (svkind_name k') then [v] else []
  | _, _ => []
  end.

Local Ltac crush_step s :=
  destruct s as [c e ms m ov' va ma f dt pl dg]; destruct c, e, m as [[[? ?] ?]|];
  unfold step, is_list_ok, collect, diag; cbn [s_custom s_error s_msg s_diags];
  repeat match goal with
         | |- context [classify ?p] => destruct (classify p) as [[]|]
         | |- context [a_content ?a] => destruct (a_content a) as [?|[] ?]
         end; cbn; rewrite ?app_nil_r; try reflexivity.

(* the repeatable attributes: every well-formed occurrence is collected, in order of appearance, and nothing else *)
Lemma step_mattrs s a : s_mattrs (step s a) = s_mattrs s ++ is_list_ok KMsgAttrs a.
Proof. crush_step s. Qed.
Lemma step_messages s a : s_messages (step s a) = s_messages s ++ is_list_ok KMessages a.
Proof. crush_step s. Qed.
Lemma step_overrides s a : s_overrides (step s a) = s_overrides s ++ is_list_ok KOverride a.
Proof. crush_step s. Qed.

Lemma finish_keeps s :
  s_mattrs (finish s) = s_mattrs s /\ s_messages (finish s) = s_messages s /\ s_overrides (finish s) = s_overrides s /\
  s_msg (finish s) = s_msg s /\ s_custom (finish s) = s_custom s /\ s_error (finish s) = s_error s /\ s_vattrs (finish s) = s_vattrs s.
Proof.
  unfold finish. destruct (s_vattrs s) eqn:Ev; [rewrite Ev; repeat split|]. destruct (s_msg s) as [[[ty rs] mv]|] eqn:Em; [|rewrite Ev, Em; repeat split].
  destruct ("Instantiate" =? ty); [cbn; rewrite Ev, Em; repeat split|]. destruct ("Migrate" =? ty); cbn; rewrite Ev, Em; repeat split.
Qed.

Lemma fold_collects (proj : st -> list value) (k : svkind) :
  (forall s a, proj (step s a) = proj s ++ is_list_ok k a) ->
  forall l s, proj (fold_left step l s) = proj s ++ flat_map (is_list_ok k) l.
Proof.
  intros H l. induction l as [|a l IH]; intros s; cbn [fold_left flat_map]; [rewrite app_nil_r; reflexivity|].
  rewrite IH, H, app_assoc. reflexivity.
Qed.

Theorem parsed_repeatable_attributes l :
  s_mattrs (finish (fold_left step l init)) = flat_map (is_list_ok KMsgAttrs) l /\
  s_messages (finish (fold_left step l init)) = flat_map (is_list_ok KMessages) l /\
  s_overrides (finish (fold_left step l init)) = flat_map (is_list_ok KOverride) l.
Proof.
  destruct (finish_keeps (fold_left step l init)) as (-> & -> & -> & _).
  rewrite (fold_collects s_mattrs KMsgAttrs step_mattrs), (fold_collects s_messages KMessages step_messages),
          (fold_collects s_overrides KOverride step_overrides).
  repeat split.
Qed.

(* the single attributes: the FIRST well-formed occurrence wins, a later one is refused with a diagnostic *)
Definition msg_of (a : ain) : list (string * value * value) :=
  match classify (a_path a), a_content a with
  | Some KMsg, IsList true v => [(a_msg_type a, a_resp a, v)]
  | _, _ => []
  end.

Lemma step_msg s a : s_msg (step s a) = match s_msg s with Some x => Some x | None => hd_error (msg_of a) end.
Proof. unfold msg_of. crush_step s. Qed.

Theorem parsed_msg_is_the_first l : s_msg (finish (fold_left step l init)) = hd_error (flat_map msg_of l).
Proof.
  destruct (finish_keeps (fold_left step l init)) as (_ & _ & _ & -> & _).
  assert (H : forall l s, s_msg (fold_left step l s) = match s_msg s with Some x => Some x | None => hd_error (flat_map msg_of l) end).
  { clear l. induction l as [|a l IH]; intros s; cbn [fold_left flat_map]; [destruct (s_msg s); reflexivity|].
    rewrite IH, step_msg. destruct (s_msg s); [reflexivity|]. destruct (msg_of a); reflexivity. }
  rewrite H. reflexivity.
Qed.

Lemma step_diags_grow s a x : In x (s_diags s) -> In x (s_diags (step s a)).
Proof. intros H. crush_step s; cbn in H; try exact H; apply in_or_app; left; exact H. Qed.

Lemma finish_diags_grow s x : In x (s_diags s) -> In x (s_diags (finish s)).
Proof.
  intros H. unfold finish. destruct (s_vattrs s); [exact H|]. destruct (s_msg s) as [[[ty rs] mv]|]; [|exact H].
  destruct ("Instantiate" =? ty); [apply in_or_app; left; exact H|].
  destruct ("Migrate" =? ty); [apply in_or_app; left; exact H | exact H].
Qed.

Lemma fold_diags_grow l s x : In x (s_diags s) -> In x (s_diags (fold_left step l s)).
Proof. revert s. induction l as [|a l IH]; intros s H; cbn [fold_left]; [exact H|]. apply IH, step_diags_grow, H. Qed.

Lemma fold_msg_stays l s x : s_msg s = Some x -> s_msg (fold_left step l s) = Some x.
Proof.
  revert s. induction l as [|a l IH]; intros s H; cbn [fold_left]; [exact H|]. apply IH. rewrite step_msg, H. reflexivity.
Qed.

(* a second `sv::msg(..)` on the same method - whatever it says - is refused *)
Theorem second_msg_attribute_is_refused l1 a1 l2 a2 l3 v1 ok v2 :
  classify (a_path a1) = Some KMsg -> a_content a1 = IsList true v1 ->
  classify (a_path a2) = Some KMsg -> a_content a2 = IsList ok v2 ->
  In (VStr "The attribute `sv::msg` is redefined") (s_diags (finish (fold_left step (l1 ++ a1 :: l2 ++ a2 :: l3) init))).
Proof.
  intros Hk1 Hc1 Hk2 Hc2. apply finish_diags_grow.
  rewrite fold_left_app. cbn [fold_left]. rewrite fold_left_app. cbn [fold_left]. apply fold_diags_grow.
  set (s1 := fold_left step l1 init).
  assert (Hs : exists x, s_msg (step s1 a1) = Some x).
  { rewrite step_msg. destruct (s_msg s1); [eauto|]. unfold msg_of. rewrite Hk1, Hc1. cbn. eauto. }
  destruct Hs as [x Hx]. pose proof (fold_msg_stays l2 _ _ Hx) as Hm.
  unfold step at 1. rewrite Hk2, Hc2. unfold collect. rewrite Hm. cbn. apply in_or_app. right. left. reflexivity.
Qed.

(* `sv::attr(..)` on an instantiate / migrate handler is refused *)
Theorem variant_attr_on_struct_message_is_refused l ty rs v :
  s_msg (fold_left step l init) = Some (ty, rs, v) -> s_vattrs (fold_left step l init) <> [] ->
  (ty = "Instantiate" -> In (VStr "The attribute `sv::attr` is not supported for `instantiate`") (s_diags (finish (fold_left step l init)))) /\
  (ty = "Migrate" -> In (VStr "The attribute `sv::attr` is not supported for `migrate`") (s_diags (finish (fold_left step l init)))).
Proof.
  intros Hm Hv. unfold finish. destruct (s_vattrs (fold_left step l init)); [congruence|]. rewrite Hm.
  split; intros ->; cbn; apply in_or_app; right; left; reflexivity.
Qed.

(* the names: `classify` answers for exactly the ten paths `sv::<name>` *)
Lemma name_kind_names n : name_kind n <> None <->
  In n ["custom"; "error"; "messages"; "msg"; "override_entry_point"; "attr"; "msg_attr"; "payload"; "data"; "features"].
Proof.
  unfold name_kind. cbn [In].
  destruct ("custom" =? n) eqn:E1; [apply String.eqb_eq in E1; split; [tauto | discriminate]|].
  destruct ("error" =? n) eqn:E2; [apply String.eqb_eq in E2; split; [tauto | discriminate]|].
  destruct ("messages" =? n) eqn:E3; [apply String.eqb_eq in E3; split; [tauto | discriminate]|].
  destruct ("msg" =? n) eqn:E4; [apply String.eqb_eq in E4; split; [tauto | discriminate]|].
  destruct ("override_entry_point" =? n) eqn:E5; [apply String.eqb_eq in E5; split; [tauto | discriminate]|].
  destruct ("attr" =? n) eqn:E6; [apply String.eqb_eq in E6; split; [tauto | discriminate]|].
  destruct ("msg_attr" =? n) eqn:E7; [apply String.eqb_eq in E7; split; [tauto | discriminate]|].
  destruct ("payload" =? n) eqn:E8; [apply String.eqb_eq in E8; split; [tauto | discriminate]|].
  destruct ("data" =? n) eqn:E9; [apply String.eqb_eq in E9; split; [tauto | discriminate]|].
  destruct ("features" =? n) eqn:E10; [apply String.eqb_eq in E10; split; [tauto | discriminate]|].
  apply String.eqb_neq in E1, E2, E3, E4, E5, E6, E7, E8, E9, E10.
  split; [congruence|]. intros H. exfalso. intuition congruence.
Qed.

Lemma classify_names path :
  classify path <> None <->
  exists n, path = ["sv"; n] /\ In n ["custom"; "error"; "messages"; "msg"; "override_entry_point"; "attr"; "msg_attr"; "payload"; "data"; "features"].
Proof.
  split.
  - destruct path as [|s0 [|s1 [|s2 r]]]; cbn [classify]; try congruence.
    destruct (s0 =? "sv") eqn:E0; [|congruence]. apply String.eqb_eq in E0. subst s0.
    intros H. exists s1. split; [reflexivity|]. apply name_kind_names. exact H.
  - intros (n & -> & Hn). cbn [classify]. rewrite String.eqb_refl. apply name_kind_names. exact Hn.
Qed.

(* reordering the attributes of an item permutes what the parser collects from the repeatable ones and changes nothing else
   about them *)
Theorem reordering_attributes_permutes_the_collected l l' :
  Permutation l l' ->
  Permutation (s_messages (finish (fold_left step l init))) (s_messages (finish (fold_left step l' init))) /\
  Permutation (s_overrides (finish (fold_left step l init))) (s_overrides (finish (fold_left step l' init))) /\
  Permutation (s_mattrs (finish (fold_left step l init))) (s_mattrs (finish (fold_left step l' init))).
Proof.
  intros H.
  destruct (parsed_repeatable_attributes l) as (-> & -> & ->). destruct (parsed_repeatable_attributes l') as (-> & -> & ->).
  repeat split; apply Permutation_flat_map; exact H.
Qed.
