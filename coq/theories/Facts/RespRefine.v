(* sylvia/src/into_response.rs - IntoMsg for SubMsg<Empty>, IntoResponse for Response<Empty> - TRANSLATED from the Rust
   source (GenImp.resp_program, regenerated on every run; a function of the cargo features switched on, because arms of the
   `match` over the message kinds are compiled conditionally).

   Values: a sub-message is the record SubMsg {msg, id, gas_limit, reply_on, payload}; a message kind with one field is
   `CosmosMsg::K [x]`, the Stargate kind the record `CosmosMsg::Stargate {type_url, value}`; a response is the record
   Response {messages, attributes, events, data}. cosmwasm-std's `Response::new` / `add_*` builder methods are built-ins
   of Model/Imp.v (they append to their list). *)
From Coq Require Import String List Bool Arith Lia.
Require Import SV.Model.Imp SV.Model.GenImp SV.Facts.ImpFacts.
Import ListNotations.
Open Scope string_scope.
Open Scope list_scope.

Definition on (E : list string) (x : string) : bool := existsb (String.eqb x) E.
Definition feats_on (E : list string) (fs : list string) : bool := forallb (on E) fs.

(* the three features that gate arms; every enabled set acts on the arms as one of eight *)
Definition E3 (bs bg ba : bool) : list string :=
  (if bs then ["staking"] else []) ++ (if bg then ["stargate"] else []) ++ (if ba then ["cosmwasm_2_0"] else []).
Definition three := ["staking"; "stargate"; "cosmwasm_2_0"].
Definition restrict (E : list string) : list string := E3 (on E "staking") (on E "stargate") (on E "cosmwasm_2_0").

Lemma on_restrict E x : In x three -> on (restrict E) x = on E x.
Proof.
  unfold restrict, E3, three. intros [<-|[<-|[<-|[]]]];
    destruct (on E "staking"), (on E "stargate"), (on E "cosmwasm_2_0"); reflexivity.
Qed.

Lemma forallb_ext_in' {A} (f g : A -> bool) l : (forall x, In x l -> f x = g x) -> forallb f l = forallb g l.
Proof.
  induction l as [|a l IH]; intros H; [reflexivity|]. simpl. rewrite (H a) by (left; reflexivity).
  rewrite IH; [reflexivity|]. intros x Ix. apply H. right. exact Ix.
Qed.

Lemma cfg_arms_restrict E arms :
  forallb (fun a : list string * (pat * expr) => forallb (fun x => existsb (String.eqb x) three) (fst a)) arms = true ->
  cfg_arms E arms = cfg_arms (restrict E) arms.
Proof.
  intros H. unfold cfg_arms. f_equal. apply filter_ext_in. intros a Ia.
  rewrite forallb_forall in H. specialize (H a Ia). rewrite forallb_forall in H.
  apply forallb_ext_in'. intros x Ix. symmetry. apply (on_restrict E x).
  specialize (H x Ix). apply existsb_exists in H. destruct H as (y & Iy & Exy). apply String.eqb_eq in Exy. subst. exact Iy.
Qed.

Lemma resp_program_restrict E : resp_program E = resp_program (restrict E).
Proof. unfold resp_program. rewrite !(cfg_arms_restrict E) by reflexivity. reflexivity. Qed.

(* ------------------------------------------------------------------------------------------ *)
Definition sub_msg (msg id gas reply_on payload : value) : value :=
  VRec "SubMsg" [("msg", msg); ("id", id); ("gas_limit", gas); ("reply_on", reply_on); ("payload", payload)].

(* message kinds with one field, and the features that compile their arm in *)
Definition tuple_kinds : list (string * list string) :=
  [("CosmosMsg::Wasm", []); ("CosmosMsg::Bank", []); ("CosmosMsg::Staking", ["staking"]);
   ("CosmosMsg::Distribution", ["staking"]); ("CosmosMsg::Ibc", ["stargate"]); ("CosmosMsg::Any", ["cosmwasm_2_0"]);
   ("CosmosMsg::Gov", ["stargate"])].

(* a message the conversion keeps, under the enabled features E *)
Inductive kept (E : list string) : value -> Prop :=
| kept_tuple K fs x : In (K, fs) tuple_kinds -> feats_on E fs = true -> kept E (VCon K [x])
| kept_stargate t v : on E "stargate" = true -> kept E (VRec "CosmosMsg::Stargate" [("type_url", t); ("value", v)]).

Definition custom_err : value :=
  VCon "From::from" [VCon "StdError::GenericErr" [VStr "Custom Empty message should not be sent"]].

Local Ltac by_cases E :=
  rewrite (resp_program_restrict E); unfold restrict;
  destruct (on E "staking"), (on E "stargate"), (on E "cosmwasm_2_0").

Lemma calls_into_msg_kept E d m i g r p :
  kept E m -> calls (resp_program E) (S d) "SubMsg::into_msg" [sub_msg m i g r p] (CVal (VCon "Ok" [sub_msg m i g r p])).
Proof.
  intros K. destruct K as [K fs x HK Hf | t v Hg].
  - unfold tuple_kinds in HK. simpl in HK.
    destruct HK as [HK|[HK|[HK|[HK|[HK|[HK|[HK|[]]]]]]]]; injection HK as <- <-;
      unfold feats_on in Hf; cbn [forallb] in Hf; rewrite ?andb_true_r in Hf;
      rewrite (resp_program_restrict E); unfold restrict; rewrite ?Hf;
      destruct (on E "staking"), (on E "stargate"), (on E "cosmwasm_2_0"); try discriminate;
      (eapply calls_intro with (c := CVal (VCon "Ok" [sub_msg (VCon _ [x]) i g r p])); try reflexivity;
       apply (evals_compute _ 30); intros gg fl; reflexivity).
  - rewrite (resp_program_restrict E); unfold restrict; rewrite Hg.
    destruct (on E "staking"), (on E "cosmwasm_2_0");
      eapply calls_intro with (c := CVal (VCon "Ok" [sub_msg (VRec "CosmosMsg::Stargate" [("type_url", t); ("value", v)]) i g r p]));
      try reflexivity; apply (evals_compute _ 30); intros gg fl; reflexivity.
Qed.

Lemma calls_into_msg_custom E d x i g r p :
  calls (resp_program E) (S d) "SubMsg::into_msg" [sub_msg (VCon "CosmosMsg::Custom" [x]) i g r p]
    (CVal (VCon "Err" [custom_err])).
Proof.
  by_cases E;
    (eapply calls_intro with (c := CRet (VCon "Err" [custom_err])); try reflexivity;
     apply (evals_compute _ 30); intros gg fl; reflexivity).
Qed.

(* a kind whose arm is compiled out falls into the last arm: an error, never a silently altered message *)
Lemma calls_into_msg_compiled_out E d K fs x i g r p :
  In (K, fs) tuple_kinds -> feats_on E fs = false ->
  exists e, calls (resp_program E) (S d) "SubMsg::into_msg" [sub_msg (VCon K [x]) i g r p] (CVal (VCon "Err" [e])).
Proof.
  intros HK Hf. unfold tuple_kinds in HK. simpl in HK.
  destruct HK as [HK|[HK|[HK|[HK|[HK|[HK|[HK|[]]]]]]]]; injection HK as <- <-;
    unfold feats_on in Hf; cbn [forallb] in Hf; rewrite ?andb_true_r in Hf; try discriminate;
    eexists; rewrite (resp_program_restrict E); unfold restrict; rewrite ?Hf;
    destruct (on E "staking"), (on E "stargate"), (on E "cosmwasm_2_0"); try discriminate;
    (eapply calls_intro with (c := CRet _); [reflexivity | reflexivity | reflexivity | | reflexivity];
     apply (evals_compute _ 30); intros gg fl; reflexivity).
Qed.

(* ------------------------------------------------------------------------------------------ *)
Definition resp_val (ms attrs events : list value) (data : value) : value :=
  VRec "Response" [("messages", VArr ms); ("attributes", VArr attrs); ("events", VArr events); ("data", data)].

Definition good (E : list string) (v : value) : Prop := exists m i g r p, v = sub_msg m i g r p /\ kept E m.
Definition is_custom_msg (v : value) : Prop := exists x i g r p, v = sub_msg (VCon "CosmosMsg::Custom" [x]) i g r p.

(* the environment inside the desugared `collect` loop *)
Definition L (res : value) (acc ms : list value) (selfv : value) : env :=
  [("collect_res", res); ("collect_acc", VArr acc); ("collect_src", VArr ms); ("self", selfv)].

Lemma firstn_S_nth {A} (l : list A) j x : nth_error l j = Some x -> firstn (S j) l = firstn j l ++ [x].
Proof.
  revert j. induction l as [|a l IH]; intros [|j] H; simpl in H; try discriminate.
  - injection H as ->. reflexivity.
  - change (firstn (S (S j)) (a :: l)) with (a :: firstn (S j) l). rewrite (IH j H). reflexivity.
Qed.

Local Ltac cmp K := apply (evals_compute _ K); intros ?gg ?fl; reflexivity.

Theorem translated_into_response_preserves E d ms attrs events data :
  Forall (good E) ms ->
  calls (resp_program E) (S (S d)) "Response::into_response" [resp_val ms attrs events data]
    (CVal (VCon "Ok" [resp_val ms attrs events data])).
Proof.
  intros Hgood.
  eapply calls_intro with (c := CVal (VCon "Ok" [resp_val ms attrs events data])); try reflexivity.
  simpl fn_body. cbn [app combine fn_params].
  eapply ev_block; [|reflexivity].
  eapply ev_stmts_let.
  - eapply ev_match.
    + eapply ev_block; [|reflexivity].
      eapply ev_stmts_let; [cmp 6 | reflexivity |].
      eapply ev_stmts_let; [cmp 6 | reflexivity |].
      eapply ev_stmts_let; [cmp 6 | reflexivity |].
      cbn [app].
      match goal with |- evals_stmts ?P ?dd (SExpr (EFor ?i ?lo ?hi ?b) :: ?rest) ?en ?res =>
        destruct (ev_for_inv P dd i b
                   (fun j en' => en' = L (VCon "Ok" [VUnit]) (firstn j ms) ms (resp_val ms attrs events data))
                   (length ms) 0 en) as (enf & Hfor & Hinv) end.
      * reflexivity.
      * intros j en' Hj ->.
        destruct (nth_error ms j) as [m|] eqn:Hnth; [|apply nth_error_None in Hnth; lia].
        pose proof (proj1 (Forall_forall _ _) Hgood m (nth_error_In _ _ Hnth)) as (mm & i & g & r & p & -> & K).
        eexists. eexists. split.
        -- eapply ev_block; [|reflexivity]. apply ev_stmts_tail.
           eapply ev_iflet_hit; [cmp 4 | reflexivity |].
           eapply ev_block; [|reflexivity].
           eapply ev_stmts_let.
           ++ apply (evals_compute _ 6). intros gg fl. simpl. rewrite Hnth. reflexivity.
           ++ reflexivity.
           ++ apply ev_stmts_tail. eapply ev_match.
              ** eapply ev_call; [apply (evals_list_compute _ 4); intros gg fl; reflexivity|].
                 apply calls_into_msg_kept. exact K.
              ** eapply ev_arm_hit; [reflexivity|]. cmp 8.
        -- unfold L. rewrite (firstn_S_nth _ _ _ Hnth). reflexivity.
      * eapply ev_stmts_expr.
        -- eapply ev_for; [cmp 2 | cmp 4 |]. rewrite Nat.sub_0_r. exact Hfor.
        -- apply ev_stmts_tail. rewrite Hinv. cmp 8.
    + eapply ev_arm_hit; [reflexivity|]. cmp 2.
  - reflexivity.
  - cbn [Nat.add]. rewrite firstn_all.
    apply (evals_stmts_compute _ 30). intros gg fl. reflexivity.
Qed.

(* the first chain-custom message makes the whole conversion fail with its error; nothing after it is converted *)
Theorem translated_into_response_custom E d pre c post attrs events data :
  Forall (good E) pre -> is_custom_msg c ->
  calls (resp_program E) (S (S d)) "Response::into_response" [resp_val (pre ++ c :: post) attrs events data]
    (CVal (VCon "Err" [VCon "From::from" [custom_err]])).
Proof.
  intros Hgood (cx & ci & cg & cr & cp & ->).
  set (ms := pre ++ sub_msg (VCon "CosmosMsg::Custom" [cx]) ci cg cr cp :: post).
  set (k := length pre).
  assert (Hk : nth_error ms k = Some (sub_msg (VCon "CosmosMsg::Custom" [cx]) ci cg cr cp))
    by (unfold ms, k; rewrite nth_error_app2 by lia; rewrite Nat.sub_diag; reflexivity).
  assert (Hlen : k < length ms) by (unfold ms, k; rewrite app_length; simpl; lia).
  assert (Hpre : forall j, j < k -> exists m, nth_error ms j = Some m /\ good E m).
  { intros j Hj. unfold ms. rewrite nth_error_app1 by exact Hj.
    destruct (nth_error pre j) as [m|] eqn:Hn; [|apply nth_error_None in Hn; unfold k in Hj; lia].
    exists m. split; [reflexivity|]. exact (proj1 (Forall_forall _ _) Hgood m (nth_error_In _ _ Hn)). }
  eapply calls_intro with (c := CRet (VCon "Err" [VCon "From::from" [custom_err]])); try reflexivity.
  simpl fn_body. cbn [app combine fn_params].
  eapply ev_block; [|reflexivity].
  eapply ev_stmts_let_abort; [|reflexivity].
  eapply ev_match.
  - eapply ev_block; [|reflexivity].
    eapply ev_stmts_let; [cmp 6 | reflexivity |].
    eapply ev_stmts_let; [cmp 6 | reflexivity |].
    eapply ev_stmts_let; [cmp 6 | reflexivity |].
    cbn [app].
    match goal with |- evals_stmts ?P ?dd (SExpr (EFor ?i ?lo ?hi ?b) :: ?rest) ?en ?res =>
      destruct (ev_for_inv P dd i b
                 (fun j en' => en' = L (if Nat.leb j k then VCon "Ok" [VUnit] else VCon "Err" [custom_err])
                                       (firstn (Nat.min j k) ms) ms (resp_val ms attrs events data))
                 (length ms) 0 en) as (enf & Hfor & Hinv) end.
    + reflexivity.
    + intros j en' Hj ->.
      destruct (Nat.lt_trichotomy j k) as [Hlt|[->|Hgt]].
      * (* before the custom message: converted and appended *)
        destruct (Hpre j Hlt) as (m & Hnth & (mm & i & g & r & p & -> & K)).
        replace (Nat.leb j k) with true by (symmetry; apply Nat.leb_le; lia).
        replace (Nat.leb (S j) k) with true by (symmetry; apply Nat.leb_le; lia).
        replace (Nat.min j k) with j by lia. replace (Nat.min (S j) k) with (S j) by lia.
        eexists. eexists. split.
        -- eapply ev_block; [|reflexivity]. apply ev_stmts_tail.
           eapply ev_iflet_hit; [cmp 4 | reflexivity |].
           eapply ev_block; [|reflexivity].
           eapply ev_stmts_let.
           ++ apply (evals_compute _ 6). intros gg fl. simpl. rewrite Hnth. reflexivity.
           ++ reflexivity.
           ++ apply ev_stmts_tail. eapply ev_match.
              ** eapply ev_call; [apply (evals_list_compute _ 4); intros gg fl; reflexivity|].
                 apply calls_into_msg_kept. exact K.
              ** eapply ev_arm_hit; [reflexivity|]. cmp 8.
        -- unfold L. rewrite (firstn_S_nth _ _ _ Hnth). reflexivity.
      * (* the custom message: the error is recorded, the list stays *)
        rewrite Nat.leb_refl. replace (Nat.leb (S k) k) with false by (symmetry; apply Nat.leb_gt; lia).
        rewrite Nat.min_id. replace (Nat.min (S k) k) with k by lia.
        eexists. eexists. split.
        -- eapply ev_block; [|reflexivity]. apply ev_stmts_tail.
           eapply ev_iflet_hit; [cmp 4 | reflexivity |].
           eapply ev_block; [|reflexivity].
           eapply ev_stmts_let.
           ++ apply (evals_compute _ 6). intros gg fl. simpl. rewrite Hk. reflexivity.
           ++ reflexivity.
           ++ apply ev_stmts_tail. eapply ev_match.
              ** eapply ev_call; [apply (evals_list_compute _ 4); intros gg fl; reflexivity|].
                 apply calls_into_msg_custom.
              ** eapply ev_arm_miss; [reflexivity|]. eapply ev_arm_hit; [reflexivity|]. cmp 8.
        -- reflexivity.
      * (* after it: nothing is converted any more *)
        replace (Nat.leb j k) with false by (symmetry; apply Nat.leb_gt; lia).
        replace (Nat.leb (S j) k) with false by (symmetry; apply Nat.leb_gt; lia).
        replace (Nat.min j k) with k by lia. replace (Nat.min (S j) k) with k by lia.
        eexists. eexists. split.
        -- eapply ev_block; [|reflexivity]. apply ev_stmts_tail.
           eapply ev_iflet_miss; [cmp 4 | reflexivity | cmp 2].
        -- reflexivity.
    + eapply ev_stmts_expr.
      * eapply ev_for; [cmp 2 | cmp 4 |]. rewrite Nat.sub_0_r. exact Hfor.
      * apply ev_stmts_tail. rewrite Hinv. cbn [Nat.add].
        replace (Nat.leb (length ms) k) with false by (symmetry; apply Nat.leb_gt; lia). cmp 8.
  - eapply ev_arm_miss; [reflexivity|]. eapply ev_arm_hit; [reflexivity|]. cmp 6.
Qed.

(* ------------------------------------------------------------------------------------------ *)
(* Joined with the feature tables regenerated from sylvia/Cargo.toml, the cfg attributes and the pinned cosmwasm-std
   (GenLib, LibFacts): under EVERY selection of sylvia features, every message kind that cosmwasm-std defines under that
   selection - other than Custom - is kept by the translated conversion. *)
Require Import SV.Model.GenLib SV.Model.Lib SV.Facts.LibFacts.

Fixpoint strs_eqb (a b : list string) : bool :=
  match a, b with
  | [], [] => true
  | x :: r, y :: s => (x =? y) && strs_eqb r s
  | _, _ => false
  end.

Definition kind_value (K : string) (x t v : value) : value :=
  if K =? "Stargate" then VRec "CosmosMsg::Stargate" [("type_url", t); ("value", v)] else VCon ("CosmosMsg::" ++ K) [x].

(* the table used above is the regenerated table of arms (minus Custom and the struct-like Stargate) *)
Lemma tuple_kinds_are_the_arms :
  forallb (fun a : string * list string =>
             if (fst a =? "Custom") || (fst a =? "Stargate") then true
             else existsb (fun b : string * list string => (fst b =? "CosmosMsg::" ++ fst a) && strs_eqb (snd b) (snd a)) tuple_kinds)
          into_msg_arm_features = true.
Proof. vm_compute. reflexivity. Qed.

Lemma kept_of_arm_in E K x t v :
  In K cosmos_variants -> K <> "Custom" -> arm_in E K = true -> kept E (kind_value K x t v).
Proof.
  intros HK HC HV. unfold arm_in in HV.
  unfold cosmos_variants in HK. simpl in HK.
  repeat (destruct HK as [<-|HK]; [first [congruence |
    (cbn in HV; unfold kind_value; cbn [String.eqb Ascii.eqb Bool.eqb append];
     first [ apply kept_stargate; unfold on; rewrite andb_true_r in HV; exact HV
           | eapply kept_tuple; [simpl; tauto | unfold feats_on, on; exact HV] ])]|]).
  destruct HK.
Qed.

Lemma kept_of_variant_present (sel : string -> bool) K x t v :
  In K cosmos_variants -> K <> "Custom" ->
  variant_present (filter sel feature_names) K = true ->
  kept (enabled (filter sel feature_names)) (kind_value K x t v).
Proof.
  intros HK HC HV. apply kept_of_arm_in; [exact HK | exact HC |].
  exact (eq_trans (arm_present_iff_variant_present sel K HK) HV).
Qed.

(* a sub-message carrying a non-custom message kind that cosmwasm-std defines under the feature selection F *)
Definition present_msg (F : list string) (sm : value) : Prop :=
  exists K x t v i g r p, sm = sub_msg (kind_value K x t v) i g r p /\
    In K cosmos_variants /\ K <> "Custom" /\ variant_present F K = true.

Theorem translated_into_response_keeps_existing_kinds (sel : string -> bool) d ms attrs events data :
  let F := filter sel feature_names in
  Forall (present_msg F) ms ->
  calls (resp_program (enabled F)) (S (S d)) "Response::into_response" [resp_val ms attrs events data]
    (CVal (VCon "Ok" [resp_val ms attrs events data])).
Proof.
  intros F H. apply translated_into_response_preserves.
  apply Forall_forall. intros sm Hs.
  destruct (proj1 (Forall_forall _ _) H sm Hs) as (K & x & t & v & i & g & r & p & -> & HK & HC & HV).
  exists (kind_value K x t v), i, g, r, p. split; [reflexivity|].
  apply kept_of_variant_present; assumption.
Qed.
