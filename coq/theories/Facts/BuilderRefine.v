(* The methods of sylvia::builder::instantiate::InstantiateBuilder, TRANSLATED from the Rust source
   (GenImp.builder_program, regenerated on every run): what each does to the builder state and what build / build2
   return, for all argument values. *)
From Coq Require Import String List Bool Arith Lia.
Require Import SV.Model.Imp SV.Model.GenImp SV.Facts.ImpFacts.
Import ListNotations.
Open Scope string_scope.
Open Scope list_scope.

Notation B := builder_program.

Definition vopt (o : option value) : value := match o with Some v => VCon "Some" [v] | None => VCon "None" [] end.

Record bstate := { b_msg : value; b_code : value; b_admin : option string; b_label : option string; b_funds : value }.

Definition rep (b : bstate) : value :=
  VRec "InstantiateBuilder"
    [("msg", b_msg b); ("code_id", b_code b); ("admin", vopt (option_map VStr (b_admin b)));
     ("label", vopt (option_map VStr (b_label b))); ("funds", b_funds b)].

Inductive bstep := BLabel (l : string) | BAdmin (a : string) | BFunds (f : value).

Definition b_new (msg code : value) : bstate :=
  {| b_msg := msg; b_code := code; b_admin := None; b_label := None; b_funds := VArr [] |}.
Definition b_apply (b : bstate) (s : bstep) : bstate :=
  match s with
  | BLabel l => {| b_msg := b_msg b; b_code := b_code b; b_admin := b_admin b; b_label := Some l; b_funds := b_funds b |}
  | BAdmin a => {| b_msg := b_msg b; b_code := b_code b; b_admin := Some a; b_label := b_label b; b_funds := b_funds b |}
  | BFunds f => {| b_msg := b_msg b; b_code := b_code b; b_admin := b_admin b; b_label := b_label b; b_funds := f |}
  end.
Definition step_method (s : bstep) : string :=
  match s with BLabel _ => "InstantiateBuilder::with_label" | BAdmin _ => "InstantiateBuilder::with_admin" | BFunds _ => "InstantiateBuilder::with_funds" end.
Definition step_arg (s : bstep) : value := match s with BLabel l => VStr l | BAdmin a => VStr a | BFunds f => f end.

Definition wasm_msg (b : bstate) (salt : option value) : value :=
  let common := [("code_id", b_code b); ("msg", b_msg b); ("admin", vopt (option_map VStr (b_admin b)));
                 ("label", VStr (match b_label b with Some l => l | None => "" end)); ("funds", b_funds b)] in
  match salt with
  | None => VRec "WasmMsg::Instantiate" common
  | Some s => VRec "WasmMsg::Instantiate2" (common ++ [("salt", s)])
  end.

Lemma calls_new d msg code : calls B (S d) "InstantiateBuilder::new" [msg; code] (CVal (rep (b_new msg code))).
Proof.
  eapply calls_intro with (c := CVal (rep (b_new msg code))); try reflexivity.
  apply (evals_compute B 12). intros g fl. reflexivity.
Qed.

Lemma calls_step d b s : calls B (S d) (step_method s) [rep b; step_arg s] (CVal (rep (b_apply b s))).
Proof.
  destruct s; (eapply calls_intro with (c := CVal (rep (b_apply b _))); try reflexivity;
  apply (evals_compute B 12); intros g fl; reflexivity).
Qed.

Lemma calls_build d b : calls B (S d) "InstantiateBuilder::build" [rep b] (CVal (wasm_msg b None)).
Proof.
  eapply calls_intro with (c := CVal (wasm_msg b None)); try reflexivity.
  apply (evals_compute B 12). intros g fl. destruct b as [m c a [l|] f]; reflexivity.
Qed.

Lemma calls_build2 d b salt : calls B (S d) "InstantiateBuilder::build2" [rep b; salt] (CVal (wasm_msg b (Some salt))).
Proof.
  eapply calls_intro with (c := CVal (wasm_msg b (Some salt))); try reflexivity.
  apply (evals_compute B 12). intros g fl. destruct b as [m c a [l|] f]; reflexivity.
Qed.

(* a builder session: new, any sequence of setters, then build / build2 *)
Inductive session (d : nat) : value -> bstate -> Prop :=
| s_new msg code v : calls B (S d) "InstantiateBuilder::new" [msg; code] (CVal v) -> v = rep (b_new msg code) -> session d v (b_new msg code)
| s_step v b s v' : session d v b -> calls B (S d) (step_method s) [v; step_arg s] (CVal v') -> session d v' (b_apply b s).

Lemma session_rep d v b : session d v b -> v = rep b.
Proof.
  induction 1 as [msg code v _ Hv | v b s v' _ IH Hc]; [exact Hv|].
  subst v. exact (f_equal (fun c => match c with CVal x => x | _ => VUnit end) (calls_fun B _ _ _ _ _ Hc (calls_step d b s))).
Qed.

(* a chain of setter calls, each evaluated by the translated method on the value returned by the previous one *)
Fixpoint chain (d : nat) (v : value) (steps : list bstep) (vfinal : value) : Prop :=
  match steps with
  | [] => v = vfinal
  | s :: r => exists v', calls B (S d) (step_method s) [v; step_arg s] (CVal v') /\ chain d v' r vfinal
  end.

Lemma chain_steps d : forall steps b, chain d (rep b) steps (rep (fold_left b_apply steps b)).
Proof.
  induction steps as [|s r IH]; intros b; simpl; [reflexivity|].
  exists (rep (b_apply b s)). split; [apply calls_step|apply IH].
Qed.

Fixpoint b_last_label (steps : list bstep) (acc : option string) : option string :=
  match steps with [] => acc | BLabel l :: r => b_last_label r (Some l) | _ :: r => b_last_label r acc end.
Fixpoint b_last_admin (steps : list bstep) (acc : option string) : option string :=
  match steps with [] => acc | BAdmin a :: r => b_last_admin r (Some a) | _ :: r => b_last_admin r acc end.
Fixpoint b_last_funds (steps : list bstep) (acc : value) : value :=
  match steps with [] => acc | BFunds f :: r => b_last_funds r f | _ :: r => b_last_funds r acc end.

Lemma fold_fields : forall steps b,
  b_msg (fold_left b_apply steps b) = b_msg b /\ b_code (fold_left b_apply steps b) = b_code b /\
  b_label (fold_left b_apply steps b) = b_last_label steps (b_label b) /\
  b_admin (fold_left b_apply steps b) = b_last_admin steps (b_admin b) /\
  b_funds (fold_left b_apply steps b) = b_last_funds steps (b_funds b).
Proof.
  induction steps as [|s r IH]; intros b; simpl; [repeat split|].
  destruct (IH (b_apply b s)) as (H1 & H2 & H3 & H4 & H5). destruct s; simpl in *; repeat split; assumption.
Qed.

(* new, any sequence of setters in any order, then build / build2: code id and message as given; admin, label and
   funds are the last ones set; the label is empty when unset; the salted form adds the salt *)
Theorem translated_instantiate_builder d msg code steps salt :
  exists v0 v,
    calls B (S d) "InstantiateBuilder::new" [msg; code] (CVal v0) /\
    chain d v0 steps v /\
    calls B (S d) (match salt with None => "InstantiateBuilder::build" | Some _ => "InstantiateBuilder::build2" end)
          (v :: match salt with None => [] | Some s => [s] end)
          (CVal (let common := [("code_id", code); ("msg", msg); ("admin", vopt (option_map VStr (b_last_admin steps None)));
                                ("label", VStr (match b_last_label steps None with Some l => l | None => "" end));
                                ("funds", b_last_funds steps (VArr []))] in
                 match salt with
                 | None => VRec "WasmMsg::Instantiate" common
                 | Some s => VRec "WasmMsg::Instantiate2" (common ++ [("salt", s)])
                 end)).
Proof.
  exists (rep (b_new msg code)), (rep (fold_left b_apply steps (b_new msg code))).
  split; [apply calls_new|]. split; [apply chain_steps|].
  destruct (fold_fields steps (b_new msg code)) as (H1 & H2 & H3 & H4 & H5). simpl in H1, H2, H3, H4, H5.
  set (b := fold_left b_apply steps (b_new msg code)) in *.
  match goal with |- calls _ _ _ _ (CVal ?x) => assert (E : x = wasm_msg b salt) end.
  { unfold wasm_msg. rewrite H1, H2, H3, H4, H5. destruct salt; reflexivity. }
  rewrite E. destruct salt as [s|]; [apply (calls_build2 d _ s)|apply calls_build].
Qed.
