(* What ONE handler contributes to its reply id: `ReplyData::new` of sylvia-derive/src/contract/communication/reply.rs, translated on
   every run (GenImpReplyData.replydata_fns; `ReplyData::merge` is translated next to it, by state passing - no theorem about it
   yet). Diagnostics are a ghost field `__diags` of the object.

   Stubs: `variant.as_data_field()` (the field marked as data, if any: whatever the variant says), `validate_fields_attributes`
   and `assert_no_redundant_params` (diagnostics only). *)
From Coq Require Import String List Bool Arith Lia.
Require Import SV.Model.Imp SV.Model.GenImpReplyData SV.Facts.ImpFacts SV.Facts.MacroRefine SV.Facts.CheckRefine.
Import ListNotations.
Open Scope string_scope.
Open Scope list_scope.

(* `is_payload_marked` (whether a payload is deserialised raw) is ANY function definition of that name: the theorem about `merge`
   assumes of it only that it answers a boolean depending on the payload (an oracle, Section Merge below) *)
Definition RDM (fd : fn_def) : program :=
  replydata_fns ++
  [stub "extern::as_data_field" ["variant"] (EField (EVar "variant") "data_field");
   stub "extern::validate_fields_attributes" ["variant"] (EConst VUnit);
   stub "extern::assert_no_redundant_params" ["payload"] (EConst VUnit);
   fd].
Definition RD : program := RDM (stub "extern::is_payload_marked" ["payload"] (ECon "is_payload_marked" [EVar "payload"])).

(* a handler as the reply table sees it: its name, the outcome it is declared for, its fields (after the context), the field it
   marks as data (if any) *)
Definition handler_v (name : value) (o : outcome) (fields : list value) (data : option value) : value :=
  VRec "MsgVariant" [("function_name", name); ("msg_attr", VRec "MsgAttr" [("reply_on", outcome_v o)]); ("fields", VArr fields);
                     ("data_field", match data with Some f => some f | None => none end)].

(* the payload: all the fields, minus the first when the handler declares a data field or is not a success handler (an error /
   always handler's first parameter is the error / the result) *)
Definition payload_of (o : outcome) (fields : list value) (data : option value) : list value :=
  match data, o with
  | None, OSuccess => fields
  | _, _ => skipn 1 fields
  end.

Definition reply_data_v (id hid name : value) (o : outcome) (fields : list value) (data : option value) : value :=
  VRec "ReplyData"
    [("__diags", VArr (match payload_of o fields data with [] => [VStr "Missing payload parameter."] | _ => [] end));
     ("reply_id", id); ("handler_id", hid); ("handlers", VArr [VCon "()" [name; outcome_v o]]);
     ("data", match data with Some f => some f | None => none end); ("payload", VArr (payload_of o fields data))].

Lemma evals_compute_calls P K d e en r :
  (forall g h, eval (call P d (K + h)) (K + g) e en = Some r) -> evals P d e en r.
Proof.
  intros H. exists K. intros f fl Hf Hfl. replace f with (K + (f - K)) by lia. replace fl with (K + (fl - K)) by lia. apply H.
Qed.
Lemma evals_stmts_compute_calls P K d ss en r :
  (forall g h, eval_stmts (call P d (K + h)) (K + g) ss en = Some r) -> evals_stmts P d ss en r.
Proof.
  intros H. exists K. intros f fl Hf Hfl. replace f with (K + (f - K)) by lia. replace fl with (K + (fl - K)) by lia. apply H.
Qed.

Local Ltac cmp K := apply (evals_compute _ K); intros ?gg ?fl; reflexivity.

Lemma ev_if_true P d c t e en en1 res :
  evals P d c en (CVal (VBool true), en1) -> evals P d t en1 res -> evals P d (EIf c t e) en res.
Proof.
  intros [f1 H1] [f2 H2]. exists (S (max f1 f2)). intros f fl Hf Hfl. destruct f as [|f]; [lia|]. simpl.
  rewrite H1 by lia. simpl. apply H2; lia.
Qed.

Lemma firstn_snoc {A} (l : list A) j x : nth_error l j = Some x -> firstn (S j) l = firstn j l ++ [x].
Proof.
  revert j. induction l as [|a l IH]; intros [|j] H; simpl in H; try discriminate.
  - injection H as ->. reflexivity.
  - change (firstn (S (S j)) (a :: l)) with (a :: firstn (S j) l). rewrite (IH _ H). reflexivity.
Qed.
Lemma skipn1_firstn_snoc {A} (l : list A) j x : 1 <= j -> nth_error l j = Some x ->
  skipn 1 (firstn (S j) l) = skipn 1 (firstn j l) ++ [x].
Proof.
  intros Hj Hn. rewrite (firstn_snoc _ _ _ Hn), skipn_app.
  assert (Hl : length (firstn j l) = j).
  { apply firstn_length_le. apply Nat.lt_le_incl. apply nth_error_Some. rewrite Hn. discriminate. }
  rewrite Hl. replace (1 - j) with 0 by lia. reflexivity.
Qed.
Lemma skipn1_firstn1 {A} (l : list A) : skipn 1 (firstn 1 l) = [].
Proof. destruct l as [|a r]; reflexivity. Qed.

(* For EVERY handler - any number of fields, with or without a data field, declared for any outcome - the entry it opens for its
   reply id has: the handler itself with its outcome as the only handler, its data field, the payload above, and the diagnostic
   "Missing payload parameter." exactly when that payload is empty *)
Theorem translated_reply_data_new_gen fd d id hid name (o : outcome) (fields : list value) (data : option value) :
  calls (RDM fd) (S (S d)) "ReplyData::new" [id; handler_v name o fields data; hid] (CVal (reply_data_v id hid name o fields data)).
Proof.
  set (params := [("reply_id", id); ("variant", handler_v name o fields data); ("handler_id", hid)]).
  (* the handlers whose payload is all their fields *)
  assert (Hplain : data = None /\ o = OSuccess ->
          calls (RDM fd) (S (S d)) "ReplyData::new" [id; handler_v name o fields data; hid] (CVal (reply_data_v id hid name o fields data))).
  { intros [-> ->]. unfold reply_data_v, payload_of.
    destruct fields as [|f0 fs];
      (eapply calls_intro with (c := CVal _); try reflexivity;
       apply (evals_compute_calls _ 60); intros gg hh; reflexivity). }
  destruct data as [df|]; [|destruct o; [apply Hplain; split; reflexivity| |]]; clear Hplain.
  (* the others: the copy loop `payload.skip(1).collect()` *)
  all: eapply calls_intro with (c := CVal (reply_data_v id hid name _ fields _)) (en' := params); try reflexivity;
       simpl fn_body; cbn [app combine fn_params]; fold params;
       match goal with |- context [EFor "sk_i1" ?lo ?hi ?b] =>
         match goal with |- evals _ _ _ _ (CVal (reply_data_v _ _ _ ?oo _ ?dd), _) =>
           destruct (ev_for_inv (RDM fd) (S d) "sk_i1" b
                       (fun j en' => en' = ("sk_acc1", VArr (skipn 1 (firstn j fields))) :: ("sk_src1", VArr fields) :: ("payload", VArr fields) ::
                                           ("data", match dd with Some f => some f | None => none end) :: ("__diags", VArr []) :: params)
                       (length fields - 1) 1
                       (("sk_acc1", VArr []) :: ("sk_src1", VArr fields) :: ("payload", VArr fields) ::
                        ("data", match dd with Some f => some f | None => none end) :: ("__diags", VArr []) :: params))
             as (enf & Hfor & Hinv)
         end
       end.
  all: try (rewrite skipn1_firstn1; reflexivity).
  all: try (intros j en' Hj ->;
            destruct (nth_error fields j) as [x|] eqn:Hnth; [|apply nth_error_None in Hnth; lia];
            rewrite (skipn1_firstn_snoc _ _ _ (proj1 Hj) Hnth);
            eexists; eexists; split;
              [ eapply ev_block; [|reflexivity]; apply ev_stmts_tail;
                apply (evals_compute _ 14); intros gg fl; simpl; rewrite Hnth; reflexivity
              | reflexivity ]).
  all: rewrite Hinv in Hfor;
       assert (Hend : skipn 1 (firstn (1 + (length fields - 1)) fields) = skipn 1 fields)
         by (destruct fields as [|a r]; [reflexivity|]; replace (1 + (length (a :: r) - 1)) with (length (a :: r)) by (simpl; lia);
             rewrite firstn_all; reflexivity);
       rewrite Hend in Hfor; clear Hend Hinv.
  all: unfold reply_data_v, payload_of; revert Hfor; destruct (skipn 1 fields) as [|p0 ps]; intros Hfor.
  all: eapply ev_block;
         [ (eapply ev_stmts_let; [cmp 4 | reflexivity |]); cbn [app];
           apply ev_stmts_tail;
           eapply ev_block;
             [ (eapply ev_stmts_let; [apply (evals_compute_calls _ 10); intros gg hh; reflexivity | reflexivity |]); cbn [app];
               (eapply ev_stmts_expr; [apply (evals_compute_calls _ 10); intros gg hh; reflexivity |]);
               (eapply ev_stmts_let; [cmp 8 | reflexivity |]); cbn [app];
               eapply ev_stmts_let;
                 [ eapply ev_if_true; [cmp 14|];
                   eapply ev_block; [|reflexivity]; apply ev_stmts_tail;
                   eapply ev_block;
                     [ (eapply ev_stmts_let; [cmp 4 | reflexivity |]); (eapply ev_stmts_let; [cmp 4 | reflexivity |]); cbn [app];
                       eapply ev_stmts_expr;
                         [ eapply ev_for; [cmp 2 | cmp 4 | exact Hfor]
                         | apply ev_stmts_tail; cmp 4 ]
                     | reflexivity ]
                 | reflexivity | ];
               cbn [app];
               apply (evals_stmts_compute_calls _ 30); intros gg hh; reflexivity
             | reflexivity ]
         | reflexivity ].
Qed.

Theorem translated_reply_data_new d id hid name (o : outcome) (fields : list value) (data : option value) :
  calls RD (S (S d)) "ReplyData::new" [id; handler_v name o fields data; hid] (CVal (reply_data_v id hid name o fields data)).
Proof. apply translated_reply_data_new_gen. Qed.
