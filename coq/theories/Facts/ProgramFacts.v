(* Program-level corollaries: the message types of a contract / interface, read off the methods. *)
From Coq Require Import String List Bool Arith Lia Sorted Permutation.
Require Import SV.Base.Util SV.Base.StrOrder SV.Base.Json SV.Model.Kinds SV.Model.GenTables SV.Model.Casing SV.Model.Syntax
               SV.Model.Expand SV.Model.Sem SV.Model.Run.
Require Import SV.Facts.KindsFacts SV.Facts.CasingFacts SV.Facts.TblNames SV.Facts.SemFacts SV.Facts.ExpandFacts.
Import ListNotations.
Open Scope string_scope.
Open Scope list_scope.

Definition contract_variants (c : contract) (k : kind) : variants :=
  mk_variants (c_methods c) k (c_generics c) (c_where c).

Definition iface_variants (i : iface) (k : kind) : variants :=
  mk_variants (i_methods i) k (assoc_names i) (assoc_where i).

Lemma pick_c_spec c k : enum_kind k = true ->
  pick_c k (expand_contract c) = mk_enum (msg_name k) (parse_attrs (c_attrs c)) (contract_variants c k) [].
Proof.
  intros E. unfold expand_contract.
  destruct (mk_struct (parse_attrs (c_attrs c)) (mk_variants (c_methods c) KInst (c_generics c) (c_where c))) as [i di].
  destruct (mk_struct (parse_attrs (c_attrs c)) (mk_variants (c_methods c) KMigrate (c_generics c) (c_where c))) as [g dg].
  destruct k; try discriminate E; reflexivity.
Qed.

Lemma pick_i_spec i k : enum_kind k = true ->
  pick_i k (expand_iface i) =
  mk_enum (i_name i ++ msg_name k)%string (parse_attrs (i_attrs i)) (iface_variants i k) (vs_where (iface_variants i k)).
Proof. intros E. destruct k; try discriminate E; reflexivity. Qed.

Definition contract_enum (c : contract) (k : kind) : edesc := edesc_of (pick_c k (expand_contract c)).
Definition iface_enum (i : iface) (k : kind) : edesc := edesc_of (pick_i k (expand_iface i)).

(* the field descriptions generated for the arguments of a method *)
Definition arg_fdesc (a : arg) : fdesc := fdesc_of (out_field (mk_field a)).

Lemma arg_fdesc_name a : fd_name (arg_fdesc a) = a_name a. Proof. reflexivity. Qed.
Lemma arg_fdesc_ty a : fd_ty (arg_fdesc a) = strip_self (a_ty a). Proof. reflexivity. Qed.

Lemma method_variant ms k gens wh name it impl_wh m :
  In m ms -> method_kind m = Some k ->
  exists vd, In vd (edesc_of (mk_enum name it (mk_variants ms k gens wh) impl_wh)) /\
             vd_fn vd = m_name m /\ vd_wire vd = wire_name (m_name m) /\ vd_kind vd = k /\
             vd_fields vd = map arg_fdesc (m_args m).
Proof.
  intros I MK.
  assert (exists v, variant_of gens m = Some v) as (v & VO).
  { unfold variant_of. unfold method_kind in MK. destruct (p_msg (parse_attrs (m_attrs m))); [eauto | discriminate]. }
  destruct (variant_of_basic gens m v VO) as (A & B & C & D).
  exists (vdesc_of k (out_variant v)). split.
  - rewrite edesc_of_mk_enum, vs_kind_spec. apply in_map_iff. exists v. split; [reflexivity|].
    apply variants_are_methods_of_kind. exists m. auto.
  - simpl. rewrite B, A, C. repeat split; auto. rewrite !map_map. reflexivity.
Qed.

Section Program.
Variable val : Type.
Variable enc : ty -> val -> json.
Variable dec : ty -> json -> option val.
Variable is_option : ty -> bool.
Variable default_val : ty -> val.
Variable wt : ty -> val -> bool.
Hypothesis dec_enc : forall t v, wt t v = true -> dec t (enc t v) = Some v.

(* the JSON object the signature names: one entry per argument after the context, keyed by the
   argument's name, holding that argument's own encoding *)
Definition arg_body (args : list arg) (vals : list val) : list (string * json) :=
  map (fun p : arg * val => (a_name (fst p), enc (strip_self (a_ty (fst p))) (snd p))) (combine args vals).

Definition arg_fields (args : list arg) (vals : list val) : list (string * val) := combine (map a_name args) vals.

Lemma body_of_args args vals : body_of val enc (map arg_fdesc args) vals = arg_body args vals.
Proof.
  unfold body_of, arg_body. revert vals; induction args as [|a r IH]; intros [|x xs]; simpl; try reflexivity.
  f_equal. apply IH.
Qed.

Lemma fields_of_args args vals : fields_of val (map arg_fdesc args) vals = arg_fields args vals.
Proof. unfold fields_of, arg_fields. rewrite map_map. reflexivity. Qed.

(* generic statement over a method list; instantiated for contracts and interfaces below *)
Lemma method_json_shape ms k gens wh name it impl_wh m vals :
  let e := edesc_of (mk_enum name it (mk_variants ms k gens wh) impl_wh) in
  wf_enum e -> In m ms -> method_kind m = Some k -> length vals = length (m_args m) ->
  encode_enum val enc e (mkMsg (m_name m) (arg_fields (m_args m) vals)) =
  Some (JObj [(wire_name (m_name m), JObj (arg_body (m_args m) vals))]).
Proof.
  intros e W I MK L. destruct (method_variant ms k gens wh name it impl_wh m I MK) as (vd & Iv & Fn & Wi & _ & Fs).
  pose proof (encode_enum_shape val enc e vd vals W Iv) as H.
  rewrite Fs, map_length in H. specialize (H L).
  rewrite Fn, Wi, body_of_args, fields_of_args in H. exact H.
Qed.

Lemma method_round_trip ms k gens wh name it impl_wh m vals :
  let e := edesc_of (mk_enum name it (mk_variants ms k gens wh) impl_wh) in
  wf_enum e -> In m ms -> method_kind m = Some k ->
  length vals = length (m_args m) ->
  Forall (fun p : arg * val => wt (strip_self (a_ty (fst p))) (snd p) = true) (combine (m_args m) vals) ->
  forall j, encode_enum val enc e (mkMsg (m_name m) (arg_fields (m_args m) vals)) = Some j ->
  decode_enum val dec is_option default_val e j = inr (mkMsg (m_name m) (arg_fields (m_args m) vals)).
Proof.
  intros e W I MK L Wt j E. destruct (method_variant ms k gens wh name it impl_wh m I MK) as (vd & Iv & Fn & Wi & _ & Fs).
  assert (WT : well_typed val wt (vd_fields vd) vals).
  { split; [rewrite Fs, map_length; exact L|]. rewrite Fs.
    clear -Wt. revert vals Wt. induction (m_args m) as [|a r IH]; intros [|x xs] H; simpl in *; constructor.
    - inversion H; assumption.
    - apply IH. inversion H; assumption. }
  pose proof (decode_encode_enum val enc dec is_option default_val wt dec_enc e vd vals W Iv WT j) as H.
  rewrite Fn, Fs, fields_of_args in H. apply H. exact E.
Qed.

(* one accepted name per annotated method of the kind and no other *)
Lemma accepted_names ms k gens wh name it impl_wh n :
  let e := edesc_of (mk_enum name it (mk_variants ms k gens wh) impl_wh) in
  In n (map vd_wire e) <-> exists m, In m ms /\ method_kind m = Some k /\ wire_name (m_name m) = n.
Proof.
  intros e. split.
  - intros I. apply in_map_iff in I. destruct I as (vd & <- & Iv).
    destruct (enum_variants_only_from_kind ms k gens wh name it impl_wh vd Iv) as (m & Im & MK & _ & Wi & _).
    exists m. auto.
  - intros (m & Im & MK & <-).
    destruct (method_variant ms k gens wh name it impl_wh m Im MK) as (vd & Iv & _ & Wi & _).
    rewrite <- Wi. apply in_map. exact Iv.
Qed.

End Program.

(* ---- the parts of a contract-level message and their published tables ---- *)
Require Import SV.Facts.WrapperFacts.

Lemma contract_enum_spec c k : enum_kind k = true ->
  contract_enum c k = edesc_of (mk_enum (msg_name k) (parse_attrs (c_attrs c)) (contract_variants c k) []).
Proof. intros E. unfold contract_enum. rewrite pick_c_spec by exact E. reflexivity. Qed.

Lemma iface_enum_spec i k : enum_kind k = true ->
  iface_enum i k = edesc_of (mk_enum (i_name i ++ msg_name k)%string (parse_attrs (i_attrs i)) (iface_variants i k)
                                     (vs_where (iface_variants i k))).
Proof. intros E. unfold iface_enum. rewrite pick_i_spec by exact E. reflexivity. Qed.

Lemma parts_of_spec c ifs k : parts_of c ifs k = map (fun i => iface_enum i k) ifs ++ [contract_enum c k].
Proof. reflexivity. Qed.

Lemma tables_of_spec c ifs k : enum_kind k = true -> tables_of c ifs k = tables (parts_of c ifs k).
Proof.
  intros E. unfold tables_of, tables, parts_of. rewrite map_app, map_map. simpl. f_equal.
  - apply map_ext. intros i. rewrite pick_i_spec by exact E. apply table_is_sorted_wire_names.
  - rewrite pick_c_spec by exact E. f_equal. apply table_is_sorted_wire_names.
Qed.

(* every method a part of kind k can call is annotated k, in the contract or in one of the interfaces *)
Definition annotated (c : contract) (ifs : list iface) (k : kind) (fn : string) : Prop :=
  (exists m, In m (c_methods c) /\ method_kind m = Some k /\ m_name m = fn) \/
  (exists i m, In i ifs /\ In m (i_methods i) /\ method_kind m = Some k /\ m_name m = fn).

Lemma part_methods_annotated c ifs k n fn : enum_kind k = true ->
  n < length (parts_of c ifs k) -> In fn (map vd_fn (nth n (parts_of c ifs k) [])) -> annotated c ifs k fn.
Proof.
  intros E L I. rewrite parts_of_spec in *. rewrite app_length, map_length in L. simpl in L.
  destruct (Nat.lt_ge_cases n (length ifs)) as [Li|Ge].
  - rewrite app_nth1 in I by (rewrite map_length; exact Li).
    rewrite (nth_map_lt (fun i => iface_enum i k) ifs n [] (mkIface "" [] [] [] []) Li) in I.
    set (i := nth n ifs (mkIface "" [] [] [] [])) in *.
    apply in_map_iff in I. destruct I as (vd & <- & Iv). rewrite iface_enum_spec in Iv by exact E.
    destruct (enum_variants_only_from_kind _ _ _ _ _ _ _ vd Iv) as (m & Im & MK & Fn & _).
    right. exists i, m. repeat split; auto. unfold i. apply nth_In. exact Li.
  - assert (n = length ifs) by lia. subst n.
    rewrite app_nth2 in I by (rewrite map_length; lia). rewrite map_length, Nat.sub_diag in I. simpl in I.
    apply in_map_iff in I. destruct I as (vd & <- & Iv). rewrite contract_enum_spec in Iv by exact E.
    destruct (enum_variants_only_from_kind _ _ _ _ _ _ _ vd Iv) as (m & Im & MK & Fn & _).
    left. exists m. auto.
Qed.

(* ---- program-level statements of C01 (proved here, stated in Props/C01.v) ---- *)
Section C01Facts.
Variable val : Type.
Variable enc : ty -> val -> json.
Variable dec : ty -> json -> option val.
Variable is_option : ty -> bool.
Variable default_val : ty -> val.
Variable wt : ty -> val -> bool.
Hypothesis dec_enc : forall t v, wt t v = true -> dec t (enc t v) = Some v.

Lemma c01f_contract_message_shape : forall c k m vals,
  enum_kind k = true -> wf_enum (contract_enum c k) ->
  In m (c_methods c) -> method_kind m = Some k -> nf_name (m_name m) = true ->
  length vals = length (m_args m) ->
  encode_enum val enc (contract_enum c k) (mkMsg (m_name m) (arg_fields val (m_args m) vals)) =
  Some (JObj [(m_name m, JObj (arg_body val enc (m_args m) vals))]).
Proof.
  intros c k m vals E W I MK NF L. rewrite contract_enum_spec in * by exact E.
  rewrite <- (wire_name_of_nf_name (m_name m) NF) at 2.
  apply (method_json_shape val enc); auto.
Qed.

Lemma c01f_interface_message_shape : forall i k m vals,
  enum_kind k = true -> wf_enum (iface_enum i k) ->
  In m (i_methods i) -> method_kind m = Some k -> nf_name (m_name m) = true ->
  length vals = length (m_args m) ->
  encode_enum val enc (iface_enum i k) (mkMsg (m_name m) (arg_fields val (m_args m) vals)) =
  Some (JObj [(m_name m, JObj (arg_body val enc (m_args m) vals))]).
Proof.
  intros i k m vals E W I MK NF L. rewrite iface_enum_spec in * by exact E.
  rewrite <- (wire_name_of_nf_name (m_name m) NF) at 2.
  apply (method_json_shape val enc); auto.
Qed.

Lemma c01f_contract_round_trip : forall c k m vals j,
  enum_kind k = true -> wf_enum (contract_enum c k) ->
  In m (c_methods c) -> method_kind m = Some k -> length vals = length (m_args m) ->
  Forall (fun p : arg * val => wt (strip_self (a_ty (fst p))) (snd p) = true) (combine (m_args m) vals) ->
  encode_enum val enc (contract_enum c k) (mkMsg (m_name m) (arg_fields val (m_args m) vals)) = Some j ->
  decode_enum val dec is_option default_val (contract_enum c k) j = inr (mkMsg (m_name m) (arg_fields val (m_args m) vals)).
Proof.
  intros c k m vals j E W I MK L Wt. rewrite contract_enum_spec in * by exact E.
  apply (method_round_trip val enc dec is_option default_val wt dec_enc); auto.
Qed.

Lemma c01f_interface_round_trip : forall i k m vals j,
  enum_kind k = true -> wf_enum (iface_enum i k) ->
  In m (i_methods i) -> method_kind m = Some k -> length vals = length (m_args m) ->
  Forall (fun p : arg * val => wt (strip_self (a_ty (fst p))) (snd p) = true) (combine (m_args m) vals) ->
  encode_enum val enc (iface_enum i k) (mkMsg (m_name m) (arg_fields val (m_args m) vals)) = Some j ->
  decode_enum val dec is_option default_val (iface_enum i k) j = inr (mkMsg (m_name m) (arg_fields val (m_args m) vals)).
Proof.
  intros i k m vals j E W I MK L Wt. rewrite iface_enum_spec in * by exact E.
  apply (method_round_trip val enc dec is_option default_val wt dec_enc); auto.
Qed.

Lemma c01f_accepted_names : forall c k n,
  enum_kind k = true ->
  (In n (map vd_wire (contract_enum c k)) <->
   exists m, In m (c_methods c) /\ method_kind m = Some k /\ wire_name (m_name m) = n).
Proof. intros c k n E. rewrite contract_enum_spec by exact E. apply accepted_names. Qed.

Lemma c01f_other_names_rejected : forall c k n body,
  ~ In n (map vd_wire (contract_enum c k)) ->
  decode_enum val dec is_option default_val (contract_enum c k) (JObj [(n, body)]) = inl (EUnknownVariant n).
Proof. intros c k n body H. apply decode_enum_unknown. exact H. Qed.

End C01Facts.
