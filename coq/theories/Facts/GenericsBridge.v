(* The hand model's split of the generics and selection of the kept bounds (`mk_variants` / `filter_wheres` of Model/Expand.v - what
   the core theorems of C15 are about) are the functions PROVED of the translated `used_unused` / `filter_wheres`
   (Facts/GenericsRefine.v), generic parameters being read as the strings they are. *)
From Coq Require Import String List Bool.
Require Import SV.Model.Syntax SV.Model.Expand.
Require Import SV.Model.Imp SV.Facts.MacroRefine SV.Facts.GenericsRefine.
Import ListNotations.
Open Scope string_scope.
Open Scope list_scope.

Lemma mem_is_mem (g : string) (used : list string) : GenericsRefine.mem (VStr g) (map VStr used) = Expand.mem g used.
Proof.
  unfold GenericsRefine.mem, Expand.mem. induction used as [|u used IH]; [reflexivity|].
  cbn [map existsb value_eqb]. rewrite IH, (String.eqb_sym u g). reflexivity.
Qed.

(* the unused generics: the declared ones that are not among the used, in declaration order - on both sides *)
Theorem hand_model_unused_generics_are_the_translated_ones (gens used : list string) :
  map VStr (filter (fun g => negb (Expand.mem g used)) gens) =
  filter (fun g => negb (GenericsRefine.mem g (map VStr used))) (map VStr gens).
Proof.
  induction gens as [|g gens IH]; [reflexivity|]. cbn [map filter]. rewrite mem_is_mem.
  destruct (Expand.mem g used); cbn [negb map]; rewrite IH; reflexivity.
Qed.

(* a bound of the hand model as the translated code sees it: the generics it mentions (what the fresh visitor collects), and the
   bound itself *)
Definition as_pred (gens : list string) (tokens : wpred -> value) (w : wpred) : pred := (map VStr (wpred_generics gens w), tokens w).

Lemma keeps_is_the_hand_models_test gens tokens used w :
  keeps (map VStr used) (as_pred gens tokens w) = forallb (fun g => Expand.mem g used) (wpred_generics gens w).
Proof.
  unfold keeps, as_pred. cbn [fst]. induction (wpred_generics gens w) as [|g l IH]; [reflexivity|].
  cbn [map forallb]. rewrite mem_is_mem, IH. reflexivity.
Qed.

(* the kept bounds: exactly those all of whose generics are used - on both sides, for every where clause *)
Theorem hand_model_kept_bounds_are_the_translated_ones gens tokens (wh : list wpred) (used : list string) :
  map (as_pred gens tokens) (Expand.filter_wheres wh gens used) = filter (keeps (map VStr used)) (map (as_pred gens tokens) wh).
Proof.
  unfold Expand.filter_wheres. induction wh as [|w wh IH]; [reflexivity|]. cbn [map filter].
  rewrite keeps_is_the_hand_models_test. destruct (forallb (fun g => Expand.mem g used) (wpred_generics gens w)); cbn [map]; rewrite IH; reflexivity.
Qed.
