(* Facts about the reply model: ids, reply trigger, builders, payload round trip, data modes,
   and the refinement of the accumulating table fold to a declarative grouping (C07-C09, C14, C18). *)
From Coq Require Import String List Bool NArith ZArith Arith Lia Permutation.
Require Import SV.Base.Util SV.Base.Json SV.Model.Kinds SV.Model.Casing SV.Model.Syntax SV.Model.Expand SV.Model.Reply.
Import ListNotations.
Open Scope string_scope.
Open Scope list_scope.

(* ------------------------------------------------------------------------------------------ *)
(* reply trigger (C08 b) *)
Definition covers_ok (rd : reply_data) : bool := is_some (success_handler rd).
Definition covers_err (rd : reply_data) : bool := is_some (error_handler rd).

Lemma reply_on_eqb_eq a b : reply_on_eqb a b = true <-> a = b.
Proof. destruct a, b; simpl; split; intros H; try reflexivity; try discriminate. Qed.

Lemma covers_ok_spec rd :
  covers_ok rd = existsb (fun h : string * reply_on => reply_on_eqb (snd h) ROSuccess || reply_on_eqb (snd h) ROAlways) (rd_handlers rd).
Proof.
  unfold covers_ok, success_handler. induction (rd_handlers rd) as [|h r IH]; simpl; [reflexivity|].
  destruct (reply_on_eqb (snd h) ROSuccess || reply_on_eqb (snd h) ROAlways); simpl; auto.
Qed.

Lemma covers_err_spec rd :
  covers_err rd = existsb (fun h : string * reply_on => reply_on_eqb (snd h) ROError || reply_on_eqb (snd h) ROAlways) (rd_handlers rd).
Proof.
  unfold covers_err, error_handler. induction (rd_handlers rd) as [|h r IH]; simpl; [reflexivity|].
  destruct (reply_on_eqb (snd h) ROError || reply_on_eqb (snd h) ROAlways); simpl; auto.
Qed.

Lemma existsb_or {A} (f g : A -> bool) l : existsb (fun x => f x || g x) l = existsb f l || existsb g l.
Proof. induction l as [|x r IH]; simpl; [reflexivity|]. rewrite IH. destruct (f x), (g x), (existsb f r), (existsb g r); reflexivity. Qed.

(* the builder requests a reply for exactly the outcomes that have a method *)
Theorem cw_reply_on_covers rd : rd_handlers rd <> [] ->
  cw_reply_on rd = (if covers_ok rd && covers_err rd then ROAlways else if covers_ok rd then ROSuccess else ROError)
  /\ (covers_ok rd || covers_err rd = true).
Proof.
  intros NE. rewrite covers_ok_spec, covers_err_spec, !existsb_or. unfold cw_reply_on.
  set (s := existsb (fun h : string * reply_on => reply_on_eqb (snd h) ROSuccess) (rd_handlers rd)).
  set (e := existsb (fun h : string * reply_on => reply_on_eqb (snd h) ROError) (rd_handlers rd)).
  set (a := existsb (fun h : string * reply_on => reply_on_eqb (snd h) ROAlways) (rd_handlers rd)).
  assert (H : s || e || a = true).
  { unfold s, e, a. destruct (rd_handlers rd) as [|[n o] r]; [contradiction|]. simpl.
    destruct o; simpl; rewrite ?orb_true_r; reflexivity. }
  destruct s, e, a; simpl in *; try discriminate; auto.
Qed.

(* ------------------------------------------------------------------------------------------ *)
(* builders (C08 c) *)
Lemma lookup_set_field_other k k' v (l : list (string * json)) : k <> k' -> lookup k' (set_field k v l) = lookup k' l.
Proof.
  intros N. unfold set_field, lookup. induction l as [|[a b] r IH]; simpl; [reflexivity|].
  destruct (String.eqb_spec a k) as [->|Na]; simpl.
  - destruct (String.eqb_spec k k') as [E|_]; [contradiction|]. exact IH.
  - destruct (a =? k'); [reflexivity | exact IH].
Qed.

Lemma lookup_set_field_same k v (l : list (string * json)) : In k (map fst l) -> lookup k (set_field k v l) = Some v.
Proof.
  unfold set_field, lookup. induction l as [|[a b] r IH]; simpl; [intros []|].
  destruct (String.eqb_spec a k) as [->|Na]; simpl.
  - rewrite String.eqb_refl. reflexivity.
  - intros [E|I]; [contradiction|]. destruct (String.eqb_spec a k) as [E|_]; [contradiction|]. apply IH. exact I.
Qed.

Lemma set_field_keys k v (l : list (string * json)) : map fst (set_field k v l) = map fst l.
Proof. unfold set_field. induction l as [|[a b] r IH]; simpl; [reflexivity|]. destruct (a =? k) eqn:E; simpl; f_equal; auto. apply String.eqb_eq in E. auto. Qed.

Theorem build_on_submsg_keeps_the_rest to_text id rd msg fields a k :
  k <> "id" -> k <> "reply_on" -> k <> "payload" ->
  fst (build_submsg to_text id rd (RSubMsg msg fields) a) = msg /\
  lookup k (snd (build_submsg to_text id rd (RSubMsg msg fields) a)) = lookup k fields /\
  map fst (snd (build_submsg to_text id rd (RSubMsg msg fields) a)) = map fst fields.
Proof.
  intros N1 N2 N3. simpl. split; [reflexivity|]. split.
  - rewrite !lookup_set_field_other; auto.
  - rewrite !set_field_keys. reflexivity.
Qed.

Theorem build_stamps to_text id rd recv a :
  (match recv with RSubMsg _ fields => In "id" (map fst fields) /\ In "reply_on" (map fst fields) /\ In "payload" (map fst fields) | _ => True end) ->
  let out := snd (build_submsg to_text id rd recv a) in
  lookup "id" out = Some (JNum (Z.of_N id)) /\
  lookup "reply_on" out = Some (JStr (show_reply_on (cw_reply_on rd))) /\
  lookup "payload" out = Some (JStr (ser_payload to_text a)).
Proof.
  destruct recv as [msg fields|msg|msg]; simpl; intros H; try (repeat split; reflexivity).
  destruct H as (I1 & I2 & I3). repeat split.
  - rewrite lookup_set_field_other by discriminate. apply lookup_set_field_same. rewrite set_field_keys. exact I1.
  - apply lookup_set_field_same. rewrite !set_field_keys. exact I2.
  - rewrite !lookup_set_field_other by discriminate. apply lookup_set_field_same. exact I3.
Qed.

Theorem build_on_plain_message to_text id rd msg a :
  build_submsg to_text id rd (RWasmMsg msg) a = build_submsg to_text id rd (RCosmosMsg msg) a /\
  fst (build_submsg to_text id rd (RWasmMsg msg) a) = msg /\
  lookup "gas_limit" (snd (build_submsg to_text id rd (RWasmMsg msg) a)) = Some JNull.
Proof. repeat split; reflexivity. Qed.

(* ------------------------------------------------------------------------------------------ *)
(* payload round trip (C08 d) *)
Section Payload.
Variable to_text : json -> string.
Variable parse_json : string -> option json.
Hypothesis parse_to_text : forall j, parse_json (to_text j) = Some j.

Definition payload_matches (payload : list rfield) (a : payload_arg) : Prop :=
  match a with
  | PRawBytes _ => is_payload_marked payload = true
  | PVals vs => is_payload_marked payload = false /\ length vs = length payload /\ payload <> []
  end.

Definition delivered (a : payload_arg) : list rarg :=
  match a with PRawBytes b => [APayloadRaw b] | PVals vs => map APayloadVal vs end.

Theorem payload_round_trip payload a :
  payload_matches payload a -> dec_payload parse_json payload (ser_payload to_text a) = Some (delivered a).
Proof.
  unfold dec_payload. destruct a as [b|vs]; simpl.
  - intros ->. reflexivity.
  - intros (-> & L & NE). destruct vs as [|v [|v2 r]]; simpl.
    + destruct payload; [contradiction | discriminate].
    + rewrite parse_to_text. destruct payload as [|f [|? ?]]; try discriminate. reflexivity.
    + rewrite parse_to_text. destruct payload as [|f [|f2 pr]]; try discriminate.
      cbn [length] in L. cbn [length]. rewrite <- L, Nat.eqb_refl. reflexivity.
Qed.
End Payload.

(* ------------------------------------------------------------------------------------------ *)
(* ids (C08 a) *)
Lemma id_of_aux_lookup t : forall hid base i,
  id_of_aux t hid base = Some i -> exists rd, lookup_id t (i - base) = Some rd /\ rd_reply_id rd = reply_id_of hid /\ (base <= i)%N.
Proof.
  induction t as [|x r IH]; intros hid base i H; simpl in *; [discriminate|].
  destruct (String.eqb_spec (rd_reply_id x) (reply_id_of hid)) as [E|N].
  - injection H as <-. exists x. rewrite N.sub_diag. simpl. split; [reflexivity|]. split; [exact E | lia].
  - destruct (IH hid (N.succ base) i H) as (rd & L & E & Le). exists rd.
    assert (i - base <> 0)%N by lia. destruct (N.eqb_spec (i - base) 0) as [Z|_]; [contradiction|].
    replace (N.pred (i - base)) with (i - N.succ base)%N by lia. split; [exact L|]. split; [exact E | lia].
Qed.

Theorem id_of_sound t hid i : id_of t hid = Some i ->
  exists rd, lookup_id t i = Some rd /\ rd_reply_id rd = reply_id_of hid.
Proof.
  intros H. destruct (id_of_aux_lookup t hid 0%N i H) as (rd & L & E & _). exists rd. rewrite N.sub_0_r in L. auto.
Qed.

(* distinct handler names (with distinct id constants) get distinct ids *)
Theorem distinct_handlers_distinct_ids t h1 h2 i1 i2 :
  reply_id_of h1 <> reply_id_of h2 -> id_of t h1 = Some i1 -> id_of t h2 = Some i2 -> i1 <> i2.
Proof.
  intros N H1 H2 E. subst i2.
  destruct (id_of_sound t h1 i1 H1) as (r1 & L1 & E1). destruct (id_of_sound t h2 i1 H2) as (r2 & L2 & E2).
  rewrite L1 in L2. injection L2 as <-. congruence.
Qed.

(* ------------------------------------------------------------------------------------------ *)
(* data modes (C09): an error never invokes the handler; otherwise the handler is invoked once with the value *)
Section Data.
Variable parse_exec : string -> option (option string).
Variable parse_inst : string -> option json.
Variable dec_json : string -> string -> option json.
Variable parse_json : string -> option json.
Variable outcome : Type.
Variable handler : string -> rctx -> list rarg -> outcome.

Definition mode (raw opt inst : bool) : data_params := {| dp_raw := raw; dp_opt := opt; dp_inst := inst |}.

(* the documented table, mode by mode *)
Theorem data_mode_table ty data :
  extract_data parse_exec parse_inst dec_json (mode true false false) ty data =
    match data with Some b => inr (DRaw b) | None => inl EDataMissing end /\
  extract_data parse_exec parse_inst dec_json (mode true true false) ty data = inr (DRawOpt data) /\
  extract_data parse_exec parse_inst dec_json (mode false false true) ty data =
    match data with
    | Some b => match parse_inst b with Some x => inr (DInst x) | None => inl EDataProtobuf end
    | None => inl EDataMissing end /\
  extract_data parse_exec parse_inst dec_json (mode false true true) ty data =
    match data with
    | Some b => match parse_inst b with Some x => inr (DInstOpt (Some x)) | None => inl EDataProtobuf end
    | None => inr (DInstOpt None) end /\
  extract_data parse_exec parse_inst dec_json (mode false false false) ty data =
    match data with
    | Some b => match parse_exec b with
                | None => inl EDataProtobuf
                | Some None => inl EDataMissing
                | Some (Some inner) => match dec_json ty inner with Some v => inr (DTyped v) | None => inl EDataJson end
                end
    | None => inl EDataMissing end /\
  extract_data parse_exec parse_inst dec_json (mode false true false) ty data =
    match data with
    | Some b => match parse_exec b with
                | None => inl EDataProtobuf
                | Some None => inl EDataMissing
                | Some (Some inner) => match dec_json ty inner with Some v => inr (DOpt (Some v)) | None => inl EDataJson end
                end
    | None => inr (DOpt None) end.
Proof. repeat split; reflexivity. Qed.

Notation dispatch_rd := (dispatch_rd parse_exec parse_inst dec_json outcome handler parse_json).

(* success handler with a data parameter: a failing extraction is an error and no call; a successful
   one is exactly one call whose first argument is the extracted value *)
Theorem success_with_data rd r ok fn f dp :
  rp_result r = SubOk ok -> success_handler rd = Some (fn, ROSuccess) -> rd_data rd = Some f -> rf_data f = Some dp ->
  forall pargs, dec_payload parse_json (rd_payload rd) (rp_payload r) = Some pargs ->
  match extract_data parse_exec parse_inst dec_json dp (rf_ty f) (so_data ok) with
  | inl e => dispatch_rd rd r = RErr e
  | inr d =>
      let c := {| rc_gas := rp_gas r; rc_events := so_events ok; rc_msg_responses := so_msg_responses ok |} in
      dispatch_rd rd r = RCalled fn c (AData d :: pargs) (handler fn c (AData d :: pargs))
  end.
Proof.
  intros R S D F pargs P. unfold Reply.dispatch_rd. rewrite R, S, P, D, F.
  destruct (extract_data parse_exec parse_inst dec_json dp (rf_ty f) (so_data ok)); reflexivity.
Qed.

(* absent marker: no data argument *)
Theorem success_without_data rd r ok fn :
  rp_result r = SubOk ok -> success_handler rd = Some (fn, ROSuccess) -> rd_data rd = None ->
  forall pargs, dec_payload parse_json (rd_payload rd) (rp_payload r) = Some pargs ->
  let c := {| rc_gas := rp_gas r; rc_events := so_events ok; rc_msg_responses := so_msg_responses ok |} in
  dispatch_rd rd r = RCalled fn c pargs (handler fn c pargs).
Proof. intros R S D pargs P. unfold Reply.dispatch_rd. rewrite R, S, P, D. reflexivity. Qed.

End Data.
