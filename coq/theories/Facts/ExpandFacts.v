(* Facts about the expansion model: which variants a message type has, their names, kinds and
   fields; the published name list. *)
From Coq Require Import String List Bool Arith Lia Sorted Permutation.
Require Import SV.Base.Util SV.Base.StrOrder SV.Model.Kinds SV.Model.GenTables SV.Model.Casing SV.Model.Syntax SV.Model.Expand SV.Model.Sem.
Require Import SV.Facts.KindsFacts SV.Facts.CasingFacts.
Import ListNotations.
Open Scope string_scope.
Open Scope list_scope.

(* the annotation of a method, as the macro reads it *)
Definition method_kind (m : method) : option kind :=
  match p_msg (parse_attrs (m_attrs m)) with Some ma => Some (ma_kind ma) | None => None end.

Definition is_kind (k : kind) (m : method) : bool :=
  match method_kind m with Some k' => kind_eqb k' k | None => false end.

(* the variant generated from a method (independent of the generic-usage visitor state) *)
Definition variant_of (gens : list string) (m : method) : option variant :=
  match p_msg (parse_attrs (m_attrs m)) with
  | Some ma => Some (fst (fst (mk_variant gens [] m ma (p_variant_attrs (parse_attrs (m_attrs m))))))
  | None => None
  end.

Lemma mk_variant_indep gens used used' m ma fwd :
  fst (fst (mk_variant gens used m ma fwd)) = fst (fst (mk_variant gens used' m ma fwd)).
Proof.
  unfold mk_variant. destruct (ma_kind ma); try reflexivity.
  destruct (ma_resp ma); [reflexivity|]. destruct (extract_return (m_ret m)); reflexivity.
Qed.

Lemma mk_variant_basic gens used m ma fwd :
  let v := fst (fst (mk_variant gens used m ma fwd)) in
  v_name v = upper_camel (m_name m) /\ v_fn v = m_name m /\ v_fields v = map mk_field (m_args m) /\
  v_msg v = ma /\ v_fwd v = fwd.
Proof.
  unfold mk_variant. destruct (ma_kind ma); simpl; try (repeat split; reflexivity).
  destruct (ma_resp ma); simpl; [repeat split; reflexivity|].
  destruct (extract_return (m_ret m)); simpl; repeat split; reflexivity.
Qed.

(* MsgVariants::new keeps exactly the methods annotated with the requested kind, in source order *)
Lemma scan_list gens k : forall ms used,
  fst (fst (scan gens k ms used)) =
  flat_map (fun m => if is_kind k m then match variant_of gens m with Some v => [v] | None => [] end else []) ms.
Proof.
  induction ms as [|m r IH]; intros used; [reflexivity|].
  cbn [flat_map scan].
  assert (Hk : is_kind k m = match p_msg (parse_attrs (m_attrs m)) with Some ma => kind_eqb (ma_kind ma) k | None => false end)
    by (unfold is_kind, method_kind; destruct (p_msg (parse_attrs (m_attrs m))); reflexivity).
  rewrite Hk. unfold variant_of at 1.
  destruct (p_msg (parse_attrs (m_attrs m))) as [ma|] eqn:P.
  - destruct (kind_eqb (ma_kind ma) k) eqn:K.
    + destruct (mk_variant gens used m ma (p_variant_attrs (parse_attrs (m_attrs m)))) as [[v u1] d] eqn:MV.
      specialize (IH u1). destruct (scan gens k r u1) as [[vs u2] ds]. cbn [fst] in *. rewrite <- IH.
      cbn [app]. f_equal. change v with (fst (fst (v, u1, d))). rewrite <- MV. apply mk_variant_indep.
    + specialize (IH used). destruct (scan gens k r used) as [[vs u2] ds]. cbn [fst app] in *. exact IH.
  - specialize (IH used). destruct (scan gens k r used) as [[vs u2] ds]. cbn [fst app] in *. exact IH.
Qed.

Lemma vs_list_spec ms k gens wh :
  vs_list (mk_variants ms k gens wh) =
  flat_map (fun m => if is_kind k m then match variant_of gens m with Some v => [v] | None => [] end else []) ms.
Proof.
  unfold mk_variants. rewrite <- (scan_list gens k ms []).
  destruct (scan gens k ms []) as [[vs u] d]. reflexivity.
Qed.

Lemma vs_kind_spec ms k gens wh : vs_kind (mk_variants ms k gens wh) = k.
Proof. unfold mk_variants. destruct (scan gens k ms []) as [[vs u] d]. reflexivity. Qed.

(* every variant of the message type of kind k comes from a method annotated k, and conversely *)
Theorem variants_are_methods_of_kind ms k gens wh v :
  In v (vs_list (mk_variants ms k gens wh)) <->
  exists m, In m ms /\ method_kind m = Some k /\ variant_of gens m = Some v.
Proof.
  rewrite vs_list_spec, in_flat_map. split.
  - intros (m & I & H). unfold is_kind in H. destruct (method_kind m) as [k'|] eqn:MK; [|destruct H].
    destruct (kind_eqb_spec k' k) as [->|]; [|destruct H].
    destruct (variant_of gens m) as [v'|] eqn:VO; [|destruct H]. destruct H as [<-|[]].
    exists m. auto.
  - intros (m & I & MK & VO). exists m. split; [exact I|]. unfold is_kind. rewrite MK, kind_eqb_refl, VO. left. reflexivity.
Qed.

Lemma variant_of_basic gens m v : variant_of gens m = Some v ->
  v_name v = upper_camel (m_name m) /\ v_fn v = m_name m /\ v_fields v = map mk_field (m_args m) /\
  method_kind m = Some (ma_kind (v_msg v)).
Proof.
  unfold variant_of, method_kind. destruct (p_msg (parse_attrs (m_attrs m))) as [ma|]; [|discriminate].
  intros H. injection H as <-.
  destruct (mk_variant_basic gens [] m ma (p_variant_attrs (parse_attrs (m_attrs m)))) as (A & B & C & D & _).
  rewrite D. auto.
Qed.

(* the key the message is sent under is the wire name of the *method* *)
Lemma vdesc_wire k v : vd_wire (vdesc_of k (out_variant v)) = serde_snake (v_name v).
Proof. reflexivity. Qed.

Lemma vdesc_fn k v : vd_fn (vdesc_of k (out_variant v)) = v_fn v.
Proof. reflexivity. Qed.

Lemma vdesc_field_names k v :
  map fd_name (vd_fields (vdesc_of k (out_variant v))) = map f_name (v_fields v).
Proof. simpl. rewrite !map_map. reflexivity. Qed.

Lemma edesc_of_mk_enum name it vs wh :
  edesc_of (mk_enum name it vs wh) = map (fun v => vdesc_of (vs_kind vs) (out_variant v)) (vs_list vs).
Proof. unfold edesc_of, mk_enum. simpl. rewrite map_map. reflexivity. Qed.

(* the published list is the sorted list of the names the variants serialise under *)
Theorem table_is_sorted_wire_names name it vs wh :
  eo_table (mk_enum name it vs wh) = sort (map vd_wire (edesc_of (mk_enum name it vs wh))).
Proof.
  rewrite edesc_of_mk_enum. unfold mk_enum, table_of. simpl. rewrite map_map. reflexivity.
Qed.

Theorem table_sorted name it vs wh : StronglySorted sle (eo_table (mk_enum name it vs wh)).
Proof. unfold mk_enum, table_of. simpl. apply sort_sorted. Qed.

Theorem table_exact name it vs wh n :
  In n (eo_table (mk_enum name it vs wh)) <-> exists v, In v (vs_list vs) /\ serde_snake (v_name v) = n.
Proof.
  unfold mk_enum, table_of. simpl. rewrite sort_in, in_map_iff. unfold table_name. split; intros (v & A & B); exists v; auto.
Qed.

(* method-level reading, for the enum of kind k of a method list *)
Theorem enum_variant_of_method ms k gens wh name it impl_wh m :
  In m ms -> method_kind m = Some k ->
  exists vd, In vd (edesc_of (mk_enum name it (mk_variants ms k gens wh) impl_wh)) /\
             vd_fn vd = m_name m /\ vd_wire vd = wire_name (m_name m) /\ vd_kind vd = k /\
             map fd_name (vd_fields vd) = map a_name (m_args m) /\
             map fd_ty (vd_fields vd) = map (fun a => strip_self (a_ty a)) (m_args m).
Proof.
  intros I MK.
  assert (exists v, variant_of gens m = Some v) as (v & VO).
  { unfold variant_of. unfold method_kind in MK. destruct (p_msg (parse_attrs (m_attrs m))); [eauto | discriminate]. }
  destruct (variant_of_basic gens m v VO) as (A & B & C & D).
  exists (vdesc_of k (out_variant v)). split.
  - rewrite edesc_of_mk_enum, vs_kind_spec. apply in_map_iff. exists v. split; [reflexivity|].
    apply variants_are_methods_of_kind. exists m. auto.
  - simpl. rewrite B, A, C. repeat split; auto.
    + rewrite !map_map. reflexivity.
    + rewrite !map_map. reflexivity.
Qed.

Theorem enum_variants_only_from_kind ms k gens wh name it impl_wh vd :
  In vd (edesc_of (mk_enum name it (mk_variants ms k gens wh) impl_wh)) ->
  exists m, In m ms /\ method_kind m = Some k /\ vd_fn vd = m_name m /\ vd_wire vd = wire_name (m_name m) /\ vd_kind vd = k.
Proof.
  rewrite edesc_of_mk_enum, vs_kind_spec. intros I. apply in_map_iff in I. destruct I as (v & <- & Iv).
  apply variants_are_methods_of_kind in Iv. destruct Iv as (m & Im & MK & VO).
  destruct (variant_of_basic gens m v VO) as (A & B & _).
  exists m. simpl. rewrite A, B. auto.
Qed.

(* for normal-form names the wire names of distinct methods are distinct *)
Lemma nf_wire_names_nodup (names : list string) :
  Forall (fun n => nf_name n = true) names -> NoDup names -> NoDup (map wire_name names).
Proof.
  intros F N. rewrite (map_ext_in wire_name (fun n => n)); [rewrite map_id; exact N|].
  intros n I. rewrite Forall_forall in F. apply wire_name_of_nf_name. apply F. exact I.
Qed.
