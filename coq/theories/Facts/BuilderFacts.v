(* Facts about the hand-written builder models of Model/Lib.v (InstantiateBuilder, ExecutorBuilder). *)
From Coq Require Import String List Bool ZArith Lia.
Require Import SV.Base.Json SV.Model.GenLib SV.Model.Lib.
Import ListNotations.
Open Scope string_scope.
Open Scope list_scope.

(* ---- builders ---- *)
Definition last_label (steps : list ib_step) (init : option string) : option string :=
  fold_left (fun acc s => match s with IBLabel l => Some l | _ => acc end) steps init.
Definition last_admin (steps : list ib_step) (init : option string) : option string :=
  fold_left (fun acc s => match s with IBAdmin a => Some a | _ => acc end) steps init.
Definition last_funds (steps : list ib_step) (init : json) : json :=
  fold_left (fun acc s => match s with IBFunds f => f | _ => acc end) steps init.

Theorem ib_steps_spec steps b :
  fold_left ib_apply steps b =
  {| ib_msg := ib_msg b; ib_code_id := ib_code_id b; ib_admin := last_admin steps (ib_admin b);
     ib_label := last_label steps (ib_label b); ib_funds := last_funds steps (ib_funds b) |}.
Proof.
  revert b. induction steps as [|s r IH]; intros b; simpl; [destruct b; reflexivity|].
  rewrite IH. destruct s; reflexivity.
Qed.

Theorem ib_build_spec msg code steps salt :
  ib_build (fold_left ib_apply steps (ib_new msg code)) salt =
  let common := [("admin", opt_str_json (last_admin steps None)); ("code_id", code); ("msg", msg);
                 ("funds", last_funds steps (JArr [])); ("label", JStr (match last_label steps None with Some l => l | None => "" end))] in
  match salt with
  | None => JObj [("instantiate", JObj common)]
  | Some s => JObj [("instantiate2", JObj (common ++ [("salt", s)]))]
  end.
Proof. rewrite ib_steps_spec. reflexivity. Qed.

Definition last_of (fs : list json) (init : json) : json := fold_left (fun _ f => f) fs init.

Theorem eb_build_spec addr fs msg :
  eb_build (eb_call (fold_left eb_with_funds fs (eb_new addr)) msg) =
  JObj [("execute", JObj [("contract_addr", JStr addr); ("msg", msg); ("funds", last_of fs (JArr []))])].
Proof.
  assert (H : forall b, eb_contract (fold_left eb_with_funds fs b) = eb_contract b /\
                        eb_funds (fold_left eb_with_funds fs b) = last_of fs (eb_funds b)).
  { induction fs as [|f r IH]; intros b; [split; reflexivity|]. simpl fold_left.
    destruct (IH (eb_with_funds b f)) as [A B]. split; [rewrite A; reflexivity|]. rewrite B. reflexivity. }
  destruct (H (eb_new addr)) as [A B]. unfold eb_build, eb_call. simpl. rewrite A, B. reflexivity.
Qed.

