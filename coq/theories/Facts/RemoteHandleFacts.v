(* Facts about the stored remote handle (sylvia/src/types.rs::Remote; description regenerated into GenLib). *)
From Coq Require Import String List Bool ZArith Lia.
Require Import SV.Base.Json SV.Model.GenLib SV.Model.Lib.
Import ListNotations.
Open Scope string_scope.
Open Scope list_scope.

(* ---- Remote ---- *)
Lemma remote_description :
  remote_plain = true /\ remote_wire_fields = ["addr"] /\ remote_schema_name = "Remote".
Proof. vm_compute. repeat split; reflexivity. Qed.

Theorem encode_remote_format t owned a : encode_remote t owned a = Some (JObj [("addr", JStr a)]).
Proof. unfold encode_remote. destruct remote_description as (-> & -> & _). reflexivity. Qed.

Theorem decode_encode_remote t t' owned a j : encode_remote t owned a = Some j -> decode_remote t' j = Some a.
Proof.
  rewrite encode_remote_format. intros H. injection H as <-. unfold decode_remote.
  destruct remote_description as (-> & -> & _). vm_compute. reflexivity.
Qed.

