(* Facts about the message semantics: encoding shape, round trip, exact set of accepted names,
   dispatch, and the contract-level message. *)
From Coq Require Import String List Bool Arith Lia ZArith Sorted Permutation.
Require Import SV.Base.Util SV.Base.StrOrder SV.Base.Json SV.Model.Kinds SV.Model.Syntax SV.Model.Expand SV.Model.Sem.
Require Import SV.Facts.JsonFacts.
Import ListNotations.
Open Scope string_scope.
Open Scope list_scope.

Section SemFacts.
Variable val : Type.
Variable enc : ty -> val -> json.
Variable dec : ty -> json -> option val.
Variable is_option : ty -> bool.
Variable default_val : ty -> val.
Variable wt : ty -> val -> bool.
Hypothesis dec_enc : forall t v, wt t v = true -> dec t (enc t v) = Some v.

Notation enc_fields := (enc_fields val enc).
Notation encode_enum := (encode_enum val enc).
Notation dec_fields := (dec_fields val dec is_option default_val).
Notation decode_struct := (decode_struct val dec is_option default_val).
Notation decode_enum := (decode_enum val dec is_option default_val).
Notation decode_wrapper := (decode_wrapper val dec is_option default_val).

(* well-formed descriptions: what rustc guarantees for a compiled program *)
Definition wf_variant (v : vdesc) : Prop := NoDup (map fd_name (vd_fields v)).
Definition wf_enum (e : edesc) : Prop :=
  NoDup (map vd_fn e) /\ NoDup (map vd_wire e) /\ Forall wf_variant e.

(* the value of each declared field, in declaration order *)
Definition fields_of (fs : list fdesc) (vals : list val) : list (string * val) := combine (map fd_name fs) vals.

Definition well_typed (fs : list fdesc) (vals : list val) : Prop :=
  length vals = length fs /\ Forall (fun p : fdesc * val => wt (fd_ty (fst p)) (snd p) = true) (combine fs vals).

Definition body_of (fs : list fdesc) (vals : list val) : list (string * json) :=
  map (fun p : fdesc * val => (fd_name (fst p), enc (fd_ty (fst p)) (snd p))) (combine fs vals).

Lemma find_by_fn_in e v : NoDup (map vd_fn e) -> In v e -> find_by_fn e (vd_fn v) = Some v.
Proof.
  unfold find_by_fn. induction e as [|x r IH]; simpl; intros N I; [destruct I|].
  inversion N as [|? ? Hn N']; subst. destruct I as [->|I].
  - rewrite String.eqb_refl. reflexivity.
  - destruct (String.eqb_spec (vd_fn x) (vd_fn v)) as [E|Ne].
    + exfalso. apply Hn. rewrite E. apply in_map. exact I.
    + apply IH; assumption.
Qed.

Lemma find_by_wire_in e v : NoDup (map vd_wire e) -> In v e -> find_by_wire e (vd_wire v) = Some v.
Proof.
  unfold find_by_wire. induction e as [|x r IH]; simpl; intros N I; [destruct I|].
  inversion N as [|? ? Hn N']; subst. destruct I as [->|I].
  - rewrite String.eqb_refl. reflexivity.
  - destruct (String.eqb_spec (vd_wire x) (vd_wire v)) as [E|Ne].
    + exfalso. apply Hn. rewrite E. apply in_map. exact I.
    + apply IH; assumption.
Qed.

Lemma find_by_wire_some e k v : find_by_wire e k = Some v -> In v e /\ vd_wire v = k.
Proof.
  unfold find_by_wire. intros H. apply find_some in H. destruct H as [I E]. apply String.eqb_eq in E. auto.
Qed.

Lemma find_by_wire_none e k : find_by_wire e k = None <-> ~ In k (map vd_wire e).
Proof.
  unfold find_by_wire. split.
  - intros H I. apply in_map_iff in I. destruct I as [v [E I]].
    pose proof (find_none _ _ H v I) as F. simpl in F. rewrite E, String.eqb_refl in F. discriminate.
  - intros H. destruct (find (fun v => vd_wire v =? k) e) as [v|] eqn:F; [|reflexivity].
    apply find_some in F. destruct F as [I E]. apply String.eqb_eq in E. exfalso. apply H. rewrite <- E. apply in_map. exact I.
Qed.

Lemma find_by_fn_some e k v : find_by_fn e k = Some v -> In v e /\ vd_fn v = k.
Proof.
  unfold find_by_fn. intros H. apply find_some in H. destruct H as [I E]. apply String.eqb_eq in E. auto.
Qed.

(* ---- lookup in the declared-order field list ---- *)
Lemma lookup_fields_of : forall fs vals f v,
  NoDup (map fd_name fs) -> length vals = length fs -> In (f, v) (combine fs vals) ->
  lookup (fd_name f) (fields_of fs vals) = Some v.
Proof.
  unfold fields_of. induction fs as [|g r IH]; intros [|x xs] f v N L I; simpl in *; try contradiction; try discriminate.
  inversion N as [|? ? Hn N']; subst. rewrite lookup_cons. destruct I as [E|I].
  - injection E as -> ->. rewrite String.eqb_refl. reflexivity.
  - destruct (String.eqb_spec (fd_name g) (fd_name f)) as [E|Ne].
    + exfalso. apply Hn. rewrite E. apply in_map. eapply in_combine_l. exact I.
    + apply IH; auto.
Qed.

(* extension of the assoc list at the front by a fresh key does not disturb enc_fields *)
Lemma enc_fields_weaken fs k (v : val) m :
  ~ In k (map fd_name fs) -> enc_fields fs ((k, v) :: m) = enc_fields fs m.
Proof.
  induction fs as [|f r IH]; simpl; intros H; [reflexivity|].
  rewrite lookup_cons. destruct (String.eqb_spec k (fd_name f)) as [E|Ne]; [exfalso; apply H; left; auto|].
  rewrite IH; [reflexivity | intros I; apply H; right; exact I].
Qed.

Lemma enc_fields_ok : forall fs vals, NoDup (map fd_name fs) -> length vals = length fs ->
  enc_fields fs (fields_of fs vals) = Some (body_of fs vals).
Proof.
  unfold fields_of, body_of. induction fs as [|f r IH]; intros [|x xs] N L; simpl in *; try discriminate; [reflexivity|].
  inversion N as [|? ? Hn N']; subst. rewrite lookup_cons, String.eqb_refl.
  rewrite enc_fields_weaken by exact Hn. rewrite IH by (auto; lia). reflexivity.
Qed.

(* ---- C01 (1): the encoding has exactly the shape named by the signature ---- *)
Theorem encode_enum_shape e v vals :
  wf_enum e -> In v e -> length vals = length (vd_fields v) ->
  encode_enum e (mkMsg (vd_fn v) (fields_of (vd_fields v) vals)) =
  Some (JObj [(vd_wire v, JObj (body_of (vd_fields v) vals))]).
Proof.
  intros (Nf & Nw & Fw) I L. unfold Sem.encode_enum. simpl.
  rewrite (find_by_fn_in e v Nf I).
  rewrite Forall_forall in Fw. rewrite enc_fields_ok; auto. apply Fw. exact I.
Qed.

Lemma body_keys fs vals : length vals = length fs -> map fst (body_of fs vals) = map fd_name fs.
Proof.
  unfold body_of. revert vals; induction fs as [|f r IH]; intros [|x xs] L; simpl in *; try discriminate; [reflexivity|].
  f_equal. apply IH. lia.
Qed.

Lemma lookup_body_of : forall fs vals f v,
  NoDup (map fd_name fs) -> length vals = length fs -> In (f, v) (combine fs vals) ->
  lookup (fd_name f) (body_of fs vals) = Some (enc (fd_ty f) v).
Proof.
  unfold body_of. induction fs as [|g r IH]; intros [|x xs] f v N L I; simpl in *; try contradiction; try discriminate.
  inversion N as [|? ? Hn N']; subst. rewrite lookup_cons. simpl. destruct I as [E|I].
  - injection E as -> ->. rewrite String.eqb_refl. reflexivity.
  - destruct (String.eqb_spec (fd_name g) (fd_name f)) as [E|Ne].
    + exfalso. apply Hn. rewrite E. apply in_map. eapply in_combine_l. exact I.
    + apply IH; auto.
Qed.

(* decoding the fields of an encoded body gives the values back, for any sub-list of the declared
   fields (generalisation needed for the induction) *)
Lemma dec_fields_body : forall fs vals all allvals,
  NoDup (map fd_name all) -> length allvals = length all ->
  (forall p, In p (combine fs vals) -> In p (combine all allvals)) ->
  length vals = length fs ->
  Forall (fun p : fdesc * val => wt (fd_ty (fst p)) (snd p) = true) (combine fs vals) ->
  dec_fields fs (body_of all allvals) = inr (fields_of fs vals).
Proof.
  induction fs as [|f r IH]; intros [|x xs] all allvals N La Sub L W; simpl in *; try discriminate; [reflexivity|].
  assert (Iin : In (f, x) (combine all allvals)) by (apply Sub; left; reflexivity).
  assert (Ik : In (fd_name f) (map fst (body_of all allvals))).
  { rewrite body_keys by exact La. apply in_map. eapply in_combine_l. exact Iin. }
  assert (Nb : NoDup (map fst (body_of all allvals))) by (rewrite body_keys by exact La; exact N).
  rewrite (count_key_nodup _ _ Nb Ik).
  rewrite (lookup_body_of all allvals f x N La Iin).
  inversion W as [|? ? Wf Wr]; subst. simpl in Wf. rewrite (dec_enc _ _ Wf).
  rewrite (IH xs all allvals N La); [reflexivity | | lia | exact Wr].
  intros p Hp. apply Sub. right. exact Hp.
Qed.

(* ---- C01 (2): parsing the JSON gives back an equal message ---- *)
Theorem decode_encode_enum e v vals :
  wf_enum e -> In v e -> well_typed (vd_fields v) vals ->
  forall j, encode_enum e (mkMsg (vd_fn v) (fields_of (vd_fields v) vals)) = Some j ->
  decode_enum e j = inr (mkMsg (vd_fn v) (fields_of (vd_fields v) vals)).
Proof.
  intros W I (L & Wt) j E. rewrite (encode_enum_shape e v vals W I L) in E. injection E as <-.
  destruct W as (Nf & Nw & Fw). unfold Sem.decode_enum.
  rewrite (find_by_wire_in e v Nw I). unfold Sem.decode_struct.
  rewrite Forall_forall in Fw.
  rewrite (dec_fields_body (vd_fields v) vals (vd_fields v) vals); auto. apply Fw. exact I.
Qed.

(* ---- C01 (3): one accepted name per variant and no other ---- *)
Theorem decode_enum_unknown e k body :
  ~ In k (map vd_wire e) -> decode_enum e (JObj [(k, body)]) = inl (EUnknownVariant k).
Proof. intros H. unfold Sem.decode_enum. rewrite (proj2 (find_by_wire_none e k) H). reflexivity. Qed.

Theorem decode_enum_accepts_only_own_names e j m :
  decode_enum e j = inr m -> exists k body v, j = JObj [(k, body)] /\ In v e /\ vd_wire v = k /\ msg_fn m = vd_fn v.
Proof.
  unfold Sem.decode_enum. destruct j as [| | | | |members]; try discriminate.
  destruct members as [|[k body] [|? ?]]; try discriminate.
  destruct (find_by_wire e k) as [v|] eqn:F; [|discriminate].
  apply find_by_wire_some in F. destruct F as [I E].
  unfold Sem.decode_struct. destruct body; try discriminate.
  destruct (dec_fields (vd_fields v) members) eqn:D; [discriminate|].
  intros H. injection H as <-. exists k, (JObj members), v. simpl. auto.
Qed.

(* ---- C02: dispatch calls exactly the source method with the field values by name ---- *)
Variable ctxT : Type.
Variable outcome : Type.
Variable handler : string -> ctxT -> list val -> outcome.
Notation dispatch_enum := (dispatch_enum val ctxT outcome handler).
Notation bind_fields := (bind_fields val).

Lemma bind_fields_spec : forall fs m,
  (forall f, In f fs -> lookup (fd_name f) m <> None) ->
  exists args, bind_fields fs m = Some args /\ length args = length fs /\
               forall i f, nth_error fs i = Some f -> option_map Some (nth_error args i) = Some (lookup (fd_name f) m).
Proof.
  induction fs as [|f r IH]; intros m H; simpl.
  - exists []. repeat split; auto. intros [|i] f; discriminate.
  - destruct (IH m) as (args & E & L & Hn); [intros g Ig; apply H; right; exact Ig|].
    unfold Sem.bind_fields in *. simpl. rewrite E.
    destruct (lookup (fd_name f) m) as [v|] eqn:Lk; [|exfalso; apply (H f); [left; reflexivity | exact Lk]].
    exists (v :: args). repeat split; [simpl; lia|].
    intros [|i] g Hg; simpl in *.
    + injection Hg as <-. rewrite Lk. reflexivity.
    + apply Hn. exact Hg.
Qed.

Theorem dispatch_enum_calls_source_method e v fields c :
  wf_enum e -> In v e ->
  (forall f, In f (vd_fields v) -> lookup (fd_name f) fields <> None) ->
  exists args,
    dispatch_enum e (mkMsg (vd_fn v) fields) c = Some ([Call (vd_fn v) c args], handler (vd_fn v) c args) /\
    length args = length (vd_fields v) /\
    forall i f, nth_error (vd_fields v) i = Some f ->
                option_map Some (nth_error args i) = Some (lookup (fd_name f) fields).
Proof.
  intros (Nf & _ & _) I H. destruct (bind_fields_spec (vd_fields v) fields H) as (args & E & L & Hn).
  exists args. unfold Sem.dispatch_enum. simpl. rewrite (find_by_fn_in e v Nf I), E. auto.
Qed.

(* with the declared-order field list: the arguments are exactly the sent values, in parameter order *)
Lemma bind_fields_weaken fs k (v : val) m :
  ~ In k (map fd_name fs) -> bind_fields fs ((k, v) :: m) = bind_fields fs m.
Proof.
  unfold Sem.bind_fields. induction fs as [|f r IH]; simpl; intros H; [reflexivity|].
  rewrite lookup_cons. destruct (String.eqb_spec k (fd_name f)) as [E|Ne]; [exfalso; apply H; left; auto|].
  rewrite IH; [reflexivity | intros I; apply H; right; exact I].
Qed.

Lemma bind_fields_of fs vals : NoDup (map fd_name fs) -> length vals = length fs ->
  bind_fields fs (fields_of fs vals) = Some vals.
Proof.
  unfold fields_of. revert vals; induction fs as [|f r IH]; intros [|x xs] N L; simpl in *; try discriminate; [reflexivity|].
  inversion N as [|? ? Hn N']; subst.
  change (bind_fields (f :: r) ((fd_name f, x) :: combine (map fd_name r) xs))
    with (match lookup (fd_name f) ((fd_name f, x) :: combine (map fd_name r) xs),
                bind_fields r ((fd_name f, x) :: combine (map fd_name r) xs) with
          | Some v, Some l => Some (v :: l) | _, _ => None end).
  rewrite lookup_cons, String.eqb_refl. rewrite bind_fields_weaken by exact Hn.
  rewrite IH by (auto; lia). reflexivity.
Qed.

Theorem dispatch_enum_delivers_arguments e v vals c :
  wf_enum e -> In v e -> length vals = length (vd_fields v) ->
  dispatch_enum e (mkMsg (vd_fn v) (fields_of (vd_fields v) vals)) c =
  Some ([Call (vd_fn v) c vals], handler (vd_fn v) c vals).
Proof.
  intros (Nf & Nw & Fw) I L. unfold Sem.dispatch_enum. simpl. rewrite (find_by_fn_in e v Nf I).
  rewrite Forall_forall in Fw. rewrite bind_fields_of; auto. apply Fw. exact I.
Qed.

(* the call log of a dispatch never mentions a method outside the enum *)
Theorem dispatch_enum_log_in_enum e m c log o :
  dispatch_enum e m c = Some (log, o) -> forall fn c' args, In (Call fn c' args) log -> In fn (map vd_fn e).
Proof.
  unfold Sem.dispatch_enum. destruct (find_by_fn e (msg_fn m)) as [v|] eqn:F; [|discriminate].
  destruct (bind_fields (vd_fields v) (msg_fields m)); [|discriminate].
  intros H. injection H as <- <-. intros fn c' args [E|[]]. injection E as <- <- <-.
  apply find_by_fn_some in F. apply in_map. tauto.
Qed.

End SemFacts.
