(* Tactics for facts about the regenerated string tables. *)
From Coq Require Import String List Bool.
Require Import SV.Model.Kinds.

(* forall s k, tbl s = Some k -> s = name k   for an if-chain table *)
Ltac table_complete tbl :=
  let s := fresh "s" in let k := fresh "k" in let H := fresh "H" in
  intros s k H; unfold tbl in H;
  repeat match type of H with
         | (if (?a =? ?b)%string then _ else _) = _ =>
             destruct (String.eqb_spec a b) as [->|_];
             [injection H as <-; reflexivity|]
         end;
  discriminate H.
