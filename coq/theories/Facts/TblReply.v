(* reply_on / data / payload / features argument tables. *)
From Coq Require Import String List Bool.
Require Import SV.Model.Kinds SV.Model.GenTables SV.Facts.TblTactics.
Open Scope string_scope.

Definition reply_on_of_string (s : string) : option reply_on :=
  match reply_on_tag_of_string s with Some t => reply_on_of_tag t | None => None end.

Lemma reply_on_sound r : reply_on_of_string (reply_on_attr_name r) = Some r.
Proof. destruct r; reflexivity. Qed.

Lemma reply_on_complete s r : reply_on_of_string s = Some r -> s = reply_on_attr_name r.
Proof.
  unfold reply_on_of_string, reply_on_tag_of_string.
  repeat match goal with
         | |- context [if (?a =? ?b)%string then _ else _] =>
             destruct (String.eqb_spec a b) as [->|_]; [destruct r; vm_compute; intros H; try reflexivity; discriminate H|]
         end.
  discriminate.
Qed.

Lemma data_flags_table :
  data_flag_of_string "raw" = Some "raw" /\ data_flag_of_string "opt" = Some "opt" /\
  data_flag_of_string "instantiate" = Some "instantiate".
Proof. repeat split; reflexivity. Qed.

Lemma data_flag_complete s t : data_flag_of_string s = Some t -> s = t /\ (t = "raw" \/ t = "opt" \/ t = "instantiate").
Proof.
  unfold data_flag_of_string.
  repeat match goal with
         | |- context [if (?a =? ?b)%string then _ else _] =>
             destruct (String.eqb_spec a b) as [->|_]; [intros H; injection H as <-; split; auto|]
         end.
  discriminate.
Qed.

Lemma payload_flag_table s : payload_flag_of_string s = Some "raw" <-> s = "raw".
Proof.
  unfold payload_flag_of_string. destruct (String.eqb_spec s "raw") as [->|N]; split; auto; try discriminate.
  intros ->. congruence.
Qed.

Lemma feature_table s t : feature_of_string s = Some t -> s = "replies" /\ t = "replies".
Proof.
  unfold feature_of_string. destruct (String.eqb_spec s "replies") as [->|N]; [intros H; injection H as <-; auto|discriminate].
Qed.
