(* What the contract / interface macros remove from the user's item before re-emitting it: `StripInput` of
   sylvia-derive/src/fold.rs, translated from the source on every run (GenImpFold.fold_fns).

   Outside the translated functions: `SylviaAttribute::new(attr)` (is this attribute one of the framework's own? - a stub
   answering from a flag carried by the attribute, so the theorems hold for every way of telling them apart; which paths
   count is the regenerated table of Props/C13) and syn's own recursion `fold::fold_*` (recorded as a constructor applied to
   the rebuilt node: what syn does below is syn's). *)
From Coq Require Import String List Bool Arith Lia.
Require Import SV.Model.Imp SV.Model.GenImpFold SV.Facts.ImpFacts SV.Facts.MacroRefine.
Import ListNotations.
Open Scope string_scope.
Open Scope list_scope.

(* an attribute: whether it is the framework's own, and its tokens (anything) *)
Definition attr := (bool * value)%type.
Definition attr_v (a : attr) : value := VRec "Attribute" [("sv", VBool (fst a)); ("tokens", snd a)].
Definition foreign (a : attr) : bool := negb (fst a).

(* a parameter of a method: the receiver or a typed parameter, its attributes, everything else of it *)
Definition param := (bool * list value * value)%type.
Definition param_v (p : param) : value :=
  let '(recv, attrs, other) := p in
  if recv then VCon "FnArg::Receiver" [VRec "Receiver" [("attrs", VArr attrs); ("other", other)]]
  else VCon "FnArg::Typed" [VRec "PatType" [("attrs", VArr attrs); ("other", other)]].
Definition bare (p : param) : param := let '(recv, _, other) := p in (recv, [], other).

Definition FOLD : program :=
  fold_fns ++
  [stub "extern::SylviaAttribute::new" ["attr"]
     (EIf (EField (EVar "attr") "sv") (ECon "Some" [ECon "SylviaAttribute" [EVar "attr"]]) (ECon "None" []))].

Lemma evals_compute_calls P K d e en r :
  (forall g h, eval (call P d (K + h)) (K + g) e en = Some r) -> evals P d e en r.
Proof.
  intros H. exists K. intros f fl Hf Hfl. replace f with (K + (f - K)) by lia. replace fl with (K + (fl - K)) by lia. apply H.
Qed.

(* an arm that binds nothing and leaves the environment as it was *)
Lemma ev_arm_hit0 P d v p body r en c :
  pmatch p v = Some [] -> evals P d body en (c, en) -> evals_arms P d v ((p, body) :: r) en (c, en).
Proof.
  intros Hp He. pose proof (ev_arm_hit P d v p body r en [] c en Hp He) as H.
  replace (leave en en) with en in H; [exact H|]. unfold leave. rewrite Nat.sub_diag. reflexivity.
Qed.

Lemma firstn_snoc {A} (l : list A) j x : nth_error l j = Some x -> firstn (S j) l = firstn j l ++ [x].
Proof.
  revert j. induction l as [|a l IH]; intros [|j] H; simpl in H; try discriminate.
  - injection H as ->. reflexivity.
  - change (firstn (S (S j)) (a :: l)) with (a :: firstn (S j) l). rewrite (IH _ H). reflexivity.
Qed.

Lemma filter_snoc {A} (f : A -> bool) l x : filter f (l ++ [x]) = filter f l ++ (if f x then [x] else []).
Proof. induction l as [|a l IH]; simpl; [destruct (f x); reflexivity|]. rewrite IH. destruct (f a); reflexivity. Qed.

Lemma existsb_snoc {A} (f : A -> bool) l x : existsb f (l ++ [x]) = existsb f l || f x.
Proof. rewrite existsb_app. simpl. rewrite orb_false_r. reflexivity. Qed.

Local Ltac cmp K := apply (evals_compute _ K); intros ?gg ?fl; reflexivity.

(* ---- remove_input_attr: every parameter loses its attributes and keeps everything else, in order ---- *)
Theorem translated_remove_input_attr d (l : list param) :
  calls FOLD (S d) "remove_input_attr" [VArr (map param_v l)] (CVal (VArr (map (fun p => param_v (bare p)) l))).
Proof.
  eapply calls_intro with (c := CVal _); try reflexivity.
  simpl fn_body. cbn [app combine fn_params].
  eapply ev_block; [|reflexivity]. apply ev_stmts_tail. eapply ev_block; [|reflexivity].
  (eapply ev_stmts_let; [cmp 4 | reflexivity |]).
  (eapply ev_stmts_let; [cmp 4 | reflexivity |]). cbn [app].
  match goal with |- evals_stmts ?P ?dd (SExpr (EFor ?i ?lo ?hi ?b) :: ?rest) ?en ?res =>
    destruct (ev_for_inv P dd i b
                (fun j en' => en' = ("map_acc2", VArr (map (fun p => param_v (bare p)) (firstn j l))) :: List.tl en) (length l) 0 en)
      as (enf & Hfor & Hinv) end.
  - reflexivity.
  - intros j en' Hj ->. cbn [List.tl].
    destruct (nth_error l j) as [[[recv attrs] other]|] eqn:Hnth; [|apply nth_error_None in Hnth; lia].
    assert (Hm : nth_error (map param_v l) j = Some (param_v (recv, attrs, other))) by (rewrite nth_error_map, Hnth; reflexivity).
    rewrite (firstn_snoc _ _ _ Hnth), map_app. cbn [map].
    destruct recv, attrs as [|a attrs];
      (eexists; eexists; split;
        [ eapply ev_block; [|reflexivity];
          eapply ev_stmts_let; [apply (evals_compute _ 6); intros gg fl; simpl; rewrite Hm; reflexivity | reflexivity |];
          apply ev_stmts_tail; cmp 40
        | reflexivity ]).
  - rewrite Hinv in Hfor. cbn [List.tl] in Hfor.
    eapply ev_stmts_expr.
    + eapply ev_for; [cmp 2 | apply (evals_compute _ 4); intros gg fl; simpl; rewrite map_length; reflexivity
                     | rewrite Nat.sub_0_r; exact Hfor].
    + apply ev_stmts_tail. cbn [Nat.add]. rewrite firstn_all. cmp 4.
Qed.

(* ---- the two loops over the attributes of an item ---- *)
(* `i.attrs.iter().any(|attr| SylviaAttribute::new(attr).is_some())` on the goal
   `evals_stmts P d (SExpr (EFor ..) :: STail (EVar res) :: _) en _` *)
Local Ltac any_loop la res :=
  match goal with |- evals_stmts ?P ?dd (SExpr (EFor ?i ?lo ?hi ?b) :: ?rest) ?en ?r =>
    let Hfor := fresh "Hfor" in let Hinv := fresh "Hinv" in let enf := fresh "enf" in
    destruct (ev_for_inv P dd i b (fun j en' => en' = (res, VBool (existsb fst (firstn j la))) :: List.tl en) (length la) 0 en)
      as (enf & Hfor & Hinv);
    [ reflexivity
    | let j := fresh "j" in let en' := fresh "en'" in let Hj := fresh "Hj" in
      intros j en' Hj ->; cbn [List.tl];
      let sv := fresh "sv" in let t := fresh "t" in let Hnth := fresh "Hnth" in let Hm := fresh "Hm" in
      destruct (nth_error la j) as [[sv t]|] eqn:Hnth; [|apply nth_error_None in Hnth; lia];
      assert (Hm : nth_error (map attr_v la) j = Some (attr_v (sv, t))) by (rewrite nth_error_map, Hnth; reflexivity);
      rewrite (firstn_snoc _ _ _ Hnth), existsb_snoc; cbn [fst];
      destruct sv; rewrite ?orb_true_r, ?orb_false_r;
      (eexists; eexists; split;
        [ eapply ev_block; [|reflexivity];
          eapply ev_stmts_let; [apply (evals_compute _ 6); intros gg fl; simpl; rewrite Hm; reflexivity | reflexivity |];
          apply ev_stmts_tail; apply (evals_compute_calls _ 20); intros gg hh; reflexivity
        | reflexivity ])
    | rewrite Hinv in Hfor; cbn [List.tl] in Hfor;
      eapply ev_stmts_expr;
        [ eapply ev_for; [cmp 2 | apply (evals_compute _ 4); intros gg fl; simpl; rewrite map_length; reflexivity
                         | rewrite Nat.sub_0_r; exact Hfor]
        | apply ev_stmts_tail; cbn [Nat.add]; rewrite firstn_all; cmp 4 ] ]
  end.

(* `i.attrs.into_iter().filter(|attr| SylviaAttribute::new(attr).is_none()).collect()` *)
Local Ltac strip_loop la acc :=
  match goal with |- evals_stmts ?P ?dd (SExpr (EFor ?i ?lo ?hi ?b) :: ?rest) ?en ?r =>
    let Hfor := fresh "Hfor" in let Hinv := fresh "Hinv" in let enf := fresh "enf" in
    destruct (ev_for_inv P dd i b (fun j en' => en' = (acc, VArr (map attr_v (filter foreign (firstn j la)))) :: List.tl en) (length la) 0 en)
      as (enf & Hfor & Hinv);
    [ reflexivity
    | let j := fresh "j" in let en' := fresh "en'" in let Hj := fresh "Hj" in
      intros j en' Hj ->; cbn [List.tl];
      let sv := fresh "sv" in let t := fresh "t" in let Hnth := fresh "Hnth" in let Hm := fresh "Hm" in
      destruct (nth_error la j) as [[sv t]|] eqn:Hnth; [|apply nth_error_None in Hnth; lia];
      assert (Hm : nth_error (map attr_v la) j = Some (attr_v (sv, t))) by (rewrite nth_error_map, Hnth; reflexivity);
      rewrite (firstn_snoc _ _ _ Hnth), filter_snoc, map_app; unfold foreign at 2; cbn [fst];
      destruct sv; cbn [negb map]; rewrite ?app_nil_r;
      (eexists; eexists; split;
        [ eapply ev_block; [|reflexivity];
          eapply ev_stmts_let; [apply (evals_compute _ 6); intros gg fl; simpl; rewrite Hm; reflexivity | reflexivity |];
          apply ev_stmts_tail; apply (evals_compute_calls _ 20); intros gg hh; reflexivity
        | reflexivity ])
    | rewrite Hinv in Hfor; cbn [List.tl] in Hfor;
      eapply ev_stmts_expr;
        [ eapply ev_for; [cmp 2 | apply (evals_compute _ 4); intros gg fl; simpl; rewrite map_length; reflexivity
                         | rewrite Nat.sub_0_r; exact Hfor]
        | apply ev_stmts_tail; cbn [Nat.add]; rewrite firstn_all; cmp 4 ] ]
  end.

Local Ltac any_block la res :=
  eapply ev_block; [|reflexivity];
  (eapply ev_stmts_let; [cmp 6 | reflexivity |]); (eapply ev_stmts_let; [cmp 4 | reflexivity |]); cbn [app];
  any_loop la res.
Local Ltac strip_block la acc :=
  eapply ev_block; [|reflexivity];
  (eapply ev_stmts_let; [cmp 6 | reflexivity |]); (eapply ev_stmts_let; [cmp 4 | reflexivity |]); cbn [app];
  strip_loop la acc.

(* ---- items: only the framework's own attributes go, everything else of the item stays ---- *)
Definition item_v (name : string) (la : list attr) (other : value) : value :=
  VRec name [("attrs", VArr (map attr_v la)); ("other", other)].

Theorem translated_fold_item_impl d self la other :
  calls FOLD (S (S d)) "StripInput::fold_item_impl" [self; item_v "ItemImpl" la other]
    (CVal (VCon "fold::fold_item_impl" [self; item_v "ItemImpl" (filter foreign la) other])).
Proof.
  eapply calls_intro with (c := CVal _); try reflexivity.
  simpl fn_body. cbn [app combine fn_params].
  eapply ev_block; [|reflexivity].
  eapply ev_stmts_let; [ strip_block la "flt_acc1" | reflexivity | ].
  cbn [app]. apply ev_stmts_tail. cmp 14.
Qed.

Theorem translated_fold_item_trait d self la other :
  calls FOLD (S (S d)) "StripInput::fold_item_trait" [self; item_v "ItemTrait" la other]
    (CVal (VCon "fold::fold_item_trait" [self; item_v "ItemTrait" (filter foreign la) other])).
Proof.
  eapply calls_intro with (c := CVal _); try reflexivity.
  simpl fn_body. cbn [app combine fn_params].
  eapply ev_block; [|reflexivity].
  eapply ev_stmts_let; [ strip_block la "flt_acc1" | reflexivity | ].
  cbn [app]. apply ev_stmts_tail. cmp 14.
Qed.

(* ---- methods: the framework's own attributes go; the attributes on the parameters go exactly when the method carries one
   of the framework's attributes (a handler); a method without one keeps its parameters as written ---- *)
Definition method_v (name : string) (la : list attr) (inputs : list value) (sig_other other : value) : value :=
  VRec name [("attrs", VArr (map attr_v la)); ("sig", VRec "Signature" [("inputs", VArr inputs); ("other", sig_other)]); ("other", other)].

Definition stripped_inputs (la : list attr) (li : list param) : list value :=
  if existsb fst la then map (fun p => param_v (bare p)) li else map param_v li.

Local Ltac method_proof la li :=
  eapply calls_intro with (c := CVal _); try reflexivity;
  simpl fn_body; cbn [app combine fn_params];
  eapply ev_block; [|reflexivity];
  (eapply ev_stmts_let; [ any_block la "any_res1" | reflexivity | ]); cbn [app];
  (eapply ev_stmts_let; [ strip_block la "flt_acc2" | reflexivity | ]); cbn [app];
  match goal with |- evals_stmts _ _ (SLet _ _ :: _) ?en _ =>
    eapply ev_stmts_let with (v := VArr (stripped_inputs la li)) (en1 := en);
     [ unfold stripped_inputs; destruct (existsb fst la);
       [ eapply ev_match; [cmp 4 |];
         apply ev_arm_hit0; [reflexivity |];
         eapply ev_call; [apply (evals_list_compute _ 8); intros ?gg ?fl; reflexivity | apply translated_remove_input_attr]
       | cmp 14 ]
     | reflexivity |] end; cbn [app];
  (eapply ev_stmts_let; [cmp 14 | reflexivity |]); cbn [app];
  apply ev_stmts_tail; cmp 14.

Theorem translated_fold_impl_item_fn d self la li sig_other other :
  calls FOLD (S (S d)) "StripInput::fold_impl_item_fn" [self; method_v "ImplItemFn" la (map param_v li) sig_other other]
    (CVal (VCon "fold::fold_impl_item_fn" [self; method_v "ImplItemFn" (filter foreign la) (stripped_inputs la li) sig_other other])).
Proof. method_proof la li. Qed.

Theorem translated_fold_trait_item_fn d self la li sig_other other :
  calls FOLD (S (S d)) "StripInput::fold_trait_item_fn" [self; method_v "TraitItemFn" la (map param_v li) sig_other other]
    (CVal (VCon "fold::fold_trait_item_fn" [self; method_v "TraitItemFn" (filter foreign la) (stripped_inputs la li) sig_other other])).
Proof. method_proof la li. Qed.
