(* Association-list facts: lookup / count_key, and what buffering through a BTreeMap (`btree_of`,
   `collapse`) preserves for documents that repeat no key. *)
From Coq Require Import String List Bool Arith Lia Sorted Permutation.
Require Import SV.Base.Util SV.Base.StrOrder SV.Base.Json.
Import ListNotations.
Open Scope string_scope.

Section KV.
Context {V : Type}.
Implicit Types l : list (string * V).

Lemma lookup_cons k k' (v : V) l :
  lookup k ((k', v) :: l) = if String.eqb k' k then Some v else lookup k l.
Proof. unfold lookup. simpl. destruct (String.eqb k' k); reflexivity. Qed.

Lemma count_key_cons k k' (v : V) l :
  count_key k ((k', v) :: l) = (if String.eqb k' k then 1 else 0) + count_key k l.
Proof. unfold count_key. simpl. destruct (String.eqb k' k); reflexivity. Qed.

Lemma lookup_none_iff k l : lookup k l = None <-> ~ In k (map fst l).
Proof.
  induction l as [|[k' v] r IH]; simpl.
  - split; auto.
  - rewrite lookup_cons. destruct (String.eqb_spec k' k) as [->|N]; split; intros H.
    + discriminate.
    + exfalso. apply H. left. reflexivity.
    + intros [E|I]; [congruence|]. apply IH in H. contradiction.
    + apply IH. intros I. apply H. right. exact I.
Qed.

Lemma count_key_zero_iff k l : count_key k l = 0 <-> ~ In k (map fst l).
Proof.
  induction l as [|[k' v] r IH]; simpl.
  - unfold count_key. simpl. split; auto.
  - rewrite count_key_cons. destruct (String.eqb_spec k' k) as [->|N]; split; intros H.
    + discriminate.
    + exfalso. apply H. left. reflexivity.
    + intros [E|I]; [congruence|]. apply IH; [lia | exact I].
    + simpl. apply IH. intros I. apply H. right. exact I.
Qed.

Lemma count_key_nodup k l : NoDup (map fst l) -> In k (map fst l) -> count_key k l = 1.
Proof.
  induction l as [|[k' v] r IH]; simpl; intros N I; [destruct I|].
  inversion N as [|? ? Hn N']; subst. rewrite count_key_cons.
  destruct (String.eqb_spec k' k) as [->|Ne].
  - assert (count_key k r = 0) by (apply count_key_zero_iff; exact Hn). lia.
  - destruct I as [E|I]; [congruence|]. rewrite IH by assumption. reflexivity.
Qed.

Lemma lookup_in k v l : lookup k l = Some v -> In (k, v) l.
Proof.
  induction l as [|[k' v'] r IH]; simpl; [discriminate|].
  rewrite lookup_cons. destruct (String.eqb_spec k' k) as [->|N]; intros H.
  - injection H as ->. left. reflexivity.
  - right. apply IH. exact H.
Qed.

Lemma in_lookup k v l : NoDup (map fst l) -> In (k, v) l -> lookup k l = Some v.
Proof.
  induction l as [|[k' v'] r IH]; simpl; intros N I; [destruct I|].
  inversion N as [|? ? Hn N']; subst. rewrite lookup_cons.
  destruct I as [E|I].
  - injection E as -> ->. rewrite String.eqb_refl. reflexivity.
  - destruct (String.eqb_spec k' k) as [->|Ne].
    + exfalso. apply Hn. apply in_map_iff. exists (k, v). split; auto.
    + apply IH; assumption.
Qed.

(* ---- kv_insert on strictly sorted lists ---- *)
Definition ksorted l : Prop := StronglySorted slt (map fst l).

Lemma ksorted_tail k (v : V) l : ksorted ((k, v) :: l) -> ksorted l.
Proof. unfold ksorted. simpl. intros H. inversion H; assumption. Qed.

Lemma ksorted_head k (v : V) l x : ksorted ((k, v) :: l) -> In x (map fst l) -> slt k x.
Proof. unfold ksorted. simpl. intros H I. inversion H as [|? ? _ F]; subst. rewrite Forall_forall in F. auto. Qed.

Lemma kv_insert_keys k (v : V) l x :
  In x (map fst (kv_insert k v l)) <-> x = k \/ In x (map fst l).
Proof.
  induction l as [|[k' v'] r IH]; simpl; [intuition congruence|].
  destruct (String.eqb_spec k k') as [->|N]; simpl; [intuition congruence|].
  destruct (String.ltb k k'); simpl; [intuition congruence|]. rewrite IH. intuition congruence.
Qed.

Lemma kv_insert_sorted k (v : V) l : ksorted l -> ksorted (kv_insert k v l).
Proof.
  induction l as [|[k' v'] r IH]; simpl; intros S.
  - unfold ksorted. simpl. repeat constructor.
  - destruct (String.eqb_spec k k') as [->|N]; [exact S|].
    destruct (String.ltb k k') eqn:L.
    + unfold ksorted in *. simpl in *. constructor; [exact S|]. constructor; [exact L|].
      inversion S as [|? ? _ F]; subst. eapply Forall_impl; [|exact F]. intros a Ha. eapply slt_trans; [exact L | exact Ha].
    + pose proof (ksorted_tail _ _ _ S) as S'. specialize (IH S').
      unfold ksorted in *. simpl. constructor; [exact IH|].
      apply Forall_forall. intros x Hx. apply kv_insert_keys in Hx. destruct Hx as [->|Hx].
      * destruct (slt_total k k') as [A|[A|A]]; [unfold slt in A; congruence | congruence | exact A].
      * eapply ksorted_head; [exact S | exact Hx].
Qed.

Lemma lookup_kv_insert k (v : V) l x : ksorted l ->
  lookup x (kv_insert k v l) = if String.eqb k x then Some v else lookup x l.
Proof.
  induction l as [|[k' v'] r IH]; simpl; intros S.
  - rewrite lookup_cons. reflexivity.
  - destruct (String.eqb_spec k k') as [->|N].
    + rewrite !lookup_cons. destruct (String.eqb k' x); reflexivity.
    + destruct (String.ltb k k') eqn:L.
      * rewrite lookup_cons. reflexivity.
      * rewrite !lookup_cons. rewrite IH by (eapply ksorted_tail; exact S).
        destruct (String.eqb_spec k' x) as [->|N2]; [|reflexivity].
        destruct (String.eqb_spec k x) as [->|_]; [congruence | reflexivity].
Qed.

Lemma kv_insert_nodup k (v : V) l : ksorted l -> NoDup (map fst (kv_insert k v l)).
Proof.
  intros S. apply kv_insert_sorted with (k := k) (v := v) in S. unfold ksorted in S.
  induction S as [|a r S IH F]; constructor; auto.
  intros I. rewrite Forall_forall in F. exact (slt_irrefl a (F a I)).
Qed.

(* btree_of: fold of inserts *)
Lemma btree_fold_sorted l acc : ksorted acc -> ksorted (fold_left (fun a p => kv_insert (fst p) (snd p) a) l acc).
Proof. revert acc; induction l as [|[k v] r IH]; simpl; intros acc S; [exact S|]. apply IH. apply kv_insert_sorted. exact S. Qed.

Lemma btree_fold_lookup l acc x : ksorted acc -> NoDup (map fst l) -> (forall k, In k (map fst l) -> ~ In k (map fst acc)) ->
  lookup x (fold_left (fun a p => kv_insert (fst p) (snd p) a) l acc) =
  match lookup x acc with Some v => Some v | None => lookup x l end.
Proof.
  revert acc; induction l as [|[k v] r IH]; simpl; intros acc S N D.
  - destruct (lookup x acc); reflexivity.
  - inversion N as [|? ? Hn N']; subst.
    rewrite IH; [|apply kv_insert_sorted; exact S | exact N' |].
    + rewrite lookup_kv_insert by exact S. rewrite lookup_cons.
      destruct (String.eqb_spec k x) as [->|Ne]; [|reflexivity].
      assert (lookup x acc = None) as ->; [|reflexivity].
      apply lookup_none_iff. apply D. left. reflexivity.
    + intros k' I J. apply kv_insert_keys in J. destruct J as [->|J]; [contradiction|]. exact (D k' (or_intror I) J).
Qed.

Lemma btree_fold_keys l acc x :
  In x (map fst (fold_left (fun a p => kv_insert (fst p) (snd p) a) l acc)) <-> In x (map fst acc) \/ In x (map fst l).
Proof.
  revert acc; induction l as [|[k v] r IH]; simpl; intros acc; [tauto|].
  rewrite IH, kv_insert_keys. intuition congruence.
Qed.

Lemma ksorted_nil : ksorted (@nil (string * V)).
Proof. unfold ksorted. simpl. constructor. Qed.

Lemma btree_lookup l x : NoDup (map fst l) -> lookup x (btree_of l) = lookup x l.
Proof.
  intros N. unfold btree_of. rewrite btree_fold_lookup; auto using ksorted_nil.
Qed.

Lemma btree_keys l x : In x (map fst (btree_of l)) <-> In x (map fst l).
Proof. unfold btree_of. rewrite btree_fold_keys. simpl. tauto. Qed.

Lemma btree_nodup l : NoDup (map fst (btree_of l)).
Proof.
  assert (S : ksorted (btree_of l)) by (apply btree_fold_sorted, ksorted_nil).
  unfold ksorted in S. induction S as [|a r S IH F]; constructor; auto.
  intros I. rewrite Forall_forall in F. exact (slt_irrefl a (F a I)).
Qed.

Lemma btree_count l x : NoDup (map fst l) -> count_key x (btree_of l) = count_key x l.
Proof.
  intros N. destruct (in_dec string_dec x (map fst l)) as [I|I].
  - rewrite (count_key_nodup x l N I). apply count_key_nodup; [apply btree_nodup | apply btree_keys; exact I].
  - rewrite (proj2 (count_key_zero_iff x l) I). apply count_key_zero_iff. rewrite btree_keys. exact I.
Qed.

Lemma btree_length l : NoDup (map fst l) -> length (btree_of l) = length l.
Proof.
  intros N.
  assert (P : Permutation (map fst (btree_of l)) (map fst l)).
  { apply NoDup_Permutation; [apply btree_nodup | exact N | intros x; apply btree_keys]. }
  apply Permutation_length in P. rewrite !map_length in P. exact P.
Qed.

End KV.

Lemma nodupb_NoDup l : nodupb l = true <-> NoDup l.
Proof.
  induction l as [|x r IH]; simpl.
  - split; [constructor | reflexivity].
  - rewrite andb_true_iff, negb_true_iff, IH. split.
    + intros [H N]. constructor; [|exact N]. intros I.
      assert (existsb (String.eqb x) r = true) by (apply existsb_exists; exists x; split; [exact I | apply String.eqb_refl]). congruence.
    + intros N. inversion N as [|? ? Hn N']; subst. split; [|exact N'].
      destruct (existsb (String.eqb x) r) eqn:E; [|reflexivity].
      apply existsb_exists in E. destruct E as [y [Iy Ey]]. apply String.eqb_eq in Ey. subst. contradiction.
Qed.

Lemma map_fst_second {A B C} (f : B -> C) (l : list (A * B)) :
  map fst (map (fun p : A * B => (fst p, f (snd p))) l) = map fst l.
Proof. induction l as [|[a b] r IH]; simpl; [reflexivity | rewrite IH; reflexivity]. Qed.

Lemma lookup_map_second {B C} (f : B -> C) k (l : list (string * B)) :
  lookup k (map (fun p : string * B => (fst p, f (snd p))) l) = option_map f (lookup k l).
Proof.
  induction l as [|[a b] r IH]; simpl; [reflexivity|]. rewrite !lookup_cons. simpl.
  destruct (String.eqb a k); [reflexivity | exact IH].
Qed.

Lemma count_key_map_second {B C} (f : B -> C) k (l : list (string * B)) :
  count_key k (map (fun p : string * B => (fst p, f (snd p))) l) = count_key k l.
Proof.
  induction l as [|[a b] r IH]; simpl; [reflexivity|]. rewrite !count_key_cons. simpl. rewrite IH. reflexivity.
Qed.
