(* The GENERATED extraction of the reply data, one function per declared data mode - templates t4..t9 (with t2 / t3 spliced)
   of `<MsgField as DataField>::emit_data_deserialization` in sylvia-derive/src/contract/communication/reply.rs, translated on
   every run (GenImp.reply_data_fns). cw_utils' envelope parsers and cosmwasm_std::from_json are stubs that record what they
   were given and answer in every possible way (a parameter of the program). *)
From Coq Require Import String List Bool Arith Lia.
Require Import SV.Model.Imp SV.Model.GenImp SV.Facts.ImpFacts.
Import ListNotations.
Open Scope string_scope.
Open Scope list_scope.

Definition fn1 (name : string) (body : expr) : fn_def := {| fn_name := name; fn_params := ["bytes"]; fn_consts := []; fn_body := body |}.

(* how the execute envelope parser answers: a failure; an envelope without inner data; an envelope with inner data *)
Inductive env_answer := EnvErr | EnvEmpty | EnvData.
Definition exec_stub (a : env_answer) : fn_def :=
  fn1 "extern::parse_execute_response_data"
    (match a with
     | EnvErr => ECon "Err" [ECon "envelope_error" [EVar "bytes"]]
     | EnvEmpty => ECon "Ok" [ERecord "MsgExecuteContractResponse" [("data", ECon "None" [])] None]
     | EnvData => ECon "Ok" [ERecord "MsgExecuteContractResponse" [("data", ECon "Some" [ECon "inner_of" [EVar "bytes"]])] None]
     end).
Definition inst_stub (ok : bool) : fn_def :=
  fn1 "extern::parse_instantiate_response_data"
    (if ok then ECon "Ok" [ECon "instantiate_response_of" [EVar "bytes"]] else ECon "Err" [ECon "envelope_error" [EVar "bytes"]]).
Definition json_stub (ok : bool) : fn_def :=
  fn1 "extern::from_json" (if ok then ECon "Ok" [ECon "decoded" [EVar "bytes"]] else ECon "Err" [ECon "json_error" [EVar "bytes"]]).

Definition RD (a : env_answer) (inst_ok json_ok : bool) : program := reply_data_fns ++ [exec_stub a; inst_stub inst_ok; json_stub json_ok].

Definition none : value := VCon "None" [].
Definition some (v : value) : value := VCon "Some" [v].
Definition ok (v : value) : value := VCon "Ok" [v].
Definition err (v : value) : value := VCon "Err" [v].
Definition generic (text : value) : value := VCon "StdError::GenericErr" [text].
(* the three errors of the extraction *)
Definition missing_err (mtxt : value) : value := err (VCon "Into::into" [generic mtxt]).
Definition envelope_err (bytes : value) : value :=
  err (VCon "From::from" [generic (VCon "format" [VStr "Failed deserializing protobuf data: {}"; VCon "envelope_error" [bytes]])]).
Definition invalid_err (itxt : value) : value := err (VCon "From::from" [generic itxt]).

(* the value a typed mode extracts from present data `d` (or the error), as the envelope parser and the JSON decoder answer *)
Definition typed_of (a : env_answer) (json_ok : bool) (d mtxt itxt : value) (wrap : value -> value) : value :=
  match a with
  | EnvErr => envelope_err d
  | EnvEmpty => missing_err mtxt
  | EnvData => if json_ok then ok (wrap (VCon "decoded" [VCon "inner_of" [d]])) else invalid_err itxt
  end.

Local Ltac run := apply (calls_of_run _ 2 200); [reflexivity | vm_compute; reflexivity].

Section Modes.
Variables (a : env_answer) (inst_ok json_ok : bool).
Notation P := (RD a inst_ok json_ok).

(* raw, opt: the optional bytes as they are *)
Lemma mode_raw_opt data mtxt itxt : calls P 2 "DataT::raw_opt" [data; mtxt; itxt] (CVal (ok data)).
Proof. destruct a, inst_ok, json_ok; run. Qed.
(* raw: the bytes; absent data is the missing-data error *)
Lemma mode_raw_some d mtxt itxt : calls P 2 "DataT::raw" [some d; mtxt; itxt] (CVal (ok d)).
Proof. destruct a, inst_ok, json_ok; run. Qed.
Lemma mode_raw_none mtxt itxt : calls P 2 "DataT::raw" [none; mtxt; itxt] (CVal (missing_err mtxt)).
Proof. destruct a, inst_ok, json_ok; run. Qed.
(* typed: envelope, then JSON; absent data (outer or inner) is the missing-data error *)
Lemma mode_typed_some d mtxt itxt :
  calls P 2 "DataT::typed" [some d; mtxt; itxt] (CVal (typed_of a json_ok d mtxt itxt (fun v => v))).
Proof. destruct a, inst_ok, json_ok; run. Qed.
Lemma mode_typed_none mtxt itxt : calls P 2 "DataT::typed" [none; mtxt; itxt] (CVal (missing_err mtxt)).
Proof. destruct a, inst_ok, json_ok; run. Qed.
(* opt: absent data is None; present data is decoded like typed and wrapped in Some - a decoding failure is still an error *)
Lemma mode_opt_some d mtxt itxt :
  calls P 2 "DataT::opt" [some d; mtxt; itxt] (CVal (typed_of a json_ok d mtxt itxt some)).
Proof. destruct a, inst_ok, json_ok; run. Qed.
Lemma mode_opt_none mtxt itxt : calls P 2 "DataT::opt" [none; mtxt; itxt] (CVal (ok none)).
Proof. destruct a, inst_ok, json_ok; run. Qed.
(* instantiate: the instantiate envelope; instantiate, opt: the same, optional *)
Lemma mode_inst_some d mtxt itxt :
  calls P 2 "DataT::inst" [some d; mtxt; itxt]
    (CVal (if inst_ok then ok (VCon "instantiate_response_of" [d]) else envelope_err d)).
Proof. destruct a, inst_ok, json_ok; run. Qed.
Lemma mode_inst_none mtxt itxt : calls P 2 "DataT::inst" [none; mtxt; itxt] (CVal (missing_err mtxt)).
Proof. destruct a, inst_ok, json_ok; run. Qed.
Lemma mode_inst_opt_some d mtxt itxt :
  calls P 2 "DataT::inst_opt" [some d; mtxt; itxt]
    (CVal (if inst_ok then ok (some (VCon "instantiate_response_of" [d])) else envelope_err d)).
Proof. destruct a, inst_ok, json_ok; run. Qed.
Lemma mode_inst_opt_none mtxt itxt : calls P 2 "DataT::inst_opt" [none; mtxt; itxt] (CVal (ok none)).
Proof. destruct a, inst_ok, json_ok; run. Qed.

End Modes.
