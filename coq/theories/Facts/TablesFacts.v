(* The published name lists of a program and the overlap check applied to them (C05 part B). *)
From Coq Require Import String List Bool Arith Lia Sorted Permutation.
Require Import SV.Base.Util SV.Base.StrOrder SV.Base.Json SV.Model.Kinds SV.Model.GenTables SV.Model.Casing SV.Model.Syntax
               SV.Model.Expand SV.Model.Sem SV.Model.Run SV.Model.Intersect.
Require Import SV.Facts.TblNames SV.Facts.SemFacts SV.Facts.ExpandFacts SV.Facts.ProgramFacts SV.Facts.WrapperFacts SV.Facts.IntersectFacts.
Import ListNotations.
Open Scope list_scope.

Lemma tables_are_wire_names : forall c ifs k, enum_kind k = true ->
  tables_of c ifs k = map (fun e => sort (map vd_wire e)) (parts_of c ifs k).
Proof. intros c ifs k E. rewrite tables_of_spec by exact E. reflexivity. Qed.

Lemma tables_sorted : forall c ifs k t,
  enum_kind k = true -> In t (tables_of c ifs k) -> StronglySorted sle t.
Proof.
  intros c ifs k t E I. rewrite tables_are_wire_names in I by exact E.
  apply in_map_iff in I. destruct I as (e & <- & _). apply sort_sorted.
Qed.

Lemma nth_sorted_tables (parts : list edesc) i :
  nth i (map (fun e => sort (map vd_wire e)) parts) [] = sort (map vd_wire (nth i parts [])).
Proof.
  change (@nil string) with ((fun e => sort (map vd_wire e)) (@nil vdesc)) at 1. apply map_nth.
Qed.

Lemma overlap_check_on_program : forall c ifs k,
  enum_kind k = true -> Forall (fun e => NoDup (map vd_wire e)) (parts_of c ifs k) ->
  (assert_no_intersection (tables_of c ifs k) = Panic <->
   exists i j n, i <> j /\ In n (map vd_wire (nth i (parts_of c ifs k) [])) /\ In n (map vd_wire (nth j (parts_of c ifs k) []))) /\
  (assert_no_intersection (tables_of c ifs k) = Done <->
   ~ exists i j n, i <> j /\ In n (map vd_wire (nth i (parts_of c ifs k) [])) /\ In n (map vd_wire (nth j (parts_of c ifs k) []))).
Proof.
  intros c ifs k E ND. rewrite tables_are_wire_names by exact E.
  set (parts := parts_of c ifs k) in *.
  assert (S : Forall (StronglySorted slt) (map (fun e => sort (map vd_wire e)) parts)).
  { apply Forall_forall. intros t I. apply in_map_iff in I. destruct I as (e & <- & Ie).
    apply sort_strict. rewrite Forall_forall in ND. apply ND. exact Ie. }
  assert (EQ : shares (map (fun e => sort (map vd_wire e)) parts) <->
               exists i j n, i <> j /\ In n (map vd_wire (nth i parts [])) /\ In n (map vd_wire (nth j parts []))).
  { unfold shares. split; intros (i & j & n & Hne & A & B); exists i, j, n; split; auto.
    - rewrite !nth_sorted_tables, !sort_in in *. auto.
    - rewrite !nth_sorted_tables, !sort_in. auto. }
  split.
  - rewrite (assert_no_intersection_panic_iff _ S). exact EQ.
  - rewrite (assert_no_intersection_done_iff _ S). rewrite EQ. reflexivity.
Qed.
