(* From the items of an impl block / a trait to the variants of one message kind, on translated code throughout:
     `as_variants` + `VariantDesc::new`   (parser/variant_descs.rs, GenImpVariants.variants_fns)   - proved here,
     `ParsedSylviaAttributes::new`        (parser/attributes/mod.rs, Facts/ParseRefine.v)          - reused,
     `MsgVariants::new`                   (types/msg_variant.rs, Facts/VariantsRefine.v)           - reused.
   The three developments are about three programs; a result about a program carries over to every program that defines the
   same functions under the same names (`calls_ext`), here to their union. *)
From Coq Require Import String List Bool Arith Lia.
Require Import SV.Model.Imp SV.Model.GenImpParse SV.Model.GenImpGenerics SV.Model.GenImpVariants.
Require Import SV.Facts.ImpFacts SV.Facts.MacroRefine SV.Facts.ParseRefine SV.Facts.ParseFacts SV.Facts.GenericsRefine SV.Facts.VariantsRefine.
Import ListNotations.
Open Scope string_scope.
Open Scope list_scope.

(* ---- a result about a program holds in every program that agrees with it on the functions it defines ---- *)
Definition ext (P R : program) : Prop := forall g fd, find_fn P g = Some fd -> find_fn R g = Some fd.

Lemma call_user_ext P R (H : ext P R) : forall d fl g vs c, call_user P d fl g vs = Some c -> call_user R d fl g vs = Some c.
Proof.
  induction d as [|d IH]; intros fl g vs c Hc; simpl in *; [discriminate|].
  destruct (find_fn P g) as [fd|] eqn:Ef; [|discriminate]. rewrite (H _ _ Ef).
  destruct (bind_params fd vs) as [en0|]; [|discriminate].
  set (c1 := fun g0 vs0 => if is_builtin g0 then builtin g0 vs0 else call_user P d fl g0 vs0) in *.
  set (c2 := fun g0 vs0 => if is_builtin g0 then builtin g0 vs0 else call_user R d fl g0 vs0).
  assert (Hle : callf_le c1 c2).
  { intros g0 vs0 r0. unfold c1, c2. destruct (is_builtin g0); [auto|]. apply IH. }
  destruct (eval c1 fl (fn_body fd) en0) as [[cr en']|] eqn:E; [|discriminate].
  destruct (eval_mono_all c1 c2 Hle fl) as (He & _).
  rewrite (He _ _ _ E fl (le_n _)). exact Hc.
Qed.

Lemma calls_ext P R d g vs c : ext P R -> calls P d g vs c -> calls R d g vs c.
Proof.
  intros H [Hb [f0 Hf]]. split; [exact Hb|]. exists f0. intros fl Hfl. apply (call_user_ext P R H). apply Hf. exact Hfl.
Qed.

Lemma find_fn_app P Q g : find_fn (P ++ Q) g = match find_fn P g with Some fd => Some fd | None => find_fn Q g end.
Proof. induction P as [|a P IH]; [reflexivity|]. simpl. destruct (fn_name a =? g); [reflexivity | exact IH]. Qed.

Lemma find_fn_in P g fd : find_fn P g = Some fd -> In fd P /\ fn_name fd = g.
Proof.
  induction P as [|a P IH]; simpl; [discriminate|]. destruct (fn_name a =? g) eqn:E.
  - intros H. injection H as <-. split; [left; reflexivity | apply String.eqb_eq; exact E].
  - intros H. destruct (IH H) as [Hi Hn]. split; [right; exact Hi | exact Hn].
Qed.

Lemma ext_prefix P Q : ext P (P ++ Q).
Proof. intros g fd H. rewrite find_fn_app, H. reflexivity. Qed.

Definition fresh_names (P Q : program) : bool :=
  forallb (fun fd => match find_fn P (fn_name fd) with None => true | Some _ => false end) Q.

Lemma ext_middle P Q R : fresh_names P Q = true -> ext Q (P ++ Q ++ R).
Proof.
  intros Hf g fd H. destruct (find_fn_in _ _ _ H) as [Hi Hn].
  unfold fresh_names in Hf. rewrite forallb_forall in Hf. specialize (Hf fd Hi). rewrite Hn in Hf.
  rewrite find_fn_app. destruct (find_fn P g); [discriminate|]. rewrite find_fn_app, H. reflexivity.
Qed.

Lemma ext_last P Q R : fresh_names P R = true -> fresh_names Q R = true -> ext R (P ++ Q ++ R).
Proof.
  intros H1 H2 g fd H. destruct (find_fn_in _ _ _ H) as [Hi Hn].
  unfold fresh_names in H1, H2. rewrite forallb_forall in H1, H2. specialize (H1 fd Hi). specialize (H2 fd Hi). rewrite Hn in H1, H2.
  rewrite find_fn_app. destruct (find_fn P g); [discriminate|]. rewrite find_fn_app. destruct (find_fn Q g); [discriminate|]. exact H.
Qed.

(* ---- the union program ---- *)
Definition ALL : program := PARSE ++ GEN ++ variants_fns.

Lemma parse_in_all : ext PARSE ALL.
Proof. apply ext_prefix. Qed.
Lemma gen_in_all : ext GEN ALL.
Proof. apply ext_middle. vm_compute. reflexivity. Qed.

Local Ltac cmp K := apply (evals_compute _ K); intros ?gg ?fl; reflexivity.

(* ---- VariantDesc::new: the description of a method = its parsed attributes + its signature ---- *)
Definition parse (attrs : list ain) : st := finish (fold_left step attrs init).
Definition desc_of (attrs : list ain) (sg : value) : desc :=
  {| d_msg := s_msg (parse attrs); d_forward := VArr (s_vattrs (parse attrs)); d_sig := sg |}.

Lemma translated_variant_desc_new d (attrs : list ain) sg :
  calls ALL (S (S (S (S d)))) "VariantDesc::new" [VArr (map ain_v attrs); sg] (CVal (desc_v (desc_of attrs sg))).
Proof.
  pose proof (calls_ext _ _ _ _ _ _ parse_in_all (translated_parsed_attributes d attrs)) as Hp.
  unfold desc_of. fold (parse attrs) in Hp. revert Hp. generalize (parse attrs). intros s Hp.
  destruct s as [c e ms m ov' va ma f dt pl dg]. cbn [s_msg s_vattrs].
  destruct m as [[[ty rs] v]|];
    (eapply calls_intro with (c := CVal _); try reflexivity;
     simpl fn_body; cbn [app combine fn_params];
     eapply ev_block; [|reflexivity];
     (eapply ev_stmts_let; [eapply ev_call; [apply (evals_list_compute _ 8); intros ?gg ?fl; reflexivity | exact Hp] | reflexivity |]);
     cbn [app]; apply (evals_stmts_compute _ 14); intros gg fl; reflexivity).
Qed.

(* ---- as_variants: the descriptions of the methods of the item, in order; other items are skipped ---- *)
Inductive item := IMethod (attrs : list ain) (sg other : value) | IOther (v : value).
(* a method whose signature is made of its name, its return type and the rest *)
Definition imethod (attrs : list ain) (ident output sig_other other : value) : item := IMethod attrs (sig_v ident output sig_other) other.
Definition item_v (kind : string) (i : item) : value :=
  match i with
  | IMethod attrs sg other => VCon (kind ++ "::Fn") [VRec "Method" [("attrs", VArr (map ain_v attrs)); ("sig", sg); ("other", other)]]
  | IOther v => VCon (kind ++ "::Other") [v]
  end.
Definition descs_of (items : list item) : list desc :=
  flat_map (fun i => match i with IMethod attrs sg _ => [desc_of attrs sg] | IOther _ => [] end) items.
Definition block_v (kind : string) (items : list item) (other : value) : value :=
  VRec "Item" [("items", VArr (map (item_v kind) items)); ("other", other)].

Lemma flat_map_snoc {A B} (f : A -> list B) l x : flat_map f (l ++ [x]) = flat_map f l ++ f x.
Proof. rewrite flat_map_app. simpl. rewrite app_nil_r. reflexivity. Qed.

Lemma descs_of_snoc l x :
  descs_of (l ++ [x]) = descs_of l ++ match x with IMethod attrs sg _ => [desc_of attrs sg] | IOther _ => [] end.
Proof. unfold descs_of. apply flat_map_snoc. Qed.

Local Ltac as_variants_proof d items other kind :=
  eapply calls_intro with (c := CVal (VArr (map desc_v (descs_of items)))) (en' := [("self", block_v kind items other)]); try reflexivity;
  simpl fn_body; cbn [app combine fn_params];
  match goal with |- context [EFor "fmp_i1" ?lo ?hi ?b] =>
    let enf := fresh "enf" in let Hfor := fresh "Hfor" in let Hinv := fresh "Hinv" in
    destruct (ev_for_inv ALL (S (S (S (S d)))) "fmp_i1" b
                (fun j en' => en' = [("fmp_acc1", VArr (map desc_v (descs_of (firstn j items)))); ("fmp_src1", VArr (map (item_v kind) items));
                                     ("self", block_v kind items other)])
                (length items) 0
                [("fmp_acc1", VArr []); ("fmp_src1", VArr (map (item_v kind) items)); ("self", block_v kind items other)])
      as (enf & Hfor & Hinv);
    [ reflexivity
    | let j := fresh "j" in let en' := fresh "en'" in let Hj := fresh "Hj" in
      intros j en' Hj ->;
      let it := fresh "it" in let Hnth := fresh "Hnth" in let Hm := fresh "Hm" in
      destruct (nth_error items j) as [it|] eqn:Hnth; [|apply nth_error_None in Hnth; lia];
      assert (Hm : nth_error (map (item_v kind) items) j = Some (item_v kind it)) by (rewrite nth_error_map, Hnth; reflexivity);
      rewrite (firstn_snoc _ _ _ Hnth), descs_of_snoc, map_app;
      destruct it as [attrs sg o|v]; cbn [map]; rewrite ?app_nil_r;
      [ (* a method *)
        let Hnew := fresh "Hnew" in
        pose proof (translated_variant_desc_new d attrs sg) as Hnew;
        eexists; eexists; split;
          [ eapply ev_block; [|reflexivity];
            eapply ev_stmts_let; [apply (evals_compute _ 6); intros gg fl; simpl; rewrite Hm; reflexivity | reflexivity |];
            apply ev_stmts_tail;
            eapply ev_iflet_hit;
              [ eapply ev_match; [cmp 4|];
                eapply ev_arm_hit; [reflexivity|];
                apply ev_con; eapply ev_list_cons; [|apply ev_list_nil];
                eapply ev_call; [apply (evals_list_compute _ 8); intros ?gg ?fl; reflexivity | exact Hnew]
              | reflexivity
              | cmp 14 ]
          | reflexivity ]
      | (* another item *)
        eexists; eexists; split;
          [ eapply ev_block; [|reflexivity];
            eapply ev_stmts_let; [apply (evals_compute _ 6); intros gg fl; simpl; rewrite Hm; reflexivity | reflexivity |];
            apply ev_stmts_tail;
            eapply ev_iflet_miss; [cmp 14 | reflexivity | cmp 2]
          | reflexivity ] ]
    | rewrite Hinv in Hfor; cbn [Nat.add] in Hfor; rewrite firstn_all in Hfor;
      eapply ev_block;
        [ apply ev_stmts_tail;
          eapply ev_call_builtin;
            [ eapply ev_list_cons;
                [ eapply ev_block;
                    [ (eapply ev_stmts_let; [cmp 6 | reflexivity |]); (eapply ev_stmts_let; [cmp 4 | reflexivity |]); cbn [app];
                      eapply ev_stmts_expr;
                        [ eapply ev_for; [cmp 2 | apply (evals_compute _ 4); intros ?gg ?fl; simpl; rewrite map_length; reflexivity
                                         | rewrite Nat.sub_0_r; exact Hfor]
                        | apply ev_stmts_tail; cmp 4 ]
                    | reflexivity ]
                | apply ev_list_nil ]
            | reflexivity | reflexivity ]
        | reflexivity ] ]
  end.

Theorem translated_impl_as_variants d (items : list item) other :
  calls ALL (S (S (S (S (S d))))) "ItemImpl::as_variants" [block_v "ImplItem" items other] (CVal (VArr (map desc_v (descs_of items)))).
Proof.
  as_variants_proof d items other "ImplItem".
Qed.

Theorem translated_trait_as_variants d (items : list item) other :
  calls ALL (S (S (S (S (S d))))) "ItemTrait::as_variants" [block_v "TraitItem" items other] (CVal (VArr (map desc_v (descs_of items)))).
Proof.
  as_variants_proof d items other "TraitItem".
Qed.

(* ---- composition: from the items of the impl block / trait to the variants of one kind ---- *)
(* the kind a method is a message of: the kind of its FIRST well-formed `sv::msg(..)` attribute *)
Definition method_kind (attrs : list ain) : option string := option_map (fun m => fst (fst m)) (hd_error (flat_map msg_of attrs)).

Lemma of_kind_desc ty attrs sg : of_kind ty (desc_of attrs sg) = match method_kind attrs with Some k => k =? ty | None => false end.
Proof.
  unfold of_kind, desc_of, method_kind, parse. cbn [d_msg]. rewrite parsed_msg_is_the_first.
  destruct (hd_error (flat_map msg_of attrs)) as [[[k rs] v]|]; reflexivity.
Qed.

(* well-formed items: every method's signature has the shape name / return type / rest, and every attribute names its response
   type (when it is a `sv::msg`) as an Option *)
Definition wf_item (i : item) : Prop :=
  match i with
  | IMethod attrs sg _ => (exists ident output so, sg = sig_v ident output so) /\ Forall (fun a => is_option (a_resp a)) attrs
  | IOther _ => True
  end.

Lemma wf_desc_of attrs sg : (exists ident output so, sg = sig_v ident output so) -> Forall (fun a => is_option (a_resp a)) attrs ->
  wf_desc (desc_of attrs sg).
Proof.
  intros Hs Ha. split; [exact Hs|]. unfold desc_of, parse. cbn [d_msg]. rewrite parsed_msg_is_the_first.
  destruct (hd_error (flat_map msg_of attrs)) as [[[k rs] v]|] eqn:Hh; [|exact I].
  assert (Hin : In (k, rs, v) (flat_map msg_of attrs)).
  { destruct (flat_map msg_of attrs) as [|y l]; [discriminate|]. injection Hh as ->. left. reflexivity. }
  apply in_flat_map in Hin. destruct Hin as (a & Hia & Hm). rewrite Forall_forall in Ha. specialize (Ha a Hia).
  unfold msg_of in Hm. destruct (classify (a_path a)) as [[]|]; cbn in Hm; try contradiction.
  destruct (a_content a) as [e0|[] v0]; cbn in Hm; try contradiction.
  destruct Hm as [Hm|[]]. injection Hm as _ <- _. exact Ha.
Qed.

Lemma wf_descs_of items : Forall wf_item items -> Forall wf_desc (descs_of items).
Proof.
  intros H. induction H as [|i items Hi _ IH]; [constructor|].
  change (descs_of (i :: items)) with ((match i with IMethod attrs sg _ => [desc_of attrs sg] | IOther _ => [] end) ++ descs_of items).
  apply Forall_app. split; [|exact IH]. destruct i as [attrs sg o|v]; [|constructor].
  constructor; [|constructor]. destruct Hi as [Hs Ha]. apply wf_desc_of; assumption.
Qed.

Theorem translated_variants_of_an_item d (items : list item) other ty gens wc kind :
  kind = "ImplItem" \/ kind = "TraitItem" -> Forall wf_item items ->
  let ds := descs_of items in
  let sel := filter (of_kind ty) ds in
  let used := flat_map traversed sel in
  calls ALL (S (S (S (S (S d))))) (if kind =? "ImplItem" then "ItemImpl::as_variants" else "ItemTrait::as_variants")
        [block_v kind items other] (CVal (VArr (map desc_v ds))) /\
  calls ALL (S (S (S (S d)))) "MsgVariants::new" [VArr (map desc_v ds); kind_v ty; VArr gens; wc_v wc]
    (CVal (VRec "MsgVariants"
       [("variants", VArr (map variant_of sel)); ("used_generics", VArr used);
        ("unused_generics", VArr (filter (fun g => negb (mem g used)) gens));
        ("where_predicates", VArr (kept_preds used wc)); ("msg_ty", kind_v ty)])).
Proof.
  intros Hk Hwf ds sel used. split.
  - destruct Hk as [-> | ->]; cbn; [apply translated_impl_as_variants | apply translated_trait_as_variants].
  - apply (calls_ext _ _ _ _ _ _ gen_in_all). apply translated_msg_variants_new. apply wf_descs_of. exact Hwf.
Qed.

(* the selected descriptions, read off the items: one per method whose first well-formed `sv::msg` names the kind *)
Definition is_message_of (ty : string) (attrs : list ain) : bool := match method_kind attrs with Some k => k =? ty | None => false end.

Lemma selected_of_items ty (items : list item) :
  filter (of_kind ty) (descs_of items) =
  flat_map (fun i => match i with IMethod attrs sg _ => if is_message_of ty attrs then [desc_of attrs sg] else [] | IOther _ => [] end) items.
Proof.
  induction items as [|i items IH]; [reflexivity|].
  change (descs_of (i :: items)) with ((match i with IMethod attrs sg _ => [desc_of attrs sg] | IOther _ => [] end) ++ descs_of items).
  rewrite filter_app, IH. cbn [flat_map]. f_equal.
  destruct i as [attrs sg o|v]; [|reflexivity]. cbn [filter]. rewrite of_kind_desc. unfold is_message_of.
  destruct (match method_kind attrs with Some k => k =? ty | None => false end); reflexivity.
Qed.
