(* `assert_new_method_defined` (sylvia-derive/src/parser/mod.rs, translated on every run: GenImpCheck.check_fns): the contract
   macro requires a method `new` without parameters in the impl block. The function returns nothing; the translation returns
   its diagnostics (message texts of the source), in order. *)
From Coq Require Import String List Bool Arith Lia.
Require Import SV.Model.GenTables SV.Model.Imp SV.Model.GenImpCheck SV.Facts.ImpFacts SV.Facts.MacroRefine.
Import ListNotations.
Open Scope string_scope.
Open Scope list_scope.

(* an item of the impl block: a method (name, parameters, everything else) or something else *)
Inductive impl_item := Method (name : string) (inputs : list value) (other : value) | Other (v : value).
Definition impl_item_v (i : impl_item) : value :=
  match i with
  | Method name inputs other =>
      VCon "ImplItem::Fn" [VRec "ImplItemFn" [("sig", VRec "Signature" [("ident", VStr name); ("inputs", VArr inputs)]); ("other", other)]]
  | Other v => VCon "ImplItem::Other" [v]
  end.
Definition is_new (i : impl_item) : bool := match i with Method name _ _ => name =? "new" | Other _ => false end.
Definition method_v (i : impl_item) : value := match impl_item_v i with VCon _ [m] => m | v => v end.
Definition found_new (r : option impl_item) : value := match r with Some i => some (method_v i) | None => none end.

Definition impl_v (l : list impl_item) (other : value) : value := VRec "ItemImpl" [("items", VArr (map impl_item_v l)); ("other", other)].

(* the verdict: about the FIRST method called `new` *)
Definition new_method_diags (l : list impl_item) : list value :=
  match find is_new l with
  | Some (Method _ (_ :: _) _) => [VStr "Parameters not allowed in `new` method."]
  | Some _ => []
  | None => [VStr "Missing `new` method in `impl` block."]
  end.

Local Arguments String.eqb _ _ : simpl nomatch.
Local Ltac cmp K := apply (evals_compute _ K); intros ?gg ?fl; reflexivity.

Theorem translated_assert_new_method_defined d (l : list impl_item) other :
  calls check_fns (S d) "assert_new_method_defined" [impl_v l other] (CVal (VArr (new_method_diags l))).
Proof.
  eapply calls_intro with (c := CVal (VArr (new_method_diags l))) (en' := [("item", impl_v l other)]); try reflexivity.
  simpl fn_body. cbn [app combine fn_params].
  match goal with |- context [EFor ?i ?lo ?hi ?b] =>
    destruct (ev_for_inv check_fns d i b
                (fun j en' => en' = [("fm_res1", found_new (find is_new (firstn j l))); ("fm_src1", VArr (map impl_item_v l));
                                     ("ERROR_NOTE", VStr "`sylvia::contract` requires parameterless `new` method to be defined for dispatch to work correctly.");
                                     ("__diags", VArr []); ("item", impl_v l other)])
                (length l) 0
                [("fm_res1", none); ("fm_src1", VArr (map impl_item_v l));
                 ("ERROR_NOTE", VStr "`sylvia::contract` requires parameterless `new` method to be defined for dispatch to work correctly.");
                 ("__diags", VArr []); ("item", impl_v l other)])
      as (enf & Hfor & Hinv) end.
  - reflexivity.
  - intros j en' Hj ->.
    destruct (nth_error l j) as [it|] eqn:Hnth; [|apply nth_error_None in Hnth; lia].
    assert (Hm : nth_error (map impl_item_v l) j = Some (impl_item_v it)) by (rewrite nth_error_map, Hnth; reflexivity).
    rewrite (find_firstn_S _ _ _ _ Hnth).
    destruct (find is_new (firstn j l)) as [o|] eqn:Hf.
    + eexists. eexists. split.
      * eapply ev_block; [|reflexivity]. apply ev_stmts_tail.
        eapply ev_iflet_miss; [cmp 4 | destruct o; reflexivity | cmp 2].
      * reflexivity.
    + destruct it as [name inputs o|v]; cbn [is_new].
      * destruct (name =? "new") eqn:En;
          (eexists; eexists; split;
            [ eapply ev_block; [|reflexivity]; apply ev_stmts_tail;
              eapply ev_iflet_hit; [cmp 4 | reflexivity |];
              eapply ev_block; [|reflexivity];
              eapply ev_stmts_let; [apply (evals_compute _ 6); intros gg fl; simpl; rewrite Hm; reflexivity | reflexivity |];
              apply ev_stmts_tail; apply (evals_compute _ 30); intros gg fl; simpl; rewrite En; reflexivity
            | reflexivity ]).
      * eexists. eexists. split.
        -- eapply ev_block; [|reflexivity]. apply ev_stmts_tail.
           eapply ev_iflet_hit; [cmp 4 | reflexivity |].
           eapply ev_block; [|reflexivity].
           eapply ev_stmts_let; [apply (evals_compute _ 6); intros gg fl; simpl; rewrite Hm; reflexivity | reflexivity |].
           apply ev_stmts_tail. cmp 30.
        -- reflexivity.
  - rewrite Hinv in Hfor. cbn [Nat.add] in Hfor. rewrite firstn_all in Hfor.
    assert (Hlen : forall gg fl, eval (call check_fns d fl) (4 + gg) (ECall "len" [EVar "fm_src1"])
                     [("fm_res1", none); ("fm_src1", VArr (map impl_item_v l));
                      ("ERROR_NOTE", VStr "`sylvia::contract` requires parameterless `new` method to be defined for dispatch to work correctly.");
                      ("__diags", VArr []); ("item", impl_v l other)] =
                   Some (CVal (VNat (length l)),
                     [("fm_res1", none); ("fm_src1", VArr (map impl_item_v l));
                      ("ERROR_NOTE", VStr "`sylvia::contract` requires parameterless `new` method to be defined for dispatch to work correctly.");
                      ("__diags", VArr []); ("item", impl_v l other)]))
      by (intros gg fl; simpl; rewrite map_length; reflexivity).
    Local Ltac front Hfor Hlen k :=
      eapply ev_block;
      [ (eapply ev_stmts_let; [cmp 4 | reflexivity |]); cbn [app];
        eapply ev_stmts_expr;
          [ eapply ev_block; [|reflexivity];
            (eapply ev_stmts_let; [cmp 4 | reflexivity |]); cbn [app];
            eapply ev_stmts_let;
              [ eapply ev_block; [|reflexivity];
                (eapply ev_stmts_let; [cmp 6 | reflexivity |]); (eapply ev_stmts_let; [cmp 4 | reflexivity |]); cbn [app];
                eapply ev_stmts_expr;
                  [ eapply ev_for; [cmp 2 | apply (evals_compute _ 4); exact Hlen | rewrite Nat.sub_0_r; exact Hfor]
                  | apply ev_stmts_tail; cmp 4 ]
              | reflexivity | ];
            cbn [app]; apply ev_stmts_tail; k
          | apply ev_stmts_tail; cmp 4 ]
      | reflexivity ].
    unfold new_method_diags. revert Hfor. destruct (find is_new l) as [it|] eqn:Hr; intros Hfor.
    + apply find_some in Hr. destruct Hr as [_ Hr]. destruct it as [name [|x inputs] o|v]; [| |discriminate];
        front Hfor Hlen ltac:(cmp 30).
    + front Hfor Hlen ltac:(cmp 30).
Qed.

(* ------------------------------------------------------------------------------------------ *)
(* `ReplyOn` (parser/attributes/msg.rs, translated): the three outcomes a reply handler can be declared for, and when two
   handlers of one reply name cannot coexist. *)
Inductive outcome := OSuccess | OError | OAlways.
Definition outcome_v (o : outcome) : value :=
  VCon (match o with OSuccess => "ReplyOn::Success" | OError => "ReplyOn::Error" | OAlways => "ReplyOn::Always" end) [].
Definition outcome_eqb (a b : outcome) : bool :=
  match a, b with OSuccess, OSuccess | OError, OError | OAlways, OAlways => true | _, _ => false end.
Definition is_always (a : outcome) : bool := match a with OAlways => true | _ => false end.

(* two declarations exclude each other exactly when they name the same outcome or one of them is `always` *)
Theorem translated_reply_on_excludes d (a b : outcome) :
  calls check_fns (S d) "ReplyOn::excludes" [outcome_v a; outcome_v b]
    (CVal (VBool (outcome_eqb a b || is_always a || is_always b))).
Proof. destruct a, b; (apply (calls_of_run _ _ 20); [reflexivity | vm_compute; reflexivity]). Qed.

Lemma excludes_is_symmetric (a b : outcome) :
  outcome_eqb a b || is_always a || is_always b = outcome_eqb b a || is_always b || is_always a.
Proof. destruct a, b; reflexivity. Qed.

(* the outcome names: exactly `success`, `error`, `always` *)
Definition outcome_of_name (s : string) : option outcome :=
  if "success" =? s then Some OSuccess else if "error" =? s then Some OError else if "always" =? s then Some OAlways else None.

Theorem translated_reply_on_new d (s : string) :
  exists e, calls check_fns (S d) "ReplyOn::new" [VStr s]
    (CVal (match outcome_of_name s with Some o => VCon "Ok" [outcome_v o] | None => VCon "Err" [e] end)).
Proof.
  unfold outcome_of_name. eexists.
  destruct ("success" =? s) eqn:E1; [apply String.eqb_eq in E1; subst s; apply (calls_of_run _ _ 20); [reflexivity | vm_compute; reflexivity]|].
  destruct ("error" =? s) eqn:E2; [apply String.eqb_eq in E2; subst s; apply (calls_of_run _ _ 20); [reflexivity | vm_compute; reflexivity]|].
  destruct ("always" =? s) eqn:E3; [apply String.eqb_eq in E3; subst s; apply (calls_of_run _ _ 20); [reflexivity | vm_compute; reflexivity]|].
  eapply calls_intro with (c := CVal _); try reflexivity.
  simpl fn_body. cbn [app combine fn_params].
  eapply ev_block; [|reflexivity]. apply ev_stmts_tail.
  eapply ev_match; [cmp 8|].
  do 3 (eapply ev_arm_miss; [cbn [pmatch value_eqb]; rewrite ?E1, ?E2, ?E3; reflexivity|]).
  eapply ev_arm_hit; [reflexivity|]. cmp 14.
Qed.

(* two translators, one table: the regenerated table of outcome names (GenTables.reply_on_tag_of_string, rendered by translate.py
   from the arms of `ReplyOn::new`) is the function proved of the translated `ReplyOn::new` *)
Definition outcome_tag (o : outcome) : string := match o with OSuccess => "Success" | OError => "Error" | OAlways => "Always" end.
Theorem regenerated_outcome_table_is_the_translated_function s :
  SV.Model.GenTables.reply_on_tag_of_string s = option_map outcome_tag (outcome_of_name s).
Proof.
  unfold SV.Model.GenTables.reply_on_tag_of_string, outcome_of_name.
  rewrite (String.eqb_sym s "success"). destruct ("success" =? s); [reflexivity|].
  rewrite (String.eqb_sym s "error"). destruct ("error" =? s); [reflexivity|].
  rewrite (String.eqb_sym s "always"). destruct ("always" =? s); reflexivity.
Qed.
