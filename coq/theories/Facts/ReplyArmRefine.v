(* The GENERATED dispatch of one reply id, in the four shapes the macro produces - templates emit_match_arms,
   emit_success_match_arm (t1 handler, t2 always, t3 pass-through) and emit_error_match_arm (t0 handler, t1 always, t2
   pass-through) of sylvia-derive/src/contract/communication/reply.rs, translated on every run (GenImp.reply_arm_fns). The
   handlers are stubs recording everything they are called with; from_json (the typed payload) answers in both ways. *)
From Coq Require Import String List Bool Arith Lia.
Require Import SV.Model.Imp SV.Model.GenImp SV.Facts.ImpFacts.
Import ListNotations.
Open Scope string_scope.
Open Scope list_scope.

Definition handler_stub (name : string) : fn_def :=
  {| fn_name := "extern::" ++ name; fn_params := ["contract"; "ctx"; "first"; "payload_values"]; fn_consts := [];
     fn_body := ECon "Ok" [ECon name [EVar "contract"; EVar "ctx"; EVar "first"; EVar "payload_values"]] |}.
Definition payload_stub (ok : bool) : fn_def :=
  {| fn_name := "extern::from_json"; fn_params := ["bytes"]; fn_consts := [];
     fn_body := if ok then ECon "Ok" [ECon "decoded_payload" [EVar "bytes"]] else ECon "Err" [ECon "payload_error" [EVar "bytes"]] |}.

Definition RA (payload_ok : bool) : program :=
  reply_arm_fns ++ [handler_stub "success_handler"; handler_stub "error_handler"; handler_stub "always_handler"; payload_stub payload_ok].

Definition sub_ok (events data msg_responses : value) : value :=
  VCon "SubMsgResult::Ok" [VRec "SubMsgResponse" [("events", events); ("data", data); ("msg_responses", msg_responses)]].
Definition sub_err (e : value) : value := VCon "SubMsgResult::Err" [e].
Definition ctx_of (deps env gas events msg_responses : value) : value :=
  VCon "Into::into" [VCon "()" [deps; env; gas; events; msg_responses]].
Definition called (name : string) (ctx first args : value) : value :=
  VCon "Ok" [VCon name [VCon "ContractT::new" []; ctx; first; args]].
Definition payload_of (b : value) : value := VCon "decoded_payload" [b].
Definition payload_failure (b : value) : value := VCon "Err" [VCon "From::from" [VCon "payload_error" [b]]].
Definition response_of (events data : value) : value :=
  VRec "Response" [("messages", VArr []); ("attributes", VArr []); ("events", events); ("data", data)].

Local Ltac run := apply (calls_of_run _ 2 200); [reflexivity | vm_compute; reflexivity].

(* success and error handler both declared *)
Theorem arms_handler_handler deps env gas payload events data mr e :
  calls (RA true) 2 "ArmsT::handler_handler" [deps; env; gas; payload; sub_ok events data mr]
    (CVal (called "success_handler" (ctx_of deps env gas events mr) data (payload_of payload))) /\
  calls (RA true) 2 "ArmsT::handler_handler" [deps; env; gas; payload; sub_err e]
    (CVal (called "error_handler" (ctx_of deps env gas (VArr []) (VArr [])) e (payload_of payload))) /\
  calls (RA false) 2 "ArmsT::handler_handler" [deps; env; gas; payload; sub_ok events data mr] (CVal (payload_failure payload)) /\
  calls (RA false) 2 "ArmsT::handler_handler" [deps; env; gas; payload; sub_err e] (CVal (payload_failure payload)).
Proof. repeat split; run. Qed.

(* only a success handler: a failure is passed on as the error it carries *)
Theorem arms_handler_pass ok deps env gas payload e :
  calls (RA ok) 2 "ArmsT::handler_pass" [deps; env; gas; payload; sub_err e]
    (CVal (VCon "Err" [VCon "Into::into" [VCon "StdError::GenericErr" [e]]])).
Proof. destruct ok; run. Qed.

(* only an error handler: a success is answered with the sub-message's events and its data, nothing else, no handler *)
Theorem arms_pass_handler ok deps env gas payload (evs : list value) d mr :
  calls (RA ok) 2 "ArmsT::pass_handler" [deps; env; gas; payload; sub_ok (VArr evs) (VCon "Some" [d]) mr]
    (CVal (VCon "Ok" [response_of (VArr evs) (VCon "Some" [d])])) /\
  calls (RA ok) 2 "ArmsT::pass_handler" [deps; env; gas; payload; sub_ok (VArr evs) (VCon "None" []) mr]
    (CVal (VCon "Ok" [response_of (VArr evs) (VCon "None" [])])).
Proof. destruct ok; split; run. Qed.

(* one handler for both outcomes: it gets the whole result and an empty event context *)
Theorem arms_always deps env gas payload events data mr e :
  calls (RA true) 2 "ArmsT::always_always" [deps; env; gas; payload; sub_ok events data mr]
    (CVal (called "always_handler" (ctx_of deps env gas (VArr []) (VArr [])) (sub_ok events data mr) (payload_of payload))) /\
  calls (RA true) 2 "ArmsT::always_always" [deps; env; gas; payload; sub_err e]
    (CVal (called "always_handler" (ctx_of deps env gas (VArr []) (VArr [])) (sub_err e) (payload_of payload))).
Proof. split; run. Qed.
