(* Two translators, one table: the regenerated table of attribute names (GenTables.sv_attr_of_string, rendered by translate.py from
   the arms of `SylviaAttribute::match_attribute`) is the function PROVED of the translated `match_attribute`
   (ParseRefine.name_kind, imp_translate.py). *)
From Coq Require Import String List Bool.
Require Import SV.Model.GenTables SV.Model.Imp SV.Facts.MacroRefine SV.Facts.ParseRefine.
Import ListNotations.
Open Scope string_scope.

(* ---- the two name tables ---- *)
Theorem regenerated_table_is_the_translated_function s : sv_attr_of_string s = option_map svkind_name (name_kind s).
Proof.
  unfold sv_attr_of_string, name_kind.
  rewrite (String.eqb_sym s "custom"). destruct ("custom" =? s); [reflexivity|].
  rewrite (String.eqb_sym s "error"). destruct ("error" =? s); [reflexivity|].
  rewrite (String.eqb_sym s "messages"). destruct ("messages" =? s); [reflexivity|].
  rewrite (String.eqb_sym s "msg"). destruct ("msg" =? s); [reflexivity|].
  rewrite (String.eqb_sym s "override_entry_point"). destruct ("override_entry_point" =? s); [reflexivity|].
  rewrite (String.eqb_sym s "attr"). destruct ("attr" =? s); [reflexivity|].
  rewrite (String.eqb_sym s "msg_attr"). destruct ("msg_attr" =? s); [reflexivity|].
  rewrite (String.eqb_sym s "payload"). destruct ("payload" =? s); [reflexivity|].
  rewrite (String.eqb_sym s "data"). destruct ("data" =? s); [reflexivity|].
  rewrite (String.eqb_sym s "features"). destruct ("features" =? s); reflexivity.
Qed.

