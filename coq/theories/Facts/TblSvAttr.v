(* Which `sv::<name>` attributes the framework recognises (and therefore strips). *)
From Coq Require Import String List Bool.
Require Import SV.Model.Kinds SV.Model.GenTables.
Import ListNotations.
Open Scope string_scope.

Definition documented_sv_attrs : list string :=
  ["custom"; "error"; "messages"; "msg"; "override_entry_point"; "attr"; "msg_attr"; "payload"; "data"; "features"].

Definition is_sv_name (s : string) : bool :=
  match sv_attr_of_string s with Some _ => true | None => false end.

Lemma sv_attr_sound : forallb is_sv_name documented_sv_attrs = true.
Proof. reflexivity. Qed.

Lemma sv_attr_complete s : is_sv_name s = true -> In s documented_sv_attrs.
Proof.
  unfold is_sv_name, sv_attr_of_string.
  repeat match goal with
         | |- context [if (?a =? ?b)%string then _ else _] =>
             destruct (String.eqb_spec a b) as [->|_]; [intros _; simpl; tauto|]
         end.
  discriminate.
Qed.

(* each recognised name has its own tag: no two attribute names are conflated *)
Lemma sv_attr_tags_distinct a b t :
  sv_attr_of_string a = Some t -> sv_attr_of_string b = Some t -> a = b.
Proof.
  intros Ha Hb.
  assert (Ia : In a documented_sv_attrs) by (apply sv_attr_complete; unfold is_sv_name; rewrite Ha; reflexivity).
  assert (Ib : In b documented_sv_attrs) by (apply sv_attr_complete; unfold is_sv_name; rewrite Hb; reflexivity).
  simpl in Ia, Ib.
  repeat match goal with H : _ \/ _ |- _ => destruct H as [<-|H] end; try contradiction;
  vm_compute in Ha, Hb; try reflexivity; congruence.
Qed.
