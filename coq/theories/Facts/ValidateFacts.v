(* Rule-breaking programs are rejected (C18): the diagnostics of the expansion model. *)
From Coq Require Import String List Bool Arith Lia.
Require Import SV.Base.Util SV.Model.Kinds SV.Model.GenTables SV.Model.Casing SV.Model.Syntax SV.Model.Expand.
Require Import SV.Facts.KindsFacts SV.Facts.ExpandFacts.
Import ListNotations.
Open Scope string_scope.
Open Scope list_scope.

Definition rejected_c (c : contract) : Prop := co_diags (expand_contract c) <> [].
Definition rejected_i (i : iface) : Prop := io_diags (expand_iface i) <> [].

Lemma in_not_nil {A} (x : A) l : In x l -> l <> [].
Proof. intros I E. rewrite E in I. destruct I. Qed.

(* ---- constructor rules ---- *)
Theorem missing_new_is_rejected c : c_has_new c = false -> In DNoNew (co_diags (expand_contract c)).
Proof.
  intros H. unfold expand_contract.
  destruct (mk_struct _ (mk_variants (c_methods c) KInst _ _)) as [i di]. destruct (mk_struct _ (mk_variants (c_methods c) KMigrate _ _)) as [g dg].
  simpl. unfold new_diags. rewrite H. left. reflexivity.
Qed.

Theorem new_with_parameters_is_rejected c : c_has_new c = true -> c_new_has_params c = true -> In DNewHasParams (co_diags (expand_contract c)).
Proof.
  intros H P. unfold expand_contract.
  destruct (mk_struct _ (mk_variants (c_methods c) KInst _ _)) as [i di]. destruct (mk_struct _ (mk_variants (c_methods c) KMigrate _ _)) as [g dg].
  simpl. unfold new_diags. rewrite H, P. left. reflexivity.
Qed.

(* ---- instantiate / migrate counts ---- *)
Definition count_kind (k : kind) (ms : list method) : nat := length (filter (is_kind k) ms).

Lemma vs_list_length ms k gens wh : length (vs_list (mk_variants ms k gens wh)) = count_kind k ms.
Proof.
  rewrite vs_list_spec. unfold count_kind. induction ms as [|m r IH]; simpl; [reflexivity|].
  rewrite app_length, IH. destruct (is_kind k m) eqn:K; simpl; [|reflexivity].
  unfold is_kind, method_kind in K. unfold variant_of. destruct (p_msg (parse_attrs (m_attrs m))); [reflexivity | discriminate].
Qed.

Lemma mk_struct_diags it vs :
  snd (mk_struct it vs) =
  match length (vs_list vs) with
  | 0 => if kind_eqb (vs_kind vs) KInst then [DNoInstantiate] else []
  | 1 => []
  | _ => [DManyStructMsgs]
  end.
Proof. unfold mk_struct. destruct (vs_list vs) as [|v [|v2 r]]; reflexivity. Qed.

Lemma co_diags_struct c :
  incl (snd (mk_struct (parse_attrs (c_attrs c)) (mk_variants (c_methods c) KInst (c_generics c) (c_where c)))
        ++ snd (mk_struct (parse_attrs (c_attrs c)) (mk_variants (c_methods c) KMigrate (c_generics c) (c_where c))))
       (co_diags (expand_contract c)).
Proof.
  unfold expand_contract.
  destruct (mk_struct _ (mk_variants (c_methods c) KInst _ _)) as [i di]. destruct (mk_struct _ (mk_variants (c_methods c) KMigrate _ _)) as [g dg].
  simpl. intros x I. rewrite !in_app_iff in *. tauto.
Qed.

Theorem no_instantiate_is_rejected c : count_kind KInst (c_methods c) = 0 -> In DNoInstantiate (co_diags (expand_contract c)).
Proof.
  intros H. apply co_diags_struct. apply in_or_app. left. rewrite mk_struct_diags, vs_list_length, H, vs_kind_spec. left. reflexivity.
Qed.

Theorem several_instantiate_is_rejected c : 2 <= count_kind KInst (c_methods c) -> In DManyStructMsgs (co_diags (expand_contract c)).
Proof.
  intros H. apply co_diags_struct. apply in_or_app. left. rewrite mk_struct_diags, vs_list_length.
  destruct (count_kind KInst (c_methods c)) as [|[|n]]; try lia. left. reflexivity.
Qed.

Theorem several_migrate_is_rejected c : 2 <= count_kind KMigrate (c_methods c) -> In DManyStructMsgs (co_diags (expand_contract c)).
Proof.
  intros H. apply co_diags_struct. apply in_or_app. right. rewrite mk_struct_diags, vs_list_length.
  destruct (count_kind KMigrate (c_methods c)) as [|[|n]]; try lia. left. reflexivity.
Qed.

(* ---- attribute argument errors surface, wherever the method is ---- *)
Lemma scan_diags_incl gens k : forall ms used m, In m ms ->
  incl (p_diags (parse_attrs (m_attrs m))) (snd (scan gens k ms used)).
Proof.
  induction ms as [|x r IH]; intros used m I; [destruct I|]. cbn [scan].
  destruct (p_msg (parse_attrs (m_attrs x))) as [ma|] eqn:P.
  - destruct (kind_eqb (ma_kind ma) k).
    + destruct (mk_variant gens used x ma _) as [[v u1] d]. specialize (IH u1 m).
      destruct (scan gens k r u1) as [[vs u2] ds]. cbn [snd] in *. intros y Iy. rewrite !in_app_iff.
      destruct I as [->|I]; [left; exact Iy | right; right; apply IH; auto].
    + specialize (IH used m). destruct (scan gens k r used) as [[vs u2] ds]. cbn [snd] in *. intros y Iy. rewrite in_app_iff.
      destruct I as [->|I]; [left; exact Iy | right; apply IH; auto].
  - specialize (IH used m). destruct (scan gens k r used) as [[vs u2] ds]. cbn [snd] in *. intros y Iy. rewrite in_app_iff.
    destruct I as [->|I]; [left; exact Iy | right; apply IH; auto].
Qed.

Lemma vs_diags_incl ms k gens wh m : In m ms -> incl (p_diags (parse_attrs (m_attrs m))) (vs_diags (mk_variants ms k gens wh)).
Proof.
  intros I. unfold mk_variants. pose proof (scan_diags_incl gens k ms [] m I) as H.
  destruct (scan gens k ms []) as [[vs u] d]. exact H.
Qed.

Theorem method_attribute_error_rejects_the_contract c m d :
  In m (c_methods c) -> In d (p_diags (parse_attrs (m_attrs m))) -> In d (co_diags (expand_contract c)).
Proof.
  intros I D. pose proof (vs_diags_incl (c_methods c) KInst (c_generics c) (c_where c) m I d D) as H.
  unfold expand_contract.
  destruct (mk_struct _ (mk_variants (c_methods c) KInst _ _)) as [i di]. destruct (mk_struct _ (mk_variants (c_methods c) KMigrate _ _)) as [g dg].
  simpl. rewrite !in_app_iff. tauto.
Qed.

Theorem item_attribute_error_rejects_the_contract c d :
  In d (p_diags (parse_attrs (c_attrs c))) -> In d (co_diags (expand_contract c)).
Proof.
  intros D. unfold expand_contract.
  destruct (mk_struct _ (mk_variants (c_methods c) KInst _ _)) as [i di]. destruct (mk_struct _ (mk_variants (c_methods c) KMigrate _ _)) as [g dg].
  simpl. rewrite !in_app_iff. tauto.
Qed.

(* diagnostics only accumulate while attributes are parsed *)
Lemma add_diag_incl p d : incl (p_diags p) (p_diags (add_diag p d)).
Proof. simpl. apply incl_appl. apply incl_refl. Qed.

Lemma apply_sv_diags_mono tag b p : incl (p_diags p) (p_diags (apply_sv tag b p)).
Proof.
  unfold apply_sv.
  repeat match goal with
         | |- context [if (tag =? ?s)%string then _ else _] => destruct (tag =? s)%string
         end;
  try apply incl_refl;
  destruct b; simpl; try apply incl_refl; try (apply incl_appl; apply incl_refl);
  repeat match goal with
         | |- context [match ?x with _ => _ end] => destruct x; simpl; try apply incl_refl; try (apply incl_appl; apply incl_refl)
         end.
Qed.

Lemma parse_one_diags_mono p a : incl (p_diags p) (p_diags (parse_one p a)).
Proof.
  destruct a as [pa t|n b]; simpl; [apply incl_refl|]. destruct (sv_attr_of_string n); [apply apply_sv_diags_mono | apply incl_refl].
Qed.

Lemma fold_parse_diags_mono l : forall p, incl (p_diags p) (p_diags (fold_left parse_one l p)).
Proof.
  induction l as [|a r IH]; intros p; simpl; [apply incl_refl|].
  eapply incl_tran; [apply parse_one_diags_mono | apply IH].
Qed.

Lemma parse_attrs_diags_from_fold l : incl (p_diags (fold_left parse_one l empty_parsed)) (p_diags (parse_attrs l)).
Proof.
  unfold parse_attrs. set (p := fold_left parse_one l empty_parsed).
  destruct (p_variant_attrs p); [apply incl_refl|]. destruct (p_msg p) as [m|]; [|apply incl_refl].
  destruct (is_struct_kind (ma_kind m)); [apply add_diag_incl | apply incl_refl].
Qed.

(* an attribute that raises a diagnostic when parsed keeps the whole list rejected *)
Theorem bad_attribute_argument_is_reported pre a post d :
  (forall p, In d (p_diags (parse_one p a))) -> In d (p_diags (parse_attrs (pre ++ a :: post))).
Proof.
  intros H. apply parse_attrs_diags_from_fold. rewrite fold_left_app. simpl.
  apply fold_parse_diags_mono. apply H.
Qed.

(* the concrete unknown-argument rules *)
Lemma unknown_msg_kind_diag kn r h ro p : msg_kind_of_string kn = None ->
  In DBadMsgKind (p_diags (parse_one p (ASv "msg" (SvMsg kn r h ro)))) \/ In (DRedefined "msg") (p_diags (parse_one p (ASv "msg" (SvMsg kn r h ro)))).
Proof.
  intros K. unfold parse_one. replace (sv_attr_of_string "msg") with (Some "Msg") by reflexivity.
  unfold apply_sv. simpl. destruct (p_msg p); simpl; [right|left; rewrite K; simpl]; apply in_or_app; right; left; reflexivity.
Qed.

Lemma unknown_msg_attr_kind_diag kn t p : msg_attr_kind_of_string kn = None ->
  In DBadMsgAttrKind (p_diags (parse_one p (ASv "msg_attr" (SvMsgAttr kn t)))).
Proof.
  intros K. unfold parse_one. replace (sv_attr_of_string "msg_attr") with (Some "MsgAttrs") by reflexivity.
  unfold apply_sv. simpl. rewrite K. simpl. apply in_or_app. right. left. reflexivity.
Qed.

Lemma unknown_override_kind_diag kn e m p : override_kind_of_string kn = None ->
  In DBadOverrideKind (p_diags (parse_one p (ASv "override_entry_point" (SvOverride kn e m)))).
Proof.
  intros K. unfold parse_one. replace (sv_attr_of_string "override_entry_point") with (Some "OverrideEntryPoint") by reflexivity.
  unfold apply_sv. simpl. rewrite K. simpl. apply in_or_app. right. left. reflexivity.
Qed.

Lemma unknown_feature_diag names p :
  forallb (fun n => match feature_of_string n with Some _ => true | None => false end) names = false ->
  In DBadFeature (p_diags (parse_one p (ASv "features" (SvFeatures names)))).
Proof.
  intros K. unfold parse_one. replace (sv_attr_of_string "features") with (Some "Features") by reflexivity.
  unfold apply_sv. simpl. rewrite K. simpl. apply in_or_app. right. left. reflexivity.
Qed.

(* ---- interfaces ---- *)
Theorem interface_generics_are_rejected i : i_generics i <> [] -> In DIfaceGenerics (io_diags (expand_iface i)).
Proof. intros H. unfold expand_iface. simpl. destruct (i_generics i); [contradiction|]. left. reflexivity. Qed.

Theorem interface_without_error_type_is_rejected i :
  mem "Error" (map fst (i_assoc i)) = false -> In DIfaceNoError (io_diags (expand_iface i)).
Proof. intros H. unfold expand_iface. simpl. rewrite H. apply in_or_app. right. left. reflexivity. Qed.

Theorem instantiate_in_interface_is_rejected i : 1 <= count_kind KInst (i_methods i) -> In DIfaceInstantiate (io_diags (expand_iface i)).
Proof.
  intros H. unfold expand_iface. simpl.
  pose proof (vs_list_length (i_methods i) KInst [] []) as L.
  destruct (vs_list (mk_variants (i_methods i) KInst [] [])) as [|v r] eqn:E; [simpl in L; lia|].
  rewrite !in_app_iff. right. right. right. right. right. right. right. left. left. reflexivity.
Qed.

Theorem migrate_in_interface_is_rejected i : 1 <= count_kind KMigrate (i_methods i) -> In DIfaceMigrate (io_diags (expand_iface i)).
Proof.
  intros H. unfold expand_iface. simpl.
  pose proof (vs_list_length (i_methods i) KMigrate [] []) as L.
  destruct (vs_list (mk_variants (i_methods i) KMigrate [] [])) as [|v r] eqn:E; [simpl in L; lia|].
  rewrite !in_app_iff. right. right. right. right. right. right. right. right. left. reflexivity.
Qed.
