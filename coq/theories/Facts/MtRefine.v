(* sylvia/src/multitest.rs - the proxies that send execute / migrate messages to the chain and `downcast_error` -
   TRANSLATED from the Rust source (GenImp.mt_program, regenerated on every run).

   The chain (cw-multi-test) is not part of sylvia: its operations `execute_contract` / `migrate_contract` are the
   functions `extern::..` that the translated code calls and that are NOT in the translated program. The theorems are
   stated for the translated program extended by a chain that ANSWERS WITH A RECORD OF THE REQUEST IT RECEIVED (operation
   name, every argument in order) next to an arbitrary payload, as a success or as a failure of an arbitrary error type:
   what the proxy returns then shows, for all values, which single request it made and what it did with the answer. *)
From Coq Require Import String List Bool Arith Lia.
Require Import SV.Model.Imp SV.Model.GenImp SV.Facts.ImpFacts.
Import ListNotations.
Open Scope string_scope.
Open Scope list_scope.

Definition did (name : string) (request : list value) (payload : value) : value :=
  VCon "chain::did" [VStr name; VArr request; payload].

(* an anyhow error: the name of the type it wraps, the wrapped error, its Display text *)
Definition anyhow (ty : string) (inner : value) (txt : string) : value := VCon "anyhow::Error" [VStr ty; inner; VStr txt].

Definition chain_op (name : string) (params : list string) (ok : bool) (ty txt : string) (payload : value) : fn_def :=
  let d := ECon "chain::did" [EConst (VStr name); EArr (map EVar params); EConst payload] in
  {| fn_name := name; fn_params := params; fn_consts := [];
     fn_body := if ok then ECon "Ok" [d] else ECon "Err" [ECon "anyhow::Error" [EConst (VStr ty); d; EConst (VStr txt)]] |}.

Definition exec_params := ["app"; "sender"; "contract_addr"; "msg"; "send_funds"].
Definition migrate_params := ["app"; "sender"; "contract_addr"; "msg"; "new_code_id"].

Definition with_chain (ok : bool) (ty txt : string) (payload : value) : program :=
  mt_program ++ [chain_op "extern::execute_contract" exec_params ok ty txt payload;
                 chain_op "extern::migrate_contract" migrate_params ok ty txt payload].

(* what `downcast_error::<Error>` makes of an anyhow error: the contract's own error as it is; a StdError converted
   into the contract's error type; anything else becomes a generic StdError carrying the text, converted likewise *)
Definition downcast_spec (ty : string) (inner : value) (txt : string) : value :=
  if ty =? "Error" then inner
  else if ty =? "StdError" then VCon "Into::into" [inner]
  else VCon "Into::into" [VCon "StdError::GenericErr" [VStr txt]].

Definition app_val (inner : value) : value := VRec "App" [("app", inner)].
Definition exec_proxy (addr msg app funds : value) : value :=
  VRec "ExecProxy" [("funds", funds); ("contract_addr", addr); ("msg", msg); ("app", app); ("phantom", VCon "PhantomData" [])].
Definition migrate_proxy (addr msg app : value) : value :=
  VRec "MigrateProxy" [("contract_addr", addr); ("msg", msg); ("app", app); ("phantom", VCon "PhantomData" [])].

Section Chain.
Variables (ok : bool) (ty txt : string) (payload : value).
Notation P := (with_chain ok ty txt payload).

Local Tactic Notation "by_compute" constr(res) constr(K) :=
  eapply (calls_intro P) with (c := res); try reflexivity; apply (evals_compute P K); intros g fl; reflexivity.

Lemma calls_app_new d inner : calls P (S d) "App::new" [inner] (CVal (app_val inner)).
Proof. by_compute (CVal (app_val inner)) 10. Qed.

Lemma calls_app_mut d inner : calls P (S d) "App::app_mut" [app_val inner] (CVal inner).
Proof. by_compute (CVal inner) 10. Qed.

Lemma calls_exec_new d addr msg app :
  calls P (S d) "ExecProxy::new" [addr; msg; app] (CVal (exec_proxy addr msg app (VArr []))).
Proof. by_compute (CVal (exec_proxy addr msg app (VArr []))) 12. Qed.

Lemma calls_exec_with_funds d addr msg app f f' :
  calls P (S d) "ExecProxy::with_funds" [exec_proxy addr msg app f; f'] (CVal (exec_proxy addr msg app f')).
Proof. by_compute (CVal (exec_proxy addr msg app f')) 12. Qed.

Lemma calls_migrate_new d addr msg app :
  calls P (S d) "MigrateProxy::new" [addr; msg; app] (CVal (migrate_proxy addr msg app)).
Proof. by_compute (CVal (migrate_proxy addr msg app)) 12. Qed.

Lemma calls_downcast d inner : forall t x,
  calls P (S d) "downcast_error" [anyhow t inner x] (CVal (downcast_spec t inner x)).
Proof.
  intros t x. eapply (calls_intro P) with (c := CVal (downcast_spec t inner x)); try reflexivity.
  apply (evals_compute P 14). intros g fl. unfold downcast_spec. simpl.
  destruct (t =? "Error") eqn:E1; simpl.
  - reflexivity.
  - destruct (t =? "StdError") eqn:E2; simpl; reflexivity.
Qed.

End Chain.

(* the chain's answer to a request *)
Definition answer (ok : bool) (ty txt : string) (payload : value) (name : string) (request : list value) : value :=
  if ok then VCon "Ok" [did name request payload] else VCon "Err" [anyhow ty (did name request payload) txt].
(* ... and what a proxy makes of it *)
Definition proxied (ok : bool) (ty txt : string) (payload : value) (name : string) (request : list value) : value :=
  if ok then VCon "Ok" [did name request payload] else VCon "Err" [downcast_spec ty (did name request payload) txt].

Notation PP ok ty txt payload := (with_chain ok ty txt payload).

Lemma calls_chain_exec ok ty txt payload d a b c e f :
  calls (PP ok ty txt payload) (S d) "extern::execute_contract" [a; b; c; e; f]
    (CVal (answer ok ty txt payload "extern::execute_contract" [a; b; c; e; f])).
Proof.
  unfold answer. destruct ok.
  - eapply calls_intro with (c := CVal (VCon "Ok" [did "extern::execute_contract" [a; b; c; e; f] payload])); try reflexivity.
    apply (evals_compute _ 30). intros g fl. reflexivity.
  - eapply calls_intro with (c := CVal (VCon "Err" [anyhow ty (did "extern::execute_contract" [a; b; c; e; f] payload) txt])); try reflexivity.
    apply (evals_compute _ 30). intros g fl. reflexivity.
Qed.

Lemma calls_chain_migrate ok ty txt payload d a b c e f :
  calls (PP ok ty txt payload) (S d) "extern::migrate_contract" [a; b; c; e; f]
    (CVal (answer ok ty txt payload "extern::migrate_contract" [a; b; c; e; f])).
Proof.
  unfold answer. destruct ok.
  - eapply calls_intro with (c := CVal (VCon "Ok" [did "extern::migrate_contract" [a; b; c; e; f] payload])); try reflexivity.
    apply (evals_compute _ 30). intros g fl. reflexivity.
  - eapply calls_intro with (c := CVal (VCon "Err" [anyhow ty (did "extern::migrate_contract" [a; b; c; e; f] payload) txt])); try reflexivity.
    apply (evals_compute _ 30). intros g fl. reflexivity.
Qed.

(* an arm that binds one name and leaves the environment as it was *)
Lemma ev_arm_hit1 P0 d v p body r en xv c :
  pmatch p v = Some [xv] -> evals P0 d body ([xv] ++ en) (c, [xv] ++ en) ->
  evals_arms P0 d v ((p, body) :: r) en (c, en).
Proof.
  intros Hp He. pose proof (ev_arm_hit P0 d v p body r en [xv] c ([xv] ++ en) Hp He) as H.
  replace (leave en ([xv] ++ en)) with en in H; [exact H|].
  unfold leave. cbn [app length]. replace (S (length en) - length en) with 1 by lia. reflexivity.
Qed.

(* `x.map_err(downcast_error)` on the chain's answer *)
Lemma map_err_arms ok ty txt payload d name request en :
  evals_arms (PP ok ty txt payload) (S d) (answer ok ty txt payload name request)
    [(PCon "Ok" [PVar "map_err_v"], ECon "Ok" [EVar "map_err_v"]);
     (PCon "Err" [PVar "map_err_e"], ECon "Err" [ECall "downcast_error" [EVar "map_err_e"]])] en
    (CVal (proxied ok ty txt payload name request), en).
Proof.
  unfold answer, proxied. destruct ok.
  - eapply ev_arm_hit1; [reflexivity|].
    apply (evals_compute _ 6). intros g fl. reflexivity.
  - eapply ev_arm_miss; [reflexivity|].
    eapply ev_arm_hit1; [reflexivity|].
    apply ev_con. eapply ev_list_cons; [|apply ev_list_nil].
    eapply ev_call; [apply (evals_list_compute _ 4); intros g fl; reflexivity|].
    apply calls_downcast.
Qed.

Section Proxies.
Variables (ok : bool) (ty txt : string) (payload : value).
Notation P := (with_chain ok ty txt payload).
Notation proxied' := (proxied ok ty txt payload).

Lemma calls_exec_call d addr msg inner funds sender :
  calls P (S (S d)) "ExecProxy::call" [exec_proxy addr msg (app_val inner) funds; sender]
    (CVal (proxied' "extern::execute_contract" [inner; sender; addr; msg; funds])).
Proof.
  eapply (calls_intro P) with (c := CVal (proxied' "extern::execute_contract" [inner; sender; addr; msg; funds])); try reflexivity.
  simpl fn_body. eapply ev_block; [|reflexivity]. apply ev_stmts_tail.
  eapply ev_match; [|apply map_err_arms].
  eapply ev_call; [|apply calls_chain_exec].
  eapply ev_list_cons.
  - eapply ev_call; [apply (evals_list_compute P 6); intros g fl; reflexivity|]. apply calls_app_mut.
  - apply (evals_list_compute P 8). intros g fl. reflexivity.
Qed.

Lemma calls_migrate_call d addr msg inner sender code :
  calls P (S (S d)) "MigrateProxy::call" [migrate_proxy addr msg (app_val inner); sender; code]
    (CVal (proxied' "extern::migrate_contract" [inner; sender; addr; msg; code])).
Proof.
  eapply (calls_intro P) with (c := CVal (proxied' "extern::migrate_contract" [inner; sender; addr; msg; code])); try reflexivity.
  simpl fn_body. eapply ev_block; [|reflexivity]. apply ev_stmts_tail.
  eapply ev_match; [|apply map_err_arms].
  eapply ev_call; [|apply calls_chain_migrate].
  eapply ev_list_cons.
  - eapply ev_call; [apply (evals_list_compute P 6); intros g fl; reflexivity|]. apply calls_app_mut.
  - apply (evals_list_compute P 8). intros g fl. reflexivity.
Qed.

(* with_funds applied successively, each to the proxy the previous call returned *)
Fixpoint funds_chain (d : nat) (v : value) (fs : list value) (vfinal : value) : Prop :=
  match fs with
  | [] => v = vfinal
  | f :: r => exists v', calls P (S d) "ExecProxy::with_funds" [v; f] (CVal v') /\ funds_chain d v' r vfinal
  end.

Lemma last_nonempty (y : value) r a b : last (y :: r) a = last (y :: r) b.
Proof. revert y. induction r as [|z r IH]; intros y; [reflexivity|]. exact (IH z). Qed.

Lemma last_cons (f : value) r f0 : last (f :: r) f0 = last r f.
Proof. destruct r as [|y r]; [reflexivity|]. exact (last_nonempty y r f0 f). Qed.

Lemma funds_chain_spec d addr msg app : forall fs f0,
  funds_chain d (exec_proxy addr msg app f0) fs (exec_proxy addr msg app (last fs f0)).
Proof.
  induction fs as [|f r IH]; intros f0; [reflexivity|].
  cbn [funds_chain]. exists (exec_proxy addr msg app f). split; [apply calls_exec_with_funds|].
  rewrite last_cons. apply IH.
Qed.

(* The execute proxy, whole path: new -> with_funds* -> call. Exactly one request reaches the chain:
   execute_contract(the app inside the wrapper, the sender, the proxy's contract address, the message given to `new`,
   the LAST funds set - none when never set); a success is returned as it is, a failure through downcast_error. *)
Theorem translated_exec_proxy d addr msg inner fs sender :
  exists p0 p1,
    calls P (S d) "ExecProxy::new" [addr; msg; app_val inner] (CVal p0) /\
    funds_chain d p0 fs p1 /\
    calls P (S (S d)) "ExecProxy::call" [p1; sender]
      (CVal (proxied' "extern::execute_contract" [inner; sender; addr; msg; last fs (VArr [])])).
Proof.
  exists (exec_proxy addr msg (app_val inner) (VArr [])), (exec_proxy addr msg (app_val inner) (last fs (VArr []))).
  split; [apply calls_exec_new|]. split; [apply funds_chain_spec|]. apply calls_exec_call.
Qed.

Theorem translated_migrate_proxy d addr msg inner sender code :
  exists p0,
    calls P (S d) "MigrateProxy::new" [addr; msg; app_val inner] (CVal p0) /\
    calls P (S (S d)) "MigrateProxy::call" [p0; sender; code]
      (CVal (proxied' "extern::migrate_contract" [inner; sender; addr; msg; code])).
Proof.
  exists (migrate_proxy addr msg (app_val inner)). split; [apply calls_migrate_new|apply calls_migrate_call].
Qed.

End Proxies.

(* downcast_error never loses the contract's own error and never invents one: three exhaustive cases *)
Theorem translated_downcast_error d ok ty txt payload t inner x :
  calls (with_chain ok ty txt payload) (S d) "downcast_error" [anyhow t inner x]
    (CVal (if t =? "Error" then inner
           else if t =? "StdError" then VCon "Into::into" [inner]
           else VCon "Into::into" [VCon "StdError::GenericErr" [VStr x]])).
Proof. apply calls_downcast. Qed.
