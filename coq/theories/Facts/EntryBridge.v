(* The hand model of `EntryPoints::emit` (Model/EntryPoints.v: `emitted`, `overridden` - what the core theorems of C06 are about) and
   what was PROVED of the translated `EntryPoints::emit` / `get_entry_point` (Facts/MacroRefine.v) agree. *)
From Coq Require Import String List Bool.
Require Import SV.Model.Kinds SV.Model.GenTables SV.Model.EntryPoints.
Require Import SV.Model.Imp SV.Facts.MacroRefine.
Import ListNotations.
Open Scope string_scope.
Open Scope list_scope.

Definition kind_ctor (k : kind) : string :=
  match k with KInst => "Instantiate" | KExec => "Exec" | KQuery => "Query" | KMigrate => "Migrate" | KReply => "Reply" | KSudo => "Sudo" end.
Lemma kind_ctor_eqb a b : (kind_ctor a =? kind_ctor b) = Kinds.kind_eqb a b.
Proof. destruct a, b; reflexivity. Qed.

(* an override attribute of the hand model (its kind) as the translated look-up sees it (entry point, message name: anything) *)
Definition as_override (p m : value) (k : kind) : value * value * string := (p, m, kind_ctor k).

(* "kind k is overridden": the hand model's test is the translated look-up answering Some *)
Theorem hand_model_overridden_is_the_translated_lookup p m (ks : list kind) (k : kind) :
  overridden ks k = match find (of_kind (kind_ctor k)) (map (as_override p m) ks) with Some _ => true | None => false end.
Proof.
  unfold overridden. induction ks as [|k' ks IH]; [reflexivity|]. cbn [existsb map find of_kind as_override].
  rewrite kind_ctor_eqb. replace (Kinds.kind_eqb k k') with (Kinds.kind_eqb k' k) by (destruct k, k'; reflexivity).
  destruct (Kinds.kind_eqb k' k); [reflexivity | exact IH].
Qed.

(* the set of emitted entry points: the hand model's list is the list of the non-empty pieces of the translated module *)
Definition pieces (bi be bq bs bm br has_migrate has_reply : bool) : list value :=
  [ep_of bi "Instantiate"; ep_of be "Exec"; ep_of bq "Query"; ep_of bs "Sudo";
   if negb bm && has_migrate then default_ep "Migrate" else quote_empty;
   if br then quote_empty else if has_reply then default_ep "Reply" else quote_empty].
Definition is_piece (v : value) : bool := match v with VCon "default_entry_point" _ => true | _ => false end.

Theorem hand_model_emitted_is_the_translated_module (i : ep_input) (ks : list kind) :
  map (fun k => default_ep (kind_ctor k)) (emitted i ks) =
  filter is_piece (pieces (overridden ks KInst) (overridden ks KExec) (overridden ks KQuery) (overridden ks KSudo)
                          (overridden ks KMigrate) (overridden ks KReply) (ep_has_migrate i) (ep_has_reply i)).
Proof.
  unfold emitted, pieces, ep_of. cbn [filter].
  destruct (overridden ks KInst), (overridden ks KExec), (overridden ks KQuery), (overridden ks KSudo),
           (overridden ks KMigrate), (overridden ks KReply), (ep_has_migrate i), (ep_has_reply i); reflexivity.
Qed.
