(* The hand-written model of the attribute parser (`parse_attrs` of Model/Expand.v, over the regenerated tables of GenTables.v -
   the model the core theorems of C17 are about) and the specification PROVED of the translated parser (`step` / `finish` of
   Facts/ParseRefine.v) agree on what is forwarded to the message types:
     - the regenerated table of attribute names (translator 1: the arms of `SylviaAttribute::match_attribute` as a table) is the
       function proved of the translated `match_attribute` (translator 2);
     - for every list of attributes of the hand model, mapped to the parser's input by `ain_of`, the forwarded `sv::msg_attr`
       lines of the hand model are the ones the translated parser collects, and filtering them by kind is the filter proved of
       the translated message constructors (Facts/AttrRefine.v). *)
From Coq Require Import String List Bool.
Require Import SV.Base.Util SV.Model.Kinds SV.Model.GenTables SV.Model.Syntax SV.Model.Expand SV.Facts.AttrFacts.
Require Import SV.Model.Imp SV.Facts.MacroRefine SV.Facts.ParseRefine SV.Facts.ParseFacts SV.Facts.AttrRefine SV.Facts.TableBridge.
Import ListNotations.
Open Scope string_scope.
Open Scope list_scope.

(* ---- from the hand model's attributes to the parser's input ---- *)
Definition kind_ctor (k : kind) : string :=
  match k with KInst => "Instantiate" | KExec => "Exec" | KQuery => "Query" | KMigrate => "Migrate" | KReply => "Reply" | KSudo => "Sudo" end.
Definition as_fwd (p : kind * string) : fwd := (kind_ctor (fst p), VStr (snd p)).

(* the content of an attribute as its kind's parser sees it: a forwarded line parses when its kind name is one of the six *)
Definition content_of (name : string) (b : sv_body) : content :=
  match name_kind name, b with
  | Some KMsgAttrs, SvMsgAttr kn t =>
      match msg_attr_kind_of_string kn with Some k => IsList true (fwd_v (as_fwd (k, t))) | None => IsList false (VStr kn) end
  | Some KVariantAttrs, SvAttr t => IsList true (VStr t)
  | _, _ => IsList false (VStr "not a forwarded attribute of that name")
  end.
Definition ain_of (a : attr) : ain :=
  match a with
  | AForeign path text => {| a_path := path; a_content := NotList (VStr text); a_msg_type := ""; a_resp := none |}
  | ASv name b => {| a_path := ["sv"; name]; a_content := content_of name b; a_msg_type := ""; a_resp := none |}
  end.

Lemma one_attribute_forwards_the_same (a : attr) :
  map (fun p => fwd_v (as_fwd p)) (msg_attr_of a) = is_list_ok KMsgAttrs (ain_of a).
Proof.
  destruct a as [path text|name b]; unfold is_list_ok; cbn [ain_of a_path a_content msg_attr_of].
  - destruct (classify path); reflexivity.
  - cbn [classify]. rewrite String.eqb_refl.
    unfold content_of. rewrite ?regenerated_table_is_the_translated_function.
    destruct b as [kn resp hs ro|t|kn t|m asn cm cq|kn ep m|m q|t|names|flags|flags];
      destruct (name_kind name) as [[]|]; cbn; try reflexivity;
      destruct (msg_attr_kind_of_string kn); reflexivity.
Qed.

Lemma map_flat_map {A B C} (f : B -> C) (g : A -> list B) l : map f (flat_map g l) = flat_map (fun x => map f (g x)) l.
Proof. induction l as [|x l IH]; [reflexivity|]. cbn [flat_map]. rewrite map_app, IH. reflexivity. Qed.
Lemma flat_map_map {A B C} (f : A -> B) (g : B -> list C) l : flat_map g (map f l) = flat_map (fun x => g (f x)) l.
Proof. induction l as [|x l IH]; [reflexivity|]. cbn [map flat_map]. rewrite IH. reflexivity. Qed.

(* for EVERY list of attributes: what the hand model forwards to the message types is what the translated parser collects *)
Theorem hand_model_forwards_what_the_translated_parser_collects (l : list attr) :
  map (fun p => fwd_v (as_fwd p)) (p_msg_attrs (parse_attrs l)) = s_mattrs (finish (fold_left step (map ain_of l) init)).
Proof.
  rewrite item_msg_attrs. destruct (parsed_repeatable_attributes (map ain_of l)) as (-> & _).
  rewrite map_flat_map, flat_map_map. apply flat_map_ext. intros a. apply one_attribute_forwards_the_same.
Qed.

(* ... and the filter by kind of the hand model is the filter proved of the translated message constructors *)
Lemma kind_ctor_eqb a b : (kind_ctor a =? kind_ctor b) = Kinds.kind_eqb a b.
Proof. destruct a, b; reflexivity. Qed.

Theorem hand_model_filter_is_the_translated_filter (k : kind) (l : list (kind * string)) :
  map as_fwd (filter (fun p : kind * string => Kinds.kind_eqb (fst p) k) l) = filter (to_kind (kind_ctor k)) (map as_fwd l).
Proof.
  induction l as [|[k' t] l IH]; [reflexivity|]. cbn [map filter fst]. unfold to_kind at 1. cbn [as_fwd fst].
  rewrite kind_ctor_eqb. destruct (Kinds.kind_eqb k' k); cbn [map]; rewrite IH; reflexivity.
Qed.
