(* sylvia/src/types.rs (ExecutorBuilder in both type states, the helpers of Remote) and sylvia/src/ctx.rs (the conversions
   of the entry-point argument tuples into handler contexts), TRANSLATED from the Rust source (GenImp.types_program,
   GenImp.ctx_program, regenerated on every run): what each returns, for all argument values. *)
From Coq Require Import String List Bool Arith Lia.
Require Import SV.Model.Imp SV.Model.GenImp SV.Facts.ImpFacts.
Import ListNotations.
Open Scope string_scope.
Open Scope list_scope.

Notation T := types_program.
Notation X := ctx_program.

Definition phantom : value := VCon "marker::PhantomData" [].
Definition remote_val (owned : bool) (addr : string) : value :=
  VRec "Remote" [("addr", VCon (if owned then "Cow::Owned" else "Cow::Borrowed") [VStr addr]); ("_phantom", phantom)].
Definition eb_val (contract : string) (funds msg : value) : value :=
  VRec "ExecutorBuilder" [("contract", VStr contract); ("funds", funds); ("msg", msg); ("_state", phantom)].

Local Tactic Notation "by_compute" constr(P) constr(res) constr(K) :=
  eapply (calls_intro P) with (c := res); try reflexivity; apply (evals_compute P K); intros g fl; reflexivity.

Lemma calls_remote_new d (owned : bool) addr :
  calls T (S d) (if owned then "Remote::new" else "Remote::borrowed") [VStr addr] (CVal (remote_val owned addr)).
Proof. destruct owned; [by_compute T (CVal (remote_val true addr)) 12 | by_compute T (CVal (remote_val false addr)) 12]. Qed.

Lemma calls_eb_new d addr v :
  v = VStr addr \/ v = VCon "Cow::Owned" [VStr addr] \/ v = VCon "Cow::Borrowed" [VStr addr] ->
  calls T (S d) "ExecutorBuilder[Empty]::new" [v] (CVal (eb_val addr (VArr []) (VCon "Binary::default" []))).
Proof. intros [-> | [-> | ->]]; by_compute T (CVal (eb_val addr (VArr []) (VCon "Binary::default" []))) 12. Qed.

Lemma calls_remote_executor d (owned : bool) addr :
  calls T (S (S d)) "Remote::executor" [remote_val owned addr] (CVal (eb_val addr (VArr []) (VCon "Binary::default" []))).
Proof.
  eapply (calls_intro T) with (c := CVal (eb_val addr (VArr []) (VCon "Binary::default" []))); try reflexivity.
  simpl fn_body. eapply ev_block; [|reflexivity]. apply ev_stmts_tail. eapply ev_call.
  - apply (evals_list_compute T 6). intros g fl. reflexivity.
  - apply calls_eb_new. destruct owned; auto.
Qed.

Lemma calls_with_funds d c f m f' :
  calls T (S d) "ExecutorBuilder::with_funds" [eb_val c f m; f'] (CVal (eb_val c f' m)).
Proof. by_compute T (CVal (eb_val c f' m)) 12. Qed.

Lemma calls_eb_contract d c f m : calls T (S d) "ExecutorBuilder::contract" [eb_val c f m] (CVal (VStr c)).
Proof. by_compute T (CVal (VStr c)) 8. Qed.
Lemma calls_eb_funds d c f m : calls T (S d) "ExecutorBuilder::funds" [eb_val c f m] (CVal f).
Proof. by_compute T (CVal f) 8. Qed.

Lemma calls_ready_new d c f m :
  calls T (S d) "ExecutorBuilder[Ready]::new" [VStr c; f; m] (CVal (eb_val c f m)).
Proof. by_compute T (CVal (eb_val c f m)) 12. Qed.

Lemma calls_ready_build d c f m :
  calls T (S d) "ExecutorBuilder[Ready]::build" [eb_val c f m]
    (CVal (VRec "WasmMsg::Execute" [("contract_addr", VStr c); ("msg", m); ("funds", f)])).
Proof. by_compute T (CVal (VRec "WasmMsg::Execute" [("contract_addr", VStr c); ("msg", m); ("funds", f)])) 12. Qed.

Lemma calls_update_admin d (owned : bool) addr adm :
  calls T (S d) "Remote::update_admin" [remote_val owned addr; VStr adm]
    (CVal (VRec "WasmMsg::UpdateAdmin" [("contract_addr", VStr addr); ("admin", VStr adm)])).
Proof. destruct owned; by_compute T (CVal (VRec "WasmMsg::UpdateAdmin" [("contract_addr", VStr addr); ("admin", VStr adm)])) 12. Qed.

Lemma calls_clear_admin d (owned : bool) addr :
  calls T (S d) "Remote::clear_admin" [remote_val owned addr]
    (CVal (VRec "WasmMsg::ClearAdmin" [("contract_addr", VStr addr)])).
Proof. destruct owned; by_compute T (CVal (VRec "WasmMsg::ClearAdmin" [("contract_addr", VStr addr)])) 12. Qed.

(* with_funds applied successively, each to the value the previous call returned *)
Fixpoint funds_chain (d : nat) (v : value) (fs : list value) (vfinal : value) : Prop :=
  match fs with
  | [] => v = vfinal
  | f :: r => exists v', calls T (S d) "ExecutorBuilder::with_funds" [v; f] (CVal v') /\ funds_chain d v' r vfinal
  end.

Lemma funds_chain_spec d c m : forall fs f0, funds_chain d (eb_val c f0 m) fs (eb_val c (last fs f0) m).
Proof.
  induction fs as [|f r IH]; intros f0; simpl; [reflexivity|].
  exists (eb_val c f m). split; [apply calls_with_funds|].
  replace (match r with [] => f | _ :: _ => last r f0 end) with (last r f) by (destruct r; [reflexivity|]; clear; revert f f0; induction r as [|y r IH]; intros; [reflexivity|]; destruct r; [reflexivity|]; simpl in *; apply IH).
  apply IH.
Qed.

(* The whole path of a generated executor method (whose body - a derive template - is
   `ExecutorBuilder::<Ready>::new(self.contract().to_owned(), self.funds().to_owned(), to_json_binary(&msg)?)`):
   handle -> executor() -> with_funds* -> contract()/funds() -> Ready::new -> build. The execute message is addressed to
   the handle's address, carries the last funds set (none when unset) and the given body, whether the handle owns or
   borrows the address. *)
Theorem translated_executor_path d (owned : bool) addr fs msg :
  exists b0 b1,
    calls T (S d) (if owned then "Remote::new" else "Remote::borrowed") [VStr addr] (CVal (remote_val owned addr)) /\
    calls T (S (S d)) "Remote::executor" [remote_val owned addr] (CVal b0) /\
    funds_chain d b0 fs b1 /\
    calls T (S d) "ExecutorBuilder::contract" [b1] (CVal (VStr addr)) /\
    calls T (S d) "ExecutorBuilder::funds" [b1] (CVal (last fs (VArr []))) /\
    calls T (S d) "ExecutorBuilder[Ready]::new" [VStr addr; last fs (VArr []); msg] (CVal (eb_val addr (last fs (VArr [])) msg)) /\
    calls T (S d) "ExecutorBuilder[Ready]::build" [eb_val addr (last fs (VArr [])) msg]
      (CVal (VRec "WasmMsg::Execute" [("contract_addr", VStr addr); ("msg", msg); ("funds", last fs (VArr []))])).
Proof.
  exists (eb_val addr (VArr []) (VCon "Binary::default" [])), (eb_val addr (last fs (VArr [])) (VCon "Binary::default" [])).
  split; [apply calls_remote_new|]. split; [apply calls_remote_executor|]. split; [apply funds_chain_spec|].
  split; [apply calls_eb_contract|]. split; [apply calls_eb_funds|]. split; [apply calls_ready_new|apply calls_ready_build].
Qed.

(* ---- contexts: every component of the argument tuple reaches the field of the same name, nothing else is added *)
Theorem translated_ctx_conversions d deps env info gas events resps :
  calls X (S d) "ExecCtx::from" [VCon "()" [deps; env; info]] (CVal (VRec "ExecCtx" [("deps", deps); ("env", env); ("info", info)])) /\
  calls X (S d) "InstantiateCtx::from" [VCon "()" [deps; env; info]] (CVal (VRec "InstantiateCtx" [("deps", deps); ("env", env); ("info", info)])) /\
  calls X (S d) "QueryCtx::from" [VCon "()" [deps; env]] (CVal (VRec "QueryCtx" [("deps", deps); ("env", env)])) /\
  calls X (S d) "SudoCtx::from" [VCon "()" [deps; env]] (CVal (VRec "SudoCtx" [("deps", deps); ("env", env)])) /\
  calls X (S d) "MigrateCtx::from" [VCon "()" [deps; env]] (CVal (VRec "MigrateCtx" [("deps", deps); ("env", env)])) /\
  calls X (S d) "ReplyCtx::from" [VCon "()" [deps; env; gas; events; resps]]
    (CVal (VRec "ReplyCtx" [("deps", deps); ("env", env); ("gas_used", gas); ("events", events); ("msg_responses", resps)])).
Proof.
  split; [by_compute X (CVal (VRec "ExecCtx" [("deps", deps); ("env", env); ("info", info)])) 14|].
  split; [by_compute X (CVal (VRec "InstantiateCtx" [("deps", deps); ("env", env); ("info", info)])) 14|].
  split; [by_compute X (CVal (VRec "QueryCtx" [("deps", deps); ("env", env)])) 14|].
  split; [by_compute X (CVal (VRec "SudoCtx" [("deps", deps); ("env", env)])) 14|].
  split; [by_compute X (CVal (VRec "MigrateCtx" [("deps", deps); ("env", env)])) 14|].
  by_compute X (CVal (VRec "ReplyCtx" [("deps", deps); ("env", env); ("gas_used", gas); ("events", events); ("msg_responses", resps)])) 16.
Qed.

(* ---- BoundQuerier (the query side of a handle) and the remaining helpers of Remote *)
Definition cow (owned : bool) (addr : string) : value := VCon (if owned then "Cow::Owned" else "Cow::Borrowed") [VStr addr].
Definition bq_val (c q : value) : value := VRec "BoundQuerier" [("contract", c); ("querier", q); ("_phantom", phantom)].

Lemma calls_bq_borrowed d c q : calls T (S d) "BoundQuerier::borrowed" [c; q] (CVal (bq_val c q)).
Proof. by_compute T (CVal (bq_val c q)) 12. Qed.

Lemma calls_bq_from d c q : calls T (S (S d)) "BoundQuerier::from" [bq_val c q] (CVal (bq_val c q)).
Proof.
  eapply (calls_intro T) with (c := CVal (bq_val c q)); try reflexivity.
  simpl fn_body. eapply ev_block; [|reflexivity]. apply ev_stmts_tail. eapply ev_call.
  - apply (evals_list_compute T 6). intros g fl. reflexivity.
  - apply calls_bq_borrowed.
Qed.

(* a handle bound to a querier keeps the handle's address and exactly that querier; the accessors return them; copying a
   bound querier (From<&BoundQuerier>) changes nothing; AsRef gives the handle's address *)
Theorem translated_bound_querier d (owned : bool) addr q c :
  calls T (S d) "Remote::querier" [remote_val owned addr; q] (CVal (bq_val (cow owned addr) q)) /\
  calls T (S d) "BoundQuerier::contract" [bq_val c q] (CVal c) /\
  calls T (S d) "BoundQuerier::querier" [bq_val c q] (CVal q) /\
  calls T (S d) "BoundQuerier::borrowed" [c; q] (CVal (bq_val c q)) /\
  calls T (S (S d)) "BoundQuerier::from" [bq_val c q] (CVal (bq_val c q)) /\
  calls T (S d) "Remote::as_ref" [remote_val owned addr] (CVal (cow owned addr)).
Proof.
  split; [destruct owned; [by_compute T (CVal (bq_val (cow true addr) q)) 12 | by_compute T (CVal (bq_val (cow false addr) q)) 12]|].
  split; [by_compute T (CVal c) 8|]. split; [by_compute T (CVal q) 8|].
  split; [apply calls_bq_borrowed|]. split; [apply calls_bq_from|].
  destruct owned; [by_compute T (CVal (cow true addr)) 8 | by_compute T (CVal (cow false addr)) 8].
Qed.
