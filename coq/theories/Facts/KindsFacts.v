From Coq Require Import String List Bool.
Require Import SV.Model.Kinds.
Import ListNotations.

Lemma kind_eqb_spec a b : reflect (a = b) (kind_eqb a b).
Proof. destruct a, b; simpl; constructor; congruence. Qed.

Lemma kind_eqb_refl a : kind_eqb a a = true.
Proof. destruct a; reflexivity. Qed.

Lemma kind_eqb_eq a b : kind_eqb a b = true <-> a = b.
Proof. destruct (kind_eqb_spec a b); split; congruence. Qed.

Lemma kind_eqb_neq a b : kind_eqb a b = false <-> a <> b.
Proof. destruct (kind_eqb_spec a b); split; congruence. Qed.

Lemma all_kinds_complete k : In k all_kinds.
Proof. destruct k; simpl; tauto. Qed.

Lemma kind_attr_name_inj a b : kind_attr_name a = kind_attr_name b -> a = b.
Proof. destruct a, b; simpl; intros H; try reflexivity; discriminate H. Qed.

Lemma cw_entry_point_name_inj a b : cw_entry_point_name a = cw_entry_point_name b -> a = b.
Proof. destruct a, b; simpl; intros H; try reflexivity; discriminate H. Qed.

Lemma reply_on_eqb_spec a b : reflect (a = b) (reply_on_eqb a b).
Proof. destruct a, b; simpl; constructor; congruence. Qed.
