(* Query response metadata (C16): which response type each query's variant declares, and the
   contract-level table as the union of its parts' tables. *)
From Coq Require Import String List Bool Arith Lia.
Require Import SV.Base.Util SV.Base.Json SV.Model.Kinds SV.Model.GenTables SV.Model.Casing SV.Model.Syntax SV.Model.Expand SV.Model.Sem.
Require Import SV.Facts.KindsFacts SV.Facts.ExpandFacts.
Import ListNotations.
Open Scope string_scope.
Open Scope list_scope.

(* the response type a query handler declares: the explicit `resp=` type, else the success type of its Result *)
Definition declared_response (m : method) (ma : msg_attr) : option ty :=
  match ma_resp ma with
  | Some r => Some (TName r)
  | None => extract_return (m_ret m)
  end.

(* the table of one part: wire name -> response type (as written, Self-stripped) *)
Definition responses_of (e : enum_out) : list (string * ty) :=
  flat_map (fun v => match vo_returns v with Some r => [(serde_snake (vo_name v), r)] | None => [] end) (eo_variants e).

(* the contract-level table: `responses.into_iter().flatten().collect()` over the parts *)
Definition wrapper_responses (parts : list enum_out) : list (string * ty) := flat_map responses_of parts.

Lemma mk_variant_ret gens used m ma fwd : ma_kind ma = KQuery ->
  v_ret (fst (fst (mk_variant gens used m ma fwd))) = declared_response m ma.
Proof.
  intros K. unfold mk_variant, declared_response. rewrite K.
  destruct (ma_resp ma); [reflexivity|]. destruct (extract_return (m_ret m)); reflexivity.
Qed.

Theorem query_variant_declares_its_response gens m v ma :
  p_msg (parse_attrs (m_attrs m)) = Some ma -> ma_kind ma = KQuery -> variant_of gens m = Some v ->
  vo_returns (out_variant v) = option_map strip_self (declared_response m ma) /\ vo_name (out_variant v) = upper_camel (m_name m).
Proof.
  intros P K V. unfold variant_of in V. rewrite P in V. injection V as <-.
  pose proof (mk_variant_ret gens [] m ma (p_variant_attrs (parse_attrs (m_attrs m))) K) as R.
  destruct (mk_variant_basic gens [] m ma (p_variant_attrs (parse_attrs (m_attrs m)))) as (N & _ & _ & M & _).
  unfold out_variant. simpl. rewrite M, K, R, N. split; [|reflexivity].
  destruct (declared_response m ma); reflexivity.
Qed.

(* every entry of a part's table comes from a query handler of that part, under its wire name, with its declared type *)
Theorem part_table_entries ms gens wh name it iw n r :
  In (n, r) (responses_of (mk_enum name it (mk_variants ms KQuery gens wh) iw)) ->
  exists m ma, In m ms /\ p_msg (parse_attrs (m_attrs m)) = Some ma /\ ma_kind ma = KQuery /\
               n = wire_name (m_name m) /\ Some r = option_map strip_self (declared_response m ma).
Proof.
  unfold responses_of, mk_enum. simpl. intros I. apply in_flat_map in I. destruct I as (vo & Ivo & H).
  apply in_map_iff in Ivo. destruct Ivo as (v & <- & Iv).
  apply variants_are_methods_of_kind in Iv. destruct Iv as (m & Im & MK & VO).
  unfold method_kind in MK. destruct (p_msg (parse_attrs (m_attrs m))) as [ma|] eqn:P; [|discriminate]. injection MK as K.
  destruct (query_variant_declares_its_response gens m v ma P K VO) as (R & N).
  destruct (vo_returns (out_variant v)) as [r0|] eqn:E; [|destruct H]. destruct H as [H|[]]. injection H as <- <-.
  exists m, ma. repeat split; auto.
  unfold wire_name. rewrite <- N. reflexivity.
Qed.

(* ... and every query handler with a declared response has its entry *)
Theorem query_handler_has_its_entry ms gens wh name it iw m ma r :
  In m ms -> p_msg (parse_attrs (m_attrs m)) = Some ma -> ma_kind ma = KQuery -> declared_response m ma = Some r ->
  In (wire_name (m_name m), strip_self r) (responses_of (mk_enum name it (mk_variants ms KQuery gens wh) iw)).
Proof.
  intros Im P K D. unfold responses_of, mk_enum. simpl. apply in_flat_map.
  assert (exists v, variant_of gens m = Some v) as (v & VO) by (unfold variant_of; rewrite P; eauto).
  exists (out_variant v). split.
  - apply in_map. apply variants_are_methods_of_kind. exists m. split; [exact Im|]. split; [|exact VO].
    unfold method_kind. rewrite P, K. reflexivity.
  - destruct (query_variant_declares_its_response gens m v ma P K VO) as (R & N). rewrite R, D, N. left. reflexivity.
Qed.

(* the contract-level table is the union of the parts' tables: an entry is in it iff it is in some part's *)
Theorem wrapper_table_is_the_union parts n r :
  In (n, r) (wrapper_responses parts) <-> exists e, In e parts /\ In (n, r) (responses_of e).
Proof. unfold wrapper_responses. rewrite in_flat_map. tauto. Qed.

(* with disjoint names (C05) every sendable name appears once *)
Theorem wrapper_table_names_once parts :
  Forall (fun e => NoDup (map fst (responses_of e))) parts ->
  (forall i j n, i <> j -> In n (map fst (responses_of (nth i parts (mk_enum "" empty_parsed (mk_variants [] KQuery [] []) [])))) ->
                 In n (map fst (responses_of (nth j parts (mk_enum "" empty_parsed (mk_variants [] KQuery [] []) [])))) -> False) ->
  NoDup (map fst (wrapper_responses parts)).
Proof.
  set (d := mk_enum "" empty_parsed (mk_variants [] KQuery [] []) []).
  induction parts as [|e r IH]; intros N D; [constructor|].
  unfold wrapper_responses. simpl. rewrite map_app. inversion N as [|? ? Ne Nr]; subst.
  apply NoDup_app; [exact Ne | |].
  - apply IH; [exact Nr|]. intros i j n Hij Ii Ij. apply (D (S i) (S j) n); [congruence | exact Ii | exact Ij].
  - intros n In1 In2. fold (wrapper_responses r) in In2.
    apply in_map_iff in In2. destruct In2 as ([n' t] & <- & I2). apply wrapper_table_is_the_union in I2. destruct I2 as (e2 & Ie2 & I2).
    apply In_nth with (d := d) in Ie2. destruct Ie2 as (j & Lj & <-).
    apply (D 0 (S j) n'); [discriminate | exact In1 | simpl; apply in_map_iff; exists (n', t); auto].
Qed.
