(* The fields of a message variant, translated from sylvia-derive on every run (GenImpFields.field_fns):
     `MsgField::new`, `emit`, `emit_pub`  (types/msg_field.rs)  - one field from one typed parameter, and how it is written out;
     `process_fields`                     (parser/mod.rs)       - the parameters after `self` and the context, in order.
   The `&mut CheckGenerics` parameter is translated by state passing (value, checker afterwards); the closure of
   `filter_map` is a function of its own. Stubs: syn's `visit_type` (recorded in the checker), `StripSelfPath.fold_type`
   (recorded), `assert_no_self_ctx_attributes` (diagnostics only). *)
From Coq Require Import String List Bool Arith Lia.
Require Import SV.Model.Imp SV.Model.GenImpFields SV.Facts.ImpFacts SV.Facts.MacroRefine.
Import ListNotations.
Open Scope string_scope.
Open Scope list_scope.

Definition checker_v (generics used : list value) : value := VRec "CheckGenerics" [("generics", VArr generics); ("used", VArr used)].

Definition FLD : program :=
  field_fns ++
  [stub "extern::visit_type" ["checker"; "t"]
     (ERecord "CheckGenerics" [("used", ECall "push" [EField (EVar "checker") "used"; ECon "visited the type" [EVar "t"]])] (Some (EVar "checker")));
   stub "extern::fold_type" ["folder"; "t"] (ECon "without Self::" [EVar "folder"; EVar "t"]);
   stub "extern::assert_no_self_ctx_attributes" ["sig"] (EConst VUnit)].

(* a parameter of a method: the receiver, or a typed parameter - its pattern (a plain name, or something else), its type, its
   attributes *)
Inductive fparam := FReceiver (v : value) | FTyped (name : option value) (other_pat ty attrs : value).
Definition pat_type_v (name : option value) (other_pat ty attrs : value) : value :=
  VRec "PatType" [("pat", match name with Some n => VCon "Pat::Ident" [VRec "PatIdent" [("ident", n)]] | None => VCon "Pat::Other" [other_pat] end);
                  ("ty", ty); ("attrs", attrs)].
Definition fparam_v (p : fparam) : value :=
  match p with
  | FReceiver v => VCon "FnArg::Receiver" [v]
  | FTyped name op ty attrs => VCon "FnArg::Typed" [pat_type_v name op ty attrs]
  end.

Definition stripped (ty : value) : value := VCon "without Self::" [VCon "StripSelfPath" []; ty].
Definition field_v (n ty attrs : value) : value :=
  VRec "MsgField" [("name", n); ("ty", ty); ("stripped_ty", stripped ty); ("attrs", attrs)].
(* the field a parameter gives (none for the receiver or a pattern that is not a plain name), and what the checker traverses *)
Definition field_of (p : fparam) : list value :=
  match p with FTyped (Some n) _ ty attrs => [field_v n ty attrs] | _ => [] end.
Definition visit_of (p : fparam) : list value :=
  match p with FTyped (Some _) _ ty _ => [VCon "visited the type" [stripped ty]] | _ => [] end.

Lemma evals_compute_calls P K d e en r :
  (forall g h, eval (call P d (K + h)) (K + g) e en = Some r) -> evals P d e en r.
Proof.
  intros H. exists K. intros f fl Hf Hfl. replace f with (K + (f - K)) by lia. replace fl with (K + (fl - K)) by lia. apply H.
Qed.

Local Ltac cmp K := apply (evals_compute _ K); intros ?gg ?fl; reflexivity.

(* entries appended one after the other *)
Definition push_all (used ms : list value) : list value := fold_left (fun acc m => acc ++ [m]) ms used.
Lemma push_all_app used ms : push_all used ms = used ++ ms.
Proof.
  revert used. induction ms as [|m ms IH]; intros used; cbn [push_all fold_left]; [rewrite app_nil_r; reflexivity|].
  fold (push_all (used ++ [m]) ms). rewrite IH, <- app_assoc. reflexivity.
Qed.

(* ---- one field: named after the parameter, of the parameter's type (with `Self::` stripped for the message), carrying exactly
   the parameter's attributes; a parameter that is a pattern gives no field ---- *)
Theorem translated_msg_field_new d name op ty attrs gens used :
  calls FLD (S (S d)) "MsgField::new" [pat_type_v name op ty attrs; checker_v gens used]
    (CVal (VCon "()" [match name with Some n => some (field_v n ty attrs) | None => none end;
                      checker_v gens (used ++ visit_of (FTyped name op ty attrs))])).
Proof.
  rewrite <- push_all_app. destruct name as [n|].
  - eapply calls_intro with (c := CVal _); try reflexivity.
    apply (evals_compute_calls _ 40). intros gg hh. reflexivity.
  - eapply calls_intro with (c := CRet _); try reflexivity.
    apply (evals_compute_calls _ 40). intros gg hh. reflexivity.
Qed.

(* how a field is written into the generated type: its attributes, its name, its stripped type - nothing else *)
Theorem translated_msg_field_emit d n ty attrs :
  exists t1 t2,
    calls FLD (S d) "MsgField::emit" [field_v n ty attrs] (CVal (quote_v t1 [("attrs", attrs); ("name", n); ("stripped_ty", stripped ty)])) /\
    calls FLD (S d) "MsgField::emit_pub" [field_v n ty attrs] (CVal (quote_v t2 [("attrs", attrs); ("name", n); ("stripped_ty", stripped ty)])).
Proof.
  eexists. eexists. split; (apply (calls_of_run _ _ 20); [reflexivity | vm_compute; reflexivity]).
Qed.

(* ---- the closure of process_fields ---- *)
Lemma translated_fields_closure d (p : fparam) gens used :
  calls FLD (S (S (S d))) "process_fields::closure1" [fparam_v p; checker_v gens used]
    (CVal (VCon "()" [match field_of p with [f] => some f | _ => none end; checker_v gens (used ++ visit_of p)])).
Proof.
  destruct p as [v|name op ty attrs].
  - cbn [field_of visit_of]. rewrite app_nil_r. apply (calls_of_run _ _ 40); [reflexivity | vm_compute; reflexivity].
  - pose proof (translated_msg_field_new d name op ty attrs gens used) as Hnew.
    destruct name as [n|];
    eapply calls_intro with (c := CVal _); try reflexivity;
    (simpl fn_body; cbn [app combine fn_params];
     eapply ev_block; [|reflexivity];
     eapply ev_stmts_let;
       [ eapply ev_match; [cmp 4|];
         eapply ev_arm_miss; [reflexivity|];
         eapply ev_arm_hit; [reflexivity|];
         eapply ev_block; [|reflexivity];
         (eapply ev_stmts_let; [eapply ev_call; [apply (evals_list_compute _ 8); intros ?gg ?fl; reflexivity | exact Hnew] | reflexivity |]);
         apply (evals_stmts_compute _ 14); intros gg fl; reflexivity
       | reflexivity | ];
     cbn [app]; apply ev_stmts_tail; cmp 14).
Qed.

(* ---- process_fields: the parameters after the first two, in order ---- *)
Definition sig_v (inputs : list fparam) (other : value) : value := VRec "Signature" [("inputs", VArr (map fparam_v inputs)); ("other", other)].

Lemma firstn_snoc {A} (l : list A) j x : nth_error l j = Some x -> firstn (S j) l = firstn j l ++ [x].
Proof.
  revert j. induction l as [|a l IH]; intros [|j] H; simpl in H; try discriminate.
  - injection H as ->. reflexivity.
  - change (firstn (S (S j)) (a :: l)) with (a :: firstn (S j) l). rewrite (IH _ H). reflexivity.
Qed.

Lemma skipn_firstn_snoc {A} (l : list A) j x : 2 <= j -> nth_error l j = Some x ->
  skipn 2 (firstn (S j) l) = skipn 2 (firstn j l) ++ [x].
Proof.
  intros Hj Hn. rewrite (firstn_snoc _ _ _ Hn), skipn_app.
  assert (Hl : length (firstn j l) = j).
  { apply firstn_length_le. apply Nat.lt_le_incl. apply nth_error_Some. rewrite Hn. discriminate. }
  rewrite Hl. replace (2 - j) with 0 by lia. reflexivity.
Qed.

Lemma skipn_firstn_2 {A} (l : list A) : skipn 2 (firstn 2 l) = [].
Proof. destruct l as [|a [|b r]]; reflexivity. Qed.

Theorem translated_process_fields d (inputs : list fparam) other gens used :
  let rest := skipn 2 inputs in
  calls FLD (S (S (S (S d)))) "process_fields" [sig_v inputs other; checker_v gens used]
    (CVal (VCon "()" [VArr (flat_map field_of rest); checker_v gens (used ++ flat_map visit_of rest)])).
Proof.
  intros rest.
  set (params := [("sig", sig_v inputs other)]).
  eapply calls_intro with (c := CVal (VCon "()" [VArr (flat_map field_of rest); checker_v gens (used ++ flat_map visit_of rest)]))
                          (en' := ("sig", sig_v inputs other) :: [("generics_checker", checker_v gens (used ++ flat_map visit_of rest))]);
    try reflexivity.
  simpl fn_body. cbn [app combine fn_params].
  match goal with |- context [EFor "fmc_i1" ?lo ?hi ?b] =>
    destruct (ev_for_inv FLD (S (S (S d))) "fmc_i1" b
                (fun j en' => en' = [("fmc_acc1", VArr (flat_map field_of (skipn 2 (firstn j inputs)))); ("fmc_src1", VArr (map fparam_v inputs));
                                     ("sig", sig_v inputs other);
                                     ("generics_checker", checker_v gens (used ++ flat_map visit_of (skipn 2 (firstn j inputs))))])
                (length inputs - 2) 2
                [("fmc_acc1", VArr []); ("fmc_src1", VArr (map fparam_v inputs)); ("sig", sig_v inputs other);
                 ("generics_checker", checker_v gens used)])
      as (enf & Hfor & Hinv) end.
  - rewrite skipn_firstn_2. cbn [flat_map]. rewrite app_nil_r. reflexivity.
  - intros j en' Hj ->.
    destruct (nth_error inputs j) as [p|] eqn:Hnth; [|apply nth_error_None in Hnth; lia].
    assert (Hm : nth_error (map fparam_v inputs) j = Some (fparam_v p)) by (rewrite nth_error_map, Hnth; reflexivity).
    rewrite (skipn_firstn_snoc _ _ _ (proj1 Hj) Hnth), !flat_map_app. cbn [flat_map]. rewrite !app_nil_r, app_assoc.
    pose proof (translated_fields_closure d p gens (used ++ flat_map visit_of (skipn 2 (firstn j inputs)))) as Hclo.
    destruct p as [v|[n|] op ty attrs]; cbn [field_of visit_of] in *; rewrite ?app_nil_r in *;
      (eexists; eexists; split;
        [ eapply ev_block; [|reflexivity];
          eapply ev_stmts_let;
            [ eapply ev_call; [apply (evals_list_compute _ 8); intros gg fl; simpl; rewrite Hm; reflexivity | exact Hclo]
            | reflexivity | ];
          apply (evals_stmts_compute _ 14); intros gg fl; reflexivity
        | reflexivity ]).
  - rewrite Hinv in Hfor.
    assert (Hend : skipn 2 (firstn (2 + (length inputs - 2)) inputs) = rest).
    { unfold rest. destruct (le_lt_dec 2 (length inputs)) as [Hl|Hl].
      - replace (2 + (length inputs - 2)) with (length inputs) by lia. rewrite firstn_all. reflexivity.
      - replace (2 + (length inputs - 2)) with 2 by lia. rewrite skipn_firstn_2.
        destruct inputs as [|a [|b r]]; try reflexivity. simpl in Hl. lia. }
    rewrite Hend in Hfor.
    assert (Hlen : forall gg fl en, eval (call FLD (S (S (S d))) fl) (4 + gg) (ECall "len" [EVar "fmc_src1"])
                     (("fmc_acc1", VArr []) :: ("fmc_src1", VArr (map fparam_v inputs)) :: en) =
                   Some (CVal (VNat (length inputs)), ("fmc_acc1", VArr []) :: ("fmc_src1", VArr (map fparam_v inputs)) :: en))
      by (intros gg fl en; simpl; rewrite map_length; reflexivity).
    eapply ev_block;
      [ eapply ev_stmts_let;
          [ eapply ev_block;
              [ (eapply ev_stmts_expr; [apply (evals_compute_calls _ 10); intros gg hh; reflexivity |]);
                apply ev_stmts_tail;
                eapply ev_block;
                  [ (eapply ev_stmts_let; [cmp 6 | reflexivity |]); (eapply ev_stmts_let; [cmp 4 | reflexivity |]); cbn [app];
                    eapply ev_stmts_expr;
                      [ eapply ev_for; [cmp 2 | apply (evals_compute _ 4); intros ?gg ?fl; apply Hlen | exact Hfor]
                      | apply ev_stmts_tail; cmp 4 ]
                  | reflexivity ]
              | reflexivity ]
          | reflexivity | ];
        cbn [app]; apply ev_stmts_tail; cmp 14
      | reflexivity ].
Qed.
