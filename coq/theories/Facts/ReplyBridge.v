(* The hand model of the reply-table entries (`rd_new`, `rd_merge`, `excludes` of Model/Reply.v - what the core theorems of C07, C08, C09,
   C14, C18 about reply handlers are built on) and the specifications PROVED of the translated `ReplyData::new`, `ReplyData::merge`,
   `ReplyOn::excludes` agree: payload, data field, handlers, and where the type-mismatch diagnostics fall. *)
From Coq Require Import String List Bool Arith.
Require Import SV.Model.Kinds SV.Model.GenTables SV.Model.Syntax SV.Model.Expand SV.Model.Reply.
Require Import SV.Model.Imp SV.Facts.MacroRefine SV.Facts.CheckRefine SV.Facts.ReplyDataRefine2 SV.Facts.ReplyMergeRefine.
Import ListNotations.
Open Scope string_scope.
Open Scope list_scope.

Definition outcome_of (r : reply_on) : outcome := match r with ROSuccess => OSuccess | ROError => OError | ROAlways => OAlways end.

(* ---- ReplyOn::excludes ---- *)
Theorem hand_model_excludes_is_the_translated_one (a b : reply_on) :
  excludes a b = outcome_eqb (outcome_of a) (outcome_of b) || is_always (outcome_of a) || is_always (outcome_of b).
Proof. destruct a, b; reflexivity. Qed.

(* ---- the payload of one handler ---- *)
Theorem hand_model_payload_is_the_translated_one {V} (enc : rfield -> V) (m : rmethod) (hid : string) :
  map enc (rd_payload (fst (rd_new m hid))) =
  match fst (as_data_field m), outcome_of (rm_on m) with
  | None, OSuccess => map enc (rm_fields m)
  | _, _ => skipn 1 (map enc (rm_fields m))
  end.
Proof.
  unfold rd_new. destruct (as_data_field m) as [data d1]. cbn [fst rd_payload].
  destruct data as [f|]; destruct (rm_on m); cbn; try reflexivity; destruct (rm_fields m); reflexivity.
Qed.

(* ---- a second handler of the id ---- *)
(* the data field and the handlers after merging: the entry's own data first, the new handler appended *)
Theorem hand_model_merge_keeps_data_and_appends (rd : reply_data) (m : rmethod) :
  rd_data (fst (rd_merge rd m)) = match rd_data rd with Some d => Some d | None => rd_data (fst (rd_new m (rd_handler_id rd))) end /\
  rd_handlers (fst (rd_merge rd m)) = rd_handlers rd ++ [(rm_name m, rm_on m)] /\
  rd_payload (fst (rd_merge rd m)) = rd_payload rd.
Proof. unfold rd_merge. destruct (rd_new m (rd_handler_id rd)) as [n dn]. repeat split. Qed.

(* the type mismatches: one diagnostic per position whose types differ - the hand model's `zip_mismatch` counts what the translated
   loop reports (types compared as the strings they print to) *)
Definition as_pfield (f : rfield) : pfield := (VStr (rf_ty f), VStr (rf_name f)).
Theorem hand_model_type_mismatches_are_the_translated_ones (a b : list rfield) :
  map (fun _ => VStr "Mismatched parameter in reply handlers.") (zip_mismatch a b) =
  flat_map mismatch (combine (map as_pfield a) (map as_pfield b)).
Proof.
  revert b. induction a as [|x a IH]; intros [|y b]; try reflexivity.
  cbn [zip_mismatch map combine flat_map]. rewrite map_app, IH. f_equal.
  unfold mismatch. cbn [fst snd as_pfield value_eqb]. destruct (rf_ty x =? rf_ty y); reflexivity.
Qed.
