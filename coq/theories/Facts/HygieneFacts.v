(* Computed facts about the regenerated templates (C19). *)
From Coq Require Import String List Bool.
Require Import SV.Model.GenTemplates SV.Model.Hygiene.
Import ListNotations.
Open Scope string_scope.

Lemma all_templates_ok : forallb (fun t : string * list string => template_ok (snd t)) templates = true.
Proof. vm_compute. reflexivity. Qed.

Lemma all_helper_params_ok : forallb (fun t : string * list string => params_ok (snd t)) templates = true.
Proof. vm_compute. reflexivity. Qed.

Theorem no_template_names_a_framework_crate_literally t :
  In t templates -> literal_roots "" (snd t) = [] /\ existsb literal_in_string (snd t) = false.
Proof.
  intros I. pose proof all_templates_ok as H. rewrite forallb_forall in H. specialize (H t I).
  unfold template_ok in H. destruct (literal_roots "" (snd t)); [|discriminate]. split; [reflexivity|].
  destruct (existsb literal_in_string (snd t)); [discriminate | reflexivity].
Qed.

Theorem helper_parameters_are_unconventional t x :
  In t templates -> In x (helper_params (snd t)) -> conventional x = false.
Proof.
  intros I Ix. pose proof all_helper_params_ok as H. rewrite forallb_forall in H. specialize (H t I).
  unfold params_ok in H. rewrite forallb_forall in H. specialize (H x Ix). destruct (conventional x); [discriminate | reflexivity].
Qed.

(* every single upper-case letter and every capitalised word is conventional: none of them is a helper parameter *)
Theorem single_letters_are_free t c :
  In t templates -> Casing.is_upper c = true -> ~ In (String c EmptyString) (helper_params (snd t)).
Proof.
  intros I U Ix. pose proof (helper_parameters_are_unconventional t _ I Ix) as H. unfold conventional in H. cbn [list_ascii_of_string] in H. rewrite U in H. discriminate.
Qed.
