(* Program-level statements behind C02, C03, C04 (stated in Props/). *)
From Coq Require Import String List Bool Arith Lia Sorted Permutation ZArith.
Require Import SV.Base.Util SV.Base.StrOrder SV.Base.Json SV.Model.Kinds SV.Model.GenTables SV.Model.Casing SV.Model.Syntax
               SV.Model.Expand SV.Model.Sem SV.Model.Run.
Require Import SV.Facts.KindsFacts SV.Facts.CasingFacts SV.Facts.TblNames SV.Facts.SemFacts SV.Facts.ExpandFacts
               SV.Facts.ProgramFacts SV.Facts.JsonFacts SV.Facts.WrapperFacts.
Import ListNotations.
Open Scope string_scope.
Open Scope list_scope.

(* two parts of one contract-level message never publish the same name (the conclusion of C05) *)
Definition parts_disjoint (parts : list edesc) : Prop :=
  forall i i' k, i < length parts -> i' < length parts ->
                 In k (map vd_wire (nth i parts [])) -> In k (map vd_wire (nth i' parts [])) -> i = i'.

Section MsgProgram.
Variable val : Type.
Variable enc : ty -> val -> json.
Variable dec : ty -> json -> option val.
Variable is_option : ty -> bool.
Variable default_val : ty -> val.
Variable ctxT : Type.
Variable outcome : Type.
Variable handler : string -> ctxT -> list val -> outcome.

(* ---- C02 ---- *)
Lemma method_dispatch ms k gens wh name it impl_wh m vals c :
  let e := edesc_of (mk_enum name it (mk_variants ms k gens wh) impl_wh) in
  wf_enum e -> In m ms -> method_kind m = Some k -> length vals = length (m_args m) ->
  dispatch_enum val ctxT outcome handler e (mkMsg (m_name m) (arg_fields val (m_args m) vals)) c =
  Some ([Call (m_name m) c vals], handler (m_name m) c vals).
Proof.
  intros e W I MK L. destruct (method_variant ms k gens wh name it impl_wh m I MK) as (vd & Iv & Fn & _ & _ & Fs).
  pose proof (dispatch_enum_delivers_arguments val ctxT outcome handler e vd vals c W Iv) as H.
  rewrite Fs, map_length in H. specialize (H L). rewrite Fn, fields_of_args in H. exact H.
Qed.

Lemma c02f_contract_dispatch : forall c k m vals ctx,
  enum_kind k = true -> wf_enum (contract_enum c k) ->
  In m (c_methods c) -> method_kind m = Some k -> length vals = length (m_args m) ->
  dispatch_enum val ctxT outcome handler (contract_enum c k) (mkMsg (m_name m) (arg_fields val (m_args m) vals)) ctx =
  Some ([Call (m_name m) ctx vals], handler (m_name m) ctx vals).
Proof.
  intros c k m vals ctx E W I MK L. rewrite contract_enum_spec in * by exact E. apply method_dispatch; auto.
Qed.

Lemma c02f_interface_dispatch : forall i k m vals ctx,
  enum_kind k = true -> wf_enum (iface_enum i k) ->
  In m (i_methods i) -> method_kind m = Some k -> length vals = length (m_args m) ->
  dispatch_enum val ctxT outcome handler (iface_enum i k) (mkMsg (m_name m) (arg_fields val (m_args m) vals)) ctx =
  Some ([Call (m_name m) ctx vals], handler (m_name m) ctx vals).
Proof.
  intros i k m vals ctx E W I MK L. rewrite iface_enum_spec in * by exact E. apply method_dispatch; auto.
Qed.

(* values bound by name: whatever order the fields of the message value are listed in *)
Lemma c02f_dispatch_by_name : forall e v fields ctx,
  wf_enum e -> In v e -> (forall f, In f (vd_fields v) -> lookup (fd_name f) fields <> None) ->
  exists args,
    dispatch_enum val ctxT outcome handler e (mkMsg (vd_fn v) fields) ctx =
      Some ([Call (vd_fn v) ctx args], handler (vd_fn v) ctx args) /\
    length args = length (vd_fields v) /\
    forall i f, nth_error (vd_fields v) i = Some f ->
                option_map Some (nth_error args i) = Some (lookup (fd_name f) fields).
Proof. intros. apply dispatch_enum_calls_source_method; auto. Qed.

(* instantiate / migrate: the single handler of the struct message *)
Lemma bind_fields_args (args : list arg) vals :
  NoDup (map a_name args) -> length vals = length args ->
  bind_fields val (map arg_fdesc args) (arg_fields val args vals) = Some vals.
Proof.
  intros N L. rewrite <- fields_of_args. apply bind_fields_of; [|rewrite map_length; exact L].
  rewrite map_map. exact N.
Qed.

Lemma c02f_struct_dispatch : forall s fn (args : list arg) vals ctx,
  vd_fn s = fn -> vd_fields s = map arg_fdesc args -> NoDup (map a_name args) -> length vals = length args ->
  dispatch_struct val ctxT outcome handler s (mkMsg fn (arg_fields val args vals)) ctx =
  Some ([Call fn ctx vals], handler fn ctx vals).
Proof.
  intros s fn args vals ctx Fn Fs N L. unfold dispatch_struct. simpl. rewrite Fs, bind_fields_args by auto.
  rewrite Fn. reflexivity.
Qed.

(* ---- C03 ---- *)
Hypothesis dec_collapse : forall t v, nodup_keys v = true -> dec t (collapse v) = dec t v.

Lemma c03f_accepts_iff : forall c ifs k j i m,
  enum_kind k = true -> parts_disjoint (parts_of c ifs k) -> nodup_keys j = true ->
  (decode_wrapper val dec is_option default_val (parts_of c ifs k) (tables_of c ifs k) j = WOk i m <->
   (i < length (parts_of c ifs k) /\
    decode_enum val dec is_option default_val (nth i (parts_of c ifs k) []) j = inr m /\
    forall i' m', i' < length (parts_of c ifs k) ->
                  decode_enum val dec is_option default_val (nth i' (parts_of c ifs k) []) j = inr m' -> i' = i)).
Proof.
  intros c ifs k j i m E D N. rewrite tables_of_spec by exact E.
  apply wrapper_accepts_iff_exactly_one_part; auto.
Qed.

Lemma c03f_errors : forall c ifs k j,
  enum_kind k = true -> parts_disjoint (parts_of c ifs k) -> nodup_keys j = true ->
  (forall i m, i < length (parts_of c ifs k) ->
               decode_enum val dec is_option default_val (nth i (parts_of c ifs k) []) j <> inr m) ->
  match j with
  | JObj [(n, b)] =>
      ((forall t, In t (tables_of c ifs k) -> ~ In n t) /\
       decode_wrapper val dec is_option default_val (parts_of c ifs k) (tables_of c ifs k) j =
       WUnsupported (concat (tables_of c ifs k)))
      \/ (exists i e, i < length (parts_of c ifs k) /\ In n (map vd_wire (nth i (parts_of c ifs k) [])) /\
                      decode_wrapper val dec is_option default_val (parts_of c ifs k) (tables_of c ifs k) j = WPartError i e)
  | JObj members =>
      decode_wrapper val dec is_option default_val (parts_of c ifs k) (tables_of c ifs k) j = WExpectedOne (length members)
  | _ => decode_wrapper val dec is_option default_val (parts_of c ifs k) (tables_of c ifs k) j = WWrongFormat
  end.
Proof.
  intros c ifs k j E D N H. rewrite tables_of_spec by exact E.
  apply wrapper_error_classes; auto.
Qed.

Lemma c03f_routes_to_owning_part : forall c ifs k j ctx log o,
  enum_kind k = true -> parts_disjoint (parts_of c ifs k) -> nodup_keys j = true ->
  entry_enum val dec is_option default_val ctxT outcome handler (parts_of c ifs k) (tables_of c ifs k) j ctx = ECalled log o ->
  exists i m, decode_wrapper val dec is_option default_val (parts_of c ifs k) (tables_of c ifs k) j = WOk i m /\
              i < length (parts_of c ifs k) /\
              decode_enum val dec is_option default_val (nth i (parts_of c ifs k) []) j = inr m /\
              forall fn c' args, In (Call fn c' args) log -> In fn (map vd_fn (nth i (parts_of c ifs k) [])).
Proof.
  intros c ifs k j ctx log o E D N. rewrite tables_of_spec by exact E.
  apply entry_runs_only_the_owning_part; auto.
Qed.

(* ---- C04: whatever document arrives at the entry point of kind k, only handlers annotated k run ---- *)
Lemma c04f_only_own_kind : forall c ifs k j ctx log o,
  enum_kind k = true ->
  entry_enum val dec is_option default_val ctxT outcome handler (parts_of c ifs k) (tables_of c ifs k) j ctx = ECalled log o ->
  forall fn c' args, In (Call fn c' args) log -> annotated c ifs k fn.
Proof.
  intros c ifs k j ctx log o E H fn c' args I.
  unfold entry_enum in H.
  destruct (decode_wrapper val dec is_option default_val (parts_of c ifs k) (tables_of c ifs k) j) as [i m| | | |] eqn:W;
    try discriminate.
  destruct (dispatch_enum val ctxT outcome handler (nth i (parts_of c ifs k) []) m ctx) as [[lg oo]|] eqn:Dp; [|discriminate].
  injection H as <- <-.
  pose proof (dispatch_enum_log_in_enum val ctxT outcome handler _ _ _ _ _ Dp fn c' args I) as Hin.
  destruct (Nat.lt_ge_cases i (length (parts_of c ifs k))) as [L|G].
  - eapply part_methods_annotated; eauto.
  - rewrite nth_overflow in Hin by exact G. destruct Hin.
Qed.

End MsgProgram.

(* a method annotated with one kind is not annotated with another *)
Lemma method_kind_functional m k1 k2 : method_kind m = Some k1 -> method_kind m = Some k2 -> k1 = k2.
Proof. congruence. Qed.
