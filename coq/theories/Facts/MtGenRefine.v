(* The GENERATED instantiate proxy of the multitest helpers - the templates of sylvia-derive/src/contract/mt.rs
   (emit_instantiate_proxy, emit_instantiate2_body, emit_code_id) TRANSLATED on every run (GenImp.mtgen_fns): their holes
   stand for types only (erased) or splice the nested template, so this is the code every contract gets. Run together
   with the translated run-time library (GenImp.mt_program: App::app_mut, downcast_error).

   As in Facts/MtRefine.v the chain is not part of the program: `instantiate_contract` / `execute` (cw-multi-test) and
   cw_utils::parse_instantiate_response_data are `extern::..` calls, answered here by stubs that RECORD THE REQUEST they
   received next to an arbitrary payload, as a success or as a failure of an arbitrary error type. What `call` returns then
   shows which single request the proxy made, with which fields, and what it did with the answer.

   Proof method: every statement below is about loop-free code over symbolic values, so one run of the executable
   evaluator at a concrete fuel computes the result, and `calls_of_run` (more fuel never changes a result) turns it into
   the statement for every sufficiently large fuel. Nesting depth 3 suffices (proxy -> app_mut / downcast_error / chain). *)
From Coq Require Import String List Bool Arith Lia.
Require Import SV.Model.Imp SV.Model.GenImp SV.Facts.ImpFacts SV.Facts.MtRefine.
Import ListNotations.
Open Scope string_scope.
Open Scope list_scope.

Definition inst_params := ["app"; "code_id"; "sender"; "init_msg"; "send_funds"; "label"; "admin"].
Definition exec_raw_params := ["app"; "sender"; "msg"].

(* execute answers with an AppResponse whose data is the record of the request *)
Definition exec_stub (ok : bool) (ty txt : string) (payload : value) : fn_def :=
  let d := ECon "chain::did" [EConst (VStr "extern::execute"); EArr (map EVar exec_raw_params); EConst payload] in
  {| fn_name := "extern::execute"; fn_params := exec_raw_params; fn_consts := [];
     fn_body := if ok then ECon "Ok" [ERecord "AppResponse" [("events", EArr []); ("data", ECon "Some" [d])] None]
                else ECon "Err" [ECon "anyhow::Error" [EConst (VStr ty); d; EConst (VStr txt)]] |}.

(* the parser of the instantiate response gives back what it was handed as the new contract's address, or fails *)
Definition parse_stub (ok2 : bool) : fn_def :=
  {| fn_name := "extern::parse_instantiate_response_data"; fn_params := ["data"]; fn_consts := [];
     fn_body := if ok2 then ECon "Ok" [ERecord "MsgInstantiateContractResponse" [("contract_address", EVar "data"); ("data", ECon "None" [])] None]
                else ECon "Err" [EConst (VStr "parse error")] |}.

(* `downcast_error` is proved on its own, for every error type (MtRefine.translated_downcast_error); here it is a function
   that records its argument, so that the statements below show THAT a failure goes through it, for every error type *)
Definition downcast_stub : fn_def :=
  {| fn_name := "downcast_error"; fn_params := ["err"]; fn_consts := []; fn_body := ECon "downcast_error" [EVar "err"] |}.

Definition PG (ok ok2 : bool) (ty txt : string) (payload : value) : program :=
  downcast_stub :: mt_program ++ mtgen_fns ++
  [chain_op "extern::instantiate_contract" inst_params ok ty txt payload; exec_stub ok ty txt payload; parse_stub ok2].

Definition none : value := VCon "None" [].
Definition some (v : value) : value := VCon "Some" [v].
Definition ip_val (cid funds label admin salt msg : value) : value :=
  VRec "InstantiateProxy" [("code_id", cid); ("funds", funds); ("label", label); ("admin", admin); ("salt", salt); ("msg", msg)].
Definition code_id_val (n app : value) : value := VRec "CodeId" [("code_id", n); ("app", app); ("_phantom", VCon "PhantomData" [])].
Definition proxy_val (addr app : value) : value := VRec "Proxy" [("contract_addr", addr); ("app", app); ("_phantom", VCon "PhantomData" [])].

Local Ltac run := apply (calls_of_run _ 3 120); [reflexivity | vm_compute; reflexivity].

Section Gen.
Variables (ok ok2 : bool) (ty txt : string) (payload : value).
Notation P := (PG ok ok2 ty txt payload).

(* the proxy as `CodeId::instantiate` creates it: no funds, the label "Contract", no admin, no salt *)
Lemma calls_code_id_instantiate cid :
  calls P 3 "CodeId::instantiate" [cid]
    (CVal (ip_val cid (VArr []) (VStr "Contract") none none (VRec "InstantiateMsg" []))).
Proof. destruct ok, ok2; run. Qed.

Lemma calls_ip_with_funds c f l a s m f' :
  calls P 3 "InstantiateProxy::with_funds" [ip_val c f l a s m; f'] (CVal (ip_val c f' l a s m)).
Proof. destruct ok, ok2; run. Qed.
Lemma calls_ip_with_label c f l a s m l' :
  calls P 3 "InstantiateProxy::with_label" [ip_val c f l a s m; l'] (CVal (ip_val c f l' a s m)).
Proof. destruct ok, ok2; run. Qed.
(* with_admin / with_salt take a value or an Option of it *)
Lemma calls_ip_with_admin_str c f l a s m x :
  calls P 3 "InstantiateProxy::with_admin" [ip_val c f l a s m; VStr x] (CVal (ip_val c f l (some (VStr x)) s m)).
Proof. destruct ok, ok2; run. Qed.
Lemma calls_ip_with_admin_some c f l a s m x :
  calls P 3 "InstantiateProxy::with_admin" [ip_val c f l a s m; some x] (CVal (ip_val c f l (some x) s m)).
Proof. destruct ok, ok2; run. Qed.
Lemma calls_ip_with_admin_none c f l a s m :
  calls P 3 "InstantiateProxy::with_admin" [ip_val c f l a s m; none] (CVal (ip_val c f l none s m)).
Proof. destruct ok, ok2; run. Qed.
Lemma calls_ip_with_salt_bytes c f l a s m x :
  calls P 3 "InstantiateProxy::with_salt" [ip_val c f l a s m; VArr x] (CVal (ip_val c f l a (some (VArr x)) m)).
Proof. destruct ok, ok2; run. Qed.
Lemma calls_ip_with_salt_some c f l a s m x :
  calls P 3 "InstantiateProxy::with_salt" [ip_val c f l a s m; some x] (CVal (ip_val c f l a (some x) m)).
Proof. destruct ok, ok2; run. Qed.
Lemma calls_ip_with_salt_none c f l a s m :
  calls P 3 "InstantiateProxy::with_salt" [ip_val c f l a s m; none] (CVal (ip_val c f l a none m)).
Proof. destruct ok, ok2; run. Qed.

(* ---- option setters in any order: each sets its own field, the last one wins *)
Inductive ip_step :=
| IFunds (v : value) | ILabel (v : value)
| IAdminStr (x : string) | IAdminSome (x : value) | IAdminNone
| ISaltBytes (x : list value) | ISaltSome (x : value) | ISaltNone.

Record ip_opts := { o_funds : value; o_label : value; o_admin : value; o_salt : value }.
Definition ip_init : ip_opts := {| o_funds := VArr []; o_label := VStr "Contract"; o_admin := none; o_salt := none |}.
Definition ip_apply (o : ip_opts) (s : ip_step) : ip_opts :=
  match s with
  | IFunds v => {| o_funds := v; o_label := o_label o; o_admin := o_admin o; o_salt := o_salt o |}
  | ILabel v => {| o_funds := o_funds o; o_label := v; o_admin := o_admin o; o_salt := o_salt o |}
  | IAdminStr x => {| o_funds := o_funds o; o_label := o_label o; o_admin := some (VStr x); o_salt := o_salt o |}
  | IAdminSome x => {| o_funds := o_funds o; o_label := o_label o; o_admin := some x; o_salt := o_salt o |}
  | IAdminNone => {| o_funds := o_funds o; o_label := o_label o; o_admin := none; o_salt := o_salt o |}
  | ISaltBytes x => {| o_funds := o_funds o; o_label := o_label o; o_admin := o_admin o; o_salt := some (VArr x) |}
  | ISaltSome x => {| o_funds := o_funds o; o_label := o_label o; o_admin := o_admin o; o_salt := some x |}
  | ISaltNone => {| o_funds := o_funds o; o_label := o_label o; o_admin := o_admin o; o_salt := none |}
  end.
Definition ip_rep (cid msg : value) (o : ip_opts) : value := ip_val cid (o_funds o) (o_label o) (o_admin o) (o_salt o) msg.
Definition step_call (s : ip_step) : string * value :=
  match s with
  | IFunds v => ("InstantiateProxy::with_funds", v) | ILabel v => ("InstantiateProxy::with_label", v)
  | IAdminStr x => ("InstantiateProxy::with_admin", VStr x) | IAdminSome x => ("InstantiateProxy::with_admin", some x)
  | IAdminNone => ("InstantiateProxy::with_admin", none)
  | ISaltBytes x => ("InstantiateProxy::with_salt", VArr x) | ISaltSome x => ("InstantiateProxy::with_salt", some x)
  | ISaltNone => ("InstantiateProxy::with_salt", none)
  end.

Fixpoint ip_chain (v : value) (ss : list ip_step) (vfinal : value) : Prop :=
  match ss with
  | [] => v = vfinal
  | s :: r => exists v', calls P 3 (fst (step_call s)) [v; snd (step_call s)] (CVal v') /\ ip_chain v' r vfinal
  end.

Lemma ip_step_spec cid msg o s :
  calls P 3 (fst (step_call s)) [ip_rep cid msg o; snd (step_call s)] (CVal (ip_rep cid msg (ip_apply o s))).
Proof.
  destruct o as [f l a sl]. destruct s; unfold ip_rep; cbn [step_call fst snd ip_apply o_funds o_label o_admin o_salt].
  - apply calls_ip_with_funds. - apply calls_ip_with_label.
  - apply calls_ip_with_admin_str. - apply calls_ip_with_admin_some. - apply calls_ip_with_admin_none.
  - apply calls_ip_with_salt_bytes. - apply calls_ip_with_salt_some. - apply calls_ip_with_salt_none.
Qed.

Lemma ip_chain_spec cid msg : forall ss o, ip_chain (ip_rep cid msg o) ss (ip_rep cid msg (fold_left ip_apply ss o)).
Proof.
  induction ss as [|s r IH]; intros o; [reflexivity|].
  cbn [ip_chain fold_left]. exists (ip_rep cid msg (ip_apply o s)). split; [apply ip_step_spec | apply IH].
Qed.

(* ---- call *)
(* without a salt: exactly the request instantiate_contract(app, code id, sender, message, funds, label, admin) *)
Definition inst_request (inner n sender msg : value) (o : ip_opts) : list value :=
  [inner; n; sender; msg; o_funds o; o_label o; o_admin o].

Lemma calls_ip_call_plain n inner msg sender f l a :
  calls P 3 "InstantiateProxy::call" [ip_val (code_id_val n (app_val inner)) f l a none msg; sender]
    (CVal (let d := did "extern::instantiate_contract" [inner; n; sender; msg; f; l; a] payload in
           if ok then VCon "Ok" [proxy_val d (app_val inner)]
           else VCon "Err" [VCon "downcast_error" [anyhow ty d txt]])).
Proof. destruct ok, ok2; run. Qed.

(* with a salt: exactly the request execute(app, sender, Instantiate2 {admin, code_id, msg, funds, label, salt}) *)
Definition inst2_msg (n msg f l a salt : value) : value :=
  VCon "Into::into" [VRec "WasmMsg::Instantiate2"
    [("admin", a); ("code_id", n); ("msg", VCon "to_json_binary" [msg]); ("funds", f); ("label", l); ("salt", VCon "Into::into" [salt])]].

Lemma calls_ip_call_salt_ok n inner msg sender f l a salt :
  ok = true ->
  calls P 3 "InstantiateProxy::call" [ip_val (code_id_val n (app_val inner)) f l a (some salt) msg; sender]
    (CVal (let d := did "extern::execute" [inner; sender; inst2_msg n msg f l a salt] payload in
           if ok2 then VCon "Ok" [proxy_val d (app_val inner)]
           else VCon "Err" [VCon "Into::into" [VCon "StdError::GenericErr" [VStr "parse error"]]])).
Proof. intros ->. destruct ok2; run. Qed.

Lemma calls_ip_call_salt_err n inner msg sender f l a salt :
  ok = false ->
  calls P 3 "InstantiateProxy::call" [ip_val (code_id_val n (app_val inner)) f l a (some salt) msg; sender]
    (CVal (VCon "Err" [VCon "From::from" [VCon "downcast_error"
       [anyhow ty (did "extern::execute" [inner; sender; inst2_msg n msg f l a salt] payload) txt]]])).
Proof. intros ->. destruct ok2; run. Qed.

End Gen.

(* ------------------------------------------------------------------------------------------ *)
(* The four kinds of generated PROXY METHOD (templates emit_mt_method_definition of contract/mt.rs; GenImp.mtmeth_fns): the
   method's name is `<kind>_method`, its parameter list one symbolic argument `args`, the message it builds the constructor
   value `<Kind>Msg::of [args]` - so the statements hold for every contract, every method and all arguments. Run with
   the translated ExecProxy / MigrateProxy / App::app_mut of multitest.rs. *)
Definition PM (ok : bool) (ty txt : string) (payload : value) : program :=
  downcast_stub :: mt_program ++ mtmeth_fns ++
  [chain_op "extern::execute_contract" exec_params ok ty txt payload;
   chain_op "extern::migrate_contract" migrate_params ok ty txt payload;
   chain_op "extern::query_wasm_smart" ["querier"; "contract_addr"; "msg"] ok ty txt payload;
   chain_op "extern::wasm_sudo" ["app"; "contract_addr"; "msg"] ok ty txt payload].

Definition msg_of (kind : string) (args : value) : value := VCon kind [args].

(* what a proxy makes of the chain's answer to the request `req`: success unchanged; failure through `conv` *)
Definition answered (ok : bool) (ty txt : string) (payload : value) (conv : value -> value) (name : string) (req : list value) : value :=
  if ok then VCon "Ok" [did name req payload] else VCon "Err" [conv (anyhow ty (did name req payload) txt)].
Definition via_downcast (e : value) : value := VCon "downcast_error" [e].
Definition via_into (e : value) : value := VCon "Into::into" [e].

Section Methods.
Variables (ok : bool) (ty txt : string) (payload : value).
Notation P := (PM ok ty txt payload).

Lemma calls_exec_method addr app args :
  calls P 3 "ProxyT::exec_method" [proxy_val addr app; args] (CVal (exec_proxy addr (msg_of "ExecMsg::of" args) app (VArr []))).
Proof. destruct ok; run. Qed.

Lemma calls_pm_with_funds addr msg app f f' :
  calls P 3 "ExecProxy::with_funds" [exec_proxy addr msg app f; f'] (CVal (exec_proxy addr msg app f')).
Proof. destruct ok; run. Qed.

Lemma calls_pm_exec_call addr msg inner f sender :
  calls P 3 "ExecProxy::call" [exec_proxy addr msg (app_val inner) f; sender]
    (CVal (answered ok ty txt payload via_downcast "extern::execute_contract" [inner; sender; addr; msg; f])).
Proof. unfold answered. destruct ok; run. Qed.

Fixpoint pm_funds_chain (v : value) (fs : list value) (vfinal : value) : Prop :=
  match fs with
  | [] => v = vfinal
  | f :: r => exists v', calls P 3 "ExecProxy::with_funds" [v; f] (CVal v') /\ pm_funds_chain v' r vfinal
  end.

Lemma pm_funds_chain_spec addr msg app : forall fs f0,
  pm_funds_chain (exec_proxy addr msg app f0) fs (exec_proxy addr msg app (last fs f0)).
Proof.
  induction fs as [|f r IH]; intros f0; [reflexivity|].
  cbn [pm_funds_chain]. exists (exec_proxy addr msg app f). split; [apply calls_pm_with_funds|].
  rewrite last_cons. apply IH.
Qed.

(* exec, whole path, for every contract / method / arguments: proxy.method(args) -> with_funds* -> call(sender) makes exactly
   the request execute_contract(app, sender, the proxy's address, the method's message of args, the last funds) *)
Theorem generated_exec_path addr inner args fs sender :
  exists p0 p1,
    calls P 3 "ProxyT::exec_method" [proxy_val addr (app_val inner); args] (CVal p0) /\
    pm_funds_chain p0 fs p1 /\
    calls P 3 "ExecProxy::call" [p1; sender]
      (CVal (answered ok ty txt payload via_downcast "extern::execute_contract"
               [inner; sender; addr; msg_of "ExecMsg::of" args; last fs (VArr [])])).
Proof.
  exists (exec_proxy addr (msg_of "ExecMsg::of" args) (app_val inner) (VArr [])),
         (exec_proxy addr (msg_of "ExecMsg::of" args) (app_val inner) (last fs (VArr []))).
  split; [apply calls_exec_method|]. split; [apply pm_funds_chain_spec | apply calls_pm_exec_call].
Qed.

(* query: one request query_wasm_smart(the app's querier, address, message); an error is converted with Into::into *)
Theorem generated_query_method addr app args :
  calls P 3 "ProxyT::query_method" [proxy_val addr app; args]
    (CVal (answered ok ty txt payload via_into "extern::query_wasm_smart" [app; addr; msg_of "QueryMsg::of" args])).
Proof. unfold answered. destruct ok; run. Qed.

(* sudo: one request wasm_sudo(app, address, message); a failure goes through downcast_error *)
Theorem generated_sudo_method addr inner args :
  calls P 3 "ProxyT::sudo_method" [proxy_val addr (app_val inner); args]
    (CVal (answered ok ty txt payload via_downcast "extern::wasm_sudo" [inner; addr; msg_of "SudoMsg::of" args])).
Proof. unfold answered. destruct ok; run. Qed.

(* migrate: proxy.method(args).call(sender, code id) makes exactly migrate_contract(app, sender, address, message, code id) *)
Theorem generated_migrate_path addr inner args sender code :
  exists p0,
    calls P 3 "ProxyT::migrate_method" [proxy_val addr (app_val inner); args] (CVal p0) /\
    calls P 3 "MigrateProxy::call" [p0; sender; code]
      (CVal (answered ok ty txt payload via_downcast "extern::migrate_contract"
               [inner; sender; addr; msg_of "MigrateMsg::new" args; code])).
Proof.
  exists (migrate_proxy addr (msg_of "MigrateMsg::new" args) (app_val inner)).
  unfold answered. split; destruct ok; run.
Qed.

End Methods.
