(* The overlap check of sylvia/src/utils.rs, TRANSLATED from the Rust source (GenImp.utils_program, regenerated on
   every run), refines the hand-written model of Model/Intersect.v: whenever the model finishes (Done) or reports
   a collision (Panic) - which, by Facts/IntersectFacts.v, is always the case on strictly sorted lists - the
   translated `assert_no_intersection` returns resp. panics with the overlap message, for every number and length
   of lists. Proof: one lemma per translated function (should_end, init_states, get_next_alphabetical_index,
   verify_no_collissions, assert_no_intersection); loop-free fragments by computation, loops by induction. *)
From Coq Require Import String List Bool Arith Lia.
From Coq Require Import Sorted.
Require Import SV.Base.StrOrder SV.Model.Imp SV.Model.GenImp SV.Model.Intersect SV.Model.ImpRun SV.Facts.ImpFacts SV.Facts.IntersectFacts.
Import ListNotations.
Open Scope string_scope.
Open Scope list_scope.


(* ---------------------------------------------------------------- encoding; should_end *)


Notation P := utils_program.

Definition body_of (g : string) : expr :=
  match find_fn P g with Some fd => fn_body fd | None => EConst VUnit end.

Definition se_loop_body : expr :=
  Eval vm_compute in
  match body_of "should_end" with EBlock (SExpr (EFor _ _ _ b) :: _) => b | _ => EConst VUnit end.

Definition se_env (sts : list st) : env := [("N", VNat (length sts)); ("states", enc_sts sts)].

Lemma se_body_step d sts k s :
  nth_error sts k = Some s ->
  evals P d se_loop_body (("i", VNat k) :: se_env sts)
    (if is_ongoing s then (CRet (VBool false), ("i", VNat k) :: se_env sts) else (CVal VUnit, ("i", VNat k) :: se_env sts)).
Proof.
  intros Hs. apply (evals_compute P 20). intros g fl.
  unfold se_loop_body, se_env, enc_sts. simpl.
  rewrite (map_nth_error enc_st _ _ Hs). 
  destruct s; simpl; reflexivity.
Qed.

Lemma skipn_nth_cons {A} (l : list A) k x : nth_error l k = Some x -> skipn k l = x :: skipn (S k) l.
Proof. revert k; induction l as [|y l IH]; intros [|k] H; simpl in *; try discriminate; [congruence|auto]. Qed.

Lemma se_loop d sts : forall n k, k + n = length sts ->
  evals_for P d "i" k n se_loop_body (se_env sts)
    (if should_end (skipn k sts) then (CVal VUnit, se_env sts) else (CRet (VBool false), se_env sts)).
Proof.
  induction n as [|n IH]; intros k Hk.
  - rewrite skipn_all2 by lia. simpl. apply ev_for_nil.
  - destruct (nth_error sts k) as [s|] eqn:Hs; [|apply nth_error_None in Hs; lia].
    rewrite (skipn_nth_cons _ _ _ Hs). unfold should_end. simpl forallb.
    pose proof (se_body_step d sts k s Hs) as Hb.
    destruct (is_ongoing s) eqn:Ho; simpl.
    + eapply ev_for_abort; [exact Hb|reflexivity|reflexivity].
    + eapply ev_for_step; [exact Hb|reflexivity|reflexivity|]. apply IH. lia.
Qed.

Lemma calls_should_end d sts :
  calls P (S d) "should_end" [enc_sts sts] (CVal (VBool (should_end sts))).
Proof.
  eapply calls_intro with (c := if should_end sts then CVal (VBool true) else CRet (VBool false)); try reflexivity.
  2:{ destruct (should_end sts); reflexivity. }
  simpl fn_body. rewrite map_length. fold (enc_sts sts). fold (se_env sts). eapply ev_block; [|reflexivity].
  pose proof (se_loop d sts (length sts) 0 eq_refl) as HL. simpl skipn in HL.
  destruct (should_end sts).
  - eapply ev_stmts_expr.
    + eapply ev_for; [apply (evals_compute P 3); intros; reflexivity | apply (evals_compute P 3); intros; reflexivity |].
      simpl. rewrite Nat.sub_0_r. exact HL.
    + apply ev_stmts_tail. apply (evals_compute P 3); intros; reflexivity.
  - eapply ev_stmts_expr_abort; [|reflexivity].
    eapply ev_for; [apply (evals_compute P 3); intros; reflexivity | apply (evals_compute P 3); intros; reflexivity |].
    simpl. rewrite Nat.sub_0_r. exact HL.
Qed.


(* ---------------------------------------------------------------- init_states *)


Lemma imp_set_nth_enc sts k s : k < length sts ->
  Imp.set_nth (map enc_st sts) k (enc_st s) = Some (map enc_st (Intersect.set_nth sts k s)).
Proof.
  revert k; induction sts as [|x sts IH]; intros [|k] Hk; simpl in *; try lia; [reflexivity|].
  rewrite IH by lia. reflexivity.
Qed.

Definition is_loop_body : expr :=
  Eval vm_compute in
  match body_of "init_states" with EBlock (_ :: SExpr (EFor _ _ _ b) :: _) => b | _ => EConst VUnit end.

Definition is_env (ls : list (list string)) (sts : list st) : env :=
  [("states", enc_sts sts); ("N", VNat (length ls)); ("msgs", enc_ls ls)].

Definition init_one (l : list string) (s : st) : st := match l with [] => Empty | _ => s end.

Lemma is_body_step d ls sts k l :
  nth_error ls k = Some l -> k < length sts ->
  evals P d is_loop_body (("i", VNat k) :: is_env ls sts)
    (CVal VUnit, ("i", VNat k) :: is_env ls (match l with [] => Intersect.set_nth sts k Empty | _ => sts end)).
Proof.
  intros Hl Hk. apply (evals_compute P 20). intros g fl.
  unfold is_loop_body, is_env, enc_ls, enc_sts. simpl.
  rewrite (map_nth_error (fun l => VArr (map VStr l)) _ _ Hl). simpl.
  destruct l as [|x l]; simpl; [|reflexivity].
  destruct (nth_error (map enc_st sts) k) eqn:E; [|apply nth_error_None in E; rewrite map_length in E; lia].
  change (VCon "State::Empty" []) with (enc_st Empty). rewrite imp_set_nth_enc by assumption. reflexivity.
Qed.

Lemma set_nth_app {B} (pre : list B) x r v : Intersect.set_nth (pre ++ x :: r) (length pre) v = pre ++ v :: r.
Proof. induction pre as [|y pre IH]; simpl; [reflexivity|]. rewrite IH. reflexivity. Qed.

Lemma map_repeat' {A B} (f : A -> B) x n : map f (repeat x n) = repeat (f x) n.
Proof. induction n; simpl; congruence. Qed.

Lemma is_loop d ls : forall n k pre, k + n = length ls -> length pre = k ->
  evals_for P d "i" k n is_loop_body (is_env ls (pre ++ repeat (Ongoing 0) n))
    (CVal VUnit, is_env ls (pre ++ init_states (skipn k ls))).
Proof.
  induction n as [|n IH]; intros k pre Hk Hp.
  - rewrite skipn_all2 by lia. simpl. apply ev_for_nil.
  - destruct (nth_error ls k) as [l|] eqn:Hl; [|apply nth_error_None in Hl; lia].
    rewrite (skipn_nth_cons _ _ _ Hl). simpl repeat.
    assert (Hlen : k < length (pre ++ Ongoing 0 :: repeat (Ongoing 0) n)) by (rewrite app_length; simpl; lia).
    pose proof (is_body_step d ls _ k l Hl Hlen) as Hb.
    eapply ev_for_step; [exact Hb|reflexivity|reflexivity|].
    specialize (IH (S k) (pre ++ [match l with [] => Empty | _ => Ongoing 0 end])).
    rewrite app_length in IH. simpl in IH. specialize (IH ltac:(lia) ltac:(lia)).
    rewrite <- !app_assoc in IH. simpl in IH.
    destruct l as [|x l]; simpl.
    + subst k. rewrite set_nth_app. exact IH.
    + exact IH.
Qed.

Lemma calls_init_states d ls :
  calls P (S d) "init_states" [enc_ls ls] (CVal (enc_sts (init_states ls))).
Proof.
  eapply calls_intro with (c := CVal (enc_sts (init_states ls))); try reflexivity.
  simpl fn_body. unfold enc_ls at 1. rewrite map_length. fold (enc_ls ls).
  eapply ev_block; [|reflexivity].
  eapply ev_stmts_let with (v := enc_sts (repeat (Ongoing 0) (length ls))) (b := [("states", enc_sts (repeat (Ongoing 0) (length ls)))]).
  - apply (evals_compute P 6). intros g fl. simpl. unfold enc_sts. rewrite map_repeat'. reflexivity.
  - reflexivity.
  - simpl app. fold (is_env ls (repeat (Ongoing 0) (length ls))).
    eapply ev_stmts_expr.
    + eapply ev_for; [apply (evals_compute P 3); intros; reflexivity | apply (evals_compute P 3); intros; reflexivity |].
      rewrite Nat.sub_0_r. exact (is_loop d ls (length ls) 0 [] eq_refl eq_refl).
    + apply ev_stmts_tail. apply (evals_compute P 3); intros; reflexivity.
Qed.


(* ---------------------------------------------------------------- get_next_alphabetical_index *)


Definition gn_loop_body : expr :=
  Eval vm_compute in
  match body_of "get_next_alphabetical_index" with EBlock (_ :: SExpr (EFor _ _ _ b) :: _) => b | _ => EConst VUnit end.

Definition gn_env (ls : list (list string)) (sts : list st) (out : nat) : env :=
  [("output_index", VNat out); ("N", VNat (length ls)); ("msgs", enc_ls ls); ("states", enc_sts sts)].

Lemma ltb_compare a b : String.ltb b a = match String.compare a b with Gt => true | _ => false end.
Proof. unfold String.ltb. rewrite (String.compare_antisym a b). destruct (String.compare b a); reflexivity. Qed.

Lemma elem_enc (ls : list (list string)) k i a :
  elem ls k i = Some a ->
  exists l, nth_error (map (fun l => VArr (map VStr l)) ls) k = Some (VArr (map VStr l)) /\
            nth_error (map VStr l) i = Some (VStr a).
Proof.
  unfold elem. destruct (nth_error ls k) as [l|] eqn:E; [|discriminate]. intros H. exists l. split.
  - apply (map_nth_error (fun l => VArr (map VStr l)) _ _ E).
  - apply (map_nth_error VStr _ _ H).
Qed.

Lemma gn_body_step d ls sts out k out' :
  next_step ls sts out k = Some out' ->
  evals P d gn_loop_body (("i", VNat k) :: gn_env ls sts out) (CVal VUnit, ("i", VNat k) :: gn_env ls sts out').
Proof.
  unfold next_step. intros H. apply (evals_compute P 30). intros g fl.
  unfold gn_loop_body, gn_env, enc_sts, enc_ls. simpl.
  destruct (nth_error sts k) as [s|] eqn:Hk; [|discriminate].
  rewrite (map_nth_error enc_st _ _ Hk).
  destruct s as [oi| |]; simpl.
  - destruct (nth_error sts out) as [so|] eqn:Ho; [|discriminate].
    rewrite (map_nth_error enc_st _ _ Ho).
    destruct so as [ii| |]; simpl.
    + destruct (elem ls out ii) as [a|] eqn:Ea; [|discriminate].
      destruct (elem ls k oi) as [b|] eqn:Eb; [|discriminate].
      destruct (elem_enc _ _ _ _ Ea) as (la & Ha1 & Ha2). destruct (elem_enc _ _ _ _ Eb) as (lb & Hb1 & Hb2).
      rewrite Ha1. simpl. rewrite Ha2. simpl. rewrite Hb1. simpl. rewrite Hb2. simpl.
      injection H as <-. change (@ltb _ string_ord b a) with (String.ltb b a). rewrite ltb_compare.
      destruct (String.compare a b); reflexivity.
    + injection H as <-. reflexivity.
    + injection H as <-. reflexivity.
  - injection H as <-. reflexivity.
  - injection H as <-. reflexivity.
Qed.

Lemma gn_loop d ls sts : forall n k out res,
  get_next_from ls sts out (seq k n) = Some res ->
  evals_for P d "i" k n gn_loop_body (gn_env ls sts out) (CVal VUnit, gn_env ls sts res).
Proof.
  induction n as [|n IH]; intros k out res H; simpl in H.
  - injection H as <-. apply ev_for_nil.
  - destruct (next_step ls sts out k) as [o|] eqn:Hs; [|discriminate].
    eapply ev_for_step; [exact (gn_body_step d ls sts out k o Hs)|reflexivity|reflexivity|].
    apply IH. exact H.
Qed.

Lemma calls_get_next d ls sts idx :
  length sts = length ls -> get_next ls sts = Some idx ->
  calls P (S d) "get_next_alphabetical_index" [enc_ls ls; enc_sts sts] (CVal (VNat idx)).
Proof.
  intros Hlen H. unfold get_next in H.
  eapply calls_intro with (c := CVal (VNat idx)); try reflexivity.
  simpl fn_body. unfold enc_ls at 1. rewrite map_length. fold (enc_ls ls).
  eapply ev_block; [|reflexivity].
  eapply ev_stmts_let with (v := VNat 0) (b := [("output_index", VNat 0)]).
  - apply (evals_compute P 3). intros; reflexivity.
  - reflexivity.
  - simpl app. fold (gn_env ls sts 0).
    eapply ev_stmts_expr.
    + eapply ev_for; [apply (evals_compute P 3); intros; reflexivity | apply (evals_compute P 3); intros; reflexivity |].
      rewrite Nat.sub_0_r, <- Hlen. apply gn_loop. exact H.
    + apply ev_stmts_tail. apply (evals_compute P 3); intros; reflexivity.
Qed.


(* ---------------------------------------------------------------- verify_no_collissions *)


(* the message of the first `panic!` of an expression (whatever its wording) *)
Fixpoint find_panic (fuel : nat) (e : expr) : option string :=
  match fuel with
  | 0 => None
  | S f =>
      let first := fix first (l : list expr) : option string :=
        match l with [] => None | x :: r => match find_panic f x with Some m => Some m | None => first r end end in
      match e with
      | EPanic k m => if k =? "panic" then Some m else None
      | EBlock ss => first (map (fun s => match s with SLet _ a | SExpr a | STail a => a end) ss)
      | EIf c t e' => first [c; t; e']
      | EIfLet _ s t e' => first [s; t; e']
      | EMatch s arms => first (s :: map snd arms)
      | EWhile c b => first [c; b]
      | EFor _ lo hi b => first [lo; hi; b]
      | _ => None
      end
  end.

Definition overlap_msg : string :=
  Eval vm_compute in match find_panic 40 (body_of "verify_no_collissions") with Some m => m | None => "" end.

Definition vf_cond : expr :=
  Eval vm_compute in
  match body_of "verify_no_collissions" with EBlock [_; STail (EWhile c _)] => c | _ => EConst VUnit end.
Definition vf_body : expr :=
  Eval vm_compute in
  match body_of "verify_no_collissions" with EBlock [_; STail (EWhile _ b)] => b | _ => EConst VUnit end.

Definition vf_env (ls : list (list string)) (sts : list st) (index i : nat) : env :=
  [("i", VNat i); ("N", VNat (length ls)); ("msgs", enc_ls ls); ("states", enc_sts sts); ("index", VNat index)].

Lemma vf_body_false d ls sts index i :
  verify_one ls sts index i = Some false ->
  exists c, is_normal c = true /\ evals P d vf_body (vf_env ls sts index i) (c, vf_env ls sts index (S i)).
Proof.
  unfold verify_one. intros H.
  destruct (Nat.eqb i index) eqn:Ei.
  - exists CCont. split; [reflexivity|]. apply (evals_compute P 30). intros g fl.
    unfold vf_body, vf_env. simpl. rewrite Ei. simpl. rewrite Nat.add_1_r. reflexivity.
  - exists (CVal VUnit). split; [reflexivity|]. apply (evals_compute P 40). intros g fl.
    unfold vf_body, vf_env, enc_sts, enc_ls. simpl. rewrite Ei. simpl.
    destruct (nth_error sts i) as [s|] eqn:Hi; [|discriminate].
    rewrite (map_nth_error enc_st _ _ Hi).
    assert (Hcommon : forall o, (s = Ongoing o \/ s = Finished o) ->
       match nth_error sts index with
       | Some (Ongoing inner) =>
           match elem ls i o, elem ls index inner with Some a, Some b => Some (@eqb _ string_ord a b) | _, _ => None end
       | Some _ => Some false
       | None => None
       end = Some false) by (intros o [-> | ->]; exact H).
    destruct s as [o|o|]; simpl.
    1,2: specialize (Hcommon o ltac:(auto));
         destruct (nth_error sts index) as [si|] eqn:Hx; [|discriminate];
         rewrite (map_nth_error enc_st _ _ Hx);
         destruct si as [inner| |]; simpl; try (rewrite Nat.add_1_r; reflexivity);
         destruct (elem ls i o) as [a|] eqn:Ea; [|discriminate];
         destruct (elem ls index inner) as [b|] eqn:Eb; [|discriminate];
         destruct (elem_enc _ _ _ _ Ea) as (la & Ha1 & Ha2); destruct (elem_enc _ _ _ _ Eb) as (lb & Hb1 & Hb2);
         rewrite Ha1; simpl; rewrite Ha2; simpl; rewrite Hb1; simpl; rewrite Hb2; simpl;
         injection Hcommon as Hc; change (@eqb _ string_ord a b) with (String.eqb a b) in Hc; rewrite Hc; simpl;
         rewrite Nat.add_1_r; reflexivity.
    rewrite Nat.add_1_r. reflexivity.
Qed.

Lemma vf_body_true d ls sts index i :
  verify_one ls sts index i = Some true ->
  evals P d vf_body (vf_env ls sts index i) (CPanic "panic" overlap_msg, vf_env ls sts index i).
Proof.
  unfold verify_one. intros H.
  destruct (Nat.eqb i index) eqn:Ei; [discriminate|].
  apply (evals_compute P 40). intros g fl.
  unfold vf_body, vf_env, enc_sts, enc_ls. simpl. rewrite Ei. simpl.
  destruct (nth_error sts i) as [s|] eqn:Hi; [|discriminate].
  rewrite (map_nth_error enc_st _ _ Hi).
  assert (Hcommon : forall o, (s = Ongoing o \/ s = Finished o) ->
     match nth_error sts index with
     | Some (Ongoing inner) =>
         match elem ls i o, elem ls index inner with Some a, Some b => Some (@eqb _ string_ord a b) | _, _ => None end
     | Some _ => Some false
     | None => None
     end = Some true) by (intros o [-> | ->]; exact H).
  destruct s as [o|o|]; simpl; [| |discriminate].
  1,2: specialize (Hcommon o ltac:(auto));
       destruct (nth_error sts index) as [si|] eqn:Hx; [|discriminate];
       rewrite (map_nth_error enc_st _ _ Hx);
       destruct si as [inner| |]; simpl; try discriminate;
       destruct (elem ls i o) as [a|] eqn:Ea; [|discriminate];
       destruct (elem ls index inner) as [b|] eqn:Eb; [|discriminate];
       destruct (elem_enc _ _ _ _ Ea) as (la & Ha1 & Ha2); destruct (elem_enc _ _ _ _ Eb) as (lb & Hb1 & Hb2);
       rewrite Ha1; simpl; rewrite Ha2; simpl; rewrite Hb1; simpl; rewrite Hb2; simpl;
       injection Hcommon as Hc; change (@eqb _ string_ord a b) with (String.eqb a b) in Hc; rewrite Hc; simpl;
       reflexivity.
Qed.

Lemma vf_cond_eval d ls sts index i :
  evals P d vf_cond (vf_env ls sts index i) (CVal (VBool (Nat.ltb i (length ls))), vf_env ls sts index i).
Proof. apply (evals_compute P 5). intros g fl. reflexivity. Qed.

Lemma vf_loop d ls sts index : forall n i b,
  i + n = length ls ->
  verify_from ls sts index (seq i n) = Some b ->
  exists en', evals_while P d vf_cond vf_body (vf_env ls sts index i)
                (if b then CPanic "panic" overlap_msg else CVal VUnit, en').
Proof.
  induction n as [|n IH]; intros i b Hn H; simpl in H.
  - injection H as <-. eexists. eapply ev_while_false.
    pose proof (vf_cond_eval d ls sts index i) as Hc.
    replace (Nat.ltb i (length ls)) with false in Hc by (symmetry; apply Nat.ltb_ge; lia). exact Hc.
  - pose proof (vf_cond_eval d ls sts index i) as Hc.
    replace (Nat.ltb i (length ls)) with true in Hc by (symmetry; apply Nat.ltb_lt; lia).
    destruct (verify_one ls sts index i) as [[|]|] eqn:Hv; [| |discriminate].
    + injection H as <-. eexists. eapply ev_while_abort; [exact Hc|exact (vf_body_true d ls sts index i Hv)|reflexivity].
    + destruct (vf_body_false d ls sts index i Hv) as (c & Hn' & Hb).
      destruct (IH (S i) b ltac:(lia) H) as (en' & Hw).
      exists en'. eapply ev_while_step; [exact Hc|exact Hb|exact Hn'|exact Hw].
Qed.

Lemma calls_verify d ls sts index b :
  length sts = length ls -> verify ls sts index = Some b ->
  calls P (S d) "verify_no_collissions" [enc_ls ls; enc_sts sts; VNat index]
    (if b then CPanic "panic" overlap_msg else CVal VUnit).
Proof.
  intros Hlen H. unfold verify in H. rewrite Hlen in H.
  destruct (vf_loop d ls sts index (length ls) 0 b eq_refl H) as (en' & Hw).
  eapply calls_intro with (c := if b then CPanic "panic" overlap_msg else CVal VUnit); try reflexivity.
  2:{ destruct b; reflexivity. }
  simpl fn_body. unfold enc_ls at 1. rewrite map_length. fold (enc_ls ls).
  eapply ev_block; [|reflexivity].
  eapply ev_stmts_let with (v := VNat 0) (b := [("i", VNat 0)]).
  - apply (evals_compute P 3). intros; reflexivity.
  - reflexivity.
  - simpl app. fold (vf_env ls sts index 0). apply ev_stmts_tail. apply ev_while. exact Hw.
Qed.


(* ---------------------------------------------------------------- assert_no_intersection *)


Definition an_cond : expr :=
  Eval vm_compute in
  match body_of "assert_no_intersection" with EBlock [_; STail (EWhile c _)] => c | _ => EConst VUnit end.
Definition an_body : expr :=
  Eval vm_compute in
  match body_of "assert_no_intersection" with EBlock [_; STail (EWhile _ b)] => b | _ => EConst VUnit end.
Definition an_update : expr :=
  Eval vm_compute in
  match an_body with EBlock [_; _; SExpr u] => u | _ => EConst VUnit end.

Definition an_env (ls : list (list string)) (sts : list st) : env :=
  [("states", enc_sts sts); ("N", VNat (length ls)); ("msgs", enc_ls ls)].

Lemma set_nth_length {B} (l : list B) k v : length (Intersect.set_nth l k v) = length l.
Proof. revert k; induction l as [|x l IH]; intros [|k]; simpl; auto. Qed.

Lemma an_cond_eval d ls sts :
  evals P (S d) an_cond (an_env ls sts) (CVal (VBool (negb (should_end sts))), an_env ls sts).
Proof.
  unfold an_cond. apply ev_not. eapply ev_call.
  - apply (evals_list_compute P 4). intros; reflexivity.
  - apply calls_should_end.
Qed.

Lemma an_update_eval d ls sts index sts' :
  advance ls sts index = Some sts' ->
  evals P (S d) an_update (("index", VNat index) :: an_env ls sts) (CVal VUnit, ("index", VNat index) :: an_env ls sts').
Proof.
  unfold advance. intros H.
  destruct (nth_error sts index) as [[wi| |]|] eqn:Hs; try discriminate.
  destruct (nth_error ls index) as [l|] eqn:Hl; [|discriminate].
  injection H as <-.
  apply (evals_compute P 30). intros g fl.
  unfold an_update, an_env, enc_sts, enc_ls. simpl.
  rewrite (map_nth_error enc_st _ _ Hs). simpl.
  rewrite (map_nth_error (fun l => VArr (map VStr l)) _ _ Hl). simpl.
  rewrite map_length.
  assert (Hk : index < length sts) by (apply nth_error_Some; congruence).
  destruct (Nat.eqb (length l) (wi + 1)); simpl.
  - change (VCon "State::Finished" [VNat wi]) with (enc_st (Finished wi)). rewrite imp_set_nth_enc by assumption. rewrite (map_nth_error enc_st _ _ Hs). reflexivity.
  - change (VCon "State::Ongoing" [VNat (wi + 1)]) with (enc_st (Ongoing (wi + 1))). rewrite imp_set_nth_enc by assumption. rewrite (map_nth_error enc_st _ _ Hs). reflexivity.
Qed.

Definition outcome_ctl (o : outcome) : ctl :=
  match o with Done => CVal VUnit | Panic => CPanic "panic" overlap_msg | Stuck => CPanic "stuck" "" end.

Lemma an_loop d ls : forall fuel sts o,
  length sts = length ls -> run fuel ls sts = o -> o <> Stuck ->
  exists en', evals_while P (S d) an_cond an_body (an_env ls sts) (outcome_ctl o, en').
Proof.
  induction fuel as [|fuel IH]; intros sts o Hlen H Ho; simpl in H; [congruence|].
  pose proof (an_cond_eval d ls sts) as Hc.
  destruct (should_end sts) eqn:He.
  - subst o. eexists. eapply ev_while_false. exact Hc.
  - destruct (get_next ls sts) as [index|] eqn:Hg; [|congruence].
    destruct (verify ls sts index) as [[|]|] eqn:Hv; [| |congruence].
    + (* collision found *)
      subst o. eexists. eapply ev_while_abort with (cb := CPanic "panic" overlap_msg); [exact Hc| |reflexivity].
      unfold an_body. eapply ev_block; [|reflexivity].
      eapply ev_stmts_let with (b := [("index", VNat index)]).
      * eapply ev_call; [apply (evals_list_compute P 4); intros; reflexivity|]. exact (calls_get_next d ls sts index Hlen Hg).
      * reflexivity.
      * eapply ev_stmts_expr_abort; [|reflexivity].
        eapply ev_call; [apply (evals_list_compute P 5); intros; reflexivity|].
        exact (calls_verify d ls sts index true Hlen Hv).
    + destruct (advance ls sts index) as [sts'|] eqn:Ha; [|congruence].
      assert (Hlen' : length sts' = length ls).
      { unfold advance in Ha. destruct (nth_error sts index) as [[wi| |]|]; try discriminate.
        destruct (nth_error ls index); [|discriminate]. injection Ha as <-. rewrite set_nth_length. exact Hlen. }
      destruct (IH sts' o Hlen' H Ho) as (en' & Hw).
      exists en'. eapply ev_while_step with (cb := CVal VUnit); [exact Hc| |reflexivity|exact Hw].
      unfold an_body. eapply ev_block with (en' := ("index", VNat index) :: an_env ls sts'); [|reflexivity].
      eapply ev_stmts_let with (b := [("index", VNat index)]).
      * eapply ev_call; [apply (evals_list_compute P 4); intros; reflexivity|]. exact (calls_get_next d ls sts index Hlen Hg).
      * reflexivity.
      * eapply ev_stmts_expr.
        -- eapply ev_call; [apply (evals_list_compute P 5); intros; reflexivity|].
           exact (calls_verify d ls sts index false Hlen Hv).
        -- eapply ev_stmts_expr; [exact (an_update_eval d ls sts index sts' Ha)|]. apply ev_stmts_nil.
Qed.

Lemma init_states_length (ls : list (list string)) : length (init_states ls) = length ls.
Proof. unfold init_states. apply map_length. Qed.

(* The translated source refines the hand-written model: whenever the model finishes (Done) or reports a collision
   (Panic), so does the translated `assert_no_intersection`, for every number and length of lists. *)
Theorem translated_assert_no_intersection d ls :
  assert_no_intersection ls <> Stuck ->
  calls P (S (S d)) "assert_no_intersection" [enc_ls ls] (outcome_ctl (assert_no_intersection ls)).
Proof.
  intros Ho. unfold assert_no_intersection in *.
  destruct (an_loop d ls _ (init_states ls) _ (init_states_length ls) eq_refl Ho) as (en' & Hw).
  eapply calls_intro with (c := outcome_ctl (run (S (length (concat ls))) ls (init_states ls))); try reflexivity.
  2:{ destruct (run _ ls (init_states ls)); reflexivity. }
  simpl fn_body. unfold enc_ls at 1. rewrite map_length. fold (enc_ls ls).
  eapply ev_block; [|reflexivity].
  eapply ev_stmts_let with (b := [("states", enc_sts (init_states ls))]).
  - eapply ev_call; [apply (evals_list_compute P 4); intros; reflexivity|]. apply calls_init_states.
  - reflexivity.
  - simpl app. fold (an_env ls (init_states ls)). apply ev_stmts_tail. apply ev_while. exact Hw.
Qed.

(* ---------------------------------------------------------------- with the correctness theorem of the model *)
Lemma outcome_ctl_inj o1 o2 : outcome_ctl o1 = outcome_ctl o2 -> o1 = o2.
Proof. destruct o1, o2; simpl; intros H; try reflexivity; discriminate H. Qed.

Lemma translated_outcome d (ls : list (list String.string)) o :
  Forall (StronglySorted slt) ls ->
  (calls P (S (S d)) "assert_no_intersection" [enc_ls ls] (outcome_ctl o) <-> assert_no_intersection ls = o).
Proof.
  intros Hs. pose proof (assert_no_intersection_never_stuck ls Hs) as Hn.
  pose proof (translated_assert_no_intersection d ls Hn) as Ht. split.
  - intros Hc. symmetry. apply outcome_ctl_inj. exact (calls_fun P _ _ _ _ _ Hc Ht).
  - intros <-. exact Ht.
Qed.

Theorem translated_source_panics_iff_shared d (ls : list (list String.string)) :
  Forall (StronglySorted slt) ls ->
  (calls P (S (S d)) "assert_no_intersection" [enc_ls ls] (CPanic "panic" overlap_msg) <-> shares ls).
Proof.
  intros Hs. rewrite <- (assert_no_intersection_panic_iff ls Hs). exact (translated_outcome d ls Panic Hs).
Qed.

Theorem translated_source_passes_iff_disjoint d (ls : list (list String.string)) :
  Forall (StronglySorted slt) ls ->
  (calls P (S (S d)) "assert_no_intersection" [enc_ls ls] (CVal VUnit) <-> ~ shares ls).
Proof.
  intros Hs. rewrite <- (assert_no_intersection_done_iff ls Hs). exact (translated_outcome d ls Done Hs).
Qed.

(* any successful run of the executable evaluator on the translated function, with whatever fuel, returns the model's
   outcome (the evaluator is monotone in the fuel: ImpFacts.call_user_mono) *)
Theorem translated_run_is_model_outcome (ls : list (list String.string)) fl c :
  Forall (StronglySorted slt) ls ->
  call P 3 fl "assert_no_intersection" [enc_ls ls] = Some c ->
  c = outcome_ctl (assert_no_intersection ls).
Proof.
  intros Hs H. change (call P 3 fl "assert_no_intersection" [enc_ls ls])
    with (call_user P 3 fl "assert_no_intersection" [enc_ls ls]) in H.
  pose proof (calls_of_run P 3 fl "assert_no_intersection" [enc_ls ls] c eq_refl H) as Hc.
  pose proof (translated_assert_no_intersection 1 ls (assert_no_intersection_never_stuck ls Hs)) as Ht.
  exact (calls_fun P _ _ _ _ _ Hc Ht).
Qed.
