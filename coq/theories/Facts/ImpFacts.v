(* Reasoning about the evaluator of Model/Imp.v. "e evaluates to r" means: for every sufficiently
   large fuel (of the evaluation and of the callees) the evaluator returns r - a functional
   relation, since the evaluator is a function. Loop-free fragments are discharged by computation at
   a concrete fuel `K + g`; the rules below are the ones needed around loops and calls. *)
From Coq Require Import String List Bool Arith Lia.
Require Import SV.Model.Imp.
Import ListNotations.
Open Scope string_scope.
Open Scope list_scope.

Definition is_val (c : ctl) : bool := match c with CVal _ => true | _ => false end.
Definition is_normal (c : ctl) : bool := match c with CVal _ | CCont => true | _ => false end.
Definition is_abort (c : ctl) : bool := match c with CRet _ | CPanic _ _ => true | _ => false end.
Definition ret_of (c : ctl) : option ctl :=
  match c with CVal v | CRet v => Some (CVal v) | CPanic k m => Some (CPanic k m) | _ => None end.

Section Judgments.
Variable P : program.

Definition evals (d : nat) (e : expr) (en : env) (r : ctl * env) : Prop :=
  exists f0, forall f fl, f0 <= f -> f0 <= fl -> eval (call P d fl) f e en = Some r.
Definition evals_list (d : nat) (es : list expr) (en : env) (r : (ctl + list value) * env) : Prop :=
  exists f0, forall f fl, f0 <= f -> f0 <= fl -> eval_list (call P d fl) f es en = Some r.
Definition evals_stmts (d : nat) (ss : list stmt) (en : env) (r : ctl * env) : Prop :=
  exists f0, forall f fl, f0 <= f -> f0 <= fl -> eval_stmts (call P d fl) f ss en = Some r.
Definition evals_while (d : nat) (c b : expr) (en : env) (r : ctl * env) : Prop :=
  exists f0, forall f fl, f0 <= f -> f0 <= fl -> eval_while (call P d fl) f c b en = Some r.
Definition evals_for (d : nat) (i : string) (k n : nat) (b : expr) (en : env) (r : ctl * env) : Prop :=
  exists f0, forall f fl, f0 <= f -> f0 <= fl -> eval_for (call P d fl) f i k n b en = Some r.
(* a call of a user function *)
Definition calls (d : nat) (g : string) (vs : list value) (c : ctl) : Prop :=
  is_builtin g = false /\ exists f0, forall fl, f0 <= fl -> call_user P d fl g vs = Some c.

(* the evaluator is a function: results are unique *)
Lemma evals_fun d e en r1 r2 : evals d e en r1 -> evals d e en r2 -> r1 = r2.
Proof.
  intros [f1 H1] [f2 H2]. specialize (H1 (max f1 f2) (max f1 f2)). specialize (H2 (max f1 f2) (max f1 f2)).
  rewrite H1 in H2 by lia. injection H2; auto; lia.
Qed.

Lemma calls_fun d g vs c1 c2 : calls d g vs c1 -> calls d g vs c2 -> c1 = c2.
Proof.
  intros [_ [f1 H1]] [_ [f2 H2]]. specialize (H1 (max f1 f2)). specialize (H2 (max f1 f2)).
  rewrite H1 in H2 by lia. injection H2; auto; lia.
Qed.

(* ---- computation at a concrete fuel ---- *)
Lemma evals_compute K d e en r :
  (forall g fl, eval (call P d fl) (K + g) e en = Some r) -> evals d e en r.
Proof. intros H. exists K. intros f fl Hf _. replace f with (K + (f - K)) by lia. apply H. Qed.

Lemma evals_list_compute K d es en r :
  (forall g fl, eval_list (call P d fl) (K + g) es en = Some r) -> evals_list d es en r.
Proof. intros H. exists K. intros f fl Hf _. replace f with (K + (f - K)) by lia. apply H. Qed.

Lemma evals_stmts_compute K d ss en r :
  (forall g fl, eval_stmts (call P d fl) (K + g) ss en = Some r) -> evals_stmts d ss en r.
Proof. intros H. exists K. intros f fl Hf _. replace f with (K + (f - K)) by lia. apply H. Qed.

(* ---- structural rules ---- *)
Local Ltac start H1 f1 := destruct H1 as [f1 H1].
Local Ltac fuel f0 := exists (S f0); intros f fl Hf Hfl; destruct f as [|f]; [lia|].

Lemma ev_block d ss en c en' en'' :
  evals_stmts d ss en (c, en') -> leave en en' = en'' -> evals d (EBlock ss) en (c, en'').
Proof. intros [f1 H1] <-. fuel f1. simpl. rewrite H1 by lia. reflexivity. Qed.

Lemma ev_stmts_nil d en : evals_stmts d [] en (CVal VUnit, en).
Proof. exists 1. intros f fl Hf _. destruct f; [lia|]. reflexivity. Qed.

Lemma ev_stmts_let d p a r en v en1 b res :
  evals d a en (CVal v, en1) -> pmatch p v = Some b -> evals_stmts d r (b ++ en1) res ->
  evals_stmts d (SLet p a :: r) en res.
Proof.
  intros [f1 H1] Hp [f2 H2]. fuel (max f1 f2). simpl. rewrite H1 by lia. simpl.
  rewrite Hp. apply H2; lia.
Qed.

Lemma ev_stmts_expr d a r en v en1 res :
  evals d a en (CVal v, en1) -> evals_stmts d r en1 res -> evals_stmts d (SExpr a :: r) en res.
Proof.
  intros [f1 H1] [f2 H2]. fuel (max f1 f2). simpl. rewrite H1 by lia. simpl. apply H2; lia.
Qed.

Lemma ev_stmts_expr_abort d a r en c en1 :
  evals d a en (c, en1) -> is_val c = false -> evals_stmts d (SExpr a :: r) en (c, en1).
Proof.
  intros [f1 H1] Hc. fuel f1. simpl. rewrite H1 by lia. destruct c; try discriminate; reflexivity.
Qed.

Lemma ev_stmts_let_abort d p a r en c en1 :
  evals d a en (c, en1) -> is_val c = false -> evals_stmts d (SLet p a :: r) en (c, en1).
Proof.
  intros [f1 H1] Hc. fuel f1. simpl. rewrite H1 by lia. destruct c; try discriminate; reflexivity.
Qed.

Lemma ev_stmts_tail d a r en res : evals d a en res -> evals_stmts d (STail a :: r) en res.
Proof. intros [f1 H1]. fuel f1. simpl. apply H1; lia. Qed.

Lemma ev_not d a en b en1 :
  evals d a en (CVal (VBool b), en1) -> evals d (ENot a) en (CVal (VBool (negb b)), en1).
Proof. intros [f1 H1]. fuel f1. simpl. rewrite H1 by lia. reflexivity. Qed.

Lemma ev_call d g args en vs en' c :
  evals_list d args en (inr vs, en') -> calls d g vs c -> evals d (ECall g args) en (c, en').
Proof.
  intros [f1 H1] [Hb [f2 H2]]. fuel (max f1 f2). simpl. rewrite H1 by lia.
  replace (call P d fl g vs) with (call_user P d fl g vs) by (unfold call; rewrite Hb; reflexivity).
  rewrite H2 by lia. reflexivity.
Qed.

Lemma ev_for d i lo hi b en l en1 h en2 res :
  evals d lo en (CVal (VNat l), en1) -> evals d hi en1 (CVal (VNat h), en2) ->
  evals_for d i l (h - l) b en2 res -> evals d (EFor i lo hi b) en res.
Proof.
  intros [f1 H1] [f2 H2] [f3 H3]. fuel (max f1 (max f2 f3)). simpl.
  rewrite H1 by lia. simpl. rewrite H2 by lia. simpl. apply H3; lia.
Qed.

Lemma ev_for_nil d i k b en : evals_for d i k 0 b en (CVal VUnit, en).
Proof. exists 1. intros f fl Hf _. destruct f; [lia|]. reflexivity. Qed.

Lemma ev_for_step d i k n b en c en2 en3 res :
  evals d b ((i, VNat k) :: en) (c, en2) -> is_normal c = true -> leave en en2 = en3 ->
  evals_for d i (S k) n b en3 res -> evals_for d i k (S n) b en res.
Proof.
  intros [f1 H1] Hc <- [f2 H2]. fuel (max f1 f2). simpl. rewrite H1 by lia.
  destruct c; try discriminate; apply H2; lia.
Qed.

Lemma ev_for_abort d i k n b en c en2 en3 :
  evals d b ((i, VNat k) :: en) (c, en2) -> is_abort c = true -> leave en en2 = en3 ->
  evals_for d i k (S n) b en (c, en3).
Proof.
  intros [f1 H1] Hc <-. fuel f1. simpl. rewrite H1 by lia. destruct c; try discriminate; reflexivity.
Qed.

Lemma ev_while d c b en res : evals_while d c b en res -> evals d (EWhile c b) en res.
Proof. intros [f1 H1]. fuel f1. simpl. apply H1; lia. Qed.

Lemma ev_while_false d c b en en1 :
  evals d c en (CVal (VBool false), en1) -> evals_while d c b en (CVal VUnit, en1).
Proof. intros [f1 H1]. fuel f1. simpl. rewrite H1 by lia. reflexivity. Qed.

Lemma ev_while_step d c b en en1 cb en2 res :
  evals d c en (CVal (VBool true), en1) -> evals d b en1 (cb, en2) -> is_normal cb = true ->
  evals_while d c b en2 res -> evals_while d c b en res.
Proof.
  intros [f1 H1] [f2 H2] Hc [f3 H3]. fuel (max f1 (max f2 f3)). simpl. rewrite H1 by lia. simpl.
  rewrite H2 by lia. destruct cb; try discriminate; apply H3; lia.
Qed.

Lemma ev_while_abort d c b en en1 cb en2 :
  evals d c en (CVal (VBool true), en1) -> evals d b en1 (cb, en2) -> is_abort cb = true ->
  evals_while d c b en (cb, en2).
Proof.
  intros [f1 H1] [f2 H2] Hc. fuel (max f1 f2). simpl. rewrite H1 by lia. simpl.
  rewrite H2 by lia. destruct cb; try discriminate; reflexivity.
Qed.

(* ---- argument lists, constructors, match ---- *)
Definition evals_arms (d : nat) (v : value) (arms : list (pat * expr)) (en : env) (r : ctl * env) : Prop :=
  exists f0, forall f fl, f0 <= f -> f0 <= fl -> eval_arms (call P d fl) f v arms en = Some r.

Lemma ev_list_nil d en : evals_list d [] en (inr [], en).
Proof. exists 1. intros f fl Hf _. destruct f; [lia|]. reflexivity. Qed.

Lemma ev_list_cons d a r en v en1 vs en2 :
  evals d a en (CVal v, en1) -> evals_list d r en1 (inr vs, en2) -> evals_list d (a :: r) en (inr (v :: vs), en2).
Proof.
  intros [f1 H1] [f2 H2]. fuel (max f1 f2). simpl. rewrite H1 by lia. rewrite H2 by lia. reflexivity.
Qed.

Lemma ev_con d c args en vs en' :
  evals_list d args en (inr vs, en') -> evals d (ECon c args) en (CVal (VCon c vs), en').
Proof. intros [f1 H1]. fuel f1. simpl. rewrite H1 by lia. reflexivity. Qed.

Lemma ev_match d s arms en v en1 res :
  evals d s en (CVal v, en1) -> evals_arms d v arms en1 res -> evals d (EMatch s arms) en res.
Proof.
  intros [f1 H1] [f2 H2]. fuel (max f1 f2). simpl. rewrite H1 by lia. simpl. apply H2; lia.
Qed.

Lemma ev_arm_hit d v p body r en b c en2 :
  pmatch p v = Some b -> evals d body (b ++ en) (c, en2) -> evals_arms d v ((p, body) :: r) en (c, leave en en2).
Proof.
  intros Hp [f1 H1]. fuel f1. simpl. rewrite Hp. rewrite H1 by lia. reflexivity.
Qed.

Lemma ev_arm_miss d v p body r en res :
  pmatch p v = None -> evals_arms d v r en res -> evals_arms d v ((p, body) :: r) en res.
Proof.
  intros Hp [f1 H1]. fuel f1. simpl. rewrite Hp. apply H1; lia.
Qed.

Lemma ev_iflet_hit d p s t e en v en1 b c en2 :
  evals d s en (CVal v, en1) -> pmatch p v = Some b -> evals d t (b ++ en1) (c, en2) ->
  evals d (EIfLet p s t e) en (c, leave en1 en2).
Proof.
  intros [f1 H1] Hp [f2 H2]. fuel (max f1 f2). simpl. rewrite H1 by lia. simpl. rewrite Hp.
  rewrite H2 by lia. reflexivity.
Qed.

Lemma ev_iflet_miss d p s t e en v en1 res :
  evals d s en (CVal v, en1) -> pmatch p v = None -> evals d e en1 res -> evals d (EIfLet p s t e) en res.
Proof.
  intros [f1 H1] Hp [f2 H2]. fuel (max f1 f2). simpl. rewrite H1 by lia. simpl. rewrite Hp. apply H2; lia.
Qed.

(* a `for` loop with an invariant *)
Lemma ev_for_inv d i b (Inv : nat -> env -> Prop) : forall n k en,
  Inv k en ->
  (forall j en', k <= j < k + n -> Inv j en' ->
     exists v en2, evals d b ((i, VNat j) :: en') (CVal v, en2) /\ Inv (S j) (leave en' en2)) ->
  exists enf, evals_for d i k n b en (CVal VUnit, enf) /\ Inv (k + n) enf.
Proof.
  induction n as [|n IH]; intros k en HI Hstep.
  - exists en. split; [apply ev_for_nil|]. rewrite Nat.add_0_r. exact HI.
  - destruct (Hstep k en ltac:(lia) HI) as (v & en2 & Hb & HI2).
    destruct (IH (S k) (leave en en2) HI2) as (enf & Hf & HIf).
    + intros j en' Hj. apply Hstep. lia.
    + exists enf. split.
      * eapply ev_for_step; [exact Hb | reflexivity | reflexivity | exact Hf].
      * replace (k + S n) with (S k + n) by lia. exact HIf.
Qed.

(* a built-in applied to evaluated arguments; assignment to a whole variable *)
Lemma ev_call_builtin d g args en vs en' c :
  evals_list d args en (inr vs, en') -> is_builtin g = true -> builtin g vs = Some c -> evals d (ECall g args) en (c, en').
Proof.
  intros [f1 H1] Hb Hc. fuel f1. simpl. rewrite H1 by lia. unfold call. rewrite Hb, Hc. reflexivity.
Qed.

Lemma ev_assign_var d x rhs en v en1 old en2 :
  evals d rhs en (CVal v, en1) -> lookup x en1 = Some old -> update x v en1 = Some en2 ->
  evals d (EAssign x [] rhs) en (CVal VUnit, en2).
Proof.
  intros [f1 H1] Hl Hu. fuel (S f1). simpl. rewrite H1 by lia. simpl.
  destruct f as [|f']; [lia|]. simpl. rewrite Hl. simpl. rewrite Hu. reflexivity.
Qed.

(* ---- calls of user functions ---- *)
Lemma calls_intro d g args fd en0 c en' c' :
  is_builtin g = false -> find_fn P g = Some fd -> bind_params fd args = Some en0 ->
  evals d (fn_body fd) en0 (c, en') -> ret_of c = Some c' -> calls (S d) g args c'.
Proof.
  intros Hb Hf Hp [f1 H1] Hr. split; [exact Hb|]. exists f1. intros fl Hfl.
  simpl. rewrite Hf, Hp.
  change (fun g0 vs => if is_builtin g0 then builtin g0 vs else call_user P d fl g0 vs) with (call P d fl).
  rewrite H1 by lia. destruct c; cbn in Hr; try discriminate; injection Hr as <-; reflexivity.
Qed.

End Judgments.

(* ------------------------------------------------------------------------------------------ *)
(* More fuel (and a callee that answers at least as often) never changes a result: a single successful run of the
   executable evaluator determines "the" result. *)
Definition callf_le (c1 c2 : string -> list value -> option ctl) : Prop :=
  forall g vs r, c1 g vs = Some r -> c2 g vs = Some r.

Section Mono.
Variables c1 c2 : string -> list value -> option ctl.
Hypothesis Hc : callf_le c1 c2.

Ltac use_ih IH E f' := first [rewrite (IH _ _ _ E f') by lia | rewrite (IH _ _ _ _ E f') by lia | rewrite (IH _ _ _ _ _ _ E f') by lia].

Ltac head_step f' IHe IHl IHs IHa IHw IHf IHx :=
  match goal with
  | H : Some _ = Some _ |- _ => injection H as <-
  | H : None = Some _ |- _ => discriminate H
  | H : match eval c1 ?f ?a ?en with _ => _ end = Some _ |- _ =>
      let E := fresh "E" in destruct (eval c1 f a en) as [[? ?]|] eqn:E; [rewrite (IHe _ _ _ E f') by lia|discriminate H]
  | H : match eval_list c1 ?f ?a ?en with _ => _ end = Some _ |- _ =>
      let E := fresh "E" in destruct (eval_list c1 f a en) as [[? ?]|] eqn:E; [rewrite (IHl _ _ _ E f') by lia|discriminate H]
  | H : match eval_stmts c1 ?f ?a ?en with _ => _ end = Some _ |- _ =>
      let E := fresh "E" in destruct (eval_stmts c1 f a en) as [[? ?]|] eqn:E; [rewrite (IHs _ _ _ E f') by lia|discriminate H]
  | H : match eval_sels c1 ?f ?a ?en with _ => _ end = Some _ |- _ =>
      let E := fresh "E" in destruct (eval_sels c1 f a en) as [[? ?]|] eqn:E; [rewrite (IHx _ _ _ E f') by lia|discriminate H]
  | H : match c1 ?g ?vs with _ => _ end = Some _ |- _ =>
      let E := fresh "E" in destruct (c1 g vs) eqn:E; [rewrite (Hc _ _ _ E)|discriminate H]
  | H : eval c1 ?f ?a ?en = Some _ |- _ => rewrite (IHe _ _ _ H f') by lia; clear H
  | H : eval_arms c1 ?f ?v ?a ?en = Some _ |- _ => rewrite (IHa _ _ _ _ H f') by lia; clear H
  | H : eval_while c1 ?f ?c ?b ?en = Some _ |- _ => rewrite (IHw _ _ _ _ H f') by lia; clear H
  | H : eval_for c1 ?f ?i ?k ?n ?b ?en = Some _ |- _ => rewrite (IHf _ _ _ _ _ _ H f') by lia; clear H
  | H : eval_stmts c1 ?f ?a ?en = Some _ |- _ => rewrite (IHs _ _ _ H f') by lia; clear H
  | H : eval_sels c1 ?f ?a ?en = Some _ |- _ => rewrite (IHx _ _ _ H f') by lia; clear H
  | H : eval_list c1 ?f ?a ?en = Some _ |- _ => rewrite (IHl _ _ _ H f') by lia; clear H
  | H : match ?x with _ => _ end = Some _ |- _ => destruct x eqn:?
  | H : (if ?x then _ else _) = Some _ |- _ => destruct x eqn:?
  end.

Ltac crush f' IHe IHl IHs IHa IHw IHf IHx :=
  repeat (unfold bindv in *; try reflexivity; head_step f' IHe IHl IHs IHa IHw IHf IHx); unfold bindv; try reflexivity; try congruence.

Lemma eval_mono_all : forall f,
  (forall e en r, eval c1 f e en = Some r -> forall f', f <= f' -> eval c2 f' e en = Some r) /\
  (forall es en r, eval_list c1 f es en = Some r -> forall f', f <= f' -> eval_list c2 f' es en = Some r) /\
  (forall ss en r, eval_stmts c1 f ss en = Some r -> forall f', f <= f' -> eval_stmts c2 f' ss en = Some r) /\
  (forall v arms en r, eval_arms c1 f v arms en = Some r -> forall f', f <= f' -> eval_arms c2 f' v arms en = Some r) /\
  (forall c b en r, eval_while c1 f c b en = Some r -> forall f', f <= f' -> eval_while c2 f' c b en = Some r) /\
  (forall i k n b en r, eval_for c1 f i k n b en = Some r -> forall f', f <= f' -> eval_for c2 f' i k n b en = Some r) /\
  (forall sels en r, eval_sels c1 f sels en = Some r -> forall f', f <= f' -> eval_sels c2 f' sels en = Some r).
Proof.
  induction f as [|f IH].
  - repeat split; intros; simpl in *; discriminate.
  - destruct IH as (IHe & IHl & IHs & IHa & IHw & IHf & IHx).
    repeat split.
    + intros e en r H f' Hf. destruct f' as [|f']; [lia|].
      destruct e; simpl in H |- *; crush f' IHe IHl IHs IHa IHw IHf IHx.
    + intros es en r H f' Hf. destruct f' as [|f']; [lia|].
      destruct es; simpl in H |- *; crush f' IHe IHl IHs IHa IHw IHf IHx.
    + intros ss en r H f' Hf. destruct f' as [|f']; [lia|].
      destruct ss as [|s ss]; [|destruct s]; simpl in H |- *; crush f' IHe IHl IHs IHa IHw IHf IHx.
    + intros v arms en r H f' Hf. destruct f' as [|f']; [lia|].
      destruct arms as [|[p body] arms]; simpl in H |- *; crush f' IHe IHl IHs IHa IHw IHf IHx.
    + intros c b en r H f' Hf. destruct f' as [|f']; [lia|].
      simpl in H |- *; crush f' IHe IHl IHs IHa IHw IHf IHx.
    + intros i k n b en r H f' Hf. destruct f' as [|f']; [lia|].
      destruct n; simpl in H |- *; crush f' IHe IHl IHs IHa IHw IHf IHx.
    + intros sels en r H f' Hf. destruct f' as [|f']; [lia|].
      destruct sels as [|s sels]; [|destruct s]; simpl in H |- *; crush f' IHe IHl IHs IHa IHw IHf IHx.
Qed.
End Mono.

Lemma callf_le_refl c : callf_le c c.
Proof. intros g vs r H. exact H. Qed.

Section CallMono.
Variable P : program.

Lemma call_user_mono : forall d fl fl' g vs c,
  fl <= fl' -> call_user P d fl g vs = Some c -> call_user P d fl' g vs = Some c.
Proof.
  induction d as [|d IH]; intros fl fl' g vs c Hfl H; simpl in *; [discriminate|].
  destruct (find_fn P g) as [fd|]; [|discriminate].
  destruct (bind_params fd vs) as [en0|]; [|discriminate].
  set (c1 := fun g0 vs0 => if is_builtin g0 then builtin g0 vs0 else call_user P d fl g0 vs0) in *.
  set (c2 := fun g0 vs0 => if is_builtin g0 then builtin g0 vs0 else call_user P d fl' g0 vs0).
  assert (Hle : callf_le c1 c2).
  { intros g0 vs0 r0. unfold c1, c2. destruct (is_builtin g0); [auto|]. apply IH. exact Hfl. }
  destruct (eval c1 fl (fn_body fd) en0) as [[cr en']|] eqn:E; [|discriminate].
  destruct (eval_mono_all c1 c2 Hle fl) as (He & _).
  rewrite (He _ _ _ E fl' Hfl). exact H.
Qed.

(* one successful run with some fuel fixes the result for every larger fuel *)
Lemma calls_of_run d fl g vs c :
  is_builtin g = false -> call_user P d fl g vs = Some c -> calls P d g vs c.
Proof.
  intros Hb H. split; [exact Hb|]. exists fl. intros fl' Hfl. exact (call_user_mono d fl fl' g vs c Hfl H).
Qed.

End CallMono.
