(* Names of generated items per kind: injective, and wrapper names clear of part names. *)
From Coq Require Import String List Bool.
Require Import SV.Model.Kinds SV.Model.GenTables.
Import ListNotations.

Lemma ep_name_is_cw k : ep_name k = cw_entry_point_name k.
Proof. destruct k; reflexivity. Qed.

Lemma ep_name_inj a b : ep_name a = ep_name b -> a = b.
Proof. destruct a, b; vm_compute; intros H; try reflexivity; discriminate H. Qed.

Lemma msg_name_inj a b : msg_name a = msg_name b -> a = b.
Proof. destruct a, b; vm_compute; intros H; try reflexivity; discriminate H. Qed.

Lemma accessor_name_inj a b : accessor_name a = accessor_name b -> a = b.
Proof. destruct a, b; vm_compute; intros H; try reflexivity; discriminate H. Qed.

Definition enum_kind (k : kind) : bool := match k with KExec | KQuery | KSudo => true | _ => false end.

Lemma wrapper_name_inj a b : wrapper_name a = wrapper_name b -> a = b.
Proof. destruct a, b; vm_compute; intros H; try reflexivity; discriminate H. Qed.

Lemma wrapper_accessor_name_inj a b : wrapper_accessor_name a = wrapper_accessor_name b -> a = b.
Proof. destruct a, b; vm_compute; intros H; try reflexivity; discriminate H. Qed.

(* a contract-level wrapper type is never confused with a part's own type *)
Lemma wrapper_vs_part a b : enum_kind a = true -> wrapper_name a <> msg_name b.
Proof. destruct a, b; vm_compute; intros H E; try discriminate H; discriminate E. Qed.

Lemma wrapper_acc_vs_part a b : enum_kind a = true -> wrapper_accessor_name a <> accessor_name b.
Proof. destruct a, b; vm_compute; intros H E; try discriminate H; discriminate E. Qed.

Lemma wrapper_name_struct k : enum_kind k = false -> wrapper_name k = msg_name k.
Proof. destruct k; vm_compute; intros H; try reflexivity; discriminate H. Qed.
