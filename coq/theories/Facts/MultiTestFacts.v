(* Multitest proxies perform the chain operation the raw JSON call would (C12). *)
From Coq Require Import String List Bool NArith.
Require Import SV.Base.Json SV.Model.MultiTest.
Import ListNotations.
Open Scope string_scope.

Lemma ip_steps_spec steps : forall p,
  fold_left ip_apply steps p =
  {| ip_code := ip_code p; ip_msg := ip_msg p;
     ip_funds := fold_left (fun acc s => match s with WithFunds f => f | _ => acc end) steps (ip_funds p);
     ip_label := fold_left (fun acc s => match s with WithLabel l => l | _ => acc end) steps (ip_label p);
     ip_admin := fold_left (fun acc s => match s with WithAdmin a => a | _ => acc end) steps (ip_admin p);
     ip_salt := fold_left (fun acc s => match s with WithSalt x => x | _ => acc end) steps (ip_salt p) |}.
Proof.
  induction steps as [|s r IH]; intros p; simpl; [destruct p; reflexivity|]. rewrite IH. destruct s; reflexivity.
Qed.

Lemma xp_steps_spec fs : forall p,
  fold_left xp_with_funds fs p =
  {| xp_contract := xp_contract p; xp_msg := xp_msg p; xp_funds := fold_left (fun _ f => f) fs (xp_funds p) |}.
Proof. induction fs as [|f r IH]; intros p; simpl; [destruct p; reflexivity|]. rewrite IH. reflexivity. Qed.

(* every proxy call is the chain operation of the corresponding raw JSON call: same operation kind,
   sender, target, funds, label (default "Contract"), admin, salt and message *)
Theorem proxy_is_the_raw_operation c : proxy_op c = raw_op c.
Proof.
  destruct c as [code msg steps sender|contract msg fs sender|contract msg|contract msg|contract msg sender code]; simpl; try reflexivity.
  - rewrite ip_steps_spec. unfold ip_call, last_salt, last_funds, last_label, last_admin. simpl.
    destruct (fold_left (fun acc s => match s with WithSalt x => x | _ => acc end) steps None); reflexivity.
  - rewrite xp_steps_spec. reflexivity.
Qed.

(* hence, whatever the chain does, a history issued through proxies and the same history issued as raw
   JSON end in equal chains with equal results *)
Section Chain.
Variable chain out : Type.
Variable step : chain -> chain_op -> chain * out.

Definition run (ops : list chain_op) (c : chain) : chain * list out :=
  fold_left (fun acc op => let '(c', o) := step (fst acc) op in (c', (snd acc ++ [o])%list)) ops (c, []).

Theorem proxy_history_equals_raw_history calls c :
  run (map proxy_op calls) c = run (map raw_op calls) c.
Proof. f_equal. apply map_ext. intros a. apply proxy_is_the_raw_operation. Qed.
End Chain.

(* error surfacing *)
Theorem contract_error_surfaces_unchanged {E} (from_std : string -> E) (e : E) : surface from_std (ErrContract e) = e.
Proof. reflexivity. Qed.
