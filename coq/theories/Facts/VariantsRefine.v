(* `MsgVariants::new` (sylvia-derive/src/types/msg_variant.rs, translated on every run into GenImpGenerics.generics_fns together
   with the functions it calls): the variants of ONE message kind, and the generics / bounds of the message type built from
   them. The closure of its `filter_map` (which uses `?`, `return None` and hands the generics checker on as `&mut`) is
   translated as a function of its own (`MsgVariants::new::closure1`: parameter, captured variables; result: its value and
   the updated checker).

   Stub: `MsgVariant::new(sig, &mut checker, msg_attr, attrs)` answers the variant made of exactly these and the checker with
   one more entry in `used` (GenericsRefine.GEN); `attr_msg()` / `attrs_to_forward()` / `into_sig()` of the description are translated too (parser/variant_descs.rs). *)
From Coq Require Import String List Bool Arith Lia.
Require Import SV.Model.Imp SV.Model.GenImpGenerics SV.Facts.ImpFacts SV.Facts.MacroRefine SV.Facts.GenericsRefine.
Import ListNotations.
Open Scope string_scope.
Open Scope list_scope.

(* the description of one method: its `sv::msg` attribute if it has one (kind, everything else), the attributes to forward,
   the signature *)
Record desc := { d_msg : option (string * value); d_forward : value; d_sig : value }.
Definition msg_attr_v (m : string * value) : value := VRec "MsgAttr" [("msg_type", kind_v (fst m)); ("other", snd m)].
Definition desc_v (x : desc) : value :=
  VRec "VariantDesc" [("msg_attr", match d_msg x with Some m => some (msg_attr_v m) | None => none end);
                      ("attrs_to_forward", d_forward x); ("sig", d_sig x)].

Definition of_kind (ty : string) (x : desc) : bool := match d_msg x with Some (k, _) => k =? ty | None => false end.
Definition variant_of (x : desc) : value :=
  VCon "MsgVariant" [d_sig x; match d_msg x with Some m => msg_attr_v m | None => none end; d_forward x].
Definition traversed (x : desc) : value := VCon "visited the signature" [d_sig x].

Local Ltac cmp K := apply (evals_compute _ K); intros ?gg ?fl; reflexivity.

(* the closure: a method without `sv::msg` or of another kind gives nothing and leaves the checker alone; a method of the asked
   kind gives its variant and the checker after its signature was traversed *)
Lemma translated_variants_closure d (x : desc) ty gens used :
  calls GEN (S (S d)) "MsgVariants::new::closure1" [desc_v x; kind_v ty; checker_v gens used]
    (CVal (VCon "()" [if of_kind ty x then some (variant_of x) else none;
                      checker_v gens (if of_kind ty x then used ++ [traversed x] else used)])).
Proof.
  destruct x as [[[k r]|] f sg]; unfold of_kind; cbn [d_msg].
  - destruct (k =? ty) eqn:Ek.
    + eapply calls_intro with (c := CVal _); try reflexivity.
      apply (evals_compute_calls _ 40). intros gg hh. simpl. rewrite ?andb_true_r, Ek. reflexivity.
    + eapply calls_intro with (c := CRet _); try reflexivity.
      apply (evals_compute_calls _ 40). intros gg hh. simpl. rewrite ?andb_true_r, Ek. reflexivity.
  - apply (calls_of_run _ _ 40); [reflexivity | vm_compute; reflexivity].
Qed.

Definition wc_v (wc : option (list pred * value)) : value :=
  match wc with Some (ps, o) => some (clause_v ps o) | None => none end.
Definition kept_preds (used : list value) (wc : option (list pred * value)) : list value :=
  match wc with Some (ps, _) => map pred_v (filter (keeps used) ps) | None => [] end.

Lemma filter_wheres_any d wc gens used :
  calls GEN (S (S d)) "filter_wheres" [wc_v wc; VArr gens; VArr used] (CVal (VArr (kept_preds used wc))).
Proof. destruct wc as [[ps o]|]; [apply translated_filter_wheres | apply translated_filter_wheres_none]. Qed.

(* For EVERY list of method descriptions: the message of kind ty gets one variant per method carrying `sv::msg` of THAT kind -
   in declaration order, built from that method's own signature, attribute and forwarded attributes - and no other; the
   generics checker is threaded through exactly those methods, and the type's used / unused generics and kept bounds are
   computed from what it collected *)
Theorem translated_msg_variants_new d (ds : list desc) ty gens wc :
  let sel := filter (of_kind ty) ds in
  let used := map traversed sel in
  calls GEN (S (S (S d))) "MsgVariants::new" [VArr (map desc_v ds); kind_v ty; VArr gens; wc_v wc]
    (CVal (VRec "MsgVariants"
       [("variants", VArr (map variant_of sel)); ("used_generics", VArr used);
        ("unused_generics", VArr (filter (fun g => negb (mem g used)) gens));
        ("where_predicates", VArr (kept_preds used wc)); ("msg_ty", kind_v ty)])).
Proof.
  intros sel used.
  set (params := [("source", VArr (map desc_v ds)); ("msg_ty", kind_v ty); ("all_generics", VArr gens); ("unfiltered_where_clause", wc_v wc)]).
  eapply calls_intro with (c := CVal (VRec "MsgVariants"
       [("variants", VArr (map variant_of sel)); ("used_generics", VArr used);
        ("unused_generics", VArr (filter (fun g => negb (mem g used)) gens));
        ("where_predicates", VArr (kept_preds used wc)); ("msg_ty", kind_v ty)])) (en' := params); try reflexivity.
  simpl fn_body. cbn [app combine fn_params]. fold params.
  match goal with |- context [EFor "fmc_i1" ?lo ?hi ?b] =>
    destruct (ev_for_inv GEN (S (S d)) "fmc_i1" b
                (fun j en' => en' = ("fmc_acc1", VArr (map variant_of (filter (of_kind ty) (firstn j ds)))) ::
                                    ("fmc_src1", VArr (map desc_v ds)) ::
                                    ("generics_checker", checker_v gens (map traversed (filter (of_kind ty) (firstn j ds)))) :: params)
                (length ds) 0
                (("fmc_acc1", VArr []) :: ("fmc_src1", VArr (map desc_v ds)) :: ("generics_checker", checker_v gens []) :: params))
      as (enf & Hfor & Hinv) end.
  - reflexivity.
  - intros j en' Hj ->.
    destruct (nth_error ds j) as [x|] eqn:Hnth; [|apply nth_error_None in Hnth; lia].
    assert (Hm : nth_error (map desc_v ds) j = Some (desc_v x)) by (rewrite nth_error_map, Hnth; reflexivity).
    rewrite (firstn_snoc _ _ _ Hnth), filter_snoc, !map_app.
    pose proof (translated_variants_closure d x ty gens (map traversed (filter (of_kind ty) (firstn j ds)))) as Hclo.
    destruct (of_kind ty x); cbn [map]; rewrite ?app_nil_r;
      (eexists; eexists; split;
        [ eapply ev_block; [|reflexivity];
          eapply ev_stmts_let;
            [ eapply ev_call; [apply (evals_list_compute _ 8); intros gg fl; simpl; rewrite Hm; reflexivity | exact Hclo]
            | reflexivity | ];
          apply (evals_stmts_compute _ 14); intros gg fl; reflexivity
        | reflexivity ]).
  - rewrite Hinv in Hfor. cbn [Nat.add] in Hfor. rewrite firstn_all in Hfor. fold sel in Hfor. fold used in Hfor.
    assert (Hlen : forall gg fl en, eval (call GEN (S (S d)) fl) (4 + gg) (ECall "len" [EVar "fmc_src1"])
                     (("fmc_acc1", VArr []) :: ("fmc_src1", VArr (map desc_v ds)) :: en) =
                   Some (CVal (VNat (length ds)), ("fmc_acc1", VArr []) :: ("fmc_src1", VArr (map desc_v ds)) :: en))
      by (intros gg fl en; simpl; rewrite map_length; reflexivity).
    eapply ev_block;
      [ (eapply ev_stmts_let; [apply (evals_compute_calls _ 10); intros gg hh; reflexivity | reflexivity |]); cbn [app];
        eapply ev_stmts_let;
          [ eapply ev_block;
              [ (eapply ev_stmts_let; [cmp 4 | reflexivity |]); (eapply ev_stmts_let; [cmp 4 | reflexivity |]); cbn [app];
                eapply ev_stmts_expr;
                  [ eapply ev_for; [cmp 2 | apply (evals_compute _ 4); intros ?gg ?fl; apply Hlen | rewrite Nat.sub_0_r; exact Hfor]
                  | apply ev_stmts_tail; cmp 4 ]
              | reflexivity ]
          | reflexivity | ];
        cbn [app];
        eapply ev_stmts_let;
          [ eapply ev_call; [apply (evals_list_compute _ 8); intros gg fl; reflexivity | apply (translated_used_unused (S d))]
          | reflexivity | ];
        cbn [app];
        eapply ev_stmts_let;
          [ eapply ev_call; [apply (evals_list_compute _ 8); intros gg fl; reflexivity | apply filter_wheres_any]
          | reflexivity | ];
        cbn [app]; apply ev_stmts_tail; cmp 20
      | reflexivity ].
Qed.

(* what is selected: exactly the methods whose `sv::msg` names the asked kind *)
Lemma selected_methods ty (ds : list desc) x :
  In x (filter (of_kind ty) ds) <-> In x ds /\ exists r, d_msg x = Some (ty, r).
Proof.
  rewrite filter_In. unfold of_kind. split.
  - intros [Hi H]. split; [exact Hi|]. destruct (d_msg x) as [[k r]|]; [|discriminate]. apply String.eqb_eq in H. subst k. eauto.
  - intros [Hi [r ->]]. split; [exact Hi|]. apply String.eqb_refl.
Qed.
