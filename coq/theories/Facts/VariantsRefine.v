(* `MsgVariants::new` (sylvia-derive/src/types/msg_variant.rs, translated on every run into GenImpGenerics.generics_fns together
   with the functions it calls): the variants of ONE message kind, and the generics / bounds of the message type built from
   them. The closure of its `filter_map` (which uses `?`, `return None` and hands the generics checker on as `&mut`) is
   translated as a function of its own (`MsgVariants::new::closure1`: parameter, captured variables; result: its value and
   the updated checker).

   `MsgVariant::new` itself is translated too (its `&mut CheckGenerics` parameter by state passing: it answers the variant and
   the checker afterwards), as are `attr_msg()` / `attrs_to_forward()` / `into_sig()` of the description
   (parser/variant_descs.rs). Stubs: `process_fields` (the fields of a signature; its traversal of the signature is
   recorded in the checker), syn's `visit_type` / `visit_path` (recorded), `StripSelfPath.fold_path`, `to_case`. *)
From Coq Require Import String List Bool Arith Lia.
Require Import SV.Model.Imp SV.Model.GenImpGenerics SV.Facts.ImpFacts SV.Facts.MacroRefine SV.Facts.GenericsRefine.
Import ListNotations.
Open Scope string_scope.
Open Scope list_scope.

(* the description of one method: its `sv::msg` attribute if it has one (kind, the response type it names - an Option - and
   everything else), the attributes to forward, the signature (its name, its return type, everything else) *)
Record desc := { d_msg : option (string * value * value); d_forward : value; d_sig : value }.
Definition msg_attr_v (m : string * value * value) : value :=
  VRec "MsgAttr" [("msg_type", kind_v (fst (fst m))); ("resp_type", snd (fst m)); ("other", snd m)].
Definition desc_v (x : desc) : value :=
  VRec "VariantDesc" [("msg_attr", match d_msg x with Some m => some (msg_attr_v m) | None => none end);
                      ("attrs_to_forward", d_forward x); ("sig", d_sig x)].
Definition sig_v (ident output other : value) : value := VRec "Signature" [("ident", ident); ("output", output); ("other", other)].

Definition of_kind (ty : string) (x : desc) : bool := match d_msg x with Some (k, _, _) => k =? ty | None => false end.

(* `MsgVariant::new` (translated): the variant of a method - named after the method, carrying the method's own fields,
   attribute and forwarded attributes - and, for a query, its response type: the one written in `resp=` when there is one,
   else the one the signature returns; the generics checker traverses the signature, and for a query that response type *)
Definition response_of (k : string) (resp ident output other : value) : value * list value :=
  let sg := sig_v ident output other in
  if k =? "Query" then
    match resp with
    | VCon "Some" [r] =>
        let q := quote_v "# resp_type" [("resp_type", r)] in
        (some q, [VCon "visited the type" [q]])
    | _ =>
        let rt := VCon "extract_return_type" [output] in
        (some (quote_v "# return_type" [("return_type", rt)]), [VCon "visited the path" [VCon "folded by" [VCon "StripSelfPath" []; rt]]])
    end
  else (none, []).

Definition variant_v (k : string) (resp r fwd ident output other : value) : value :=
  let sg := sig_v ident output other in
  VRec "MsgVariant" [("name", VCon ".to_case" [ident; VCon "Case::UpperCamel" []]); ("function_name", ident);
                     ("fields", VCon "fields of" [sg]); ("return_type", fst (response_of k resp ident output other));
                     ("msg_attr", msg_attr_v (k, resp, r)); ("attrs_to_forward", fwd)].
Definition traversal (k : string) (resp ident output other : value) : list value :=
  VCon "visited the signature" [sig_v ident output other] :: snd (response_of k resp ident output other).

Lemma evals_list_compute_calls P K d es en r :
  (forall g h, eval_list (call P d (K + h)) (K + g) es en = Some r) -> evals_list P d es en r.
Proof.
  intros H. exists K. intros f fl Hf Hfl. replace f with (K + (f - K)) by lia. replace fl with (K + (fl - K)) by lia. apply H.
Qed.

(* entries appended one after the other *)
Definition push_all (used ms : list value) : list value := fold_left (fun acc m => acc ++ [m]) ms used.
Lemma push_all_app used ms : push_all used ms = used ++ ms.
Proof.
  revert used. induction ms as [|m ms IH]; intros used; cbn [push_all fold_left]; [rewrite app_nil_r; reflexivity|].
  fold (push_all (used ++ [m]) ms). rewrite IH, <- app_assoc. reflexivity.
Qed.

Local Arguments String.eqb _ _ : simpl nomatch.
Local Ltac cmp K := apply (evals_compute _ K); intros ?gg ?fl; reflexivity.

(* a response type named in the attribute is `Some r` or `None` *)
Definition is_option (v : value) : Prop := (exists r, v = VCon "Some" [r]) \/ v = VCon "None" [].

Theorem translated_msg_variant_new d k resp r fwd ident output other gens used :
  is_option resp ->
  calls GEN (S (S d)) "MsgVariant::new" [sig_v ident output other; checker_v gens used; msg_attr_v (k, resp, r); fwd]
    (CVal (VCon "()" [variant_v k resp r fwd ident output other; checker_v gens (used ++ traversal k resp ident output other)])).
Proof.
  intros Hr. rewrite <- push_all_app. unfold variant_v, traversal, response_of.
  destruct (k =? "Query") eqn:Ek.
  - apply String.eqb_eq in Ek. subst k.
    destruct Hr as [[r0 ->] | ->];
      (eapply calls_intro with (c := CVal _); try reflexivity;
       apply (evals_compute_calls _ 40); intros gg hh; reflexivity).
  - destruct Hr as [[r0 ->] | ->];
      (eapply calls_intro with (c := CVal _); try reflexivity;
       apply (evals_compute_calls _ 40); intros gg hh; simpl; rewrite ?andb_true_r, Ek; reflexivity).
Qed.

(* a method description whose signature and attribute have the shapes above *)
Definition wf_desc (x : desc) : Prop :=
  (exists ident output other, d_sig x = sig_v ident output other) /\
  match d_msg x with Some (_, resp, _) => is_option resp | None => True end.

Definition variant_of (x : desc) : value :=
  match d_msg x, d_sig x with
  | Some (k, resp, r), VRec "Signature" [("ident", ident); ("output", output); ("other", other)] =>
      variant_v k resp r (d_forward x) ident output other
  | _, _ => VUnit
  end.
Definition traversed (x : desc) : list value :=
  match d_msg x, d_sig x with
  | Some (k, resp, _), VRec "Signature" [("ident", ident); ("output", output); ("other", other)] => traversal k resp ident output other
  | _, _ => []
  end.

(* the closure: a method without `sv::msg` or of another kind gives nothing and leaves the checker alone; a method of the asked
   kind gives its variant and the checker after its traversal *)
Lemma translated_variants_closure d (x : desc) ty gens used : wf_desc x ->
  calls GEN (S (S (S d))) "MsgVariants::new::closure1" [desc_v x; kind_v ty; checker_v gens used]
    (CVal (VCon "()" [if of_kind ty x then some (variant_of x) else none;
                      checker_v gens (if of_kind ty x then used ++ traversed x else used)])).
Proof.
  intros [(ident & output & other & Hs) Hm].
  destruct x as [[[[k resp] r]|] f sg]; cbn [d_sig d_msg] in *; subst sg; unfold of_kind, variant_of, traversed; cbn [d_msg d_sig d_forward].
  - pose proof (translated_msg_variant_new d k resp r f ident output other gens used Hm) as Hnew.
    destruct (k =? ty) eqn:Ek.
    + eapply calls_intro with (c := CVal _); try reflexivity.
      simpl fn_body. cbn [app combine fn_params].
      eapply ev_block; [|reflexivity].
      eapply ev_stmts_let;
        [ eapply ev_block; [|reflexivity];
          (eapply ev_stmts_let; [apply (evals_compute_calls _ 20); intros gg hh; reflexivity | reflexivity |]); cbn [app];
          (eapply ev_stmts_let; [apply (evals_compute_calls _ 20); intros gg hh; reflexivity | reflexivity |]); cbn [app];
          (eapply ev_stmts_expr; [apply (evals_compute _ 20); intros gg fl; simpl; rewrite ?andb_true_r, Ek; reflexivity |]);
          apply ev_stmts_tail; apply ev_con; eapply ev_list_cons; [|apply ev_list_nil];
          eapply ev_block; [|reflexivity];
          (eapply ev_stmts_let;
             [ eapply ev_call; [apply (evals_list_compute_calls _ 20); intros gg hh; reflexivity | exact Hnew] | reflexivity |]);
          apply (evals_stmts_compute _ 14); intros gg fl; reflexivity
        | reflexivity | ].
      cbn [app]. apply ev_stmts_tail. cmp 14.
    + eapply calls_intro with (c := CRet _); try reflexivity.
      apply (evals_compute_calls _ 40). intros gg hh. simpl. rewrite ?andb_true_r, Ek. reflexivity.
  - apply (calls_of_run _ _ 40); [reflexivity | vm_compute; reflexivity].
Qed.

Definition wc_v (wc : option (list pred * value)) : value :=
  match wc with Some (ps, o) => some (clause_v ps o) | None => none end.
Definition kept_preds (used : list value) (wc : option (list pred * value)) : list value :=
  match wc with Some (ps, _) => map pred_v (filter (keeps used) ps) | None => [] end.

Lemma filter_wheres_any d wc gens used :
  calls GEN (S (S d)) "filter_wheres" [wc_v wc; VArr gens; VArr used] (CVal (VArr (kept_preds used wc))).
Proof. destruct wc as [[ps o]|]; [apply translated_filter_wheres | apply translated_filter_wheres_none]. Qed.

(* For EVERY list of method descriptions: the message of kind ty gets one variant per method carrying `sv::msg` of THAT kind -
   in declaration order, built from that method's own signature, attribute and forwarded attributes - and no other; the
   generics checker is threaded through exactly those methods, and the type's used / unused generics and kept bounds are
   computed from what it collected *)
Theorem translated_msg_variants_new d (ds : list desc) ty gens wc : Forall wf_desc ds ->
  let sel := filter (of_kind ty) ds in
  let used := flat_map traversed sel in
  calls GEN (S (S (S (S d)))) "MsgVariants::new" [VArr (map desc_v ds); kind_v ty; VArr gens; wc_v wc]
    (CVal (VRec "MsgVariants"
       [("variants", VArr (map variant_of sel)); ("used_generics", VArr used);
        ("unused_generics", VArr (filter (fun g => negb (mem g used)) gens));
        ("where_predicates", VArr (kept_preds used wc)); ("msg_ty", kind_v ty)])).
Proof.
  intros Hwf sel used.
  set (params := [("source", VArr (map desc_v ds)); ("msg_ty", kind_v ty); ("all_generics", VArr gens); ("unfiltered_where_clause", wc_v wc)]).
  eapply calls_intro with (c := CVal (VRec "MsgVariants"
       [("variants", VArr (map variant_of sel)); ("used_generics", VArr used);
        ("unused_generics", VArr (filter (fun g => negb (mem g used)) gens));
        ("where_predicates", VArr (kept_preds used wc)); ("msg_ty", kind_v ty)])) (en' := params); try reflexivity.
  simpl fn_body. cbn [app combine fn_params]. fold params.
  match goal with |- context [EFor "fmc_i1" ?lo ?hi ?b] =>
    destruct (ev_for_inv GEN (S (S (S d))) "fmc_i1" b
                (fun j en' => en' = ("fmc_acc1", VArr (map variant_of (filter (of_kind ty) (firstn j ds)))) ::
                                    ("fmc_src1", VArr (map desc_v ds)) ::
                                    ("generics_checker", checker_v gens (flat_map traversed (filter (of_kind ty) (firstn j ds)))) :: params)
                (length ds) 0
                (("fmc_acc1", VArr []) :: ("fmc_src1", VArr (map desc_v ds)) :: ("generics_checker", checker_v gens []) :: params))
      as (enf & Hfor & Hinv) end.
  - reflexivity.
  - intros j en' Hj ->.
    destruct (nth_error ds j) as [x|] eqn:Hnth; [|apply nth_error_None in Hnth; lia].
    assert (Hm : nth_error (map desc_v ds) j = Some (desc_v x)) by (rewrite nth_error_map, Hnth; reflexivity).
    assert (Hx : wf_desc x) by (rewrite Forall_forall in Hwf; apply Hwf; eapply nth_error_In; exact Hnth).
    rewrite (firstn_snoc _ _ _ Hnth), filter_snoc, map_app, flat_map_app.
    pose proof (translated_variants_closure d x ty gens (flat_map traversed (filter (of_kind ty) (firstn j ds))) Hx) as Hclo.
    destruct (of_kind ty x); cbn [map flat_map]; rewrite ?app_nil_r;
      (eexists; eexists; split;
        [ eapply ev_block; [|reflexivity];
          eapply ev_stmts_let;
            [ eapply ev_call; [apply (evals_list_compute _ 8); intros gg fl; simpl; rewrite Hm; reflexivity | exact Hclo]
            | reflexivity | ];
          apply (evals_stmts_compute _ 14); intros gg fl; reflexivity
        | reflexivity ]).
  - rewrite Hinv in Hfor. cbn [Nat.add] in Hfor. rewrite firstn_all in Hfor. fold sel in Hfor. fold used in Hfor.
    assert (Hlen : forall gg fl en, eval (call GEN (S (S (S d))) fl) (4 + gg) (ECall "len" [EVar "fmc_src1"])
                     (("fmc_acc1", VArr []) :: ("fmc_src1", VArr (map desc_v ds)) :: en) =
                   Some (CVal (VNat (length ds)), ("fmc_acc1", VArr []) :: ("fmc_src1", VArr (map desc_v ds)) :: en))
      by (intros gg fl en; simpl; rewrite map_length; reflexivity).
    eapply ev_block;
      [ (eapply ev_stmts_let; [apply (evals_compute_calls _ 10); intros gg hh; reflexivity | reflexivity |]); cbn [app];
        eapply ev_stmts_let;
          [ eapply ev_block;
              [ (eapply ev_stmts_let; [cmp 4 | reflexivity |]); (eapply ev_stmts_let; [cmp 4 | reflexivity |]); cbn [app];
                eapply ev_stmts_expr;
                  [ eapply ev_for; [cmp 2 | apply (evals_compute _ 4); intros ?gg ?fl; apply Hlen | rewrite Nat.sub_0_r; exact Hfor]
                  | apply ev_stmts_tail; cmp 4 ]
              | reflexivity ]
          | reflexivity | ];
        cbn [app];
        eapply ev_stmts_let;
          [ eapply ev_call; [apply (evals_list_compute _ 8); intros gg fl; reflexivity | apply (translated_used_unused (S (S d)))]
          | reflexivity | ];
        cbn [app];
        eapply ev_stmts_let;
          [ eapply ev_call; [apply (evals_list_compute _ 8); intros gg fl; reflexivity | apply (filter_wheres_any (S d))]
          | reflexivity | ];
        cbn [app]; apply ev_stmts_tail; cmp 20
      | reflexivity ].
Qed.

(* what is selected: exactly the methods whose `sv::msg` names the asked kind *)
Lemma selected_methods ty (ds : list desc) x :
  In x (filter (of_kind ty) ds) <-> In x ds /\ exists resp r, d_msg x = Some (ty, resp, r).
Proof.
  rewrite filter_In. unfold of_kind. split.
  - intros [Hi H]. split; [exact Hi|]. destruct (d_msg x) as [[[k resp] r]|]; [|discriminate]. apply String.eqb_eq in H. subst k. eauto.
  - intros [Hi (resp & r & ->)]. split; [exact Hi|]. apply String.eqb_refl.
Qed.
