(* Decision logic of the MACRO, translated from sylvia-derive's own source on every run (GenImp.macro_fns):
   `EntryPoints::emit` (sylvia-derive/src/entry_points.rs) decides which entry points a contract gets, `get_entry_point`
   (parser/attributes/override_entry_point.rs) looks an override up.

   Code templates (`quote!`) are symbolic values `quote [text; spliced values..]`. What lies outside the translated
   functions is answered by stubs: building the message variants of the source (`MsgVariants::new(..).get_only_variant()`:
   whether a migrate handler exists is the parameter has_migrate) and emitting ONE default entry point (the value
   `default_entry_point [kind]`; its content is covered by C02 / C06's other theorems and ties). *)
From Coq Require Import String List Bool Arith Lia.
Require Import SV.Model.Imp SV.Model.GenImp SV.Facts.ImpFacts.
Import ListNotations.
Open Scope string_scope.
Open Scope list_scope.

Definition kind_v (k : string) : value := VCon ("MsgType::" ++ k) [].
Definition none : value := VCon "None" [].
Definition some (v : value) : value := VCon "Some" [v].
Definition opt (b : bool) (v : value) : value := if b then some v else none.
Definition quote_empty : value := VCon "quote" [VStr ""].
Definition default_ep (k : string) : value := VCon "default_entry_point" [kind_v k].

(* the look-up of an override answered by six arbitrary options, one per kind *)
Definition lookup_stub (oi oe oq os om orp : value) : fn_def :=
  {| fn_name := "get_entry_point"; fn_params := ["self"; "ty"]; fn_consts := [];
     fn_body := EMatch (EVar "ty")
       [(PCon "MsgType::Instantiate" [], EConst oi); (PCon "MsgType::Exec" [], EConst oe); (PCon "MsgType::Query" [], EConst oq);
        (PCon "MsgType::Sudo" [], EConst os); (PCon "MsgType::Migrate" [], EConst om); (PCon "MsgType::Reply" [], EConst orp)] |}.

Definition stub (name : string) (params : list string) (body : expr) : fn_def :=
  {| fn_name := name; fn_params := params; fn_consts := []; fn_body := body |}.

Definition EPG (oi oe oq os om orp : value) (has_migrate : bool) : program :=
  lookup_stub oi oe oq os om orp :: macro_fns ++
  [stub "extern::as_variants" ["source"] (ECon "variants_of" [EVar "source"]);
   stub "extern::MsgVariants::new" ["variants"; "kind"; "generics"; "where_clause"] (ECon "MsgVariants" [EVar "variants"; EVar "kind"]);
   stub "extern::get_only_variant" ["variants"] (EConst (opt has_migrate (VStr "the migrate handler")));
   stub "extern::emit_default_entry_point" ["self"; "msg_ty"] (ECon "default_entry_point" [EVar "msg_ty"])].

Definition ep_self (src reply ovs g w : value) : value :=
  VRec "EntryPoints" [("source", src); ("reply", reply); ("override_entry_points", ovs); ("generics", g); ("where_clause", w)].

(* the entry point of kind k: nothing when overridden, the default one otherwise *)
Definition ep_of (overridden : bool) (k : string) : value := if overridden then quote_empty else default_ep k.

Local Ltac run := apply (calls_of_run _ 3 200); [reflexivity | vm_compute; reflexivity].

(* For every combination of overrides (bX: kind X is overridden, by any override value), of a declared migrate handler and
   of a declared reply handler, the generated `entry_points` module consists of exactly:
     instantiate, execute, query, sudo - each unless overridden;
     migrate - exactly when a migrate handler is declared and migrate is not overridden;
     reply   - exactly when a reply handler is declared and reply is not overridden;
   and overriding one kind never changes another. *)
Theorem translated_entry_points_emit (bi be bq bs bm br has_migrate has_reply : bool) vi ve vq vs vm vr src rfn ovs g w :
  exists text,
    calls (EPG (opt bi vi) (opt be ve) (opt bq vq) (opt bs vs) (opt bm vm) (opt br vr) has_migrate) 3 "EntryPoints::emit"
      [ep_self src (opt has_reply rfn) ovs g w]
      (CVal (VCon "quote"
         [VStr text;
          VArr [ep_of bi "Instantiate"; ep_of be "Exec"; ep_of bq "Query"; ep_of bs "Sudo"];
          (if negb bm && has_migrate then default_ep "Migrate" else quote_empty);
          (if br then quote_empty else if has_reply then default_ep "Reply" else quote_empty)])).
Proof.
  destruct bi, be, bq, bs, bm, br, has_migrate, has_reply; eexists; run.
Qed.

(* ------------------------------------------------------------------------------------------ *)
(* get_entry_point itself (`self.iter().find(|entry_point| entry_point.msg_type == ty)`, translated as a loop): the first
   override of the asked kind, for any list of overrides. *)
Definition ov_val (o : value * value * string) : value :=
  let '(p, m, k) := o in VRec "OverrideEntryPoint" [("entry_point", p); ("msg_name", m); ("msg_type", kind_v k)].
Definition of_kind (ty : string) (o : value * value * string) : bool := let '(_, _, k) := o in String.eqb k ty.
Definition found (r : option (value * value * string)) : value := match r with Some o => some (ov_val o) | None => none end.

Lemma eqb_prefix p a b : String.eqb (p ++ a) (p ++ b) = String.eqb a b.
Proof. induction p as [|c p IH]; [reflexivity|]. simpl. rewrite Ascii.eqb_refl. exact IH. Qed.

Lemma kind_eqb a b : value_eqb (kind_v a) (kind_v b) = String.eqb a b.
Proof. unfold kind_v. cbn [value_eqb]. rewrite andb_true_r. apply eqb_prefix. Qed.

Lemma find_firstn_S {A} (f : A -> bool) l j x : nth_error l j = Some x ->
  find f (firstn (S j) l) = match find f (firstn j l) with Some y => Some y | None => if f x then Some x else None end.
Proof.
  revert j. induction l as [|a l IH]; intros [|j] H; simpl in H; try discriminate.
  - injection H as ->. simpl. destruct (f x); reflexivity.
  - change (firstn (S (S j)) (a :: l)) with (a :: firstn (S j) l). change (firstn (S j) (a :: l)) with (a :: firstn j l).
    cbn [find]. destruct (f a); [reflexivity|]. apply IH. exact H.
Qed.

Local Ltac cmp K := apply (evals_compute _ K); intros ?gg ?fl; reflexivity.

Theorem translated_get_entry_point d (l : list (value * value * string)) ty :
  calls macro_fns (S d) "get_entry_point" [VArr (map ov_val l); kind_v ty] (CVal (found (find (of_kind ty) l))).
Proof.
  eapply calls_intro with (c := CVal (found (find (of_kind ty) l))); try reflexivity.
  simpl fn_body. cbn [app combine fn_params].
  eapply ev_block; [|reflexivity]. apply ev_stmts_tail.
  eapply ev_block; [|reflexivity].
  eapply ev_stmts_let; [cmp 4 | reflexivity |].
  eapply ev_stmts_let; [cmp 4 | reflexivity |].
  cbn [app].
  match goal with |- evals_stmts ?P ?dd (SExpr (EFor ?i ?lo ?hi ?b) :: ?rest) ?en ?res =>
    destruct (ev_for_inv P dd i b
               (fun j en' => en' = [("find_res1", found (find (of_kind ty) (firstn j l))); ("find_src1", VArr (map ov_val l));
                                    ("self", VArr (map ov_val l)); ("ty", kind_v ty)])
               (length l) 0 en) as (enf & Hfor & Hinv) end.
  - reflexivity.
  - intros j en' Hj ->.
    destruct (nth_error l j) as [[[p m] k]|] eqn:Hnth; [|apply nth_error_None in Hnth; lia].
    assert (Hm : nth_error (map ov_val l) j = Some (ov_val (p, m, k))) by (rewrite nth_error_map, Hnth; reflexivity).
    rewrite (find_firstn_S _ _ _ _ Hnth).
    destruct (find (of_kind ty) (firstn j l)) as [o|] eqn:Hf.
    + (* already found: nothing happens *)
      eexists. eexists. split.
      * eapply ev_block; [|reflexivity]. apply ev_stmts_tail.
        eapply ev_iflet_miss; [cmp 4 | destruct o as [[? ?] ?]; reflexivity | cmp 2].
      * reflexivity.
    + cbn [of_kind]. destruct (String.eqb k ty) eqn:Ek; (eexists; eexists; split;
        [ eapply ev_block; [|reflexivity]; apply ev_stmts_tail;
          eapply ev_iflet_hit; [cmp 4 | reflexivity |];
          eapply ev_block; [|reflexivity];
          eapply ev_stmts_let;
            [ apply (evals_compute _ 6); intros gg fl; simpl; rewrite Hm; reflexivity
            | reflexivity
            | apply ev_stmts_tail; apply (evals_compute _ 12); intros gg fl; simpl; rewrite andb_true_r, Ek; reflexivity ]
        | reflexivity ]).
  - eapply ev_stmts_expr.
    + eapply ev_for; [cmp 2 | |].
      * apply (evals_compute _ 4). intros gg fl. simpl. rewrite map_length. reflexivity.
      * rewrite Nat.sub_0_r. exact Hfor.
    + apply ev_stmts_tail. rewrite Hinv. cbn [Nat.add]. rewrite firstn_all. cmp 4.
Qed.
