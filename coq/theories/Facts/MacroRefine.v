(* Decision logic of the MACRO, translated from sylvia-derive's own source on every run (GenImp.macro_fns):
   `EntryPoints::emit` (sylvia-derive/src/entry_points.rs) decides which entry points a contract gets, `get_entry_point`
   (parser/attributes/override_entry_point.rs) looks an override up.

   Code templates (`quote!`) are symbolic values `quote [text; spliced values..]`. What lies outside the translated
   functions is answered by stubs: building the message variants of the source (`MsgVariants::new(..).get_only_variant()`:
   whether a migrate handler exists is the parameter has_migrate) and emitting ONE default entry point (the value
   `default_entry_point [kind]`; its content is covered by C02 / C06's other theorems and ties). *)
From Coq Require Import String List Bool Arith Lia.
Require Import SV.Model.Imp SV.Model.GenImpMacro SV.Facts.ImpFacts.
Import ListNotations.
Open Scope string_scope.
Open Scope list_scope.

Definition kind_v (k : string) : value := VCon ("MsgType::" ++ k) [].
Definition none : value := VCon "None" [].
Definition some (v : value) : value := VCon "Some" [v].
Definition opt (b : bool) (v : value) : value := if b then some v else none.
Definition quote_empty : value := VCon "quote" [VStr ""; VRec "holes" []].
Definition default_ep (k : string) : value := VCon "default_entry_point" [kind_v k].

(* the look-up of an override answered by six arbitrary options, one per kind *)
Definition lookup_stub (oi oe oq os om orp : value) : fn_def :=
  {| fn_name := "get_entry_point"; fn_params := ["self"; "ty"]; fn_consts := [];
     fn_body := EMatch (EVar "ty")
       [(PCon "MsgType::Instantiate" [], EConst oi); (PCon "MsgType::Exec" [], EConst oe); (PCon "MsgType::Query" [], EConst oq);
        (PCon "MsgType::Sudo" [], EConst os); (PCon "MsgType::Migrate" [], EConst om); (PCon "MsgType::Reply" [], EConst orp)] |}.

Definition stub (name : string) (params : list string) (body : expr) : fn_def :=
  {| fn_name := name; fn_params := params; fn_consts := []; fn_body := body |}.

Definition EPG (oi oe oq os om orp : value) (has_migrate : bool) : program :=
  lookup_stub oi oe oq os om orp :: macro_fns ++
  [stub "extern::as_variants" ["source"] (ECon "variants_of" [EVar "source"]);
   stub "extern::MsgVariants::new" ["variants"; "kind"; "generics"; "where_clause"] (ECon "MsgVariants" [EVar "variants"; EVar "kind"]);
   stub "extern::get_only_variant" ["variants"] (EConst (opt has_migrate (VStr "the migrate handler")));
   stub "extern::emit_default_entry_point" ["self"; "msg_ty"] (ECon "default_entry_point" [EVar "msg_ty"])].

Definition ep_self (src reply ovs g w : value) : value :=
  VRec "EntryPoints" [("source", src); ("reply", reply); ("override_entry_points", ovs); ("generics", g); ("where_clause", w)].

(* the entry point of kind k: nothing when overridden, the default one otherwise *)
Definition ep_of (overridden : bool) (k : string) : value := if overridden then quote_empty else default_ep k.

Local Ltac run := apply (calls_of_run _ 3 200); [reflexivity | vm_compute; reflexivity].

(* For every combination of overrides (bX: kind X is overridden, by any override value), of a declared migrate handler and
   of a declared reply handler, the generated `entry_points` module consists of exactly:
     instantiate, execute, query, sudo - each unless overridden;
     migrate - exactly when a migrate handler is declared and migrate is not overridden;
     reply   - exactly when a reply handler is declared and reply is not overridden;
   and overriding one kind never changes another. *)
Theorem translated_entry_points_emit (bi be bq bs bm br has_migrate has_reply : bool) vi ve vq vs vm vr src rfn ovs g w :
  exists text,
    calls (EPG (opt bi vi) (opt be ve) (opt bq vq) (opt bs vs) (opt bm vm) (opt br vr) has_migrate) 3 "EntryPoints::emit"
      [ep_self src (opt has_reply rfn) ovs g w]
      (CVal (VCon "quote"
         [VStr text;
          VRec "holes"
            [("entry_points", VArr [ep_of bi "Instantiate"; ep_of be "Exec"; ep_of bq "Query"; ep_of bs "Sudo"]);
             ("migrate", if negb bm && has_migrate then default_ep "Migrate" else quote_empty);
             ("reply_ep", if br then quote_empty else if has_reply then default_ep "Reply" else quote_empty)]])).
Proof.
  destruct bi, be, bq, bs, bm, br, has_migrate, has_reply; eexists; run.
Qed.

(* ------------------------------------------------------------------------------------------ *)
(* get_entry_point itself (`self.iter().find(|entry_point| entry_point.msg_type == ty)`, translated as a loop): the first
   override of the asked kind, for any list of overrides. *)
Definition ov_val (o : value * value * string) : value :=
  let '(p, m, k) := o in VRec "OverrideEntryPoint" [("entry_point", p); ("msg_name", m); ("msg_type", kind_v k)].
Definition of_kind (ty : string) (o : value * value * string) : bool := let '(_, _, k) := o in String.eqb k ty.
Definition found (r : option (value * value * string)) : value := match r with Some o => some (ov_val o) | None => none end.

Lemma eqb_prefix p a b : String.eqb (p ++ a) (p ++ b) = String.eqb a b.
Proof. induction p as [|c p IH]; [reflexivity|]. simpl. rewrite Ascii.eqb_refl. exact IH. Qed.

Lemma kind_eqb a b : value_eqb (kind_v a) (kind_v b) = String.eqb a b.
Proof. unfold kind_v. cbn [value_eqb]. rewrite andb_true_r. apply eqb_prefix. Qed.

Lemma find_firstn_S {A} (f : A -> bool) l j x : nth_error l j = Some x ->
  find f (firstn (S j) l) = match find f (firstn j l) with Some y => Some y | None => if f x then Some x else None end.
Proof.
  revert j. induction l as [|a l IH]; intros [|j] H; simpl in H; try discriminate.
  - injection H as ->. simpl. destruct (f x); reflexivity.
  - change (firstn (S (S j)) (a :: l)) with (a :: firstn (S j) l). change (firstn (S j) (a :: l)) with (a :: firstn j l).
    cbn [find]. destruct (f a); [reflexivity|]. apply IH. exact H.
Qed.

Local Ltac cmp K := apply (evals_compute _ K); intros ?gg ?fl; reflexivity.

Theorem translated_get_entry_point d (l : list (value * value * string)) ty :
  calls macro_fns (S d) "get_entry_point" [VArr (map ov_val l); kind_v ty] (CVal (found (find (of_kind ty) l))).
Proof.
  eapply calls_intro with (c := CVal (found (find (of_kind ty) l))); try reflexivity.
  simpl fn_body. cbn [app combine fn_params].
  eapply ev_block; [|reflexivity]. apply ev_stmts_tail.
  eapply ev_block; [|reflexivity].
  eapply ev_stmts_let; [cmp 4 | reflexivity |].
  eapply ev_stmts_let; [cmp 4 | reflexivity |].
  cbn [app].
  match goal with |- evals_stmts ?P ?dd (SExpr (EFor ?i ?lo ?hi ?b) :: ?rest) ?en ?res =>
    destruct (ev_for_inv P dd i b
               (fun j en' => en' = [("find_res1", found (find (of_kind ty) (firstn j l))); ("find_src1", VArr (map ov_val l));
                                    ("self", VArr (map ov_val l)); ("ty", kind_v ty)])
               (length l) 0 en) as (enf & Hfor & Hinv) end.
  - reflexivity.
  - intros j en' Hj ->.
    destruct (nth_error l j) as [[[p m] k]|] eqn:Hnth; [|apply nth_error_None in Hnth; lia].
    assert (Hm : nth_error (map ov_val l) j = Some (ov_val (p, m, k))) by (rewrite nth_error_map, Hnth; reflexivity).
    rewrite (find_firstn_S _ _ _ _ Hnth).
    destruct (find (of_kind ty) (firstn j l)) as [o|] eqn:Hf.
    + (* already found: nothing happens *)
      eexists. eexists. split.
      * eapply ev_block; [|reflexivity]. apply ev_stmts_tail.
        eapply ev_iflet_miss; [cmp 4 | destruct o as [[? ?] ?]; reflexivity | cmp 2].
      * reflexivity.
    + cbn [of_kind]. destruct (String.eqb k ty) eqn:Ek; (eexists; eexists; split;
        [ eapply ev_block; [|reflexivity]; apply ev_stmts_tail;
          eapply ev_iflet_hit; [cmp 4 | reflexivity |];
          eapply ev_block; [|reflexivity];
          eapply ev_stmts_let;
            [ apply (evals_compute _ 6); intros gg fl; simpl; rewrite Hm; reflexivity
            | reflexivity
            | apply ev_stmts_tail; apply (evals_compute _ 12); intros gg fl; simpl; rewrite andb_true_r, Ek; reflexivity ]
        | reflexivity ]).
  - eapply ev_stmts_expr.
    + eapply ev_for; [cmp 2 | |].
      * apply (evals_compute _ 4). intros gg fl. simpl. rewrite map_length. reflexivity.
      * rewrite Nat.sub_0_r. exact Hfor.
    + apply ev_stmts_tail. rewrite Hinv. cbn [Nat.add]. rewrite firstn_all. cmp 4.
Qed.

(* ------------------------------------------------------------------------------------------ *)
(* `MtHelpers::emit_impl_contract` + `emit_default_dispatch` (sylvia-derive/src/contract/mt.rs, GenImp.mtlogic_fns): which body
   each of the six operations of the generated `impl cw_multi_test::Contract` gets. Stubs: the override look-up (six
   arbitrary options), `get_only_variant` of the migrate / reply variants (two flags), and functions that only build names
   or token fragments (recorded as `name [args]`). *)
Definition rec_stub (name : string) (params : list string) : fn_def :=
  stub ("extern::" ++ name) params (ECon name (map EVar params)).

Definition MTL (oi oe oq os om orp : value) (has_migrate has_reply : bool) : program :=
  lookup_stub oi oe oq os om orp :: mtlogic_fns ++
  [rec_stub "crate_module" []; rec_stub "emit_bracketed_generics" ["generics"]; rec_stub "get_ident_from_type" ["ty"];
   rec_stub "emit_multitest_dispatch" ["entry_point"]; rec_stub "function_name" ["variant"];
   rec_stub "msg_or_default" ["custom"]; rec_stub "query_or_default" ["custom"];
   rec_stub "emit_ctx_values" ["msg_ty"]; rec_stub "as_accessor_wrapper_name" ["msg_ty"];
   stub "extern::get_only_variant" ["variants"]
     (EMatch (EVar "variants") [(PLit (VStr "MIGRATE VARIANTS"), EConst (opt has_migrate (VStr "the migrate handler")));
                                (PLit (VStr "REPLY VARIANTS"), EConst (opt has_reply (VStr "the reply handler")))])].

Definition mt_self (cname custom ovs generics : value) (replies : bool) : value :=
  VRec "MtHelpers" [("source", VRec "ItemImpl" [("generics", VRec "Generics" [("where_clause", VStr "where")])]);
                    ("contract_name", cname); ("custom", custom); ("override_entry_points", ovs);
                    ("sv_features", VRec "SylviaFeatures" [("replies", VBool replies)]); ("generic_params", generics);
                    ("migrate_variants", VStr "MIGRATE VARIANTS"); ("reply_variants", VStr "REPLY VARIANTS")].

Definition quote_v (text : string) (holes : list (string * value)) : value := VCon "quote" [VStr text; VRec "holes" holes].
Definition cm : value := VCon "crate_module" [].

(* the texts of the templates involved (whatever they are: they are taken from the source) *)
Record texts := { t_impl : string; t_dd : string; t_api : string; t_bail_migrate : string; t_bail_reply : string;
                  t_turbofish_generic : string; t_turbofish_plain : string; t_reply_new : string; t_reply_legacy : string }.

(* the body that decodes the message of kind k and dispatches it: its message type is the contract's accessor of THAT kind
   (`<Contract as ContractApi>::<accessor wrapper of k>`), its context the values of THAT kind *)
Definition default_dispatch (T : texts) (k : string) (cname : value) : value :=
  quote_v (t_dd T)
    [("sylvia", cm);
     ("api_msg", quote_v (t_api T) [("contract_name", cname); ("sylvia", cm); ("msg_name", VCon "as_accessor_wrapper_name" [kind_v k])]);
     ("values", VCon "emit_ctx_values" [kind_v k])].
Definition override_dispatch (ov : value) : value := VCon "emit_multitest_dispatch" [ov].

Definition op_body (T : texts) (overridden : bool) (ov : value) (k : string) (cname : value) : value :=
  if overridden then override_dispatch ov else default_dispatch T k cname.

Definition migrate_body (T : texts) (bm : bool) (vm : value) (has_migrate : bool) (cname : value) : value :=
  if bm then override_dispatch vm
  else if has_migrate then default_dispatch T "Migrate" cname
  else quote_v (t_bail_migrate T) [("sylvia", cm)].

Definition reply_body (T : texts) (br : bool) (vr : value) (has_reply replies : bool) (cname : value) (gens : list value) : value :=
  if br then override_dispatch vr
  else if has_reply then
    let ident := VCon "get_ident_from_type" [cname] in
    let turbofish := match gens with
                     | [] => quote_v (t_turbofish_plain T) [("contract_ident", ident)]
                     | _ => quote_v (t_turbofish_generic T) [("contract_ident", ident); ("generic_params", VArr gens)]
                     end in
    if replies then quote_v (t_reply_new T) [("contract_turbofish", turbofish)]
    else quote_v (t_reply_legacy T) [("reply_name", VCon "function_name" [VStr "the reply handler"])]
  else quote_v (t_bail_reply T) [("sylvia", cm)].

Definition impl_contract_spec (T : texts) (bi be bq bs bm br has_migrate has_reply replies : bool)
    (vi ve vq vs vm vr cname custom : value) (gens : list value) : value :=
  quote_v (t_impl T)
    [("bracketed_generics", VCon "emit_bracketed_generics" [VArr gens]); ("sylvia", cm);
     ("custom_msg", VCon "msg_or_default" [custom]); ("custom_query", VCon "query_or_default" [custom]);
     ("contract_name", cname); ("full_where_clause", VStr "where");
     ("exec_body", op_body T be ve "Exec" cname);
     ("instantiate_body", op_body T bi vi "Instantiate" cname);
     ("query_body", op_body T bq vq "Query" cname);
     ("sudo_body", op_body T bs vs "Sudo" cname);
     ("reply_body", reply_body T br vr has_reply replies cname gens);
     ("migrate_body", migrate_body T bm vm has_migrate cname)].

(* For EVERY combination of overrides, of declared migrate / reply handlers, of the replies feature and of generic
   parameters, the six operations of the generated `impl cw_multi_test::Contract` get exactly: the dispatch of the override
   registered for THEIR OWN kind when there is one; otherwise the default dispatch that decodes the message of THEIR OWN
   kind (migrate: only when a migrate handler exists, else `bail!`; reply: the reply dispatch / the legacy handler's own
   name when a reply handler exists, else `bail!`). *)
Theorem translated_emit_impl_contract :
  exists T, forall (bi be bq bs bm br has_migrate has_reply replies : bool) vi ve vq vs vm vr cname custom ovs (gens : list value),
    calls (MTL (opt bi vi) (opt be ve) (opt bq vq) (opt bs vs) (opt bm vm) (opt br vr) has_migrate has_reply) 3
          "MtHelpers::emit_impl_contract" [mt_self cname custom ovs (VArr gens) replies]
      (CVal (impl_contract_spec T bi be bq bs bm br has_migrate has_reply replies vi ve vq vs vm vr cname custom gens)).
Proof.
  eexists (Build_texts _ _ _ _ _ _ _ _ _). intros.
  destruct gens as [|g0 gens]; destruct bi, be, bq, bs, bm, br, has_migrate, has_reply, replies;
    (apply (calls_of_run _ 3 300); [reflexivity | vm_compute; reflexivity]).
Qed.

(* ------------------------------------------------------------------------------------------ *)
(* `EntryPoints::emit_default_entry_point` (entry_points.rs): what the default entry point of a kind consists of. *)
Definition EPD : program :=
  macro_fns ++
  [rec_stub "crate_module" []; rec_stub "emit_result_type" ["msg_ty"; "custom_msg"; "error"];
   rec_stub "emit_ctx_params" ["msg_ty"; "custom_query"]; rec_stub "emit_ctx_values" ["msg_ty"];
   rec_stub "emit_ep_name" ["msg_ty"]; rec_stub "as_accessor_wrapper_name" ["msg_ty"]].

Definition epd_self (name error generics reply : value) (replies : bool) : value :=
  VRec "EntryPoints" [("name", name); ("error", error); ("attrs", VRec "EntryPointArgs" [("generics", generics)]);
                      ("reply", reply); ("sv_features", VRec "SylviaFeatures" [("replies", VBool replies)])].

Record ep_texts := { e_fn : string; e_plain : string; e_gen : string; e_turbo : string; e_cmsg : string; e_cquery : string;
                     e_msg_reply : string; e_msg : string; e_disp_reply_new : string; e_disp_reply_legacy : string; e_disp : string;
                     e_cw_std : string }.

Definition contract_q (T : ep_texts) (name : value) (gens : list value) : value :=
  match gens with [] => quote_v (e_plain T) [("name", name)] | _ => quote_v (e_gen T) [("name", name); ("attr_generics", VArr gens)] end.
Definition turbofish_q (T : ep_texts) (name : value) (gens : list value) : value :=
  match gens with [] => quote_v (e_plain T) [("name", name)] | _ => quote_v (e_turbo T) [("name", name); ("attr_generics", VArr gens)] end.

(* the message parameter: the chain's Reply for the reply entry point, otherwise the contract's message accessor of THAT kind *)
Definition ep_msg (T : ep_texts) (k : string) (name : value) (gens : list value) : value :=
  if k =? "Reply" then quote_v (e_msg_reply T) [("sylvia", cm)]
  else quote_v (e_msg T) [("contract", contract_q T name gens); ("sylvia", cm); ("associated_name", VCon "as_accessor_wrapper_name" [kind_v k])].
(* the body: the reply dispatch / the legacy handler for reply, otherwise `msg.dispatch` with the context values of THAT kind *)
Definition ep_dispatch (T : ep_texts) (k : string) (name reply : value) (gens : list value) (replies : bool) : value :=
  if k =? "Reply" then
    (if replies then quote_v (e_disp_reply_new T) [("contract_turbofish", turbofish_q T name gens)]
     else quote_v (e_disp_reply_legacy T) [("contract_turbofish", turbofish_q T name gens); ("reply", reply)])
  else quote_v (e_disp T) [("contract_turbofish", turbofish_q T name gens); ("values", VCon "emit_ctx_values" [kind_v k])].

Definition default_entry_point_spec (T : ep_texts) (k : string) (name error reply : value) (gens : list value) (replies : bool) : value :=
  let cmsg := quote_v (e_cmsg T) [("contract", contract_q T name gens); ("sylvia", cm)] in
  let cquery := quote_v (e_cquery T) [("contract", contract_q T name gens); ("sylvia", cm)] in
  quote_v (e_fn T)
    [("sylvia", cm); ("cw_std", VCon "to_string" [quote_v (e_cw_std T) [("sylvia", cm)]]);
     ("ep_name", VCon "emit_ep_name" [kind_v k]);
     ("params", VCon "emit_ctx_params" [kind_v k; cquery]);
     ("msg", ep_msg T k name gens);
     ("result", VCon "emit_result_type" [kind_v k; cmsg; error]);
     ("dispatch", ep_dispatch T k name reply gens replies)].

Definition six_kinds := ["Instantiate"; "Exec"; "Query"; "Sudo"; "Migrate"; "Reply"].

Theorem translated_default_entry_point :
  exists T, forall k name error reply (gens : list value) (replies : bool), In k six_kinds ->
    calls EPD 3 "EntryPoints::emit_default_entry_point" [epd_self name error (VArr gens) reply replies; kind_v k]
      (CVal (default_entry_point_spec T k name error reply gens replies)).
Proof.
  eexists (Build_ep_texts _ _ _ _ _ _ _ _ _ _ _ _). intros k name error reply gens replies Hk.
  unfold six_kinds in Hk. simpl in Hk.
  destruct Hk as [<-|[<-|[<-|[<-|[<-|[<-|[]]]]]]]; destruct gens as [|g0 gens]; destruct replies;
    (apply (calls_of_run _ 3 300); [reflexivity | vm_compute; reflexivity]).
Qed.
