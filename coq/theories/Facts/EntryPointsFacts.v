From Coq Require Import String List Bool Arith.
Require Import SV.Model.Kinds SV.Model.GenTables SV.Model.EntryPoints.
Require Import SV.Base.Util SV.Facts.KindsFacts SV.Facts.TblOverride SV.Facts.TblNames.
Import ListNotations.

Lemma parse_overrides_spec ns ks :
  parse_overrides ns = Some ks -> ns = map kind_attr_name ks.
Proof.
  revert ks; induction ns as [|n r IH]; intros ks H; simpl in H.
  - injection H as <-. reflexivity.
  - destruct (override_kind_of_string n) as [k|] eqn:E; [|discriminate H].
    destruct (parse_overrides r) as [l|] eqn:E2; [|discriminate H].
    injection H as <-. simpl. f_equal; [apply override_kind_complete; exact E | apply IH; reflexivity].
Qed.

Lemma parse_overrides_total ks : parse_overrides (map kind_attr_name ks) = Some ks.
Proof.
  induction ks as [|k r IH]; simpl; [reflexivity|].
  rewrite override_kind_sound, IH. reflexivity.
Qed.

Lemma parse_overrides_some_iff ns :
  (exists ks, parse_overrides ns = Some ks) <-> Forall (fun n => exists k, n = kind_attr_name k) ns.
Proof.
  split.
  - intros [ks H]. apply parse_overrides_spec in H. subst ns.
    apply Forall_forall. intros n Hn. apply in_map_iff in Hn. destruct Hn as [k [<- _]]. eauto.
  - induction 1 as [|n r [k ->] _ [ks IH]]; [exists []; reflexivity|].
    exists (k :: ks). simpl. rewrite override_kind_sound, IH. reflexivity.
Qed.

Lemma overridden_iff ks k : overridden ks k = true <-> In k ks.
Proof.
  unfold overridden. rewrite existsb_exists. split.
  - intros [x [Hx E]]. apply kind_eqb_eq in E. subst. exact Hx.
  - intros H. exists k. split; [exact H | apply kind_eqb_refl].
Qed.

Lemma overridden_by_name ks k : overridden ks k = true <-> In (kind_attr_name k) (map kind_attr_name ks).
Proof.
  rewrite overridden_iff. split.
  - apply in_map.
  - intros H. apply in_map_iff in H. destruct H as [k' [E H]]. apply kind_attr_name_inj in E. subst. exact H.
Qed.

Lemma emitted_spec i ks k :
  In k (emitted i ks) <-> (defined i k /\ ~ In k ks).
Proof.
  unfold emitted. rewrite !in_app_iff, filter_In. 
  assert (Hneg : forall k', negb (overridden ks k') = true <-> ~ In k' ks).
  { intros k'. rewrite negb_true_iff. rewrite <- overridden_iff. destruct (overridden ks k'); split; congruence. }
  split.
  - intros [[Hin Hn] | [H | H]].
    + apply Hneg in Hn. split; [|exact Hn]. simpl in Hin.
      destruct Hin as [<-|[<-|[<-|[<-|[]]]]]; exact I.
    + destruct (negb (overridden ks KMigrate) && ep_has_migrate i)%bool eqn:E; [|destruct H].
      destruct H as [<-|[]]. apply andb_true_iff in E. destruct E as [E1 E2]. apply Hneg in E1. split; assumption.
    + destruct (overridden ks KReply) eqn:E; [destruct H|].
      destruct (ep_has_reply i) eqn:E2; [|destruct H]. destruct H as [<-|[]].
      split; [exact E2|]. rewrite <- overridden_iff. congruence.
  - intros [Hd Hn]. pose proof (proj2 (Hneg k) Hn) as Hb.
    destruct k; simpl in Hd.
    + left. split; [simpl; tauto | exact Hb].
    + left. split; [simpl; tauto | exact Hb].
    + left. split; [simpl; tauto | exact Hb].
    + right. left. rewrite Hb, Hd. simpl. auto.
    + right. right. apply negb_true_iff in Hb. rewrite Hb, Hd. simpl. auto.
    + left. split; [simpl; tauto | exact Hb].
Qed.

Lemma emitted_nodup i ks : NoDup (emitted i ks).
Proof.
  unfold emitted.
  assert (Hsub : forall l, incl (filter (fun k => negb (overridden ks k)) l) l) by (intros l x Hx; apply filter_In in Hx; tauto).
  assert (N4 : NoDup (filter (fun k => negb (overridden ks k)) [KInst; KExec; KQuery; KSudo])).
  { apply NoDup_filter. repeat constructor; simpl; intuition discriminate. }
  apply NoDup_app; try exact N4.
  - destruct (negb (overridden ks KMigrate) && ep_has_migrate i)%bool;
    destruct (overridden ks KReply); destruct (ep_has_reply i); simpl; repeat constructor; simpl; intuition discriminate.
  - intros x Hx Hy. apply Hsub in Hx. simpl in Hx.
    destruct (negb (overridden ks KMigrate) && ep_has_migrate i)%bool;
    destruct (overridden ks KReply); destruct (ep_has_reply i); simpl in Hy;
    intuition (subst; discriminate).
Qed.

Lemma emitted_by_names i ns ks :
  parse_overrides ns = Some ks ->
  forall k, In k (emitted i ks) <-> (defined i k /\ ~ In (kind_attr_name k) ns).
Proof.
  intros H k. apply parse_overrides_spec in H. subst ns.
  rewrite emitted_spec. rewrite <- overridden_by_name, <- overridden_iff. tauto.
Qed.

Lemma emitted_independent i ns ns' ks ks' k :
  parse_overrides ns = Some ks -> parse_overrides ns' = Some ks' ->
  (In (kind_attr_name k) ns <-> In (kind_attr_name k) ns') ->
  (In k (emitted i ks) <-> In k (emitted i ks')).
Proof.
  intros H H' E. rewrite (emitted_by_names i ns ks H), (emitted_by_names i ns' ks' H'). tauto.
Qed.

Lemma ep_body_indep i i' k :
  ep_reply_fn i = ep_reply_fn i' -> ep_replies_feature i = ep_replies_feature i' ->
  ep_body_of i k = ep_body_of i' k.
Proof. intros E1 E2. unfold ep_body_of. rewrite E1, E2. reflexivity. Qed.

Lemma emitted_names_nodup i ks : NoDup (map ep_name (emitted i ks)).
Proof.
  apply NoDup_map_inj; [|apply emitted_nodup]. intros a b _ _. apply ep_name_inj.
Qed.

Require Import SV.Facts.TblCtx.

Lemma ep_body_forward i k : k <> KReply ->
  ep_body_of i k = BDispatch (wrapper_accessor_name k)
                             (if has_info k then ["deps"; "env"; "info"] else ["deps"; "env"])%string.
Proof. intros N. destruct k; try congruence; unfold ep_body_of; rewrite ctx_values_shape; reflexivity. Qed.

Lemma ep_body_reply i :
  ep_body_of i KReply =
  if ep_replies_feature i then BReplyDispatch ["deps"; "env"]%string
  else BReplyLegacy (match ep_reply_fn i with Some f => f | None => "" end)%string ["deps"; "env"]%string.
Proof. unfold ep_body_of. rewrite ctx_values_shape. reflexivity. Qed.
