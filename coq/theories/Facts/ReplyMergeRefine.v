(* A second handler of one reply id: `ReplyData::merge` of sylvia-derive/src/contract/communication/reply.rs, translated on every run
   (GenImpReplyData.replydata_fns; `&mut self` by state passing, diagnostics in the ghost field `__diags`).

   `is_payload_marked` is an ORACLE: any function definition of that name that answers, for a payload, a boolean depending on the
   payload only (Section variable `marked`, hypothesis `Hmarked`); the other stubs are those of Facts/ReplyDataRefine2.v. *)
From Coq Require Import String List Bool Arith Lia.
Require Import SV.Model.Imp SV.Model.GenImpReplyData SV.Facts.ImpFacts SV.Facts.MacroRefine SV.Facts.CheckRefine SV.Facts.ReplyDataRefine2.
Import ListNotations.
Open Scope string_scope.
Open Scope list_scope.

Local Ltac cmp K := apply (evals_compute _ K); intros ?gg ?fl; reflexivity.

(* a binary operator other than `&&` / `||`: both operands, then the operation *)
Lemma ev_bin P d op a b en va en1 vb en2 c :
  (op =? "&&") = false -> (op =? "||") = false ->
  evals P d a en (CVal va, en1) -> evals P d b en1 (CVal vb, en2) -> binop op va vb = Some c ->
  evals P d (EBin op a b) en (c, en2).
Proof.
  intros H1 H2 [f1 Ha] [f2 Hb] Hop. exists (S (max f1 f2)). intros f fl Hf Hfl. destruct f as [|f]; [lia|]. simpl.
  rewrite H1, H2. rewrite Ha by lia. simpl. rewrite Hb by lia. simpl. rewrite Hop. reflexivity.
Qed.

Lemma ev_if P d c t e en (b : bool) en1 res :
  evals P d c en (CVal (VBool b), en1) -> evals P d (if b then t else e) en1 res -> evals P d (EIf c t e) en res.
Proof.
  intros [f1 H1] [f2 H2]. exists (S (max f1 f2)). intros f fl Hf Hfl. destruct f as [|f]; [lia|]. simpl.
  rewrite H1 by lia. simpl. destruct b; apply H2; lia.
Qed.

(* a payload parameter: its type and everything else *)
Definition pfield := (value * value)%type.
Definition pfield_v (p : pfield) : value := VRec "MsgField" [("ty", VCon "Type" [fst p]); ("other", snd p)].

(* the entry of a reply id *)
Definition entry_v (dg : list value) (id hid : value) (hs : list value) (data : option value) (pa : list pfield) : value :=
  VRec "ReplyData" [("__diags", VArr dg); ("reply_id", id); ("handler_id", hid); ("handlers", VArr hs);
                    ("data", match data with Some f => some f | None => none end); ("payload", VArr (map pfield_v pa))].

Definition mismatch (ab : pfield * pfield) : list value :=
  if value_eqb (fst (fst ab)) (fst (snd ab)) then [] else [VStr "Mismatched parameter in reply handlers."].

(* entries appended one after the other *)
Definition push_all (used ms : list value) : list value := fold_left (fun acc m => acc ++ [m]) ms used.
Lemma push_all_app used ms : push_all used ms = used ++ ms.
Proof.
  revert used. induction ms as [|m ms IH]; intros used; cbn [push_all fold_left]; [rewrite app_nil_r; reflexivity|].
  fold (push_all (used ++ [m]) ms). rewrite IH, <- app_assoc. reflexivity.
Qed.

Lemma nth_combine_l {A B} (la : list A) (lb : list B) j a b : nth_error (combine la lb) j = Some (a, b) -> nth_error la j = Some a.
Proof.
  revert lb j. induction la as [|x la IH]; intros [|y lb] [|j] H; simpl in H; try discriminate.
  - injection H as -> _. reflexivity.
  - simpl. apply (IH lb j H).
Qed.
Lemma nth_combine_r {A B} (la : list A) (lb : list B) j a b : nth_error (combine la lb) j = Some (a, b) -> nth_error lb j = Some b.
Proof.
  revert lb j. induction la as [|x la IH]; intros [|y lb] [|j] H; simpl in H; try discriminate.
  - injection H as _ ->. reflexivity.
  - simpl. apply (IH lb j H).
Qed.

Section Merge.
Variable fd : fn_def.
Variable marked : list value -> bool.
Hypothesis Hmarked : forall d l, calls (RDM fd) (S d) "extern::is_payload_marked" [VArr l] (CVal (VBool (marked l))).

Definition quantity_diag (pa pbf : list pfield) : list value :=
  if Nat.eqb (length pa) (length pbf) then [] else [VStr "Mismatched quantity of method parameters."].
Definition marking_diag (pa pbf : list pfield) : list value :=
  if Bool.eqb (marked (map pfield_v pa)) (marked (map pfield_v pbf)) then [] else [VStr "Mismatched payload deserialization in reply handlers."].

(* For EVERY entry with at least one handler and EVERY further handler of that id (any fields, any outcome, with or without a data
   field; pbf = its payload): the entry afterwards has the new handler appended under its own name and outcome; keeps its payload;
   has the data field of whichever of the two declares one (the entry's own first); and gains exactly the diagnostics for a
   different number of payload parameters, for each position whose types differ, and for payloads marked differently *)
Theorem translated_reply_data_merge_gen d dg id hid n0 o0 hs data (pa : list pfield) name2 (o2 : outcome) (fields2 : list pfield) data2 pbf :
  payload_of o2 (map pfield_v fields2) data2 = map pfield_v pbf ->
  calls (RDM fd) (S (S (S d))) "ReplyData::merge"
    [entry_v dg id hid (VCon "()" [n0; o0] :: hs) data pa; handler_v name2 o2 (map pfield_v fields2) data2]
    (CVal (entry_v (push_all (push_all dg (quantity_diag pa pbf) ++ flat_map mismatch (combine pa pbf)) (marking_diag pa pbf))
                   id hid ((VCon "()" [n0; o0] :: hs) ++ [VCon "()" [name2; outcome_v o2]])
                   (match data with Some f => Some f | None => data2 end) pa)).
Proof.
  intros Hpb.
  pose proof (translated_reply_data_new_gen fd d id hid name2 o2 (map pfield_v fields2) data2) as Hnew.
  unfold reply_data_v in Hnew. rewrite Hpb in Hnew.
  set (nh := handler_v name2 o2 (map pfield_v fields2) data2) in *.
  set (dgn := match map pfield_v pbf with [] => [VStr "Missing payload parameter."] | _ => [] end) in *.
  set (nrd := VRec "ReplyData" [("__diags", VArr dgn); ("reply_id", id); ("handler_id", hid);
                                ("handlers", VArr [VCon "()" [name2; outcome_v o2]]);
                                ("data", match data2 with Some f => some f | None => none end); ("payload", VArr (map pfield_v pbf))]) in *.
  unfold quantity_diag, marking_diag.
  assert (Hmin : forall gg fl en, eval (call (RDM fd) (S (S d)) fl) (8 + gg)
                        (ECall "min" [ECall "len" [EVar "zip_a1"]; ECall "len" [EVar "zip_b1"]])
                        (("zip_b1", VArr (map pfield_v pbf)) :: ("zip_a1", VArr (map pfield_v pa)) :: en) =
                      Some (CVal (VNat (length (combine pa pbf))), ("zip_b1", VArr (map pfield_v pbf)) :: ("zip_a1", VArr (map pfield_v pa)) :: en))
    by (intros gg fl en; simpl; rewrite !map_length, combine_length; reflexivity).
  destruct (Nat.eqb (length pa) (length pbf)) eqn:Eq;
  destruct (Bool.eqb (marked (map pfield_v pa)) (marked (map pfield_v pbf))) eqn:Em;
  destruct data as [df|]; destruct data2 as [df2|]; cbn [push_all fold_left];
  (match goal with |- calls _ _ _ [?self0; _] (CVal ?res) =>
     eapply calls_intro with (c := CVal res) (en' := [("self", res); ("new_handler", nh)]); try reflexivity
   end);
  simpl fn_body; cbn [app combine fn_params]; fold nh;
  ((match goal with |- evals _ _ _ [("self", entry_v ?dg0 _ _ ?hs0 ?data0 _); _] (CVal (entry_v ?dgf _ _ _ _ _), _) =>
     match dgf with context [?dq ++ flat_map mismatch (combine pa pbf)] =>
       match goal with |- context [EFor "zip_i1" ?lo ?hi ?b] =>
         destruct (ev_for_inv (RDM fd) (S (S d)) "zip_i1" b
            (fun j en' => en' = [("zip_b1", VArr (map pfield_v pbf)); ("zip_a1", VArr (map pfield_v pa)); ("new_reply_data", nrd); ("current_method_name", n0);
                                 ("self", entry_v (dq ++ flat_map mismatch (firstn j (combine pa pbf))) id hid hs0 data0 pa);
                                 ("new_handler", nh)])
            (length (combine pa pbf)) 0
            [("zip_b1", VArr (map pfield_v pbf)); ("zip_a1", VArr (map pfield_v pa)); ("new_reply_data", nrd); ("current_method_name", n0);
             ("self", entry_v dq id hid hs0 data0 pa); ("new_handler", nh)])
           as (enf & Hfor & Hinv)
       end
     end
   end);
  [ cbn [firstn flat_map]; rewrite app_nil_r; reflexivity
  | intros j en' Hj ->;
    destruct (nth_error (combine pa pbf) j) as [[[ta ra] [tb rb]]|] eqn:Hnth; [|apply nth_error_None in Hnth; lia];
    pose proof (nth_combine_l _ _ _ _ _ Hnth) as Ha0; pose proof (nth_combine_r _ _ _ _ _ Hnth) as Hb0;
    assert (Ha : nth_error (map pfield_v pa) j = Some (pfield_v (ta, ra))) by (rewrite nth_error_map, Ha0; reflexivity);
    assert (Hb : nth_error (map pfield_v pbf) j = Some (pfield_v (tb, rb))) by (rewrite nth_error_map, Hb0; reflexivity);
    rewrite (ReplyDataRefine2.firstn_snoc _ _ _ Hnth), flat_map_app; cbn [flat_map]; rewrite app_nil_r, app_assoc;
    change (mismatch (ta, ra, (tb, rb))) with (if value_eqb ta tb then [] else [VStr "Mismatched parameter in reply handlers."]);
    destruct (value_eqb ta tb) eqn:Et; rewrite ?app_nil_r;
      (eexists; eexists; split;
        [ eapply ev_block; [|reflexivity];
          (eapply ev_stmts_let; [apply (evals_compute _ 6); intros gg fl; simpl; rewrite Ha; reflexivity | reflexivity |]);
          (eapply ev_stmts_let; [apply (evals_compute _ 6); intros gg fl; simpl; rewrite Hb; reflexivity | reflexivity |]);
          (eapply ev_stmts_expr; [|apply ev_stmts_nil]);
          apply (evals_compute _ 20); intros gg fl; simpl; rewrite ?andb_true_r, Et; reflexivity
        | reflexivity ])
  | rewrite Hinv in Hfor; cbn [Nat.add] in Hfor; rewrite firstn_all in Hfor; clear Hinv;
    eapply ev_block;
      [ eapply ev_stmts_expr;
          [ eapply ev_block;
              [ (eapply ev_stmts_let; [cmp 14 | reflexivity |]); cbn [app];
                (eapply ev_stmts_let; [eapply ev_call; [apply (evals_list_compute _ 8); intros ?gg ?fl; reflexivity | exact Hnew] | reflexivity |]); cbn [app];
                (eapply ev_stmts_expr; [apply (evals_compute _ 20); intros gg fl; simpl; rewrite !map_length, Eq; reflexivity |]);
                (eapply ev_stmts_expr;
                   [ eapply ev_block;
                       [ (eapply ev_stmts_let; [cmp 6 | reflexivity |]); (eapply ev_stmts_let; [cmp 6 | reflexivity |]); cbn [app];
                         eapply ev_stmts_expr;
                           [ eapply ev_for; [cmp 2 | apply (evals_compute _ 8); intros ?gg ?fl; apply Hmin | rewrite Nat.sub_0_r; exact Hfor]
                           | apply ev_stmts_nil ]
                       | reflexivity ]
                   | ]);
                (eapply ev_stmts_expr;
                   [ eapply ev_if;
                       [ eapply ev_bin;
                           [ reflexivity | reflexivity
                           | eapply ev_call; [apply (evals_list_compute _ 8); intros ?gg ?fl; reflexivity | apply Hmarked]
                           | eapply ev_call; [apply (evals_list_compute _ 8); intros ?gg ?fl; reflexivity | apply Hmarked]
                           | simpl; rewrite Em; reflexivity ]
                       | cbn [negb]; first [cmp 14 | cmp 2] ]
                   | ]);
                apply (evals_stmts_compute _ 20); intros gg fl; reflexivity
              | reflexivity ]
          | apply ev_stmts_tail; cmp 4 ]
      | reflexivity ] ]).
Qed.
End Merge.

(* the same with plain concatenation *)
Theorem translated_reply_data_merge fd marked
  (Hmarked : forall d l, calls (RDM fd) (S d) "extern::is_payload_marked" [VArr l] (CVal (VBool (marked l))))
  d dg id hid n0 o0 hs data (pa : list pfield) name2 (o2 : outcome) (fields2 : list pfield) data2 pbf :
  payload_of o2 (map pfield_v fields2) data2 = map pfield_v pbf ->
  calls (RDM fd) (S (S (S d))) "ReplyData::merge"
    [entry_v dg id hid (VCon "()" [n0; o0] :: hs) data pa; handler_v name2 o2 (map pfield_v fields2) data2]
    (CVal (entry_v (dg ++ quantity_diag pa pbf ++ flat_map mismatch (combine pa pbf) ++ marking_diag marked pa pbf)
                   id hid ((VCon "()" [n0; o0] :: hs) ++ [VCon "()" [name2; outcome_v o2]])
                   (match data with Some f => Some f | None => data2 end) pa)).
Proof.
  intros Hpb. pose proof (translated_reply_data_merge_gen fd marked Hmarked d dg id hid n0 o0 hs data pa name2 o2 fields2 data2 pbf Hpb) as H.
  rewrite !push_all_app in H. rewrite <- !app_assoc in H. exact H.
Qed.

(* the oracle's assumption is satisfiable: e.g. the function that never reports a marked payload *)
Example an_is_payload_marked :
  forall d l, calls (RDM (stub "extern::is_payload_marked" ["payload"] (EConst (VBool false)))) (S d) "extern::is_payload_marked" [VArr l]
                (CVal (VBool ((fun _ => false) l))).
Proof. intros d l. apply (calls_of_run _ _ 10); [reflexivity | vm_compute; reflexivity]. Qed.

(* two payload parameters at the same position with different types are refused, wherever they stand *)
Lemma mismatched_types_are_reported (pa pbf : list pfield) j ta ra tb rb :
  nth_error pa j = Some (ta, ra) -> nth_error pbf j = Some (tb, rb) -> value_eqb ta tb = false ->
  In (VStr "Mismatched parameter in reply handlers.") (flat_map mismatch (combine pa pbf)).
Proof.
  intros Ha Hb Ht. apply in_flat_map. exists ((ta, ra), (tb, rb)). split.
  - clear Ht. revert pbf j Ha Hb. induction pa as [|a pa' IH]; intros [|b pbf'] [|j] Ha Hb; simpl in *; try discriminate.
    + injection Ha as ->. injection Hb as ->. left. reflexivity.
    + right. apply (IH pbf' j Ha Hb).
  - unfold mismatch. cbn [fst snd]. rewrite Ht. left. reflexivity.
Qed.
