(* Which `sv::msg_attr` lines the generated message type of a kind gets - the constructors of the message types translated from
   sylvia-derive's own source on every run (GenImpAttr.msgnew_fns):
     `EnumMessage::new`   contract/communication/enum_msg.rs    (exec / query / sudo messages of a contract),
     `EnumMessage::new`   interface/communication/enum_msg.rs   (the messages of an interface),
     `StructMessage::new` contract/communication/struct_msg.rs  (instantiate / migrate messages of a contract).
   Each parses the attributes of the source item and keeps, with `.into_iter().filter(|attr| attr.msg_type == msg_ty).collect()`
   (translated as a loop with a conditional push), the forwarded lines of ITS OWN kind.

   Outside the translated functions, answered by stubs: the parser of the attributes (`ParsedSylviaAttributes::new`, which
   answers - for the attributes of THE SOURCE only - a record whose `msg_attrs_forward` is an ARBITRARY list of forwarded
   lines of arbitrary kinds; that the parser collects them in order of appearance is Props/C17's c17_type_attributes with
   the regenerated kind table), the construction of the variants, and what only feeds diagnostics. *)
From Coq Require Import String List Bool Arith Lia.
Require Import SV.Model.Imp SV.Model.GenImpAttr SV.Facts.ImpFacts SV.Facts.MacroRefine.
Import ListNotations.
Open Scope string_scope.
Open Scope list_scope.

(* a forwarded line: the kind it is forwarded to and its tokens (anything) *)
Definition fwd := (string * value)%type.
Definition fwd_v (a : fwd) : value := VRec "MsgAttrForwarding" [("msg_type", kind_v (fst a)); ("attrs", snd a)].
Definition to_kind (ty : string) (a : fwd) : bool := String.eqb (fst a) ty.

Definition source_attrs : value := VStr "THE ATTRIBUTES OF THE SOURCE ITEM".
Definition parsed (l : list fwd) : value := VRec "ParsedSylviaAttributes" [("msg_attrs_forward", VArr (map fwd_v l))].

Definition ATTR (l : list fwd) (vs : list value) (nx ae aq : value) : program :=
  msgnew_fns ++
  [stub "extern::emit_contract_custom_type_accessor" ["self"; "trait_name"; "type_name"]
     (EMatch (EVar "type_name") [(PCon "const::EXEC_TYPE" [], EConst ae); (PCon "const::QUERY_TYPE" [], EConst aq)]);
   stub "extern::ParsedSylviaAttributes::new" ["attrs"] (EMatch (EVar "attrs") [(PLit source_attrs, EConst (parsed l))]);
   stub "extern::MsgVariants::new" ["variants"; "msg_ty"; "generics"; "where_clause"]
     (ERecord "MsgVariants" [("variants", EConst (VArr vs)); ("msg_ty", EVar "msg_ty"); ("of", EVar "variants")] None);
   stub "extern::next" ["it"] (EConst nx); rec_stub "function_name" ["v"]].

Lemma filter_firstn_S {A} (f : A -> bool) l j x : nth_error l j = Some x ->
  filter f (firstn (S j) l) = filter f (firstn j l) ++ (if f x then [x] else []).
Proof.
  revert j. induction l as [|a l IH]; intros [|j] H; simpl in H; try discriminate.
  - injection H as ->. simpl. destruct (f x); reflexivity.
  - change (firstn (S (S j)) (a :: l)) with (a :: firstn (S j) l). change (firstn (S j) (a :: l)) with (a :: firstn j l).
    cbn [filter]. rewrite (IH _ H). destruct (f a); reflexivity.
Qed.

Lemma ev_field P d a fld en c fs v en1 :
  evals P d a en (CVal (VRec c fs), en1) -> lookup fld fs = Some v -> evals P d (EField a fld) en (CVal v, en1).
Proof.
  intros [f1 H1] Hl. exists (S f1). intros f fl Hf Hfl. destruct f as [|f]; [lia|]. simpl. rewrite H1 by lia. simpl.
  rewrite Hl. reflexivity.
Qed.

Local Ltac cmp K := apply (evals_compute _ K); intros ?gg ?fl; reflexivity.

(* the loop `for i in 0..src.len() { let attr = src[i]; if attr.msg_type == msg_ty { acc.push(attr) } }` on the goal
   `evals_stmts P d (SExpr (EFor ..) :: STail (EVar acc) :: _) en _`, whose environment starts with the accumulator (empty)
   and the source list `VArr (map fwd_v l)` *)
Local Ltac filter_loop l ty acc :=
  match goal with |- evals_stmts ?P ?dd (SExpr (EFor ?i ?lo ?hi ?b) :: ?rest) ?en ?res =>
    let Hfor := fresh "Hfor" in let Hinv := fresh "Hinv" in let enf := fresh "enf" in
    destruct (ev_for_inv P dd i b
                (fun j en' => en' = (acc, VArr (map fwd_v (filter (to_kind ty) (firstn j l)))) :: List.tl en) (length l) 0 en)
      as (enf & Hfor & Hinv);
    [ reflexivity
    | let j := fresh "j" in let en' := fresh "en'" in let Hj := fresh "Hj" in
      intros j en' Hj ->; cbn [List.tl];
      let k := fresh "k" in let t := fresh "t" in let Hnth := fresh "Hnth" in let Hm := fresh "Hm" in let Ek := fresh "Ek" in
      destruct (nth_error l j) as [[k t]|] eqn:Hnth; [|apply nth_error_None in Hnth; lia];
      assert (Hm : nth_error (map fwd_v l) j = Some (fwd_v (k, t))) by (rewrite nth_error_map, Hnth; reflexivity);
      rewrite (filter_firstn_S _ _ _ _ Hnth), map_app; change (to_kind ty (k, t)) with (String.eqb k ty);
      destruct (String.eqb k ty) eqn:Ek; cbn [map]; rewrite ?app_nil_r;
      (eexists; eexists; split;
        [ eapply ev_block; [|reflexivity];
          eapply ev_stmts_let; [apply (evals_compute _ 6); intros gg fl; simpl; rewrite Hm; reflexivity | reflexivity |];
          apply ev_stmts_tail; apply (evals_compute _ 14); intros gg fl; simpl; rewrite andb_true_r, Ek; reflexivity
        | reflexivity ])
    | rewrite Hinv in Hfor; cbn [List.tl] in Hfor;
      eapply ev_stmts_expr;
        [ eapply ev_for; [cmp 2 | apply (evals_compute _ 4); intros gg fl; simpl; rewrite map_length; reflexivity
                         | rewrite Nat.sub_0_r; exact Hfor]
        | apply ev_stmts_tail; cbn [Nat.add]; rewrite firstn_all; cmp 4 ] ]
  end.

(* the block `{ let src = ParsedSylviaAttributes::new(source.attrs.iter()).msg_attrs_forward; let acc = []; <loop>; acc }` *)
Local Ltac filter_block l ty acc :=
  eapply ev_block; [|reflexivity];
  (eapply ev_stmts_let;
     [ eapply ev_field;
         [ eapply ev_call; [apply (evals_list_compute _ 8); intros ?gg ?fl; reflexivity | apply (calls_of_run _ 1 20); reflexivity]
         | reflexivity ]
     | reflexivity |]);
  (eapply ev_stmts_let; [cmp 4 | reflexivity |]); cbn [app];
  filter_loop l ty acc.

Definition kept (ty : string) (l : list fwd) : value := VArr (map fwd_v (filter (to_kind ty) l)).

(* ---- the contract's exec / query / sudo message ---- *)
Definition item_impl (w self_ty : value) : value :=
  VRec "ItemImpl" [("attrs", source_attrs); ("generics", VRec "Generics" [("where_clause", w)]); ("self_ty", self_ty)].

Theorem translated_contract_enum_message_attrs l vs nx ae aq ty w self_ty g err custom :
  calls (ATTR l vs nx ae aq) 2 "EnumMessage::new@contract" [item_impl w self_ty; kind_v ty; g; err; custom]
    (CVal (VRec "EnumMessage"
       [("variants", VCon "MsgVariants::new" [VCon ".as_variants" [item_impl w self_ty]; kind_v ty; g; w]); ("msg_ty", kind_v ty);
        ("contract", self_ty); ("error", err); ("custom", custom); ("where_clause", w);
        ("msg_attrs_to_forward", kept ty l)])).
Proof.
  eapply calls_intro with (c := CVal _); try reflexivity.
  simpl fn_body. cbn [app combine fn_params].
  eapply ev_block; [|reflexivity].
  (eapply ev_stmts_let; [cmp 8 | reflexivity |]). cbn [app].
  (eapply ev_stmts_let; [cmp 12 | reflexivity |]). cbn [app].
  eapply ev_stmts_let; [ filter_block l ty "flt_acc1" | reflexivity | ].
  cbn [app]. apply ev_stmts_tail. cmp 14.
Qed.

(* ---- the messages of an interface: the same filter; the custom message / query types it carries are the ones written in
   `sv::custom(..)`, else the interface's associated type of THAT name, else the default ---- *)
Definition item_trait (ident : value) : value := VRec "ItemTrait" [("attrs", source_attrs); ("ident", ident)].
Definition custom_v (m q : value) : value := VRec "Custom" [("msg", m); ("query", q)].
Definition or_default (written : bool) (wv : value) (assoc : bool) (av : value) : value :=
  if written then wv else if assoc then av else VCon "Custom::default_type" [].

Theorem translated_interface_enum_message_attrs l vs nx ty ident variants assoc (bm bq bae baq : bool) vm vq ae aq :
  calls (ATTR l vs nx (opt bae ae) (opt baq aq)) 2 "EnumMessage::new@interface"
    [item_trait ident; kind_v ty; custom_v (opt bm vm) (opt bq vq); variants; assoc]
    (CVal (VRec "EnumMessage"
       [("source", item_trait ident); ("variants", variants); ("associated_types", assoc); ("msg_ty", kind_v ty);
        ("resp_type", or_default bm vm bae ae); ("query_type", or_default bq vq baq aq);
        ("msg_attrs_to_forward", kept ty l)])).
Proof.
  eapply calls_intro with (c := CVal _); try reflexivity.
  simpl fn_body. cbn [app combine fn_params].
  eapply ev_block; [|reflexivity].
  (eapply ev_stmts_let; [cmp 8 | reflexivity |]). cbn [app].
  (eapply ev_stmts_let; [eapply ev_call; [apply (evals_list_compute _ 8); intros ?gg ?fl; reflexivity | apply (calls_of_run _ 1 20); reflexivity] | reflexivity |]). cbn [app].
  (eapply ev_stmts_let; [eapply ev_call; [apply (evals_list_compute _ 8); intros ?gg ?fl; reflexivity | apply (calls_of_run _ 1 20); reflexivity] | reflexivity |]). cbn [app].
  match goal with |- evals_stmts _ _ (SLet _ _ :: _) ?en _ =>
    eapply ev_stmts_let with (v := or_default bm vm bae ae) (en1 := en); [destruct bm, bae; cmp 14 | reflexivity |] end. cbn [app].
  match goal with |- evals_stmts _ _ (SLet _ _ :: _) ?en _ =>
    eapply ev_stmts_let with (v := or_default bq vq baq aq) (en1 := en); [destruct bq, baq; cmp 14 | reflexivity |] end. cbn [app].
  (eapply ev_stmts_let; [ filter_block l ty "flt_acc1" | reflexivity | ]).
  cbn [app]. apply ev_stmts_tail. cmp 14.
Qed.

(* ---- the contract's instantiate / migrate message: no message at all when the handler is missing (instantiate) or declared
   twice; otherwise the same filter ---- *)
Definition struct_msg (src ty g err custom : value) (vs : list value) (l : value) : value :=
  VRec "StructMessage"
    [("source", src); ("contract_type", VStr "Self type");
     ("variants", VRec "MsgVariants" [("variants", VArr vs); ("msg_ty", ty); ("of", VCon ".as_variants" [src])]);
     ("generics", g); ("error", err); ("custom", custom); ("msg_attrs_to_forward", l)].

Theorem translated_struct_message_missing_instantiate l nx ae aq w g err custom :
  calls (ATTR l [] nx ae aq) 2 "StructMessage::new" [item_impl w (VStr "Self type"); kind_v "Instantiate"; g; err; custom]
    (CVal none).
Proof. apply (calls_of_run _ 2 60); [reflexivity | vm_compute; reflexivity]. Qed.

Theorem translated_struct_message_duplicated l v1 v2 vs (b : bool) nx ae aq ty w g err custom :
  calls (ATTR l (v1 :: v2 :: vs) (opt b nx) ae aq) 2 "StructMessage::new" [item_impl w (VStr "Self type"); kind_v ty; g; err; custom]
    (CVal none).
Proof. destruct b; (apply (calls_of_run _ 2 60); [reflexivity | vm_compute; reflexivity]). Qed.

Theorem translated_struct_message_attrs l vs nx ae aq ty w g err custom :
  (vs = [] /\ (ty =? "Instantiate") = false) \/ (exists v, vs = [v]) ->
  calls (ATTR l vs nx ae aq) 2 "StructMessage::new" [item_impl w (VStr "Self type"); kind_v ty; g; err; custom]
    (CVal (some (struct_msg (item_impl w (VStr "Self type")) (kind_v ty) g err custom vs (kept ty l)))).
Proof.
  intros Hvs.
  destruct Hvs as [[-> Hty] | [v ->]];
  (eapply calls_intro with (c := CVal _); try reflexivity;
   simpl fn_body; cbn [app combine fn_params];
   eapply ev_block; [|reflexivity];
   (eapply ev_stmts_let; [cmp 8 | reflexivity |]); cbn [app];
   (eapply ev_stmts_let; [eapply ev_call; [apply (evals_list_compute _ 12); intros ?gg ?fl; reflexivity | apply (calls_of_run _ 1 20); reflexivity] | reflexivity |]);
   cbn [app];
   (eapply ev_stmts_expr; [apply (evals_compute _ 14); intros ?gg ?fl; simpl; rewrite ?Hty; reflexivity |]);
   (eapply ev_stmts_let; [ filter_block l ty "flt_acc3" | reflexivity | ]);
   cbn [app]; apply ev_stmts_tail; cmp 14).
Qed.

(* what the filter keeps: exactly the lines forwarded to the asked kind - every one of them, none of another kind *)
Lemma kept_lines_are_those_of_the_kind ty (l : list fwd) k t :
  In (k, t) (filter (to_kind ty) l) <-> In (k, t) l /\ k = ty.
Proof. rewrite filter_In. unfold to_kind. cbn [fst]. rewrite String.eqb_eq. tauto. Qed.
