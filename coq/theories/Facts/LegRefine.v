(* The match arm of a message variant - macro logic translated from sylvia-derive (GenImpMacro.leg_fns). *)
From Coq Require Import String List Bool Arith Lia.
Require Import SV.Model.Imp SV.Model.GenImpLeg SV.Facts.ImpFacts SV.Facts.MacroRefine.
Import ListNotations.
Open Scope string_scope.
Open Scope list_scope.

(* The match arm of a message variant: `MsgVariant::emit_dispatch_leg` (types/msg_variant.rs) with
   `MsgType::emit_dispatch_leg` (types/msg_type.rs), GenImpMacro.leg_fns. For ANY number of fields: field number j (from 1)
   is bound, by its own name, to the identifier `field<j>`, and the handler is called with `field1, field2, ..` in exactly
   that order. *)
Definition LEG : program := leg_fns ++ [rec_stub "crate_module" []].

Definition arg_id (j : nat) (f : value) : value :=
  VCon "Ident::new" [VCon "format" [VStr "field{}"; VNat (1 + j)]; VCon ".span" [VCon ".name" [f]]].
Fixpoint args_from (j : nat) (l : list value) : list value :=
  match l with [] => [] | f :: r => arg_id j f :: args_from (S j) r end.

Record leg_texts := { l_arm : string; l_bind : string; l_call : string; l_call_query : string }.

Fixpoint binds_from (T : leg_texts) (j : nat) (l : list value) : list value :=
  match l with
  | [] => []
  | f :: r => quote_v (l_bind T) [("field", VCon ".name" [f]); ("num_field", arg_id j f)] :: binds_from T (S j) r
  end.

(* the call: exec / sudo call the handler `function_name` with the context and the arguments; query also serialises *)
Definition leg_call (T : leg_texts) (k : string) (fnm : value) (args : list value) : value :=
  if (k =? "Exec") || (k =? "Sudo") then quote_v (l_call T) [("function_name", fnm); ("args", VArr args)]
  else if k =? "Query" then quote_v (l_call_query T) [("sylvia", cm); ("function_name", fnm); ("args", VArr args)]
  else quote_v "" [].

Definition variant_v (name : value) (fs : list value) (fnm : value) (k : string) : value :=
  VRec "MsgVariant" [("name", name); ("fields", VArr fs); ("function_name", fnm); ("msg_attr", VRec "MsgAttr" [("msg_type", kind_v k)])].

Lemma args_from_app a l x : args_from a (l ++ [x]) = args_from a l ++ [arg_id (a + length l) x].
Proof.
  revert a. induction l as [|y l IH]; intros a; simpl; [rewrite Nat.add_0_r; reflexivity|].
  rewrite IH. replace (S a + length l) with (a + S (length l)) by lia. reflexivity.
Qed.
Lemma binds_from_app T a l x :
  binds_from T a (l ++ [x]) = binds_from T a l ++ [quote_v (l_bind T) [("field", VCon ".name" [x]); ("num_field", arg_id (a + length l) x)]].
Proof.
  revert a. induction l as [|y l IH]; intros a; simpl; [rewrite Nat.add_0_r; reflexivity|].
  rewrite IH. replace (S a + length l) with (a + S (length l)) by lia. reflexivity.
Qed.
Lemma args_from_length a l : length (args_from a l) = length l.
Proof. revert a. induction l as [|y l IH]; intros a; simpl; [reflexivity|]. rewrite IH. reflexivity. Qed.
Lemma nth_args_from a l j f : nth_error l j = Some f -> nth_error (args_from a l) j = Some (arg_id (a + j) f).
Proof.
  revert a j. induction l as [|y l IH]; intros a [|j] H; simpl in H; try discriminate.
  - injection H as ->. simpl. rewrite Nat.add_0_r. reflexivity.
  - simpl. rewrite (IH (S a) j H). replace (S a + j) with (a + S j) by lia. reflexivity.
Qed.
Lemma firstn_snoc {A} (l : list A) j x : nth_error l j = Some x -> firstn (S j) l = firstn j l ++ [x].
Proof.
  revert j. induction l as [|a l IH]; intros [|j] H; simpl in H; try discriminate.
  - injection H as ->. reflexivity.
  - change (firstn (S (S j)) (a :: l)) with (a :: firstn (S j) l). rewrite (IH j H). reflexivity.
Qed.
Lemma firstn_len_le {A} (l : list A) j : j <= length l -> length (firstn j l) = j.
Proof. intros H. rewrite firstn_length. lia. Qed.

(* the texts of the templates, read off the translated program by running it once *)
Definition text_of (r : option ctl) : string := match r with Some (CVal (VCon "quote" [VStr t; _])) => t | _ => "" end.
Definition hole_text (name : string) (r : option ctl) : string :=
  match r with
  | Some (CVal (VCon "quote" [_; VRec "holes" hs])) =>
      match lookup name hs with Some (VArr (VCon "quote" [VStr t; _] :: _)) => t | _ => "" end
  | _ => ""
  end.
Definition probe_variant : option ctl :=
  call LEG 3 200 "MsgVariant::emit_dispatch_leg" [variant_v VUnit [VUnit] VUnit "Exec"].
Definition leg_T : leg_texts :=
  Eval vm_compute in
  {| l_arm := text_of probe_variant;
     l_bind := hole_text "fields" probe_variant;
     l_call := text_of (call LEG 2 100 "MsgType::emit_dispatch_leg" [kind_v "Exec"; VUnit; VArr []]);
     l_call_query := text_of (call LEG 2 100 "MsgType::emit_dispatch_leg" [kind_v "Query"; VUnit; VArr []]) |}.

Lemma calls_type_leg k fnm args : In k six_kinds ->
  calls LEG 2 "MsgType::emit_dispatch_leg" [kind_v k; fnm; VArr args] (CVal (leg_call leg_T k fnm args)).
Proof.
  intros Hk. unfold six_kinds in Hk. simpl in Hk.
  destruct Hk as [<-|[<-|[<-|[<-|[<-|[<-|[]]]]]]];
    (apply (calls_of_run _ 2 100); [reflexivity | vm_compute; reflexivity]).
Qed.

Local Ltac cmp K := apply (evals_compute _ K); intros ?gg ?fl; reflexivity.

Theorem translated_dispatch_leg name (fs : list value) fnm k : In k six_kinds ->
  calls LEG 3 "MsgVariant::emit_dispatch_leg" [variant_v name fs fnm k]
    (CVal (quote_v (l_arm leg_T)
       [("name", name); ("fields", VArr (binds_from leg_T 0 fs)); ("method_call", leg_call leg_T k fnm (args_from 0 fs))])).
Proof.
  intros Hk.
  eapply calls_intro with (c := CVal _); try reflexivity.
  simpl fn_body. cbn [app combine fn_params].
  eapply ev_block; [|reflexivity].
  eapply ev_stmts_let; [cmp 4 | reflexivity |]. cbn [app].
  (* ---- args: fields.iter().zip(1..).map(..).collect() *)
  eapply ev_stmts_let.
  - eapply ev_block; [|reflexivity].
    eapply ev_stmts_let; [cmp 4 | reflexivity |].
    eapply ev_stmts_let; [cmp 4 | reflexivity |]. cbn [app].
    match goal with |- evals_stmts ?P ?dd (SExpr (EFor ?i ?lo ?hi ?b) :: ?rest) ?en ?res =>
      destruct (ev_for_inv P dd i b
                 (fun j en' => en' = ("it_acc1", VArr (args_from 0 (firstn j fs))) :: List.tl en)
                 (length fs) 0 en) as (enf & Hfor & Hinv) end.
    + reflexivity.
    + intros j en' Hj ->. cbn [List.tl].
      destruct (nth_error fs j) as [f|] eqn:Hnth; [|apply nth_error_None in Hnth; lia].
      eexists. eexists. split.
      * eapply ev_block; [|reflexivity]. apply ev_stmts_tail.
        apply (evals_compute _ 40). intros gg fl. simpl. rewrite Hnth. simpl. reflexivity.
      * rewrite (firstn_snoc _ _ _ Hnth), args_from_app, firstn_len_le by lia. reflexivity.
    + rewrite Hinv in Hfor. cbn [List.tl] in Hfor.
      eapply ev_stmts_expr.
      * eapply ev_for; [cmp 2 | cmp 4 |]. rewrite Nat.sub_0_r. exact Hfor.
      * apply ev_stmts_tail. cmp 4.
  - reflexivity.
  - cbn [app Nat.add]. rewrite firstn_all.
    (* ---- fields: fields.iter().map(name).zip(args).map(quote) *)
    eapply ev_stmts_let.
    + eapply ev_block; [|reflexivity].
      eapply ev_stmts_let; [cmp 4 | reflexivity |].
      eapply ev_stmts_let; [cmp 4 | reflexivity |].
      eapply ev_stmts_let; [cmp 4 | reflexivity |]. cbn [app].
      match goal with |- evals_stmts ?P ?dd (SExpr (EFor ?i ?lo ?hi ?b) :: ?rest) ?en ?res =>
        destruct (ev_for_inv P dd i b
                   (fun j en' => en' = ("it_acc2", VArr (binds_from leg_T 0 (firstn j fs))) :: List.tl en)
                   (length fs) 0 en) as (enf & Hfor & Hinv) end.
      * reflexivity.
      * intros j en' Hj ->. cbn [List.tl].
        destruct (nth_error fs j) as [f|] eqn:Hnth; [|apply nth_error_None in Hnth; lia].
        pose proof (nth_args_from 0 fs j f Hnth) as Ha. cbn [Nat.add] in Ha.
        eexists. eexists. split.
        -- eapply ev_block; [|reflexivity]. apply ev_stmts_tail.
           apply (evals_compute _ 40). intros gg fl. simpl. rewrite Hnth. simpl. rewrite Ha. simpl. reflexivity.
        -- rewrite (firstn_snoc _ _ _ Hnth), binds_from_app, firstn_len_le by lia. reflexivity.
      * rewrite Hinv in Hfor. cbn [List.tl] in Hfor.
        eapply ev_stmts_expr.
        -- eapply ev_for; [cmp 2 | |].
           ++ apply (evals_compute _ 6). intros gg fl. simpl. rewrite args_from_length, Nat.min_id. reflexivity.
           ++ rewrite Nat.sub_0_r. exact Hfor.
        -- apply ev_stmts_tail. cmp 4.
    + reflexivity.
    + cbn [app Nat.add]. rewrite firstn_all.
      (* ---- the call, then the arm *)
      eapply ev_stmts_let.
      * eapply ev_call; [apply (evals_list_compute _ 6); intros gg fl; reflexivity|].
        apply calls_type_leg. exact Hk.
      * reflexivity.
      * apply ev_stmts_tail. cmp 8.
Qed.

Lemma nth_binds_from T a l j f : nth_error l j = Some f ->
  nth_error (binds_from T a l) j = Some (quote_v (l_bind T) [("field", VCon ".name" [f]); ("num_field", arg_id (a + j) f)]).
Proof.
  revert a j. induction l as [|y l IH]; intros a [|j] H; simpl in H; try discriminate.
  - injection H as ->. simpl. rewrite Nat.add_0_r. reflexivity.
  - simpl. rewrite (IH (S a) j H). replace (S a + j) with (a + S j) by lia. reflexivity.
Qed.

(* the identifier the j-th field is bound to IS the j-th argument of the call; distinct positions get distinct identifiers *)
Lemma binder_is_argument fs j f : nth_error fs j = Some f ->
  exists x, nth_error (args_from 0 fs) j = Some x /\
            nth_error (binds_from leg_T 0 fs) j = Some (quote_v (l_bind leg_T) [("field", VCon ".name" [f]); ("num_field", x)]).
Proof.
  intros H. exists (arg_id j f). split; [exact (nth_args_from 0 fs j f H) | exact (nth_binds_from leg_T 0 fs j f H)].
Qed.

Lemma arg_ids_distinct j1 j2 f1 f2 : j1 <> j2 -> arg_id j1 f1 <> arg_id j2 f2.
Proof. unfold arg_id. intros N E. injection E as E1 _. lia. Qed.

(* ------------------------------------------------------------------------------------------ *)
(* The collection of the variants of a message enum (`MsgVariants::*` of types/msg_variant.rs): for ANY number of variants, one
   match arm, one published name, one constructor and one enum variant per variant, in order. *)
Definition variant4 (v : string * list value * value * string) : value :=
  let '(n, fs, fnm, k) := v in variant_v (VStr n) fs fnm k.
Definition variants_v (l : list (string * list value * value * string)) : value :=
  VRec "MsgVariants" [("variants", VArr (map variant4 l))].

Definition arm_of_variant (v : string * list value * value * string) : value :=
  let '(n, fs, fnm, k) := v in
  quote_v (l_arm leg_T)
    [("name", VStr n); ("fields", VArr (binds_from leg_T 0 fs)); ("method_call", leg_call leg_T k fnm (args_from 0 fs))].
Definition name_of_variant (v : string * list value * value * string) : value :=
  let '(n, _, _, _) := v in VCon "serde_snake_case" [VStr n].

Lemma firstn_snoc2 {A} (l : list A) j x : nth_error l j = Some x -> firstn (S j) l = firstn j l ++ [x].
Proof. apply firstn_snoc. Qed.

Local Ltac vmap_setup l spec :=
  eapply calls_intro with (c := CVal _); try reflexivity;
  simpl fn_body; cbn [app combine fn_params];
  eapply ev_block; [|reflexivity]; apply ev_stmts_tail; eapply ev_block; [|reflexivity];
  (eapply ev_stmts_let; [cmp 4 | reflexivity |]);
  (eapply ev_stmts_let; [cmp 4 | reflexivity |]); cbn [app].

Theorem translated_variant_names l :
  calls LEG 2 "MsgVariants::as_names_snake_cased" [variants_v l] (CVal (VArr (map name_of_variant l))).
Proof.
  vmap_setup l name_of_variant.
  match goal with |- evals_stmts ?P ?dd (SExpr (EFor ?i ?lo ?hi ?b) :: ?rest) ?en ?res =>
    destruct (ev_for_inv P dd i b (fun j en' => en' = ("map_acc1", VArr (map name_of_variant (firstn j l))) :: List.tl en) (length l) 0 en)
      as (enf & Hfor & Hinv) end.
  - reflexivity.
  - intros j en' Hj ->. cbn [List.tl].
    destruct (nth_error l j) as [[[[n fs] fnm] k]|] eqn:Hnth; [|apply nth_error_None in Hnth; lia].
    assert (Hm : nth_error (map variant4 l) j = Some (variant4 (n, fs, fnm, k))) by (rewrite nth_error_map, Hnth; reflexivity).
    rewrite (firstn_snoc2 _ _ _ Hnth), map_app. cbn [map].
    eexists. eexists. split.
    + eapply ev_block; [|reflexivity].
      eapply ev_stmts_let; [apply (evals_compute _ 6); intros gg fl; simpl; rewrite Hm; reflexivity | reflexivity |].
      apply ev_stmts_tail. cmp 30.
    + reflexivity.
  - rewrite Hinv in Hfor. cbn [List.tl] in Hfor.
    eapply ev_stmts_expr.
    + eapply ev_for; [cmp 2 | apply (evals_compute _ 4); intros gg fl; simpl; rewrite map_length; reflexivity | rewrite Nat.sub_0_r; exact Hfor].
    + apply ev_stmts_tail. cbn [Nat.add]. rewrite firstn_all. cmp 4.
Qed.

Theorem translated_dispatch_legs l :
  Forall (fun v : string * list value * value * string => In (snd v) six_kinds) l ->
  calls LEG 4 "MsgVariants::emit_dispatch_legs" [variants_v l] (CVal (VArr (map arm_of_variant l))).
Proof.
  intros Hkinds.
  vmap_setup l arm_of_variant.
  match goal with |- evals_stmts ?P ?dd (SExpr (EFor ?i ?lo ?hi ?b) :: ?rest) ?en ?res =>
    destruct (ev_for_inv P dd i b (fun j en' => en' = ("map_acc1", VArr (map arm_of_variant (firstn j l))) :: List.tl en) (length l) 0 en)
      as (enf & Hfor & Hinv) end.
  - reflexivity.
  - intros j en' Hj ->. cbn [List.tl].
    destruct (nth_error l j) as [[[[n fs] fnm] k]|] eqn:Hnth; [|apply nth_error_None in Hnth; lia].
    assert (Hm : nth_error (map variant4 l) j = Some (variant4 (n, fs, fnm, k))) by (rewrite nth_error_map, Hnth; reflexivity).
    pose proof (proj1 (Forall_forall _ _) Hkinds _ (nth_error_In _ _ Hnth)) as Hk. cbn [snd] in Hk.
    rewrite (firstn_snoc2 _ _ _ Hnth), map_app. cbn [map].
    eexists. eexists. split.
    + eapply ev_block; [|reflexivity].
      eapply ev_stmts_let; [apply (evals_compute _ 6); intros gg fl; simpl; rewrite Hm; reflexivity | reflexivity |].
      apply ev_stmts_tail.
      eapply ev_assign_var.
      * eapply ev_call_builtin.
        -- eapply ev_list_cons; [cmp 2|]. eapply ev_list_cons; [|apply ev_list_nil].
           eapply ev_call; [apply (evals_list_compute _ 4); intros gg fl; reflexivity|].
           apply (translated_dispatch_leg (VStr n) fs fnm k Hk).
        -- reflexivity.
        -- reflexivity.
      * reflexivity.
      * reflexivity.
    + reflexivity.
  - rewrite Hinv in Hfor. cbn [List.tl] in Hfor.
    eapply ev_stmts_expr.
    + eapply ev_for; [cmp 2 | apply (evals_compute _ 4); intros gg fl; simpl; rewrite map_length; reflexivity | rewrite Nat.sub_0_r; exact Hfor].
    + apply ev_stmts_tail. cbn [Nat.add]. rewrite firstn_all. cmp 4.
Qed.
