(* The GENERATED sub-message builders of reply handlers - templates `emit_submsg_setter`, `emit_submsg_converter` and
   `emit_payload_serialization` of sylvia-derive/src/contract/communication/reply.rs, translated on every run
   (GenImp.reply_builder_fns): the trigger (`#reply_on`) and the id constant (`#reply_id`) the macro splices are two extra
   parameters, the payload parameters one symbolic `args` - so the statements hold for every contract, handler, trigger, id
   and payload. *)
From Coq Require Import String List Bool Arith Lia.
Require Import SV.Model.Imp SV.Model.GenImp SV.Facts.ImpFacts.
Import ListNotations.
Open Scope string_scope.
Open Scope list_scope.

Definition RB : program := reply_builder_fns.

Definition sub_msg_v (id payload msg gas reply_on : value) : value :=
  VRec "SubMsg" [("id", id); ("payload", payload); ("msg", msg); ("gas_limit", gas); ("reply_on", reply_on)].
Definition typed_payload (args : value) : value := VCon "to_json_binary" [args].

Local Ltac run := apply (calls_of_run _ 2 100); [reflexivity | vm_compute; reflexivity].

(* on an existing sub-message: id, trigger and payload are set, the message and the gas limit are KEPT *)
Theorem translated_submsg_setter id0 payload0 msg gas ro0 args ro id :
  calls RB 2 "BuilderT::setter_typed" [sub_msg_v id0 payload0 msg gas ro0; args; ro; id]
    (CVal (VCon "Ok" [sub_msg_v id (typed_payload args) msg gas ro])) /\
  calls RB 2 "BuilderT::setter_raw" [sub_msg_v id0 payload0 msg gas ro0; args; ro; id]
    (CVal (VCon "Ok" [sub_msg_v id args msg gas ro])).
Proof. split; run. Qed.

(* on a WasmMsg / CosmosMsg: a new sub-message wrapping that message, with the id, the trigger, the payload and no gas limit *)
Theorem translated_submsg_converter m args ro id :
  calls RB 2 "BuilderT::converter_typed" [m; args; ro; id]
    (CVal (VCon "Ok" [VRec "SubMsg" [("reply_on", ro); ("id", id); ("msg", VCon "Into::into" [m]); ("payload", typed_payload args);
                                     ("gas_limit", VCon "None" [])]])) /\
  calls RB 2 "BuilderT::converter_raw" [m; args; ro; id]
    (CVal (VCon "Ok" [VRec "SubMsg" [("reply_on", ro); ("id", id); ("msg", VCon "Into::into" [m]); ("payload", args);
                                     ("gas_limit", VCon "None" [])]])).
Proof. split; run. Qed.
