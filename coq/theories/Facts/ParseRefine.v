(* The parser of the framework's attributes, translated from sylvia-derive/src/parser/attributes/mod.rs on every run
   (GenImpParse.attrparse_fns):
     `SylviaAttribute::new` + `match_attribute`        - which attribute paths are the framework's own, and of which kind;
     `ParsedSylviaAttributes::new` + `match_attribute` - what is collected from the attributes of an item: in which order,
                                                          which repetitions are refused (with which diagnostic).
   The method `match_attribute(&mut self, ..)` is translated by state passing (it returns the updated receiver); the
   diagnostics (`emit_error!`) are appended to a ghost field `__diags` of the object being built.

   Outside the translated functions, answered by stubs: `meta.require_list()` and the parsers of the individual attribute
   contents (`Custom::new`, `MsgAttr::new`, ..: each answers what the attribute's content carries - an Ok value or an error -
   so the theorems hold for every way these may answer), `MsgAttr::msg_type`. *)
From Coq Require Import String List Bool Arith Lia.
Require Import SV.Model.Imp SV.Model.GenImpParse SV.Facts.ImpFacts SV.Facts.MacroRefine SV.Facts.FoldRefine.
Import ListNotations.
Open Scope string_scope.
Open Scope list_scope.

(* ---- the kinds of framework attributes ---- *)
Inductive svkind := KCustom | KError | KMessages | KMsg | KOverride | KVariantAttrs | KMsgAttrs | KPayload | KData | KFeatures.
Definition svkind_name (k : svkind) : string :=
  match k with
  | KCustom => "Custom" | KError => "Error" | KMessages => "Messages" | KMsg => "Msg" | KOverride => "OverrideEntryPoint"
  | KVariantAttrs => "VariantAttrs" | KMsgAttrs => "MsgAttrs" | KPayload => "Payload" | KData => "Data" | KFeatures => "Features"
  end.
Definition svkind_v (k : svkind) : value := VCon ("SylviaAttribute::" ++ svkind_name k) [].
Definition kopt (o : option svkind) : value := match o with Some k => some (svkind_v k) | None => none end.

(* the second segment of `sv::<name>` *)
Definition name_kind (s : string) : option svkind :=
  if "custom" =? s then Some KCustom else if "error" =? s then Some KError else if "messages" =? s then Some KMessages
  else if "msg" =? s then Some KMsg else if "override_entry_point" =? s then Some KOverride
  else if "attr" =? s then Some KVariantAttrs else if "msg_attr" =? s then Some KMsgAttrs
  else if "payload" =? s then Some KPayload else if "data" =? s then Some KData
  else if "features" =? s then Some KFeatures else None.

(* an attribute path is the framework's own exactly when it has two segments, the first being `sv`, the second a known name *)
Definition classify (path : list string) : option svkind :=
  match path with
  | [s0; s1] => if s0 =? "sv" then name_kind s1 else None
  | _ => None
  end.

Definition seg_v (s : string) : value := VRec "PathSegment" [("ident", VStr s)].

(* ---- attributes as the parser sees them ---- *)
(* the content: not a parenthesised list (`require_list` fails with e), or a list that the parser of its kind accepts (ok,
   giving v) or refuses (giving the error v) *)
Inductive content := NotList (e : value) | IsList (ok : bool) (v : value).
Record ain := { a_path : list string; a_content : content; a_msg_type : string; a_resp : value }.

Definition result_v (ok : bool) (v : value) : value := if ok then VCon "Ok" [v] else VCon "Err" [v].
Definition list_v (a : ain) (ok : bool) (v : value) : value :=
  VRec "MetaList" [("parsed", result_v ok v); ("msg_type", kind_v (a_msg_type a)); ("resp_type", a_resp a)].
Definition meta_v (a : ain) : value :=
  VRec "Meta" [("list", match a_content a with NotList e => VCon "Err" [e] | IsList ok v => VCon "Ok" [list_v a ok v] end)].
Definition ain_v (a : ain) : value :=
  VRec "Attribute" [("path", VRec "Path" [("segments", VArr (map seg_v (a_path a)))]); ("meta", meta_v a)].

Definition parser_stub (name : string) : fn_def := stub ("extern::" ++ name) ["attr"] (EField (EVar "attr") "parsed").
(* a parsed `sv::msg(..)`: its message kind (whatever the attribute says) and the rest *)
Definition msg_attr_v (ty resp v : value) : value := VRec "MsgAttr" [("msg_type", ty); ("resp_type", resp); ("other", v)].

Definition PARSE : program :=
  attrparse_fns ++
  [stub "extern::require_list" ["meta"] (EField (EVar "meta") "list");
   stub "extern::msg_type" ["m"] (EField (EVar "m") "msg_type");
   stub "extern::MsgAttr::new" ["attr"]
     (EMatch (EField (EVar "attr") "parsed")
        [(PCon "Ok" [PVar "v"], ECon "Ok" [ERecord "MsgAttr" [("msg_type", EField (EVar "attr") "msg_type"); ("resp_type", EField (EVar "attr") "resp_type"); ("other", EVar "v")] None]);
         (PCon "Err" [PVar "e"], ECon "Err" [EVar "e"])]);
   parser_stub "Custom::new"; parser_stub "ContractErrorAttr::new"; parser_stub "ContractMessageAttr::new";
   parser_stub "OverrideEntryPoint::new"; parser_stub "VariantAttrForwarding::new"; parser_stub "MsgAttrForwarding::new";
   parser_stub "PayloadFieldParam::new"; parser_stub "DataFieldParams::new"; parser_stub "SylviaFeatures::new"].

Local Ltac cmp K := apply (evals_compute _ K); intros ?gg ?fl; reflexivity.
Local Ltac run d := apply (calls_of_run _ d 40); [reflexivity | vm_compute; reflexivity].

Lemma ev_if_true P d c t e en en1 res :
  evals P d c en (CVal (VBool true), en1) -> evals P d t en1 res -> evals P d (EIf c t e) en res.
Proof.
  intros [f1 H1] [f2 H2]. exists (S (max f1 f2)). intros f fl Hf Hfl. destruct f as [|f]; [lia|]. simpl.
  rewrite H1 by lia. simpl. apply H2; lia.
Qed.

(* ---- SylviaAttribute::match_attribute: the name table ---- *)
Theorem translated_sv_match_attribute d s :
  calls PARSE (S d) "SylviaAttribute::match_attribute" [seg_v s] (CVal (kopt (name_kind s))).
Proof.
  unfold name_kind.
  destruct ("custom" =? s) eqn:E1; [apply String.eqb_eq in E1; subst s; run (S d)|].
  destruct ("error" =? s) eqn:E2; [apply String.eqb_eq in E2; subst s; run (S d)|].
  destruct ("messages" =? s) eqn:E3; [apply String.eqb_eq in E3; subst s; run (S d)|].
  destruct ("msg" =? s) eqn:E4; [apply String.eqb_eq in E4; subst s; run (S d)|].
  destruct ("override_entry_point" =? s) eqn:E5; [apply String.eqb_eq in E5; subst s; run (S d)|].
  destruct ("attr" =? s) eqn:E6; [apply String.eqb_eq in E6; subst s; run (S d)|].
  destruct ("msg_attr" =? s) eqn:E7; [apply String.eqb_eq in E7; subst s; run (S d)|].
  destruct ("payload" =? s) eqn:E8; [apply String.eqb_eq in E8; subst s; run (S d)|].
  destruct ("data" =? s) eqn:E9; [apply String.eqb_eq in E9; subst s; run (S d)|].
  destruct ("features" =? s) eqn:E10; [apply String.eqb_eq in E10; subst s; run (S d)|].
  eapply calls_intro with (c := CVal _); try reflexivity.
  simpl fn_body. cbn [app combine fn_params].
  eapply ev_block; [|reflexivity]. apply ev_stmts_tail.
  eapply ev_match; [cmp 8|].
  do 10 (eapply ev_arm_miss; [cbn [pmatch value_eqb]; rewrite ?E1, ?E2, ?E3, ?E4, ?E5, ?E6, ?E7, ?E8, ?E9, ?E10; reflexivity|]).
  apply ev_arm_hit0; [reflexivity|]. cmp 4.
Qed.

(* ---- SylviaAttribute::new: which attributes are the framework's own ---- *)
Definition path_attr_v (path : list string) (meta : value) : value :=
  VRec "Attribute" [("path", VRec "Path" [("segments", VArr (map seg_v path))]); ("meta", meta)].

Theorem translated_sv_new d path meta :
  calls PARSE (S (S d)) "SylviaAttribute::new" [path_attr_v path meta] (CVal (kopt (classify path))).
Proof.
  destruct path as [|s0 [|s1 [|s2 r]]]; try (run (S (S d))).
  cbn [classify]. destruct (s0 =? "sv") eqn:E0.
  - apply String.eqb_eq in E0. subst s0.
    eapply calls_intro with (c := CVal _); try reflexivity.
    simpl fn_body. cbn [app combine fn_params].
    eapply ev_block; [|reflexivity].
    (eapply ev_stmts_let; [cmp 8 | reflexivity |]). cbn [app].
    apply ev_stmts_tail. eapply ev_if_true; [cmp 14|].
    eapply ev_block; [|reflexivity]. apply ev_stmts_tail.
    eapply ev_call; [apply (evals_list_compute _ 8); intros ?gg ?fl; reflexivity | apply translated_sv_match_attribute].
  - eapply calls_intro with (c := CVal _); try reflexivity.
    apply (evals_compute _ 20). intros gg fl. simpl. rewrite E0. reflexivity.
Qed.

(* ---- ParsedSylviaAttributes::new: what is collected ---- *)
Record st := { s_custom : option value; s_error : option value; s_messages : list value; s_msg : option (string * value * value);
               s_overrides : list value; s_vattrs : list value; s_mattrs : list value; s_features : value;
               s_data : option value; s_payload : option value; s_diags : list value }.

Definition ov (o : option value) : value := match o with Some v => some v | None => none end.
Definition st_v (s : st) : value :=
  VRec "ParsedSylviaAttributes"
    [("custom_attr", ov (s_custom s)); ("error_attrs", ov (s_error s)); ("messages_attrs", VArr (s_messages s));
     ("msg_attr", match s_msg s with Some (ty, resp, v) => some (msg_attr_v (kind_v ty) resp v) | None => none end);
     ("override_entry_point_attrs", VArr (s_overrides s)); ("variant_attrs_forward", VArr (s_vattrs s));
     ("msg_attrs_forward", VArr (s_mattrs s)); ("sv_features", s_features s); ("data", ov (s_data s));
     ("payload", ov (s_payload s)); ("__diags", VArr (s_diags s))].

Definition init : st :=
  {| s_custom := None; s_error := None; s_messages := []; s_msg := None; s_overrides := []; s_vattrs := []; s_mattrs := [];
     s_features := VCon "SylviaFeatures::default" []; s_data := None; s_payload := None; s_diags := [] |}.

Definition diag (s : st) (m : string) : st :=
  {| s_custom := s_custom s; s_error := s_error s; s_messages := s_messages s; s_msg := s_msg s; s_overrides := s_overrides s;
     s_vattrs := s_vattrs s; s_mattrs := s_mattrs s; s_features := s_features s; s_data := s_data s; s_payload := s_payload s;
     s_diags := s_diags s ++ [VStr m] |}.

(* one attribute with a list content, of kind k, whose content parses (ok) to v or fails *)
Definition collect (s : st) (k : svkind) (ok : bool) (v : value) (ty : string) (resp : value) : st :=
  match k with
  | KCustom => match s_custom s with
               | None => if ok then {| s_custom := Some v; s_error := s_error s; s_messages := s_messages s; s_msg := s_msg s;
                                       s_overrides := s_overrides s; s_vattrs := s_vattrs s; s_mattrs := s_mattrs s;
                                       s_features := s_features s; s_data := s_data s; s_payload := s_payload s; s_diags := s_diags s |}
                         else s
               | Some _ => diag s "The attribute `sv::custom` is redefined"
               end
  | KError => match s_error s with
              | None => if ok then {| s_custom := s_custom s; s_error := Some v; s_messages := s_messages s; s_msg := s_msg s;
                                      s_overrides := s_overrides s; s_vattrs := s_vattrs s; s_mattrs := s_mattrs s;
                                      s_features := s_features s; s_data := s_data s; s_payload := s_payload s; s_diags := s_diags s |}
                        else s
              | Some _ => diag s "The attribute `sv::error` is redefined"
              end
  | KMsg => match s_msg s with
            | None => if ok then {| s_custom := s_custom s; s_error := s_error s; s_messages := s_messages s; s_msg := Some (ty, resp, v);
                                    s_overrides := s_overrides s; s_vattrs := s_vattrs s; s_mattrs := s_mattrs s;
                                    s_features := s_features s; s_data := s_data s; s_payload := s_payload s; s_diags := s_diags s |}
                      else s
            | Some _ => diag s "The attribute `sv::msg` is redefined"
            end
  | KMessages => if ok then {| s_custom := s_custom s; s_error := s_error s; s_messages := s_messages s ++ [v]; s_msg := s_msg s;
                               s_overrides := s_overrides s; s_vattrs := s_vattrs s; s_mattrs := s_mattrs s;
                               s_features := s_features s; s_data := s_data s; s_payload := s_payload s; s_diags := s_diags s |}
                 else s
  | KOverride => if ok then {| s_custom := s_custom s; s_error := s_error s; s_messages := s_messages s; s_msg := s_msg s;
                               s_overrides := s_overrides s ++ [v]; s_vattrs := s_vattrs s; s_mattrs := s_mattrs s;
                               s_features := s_features s; s_data := s_data s; s_payload := s_payload s; s_diags := s_diags s |}
                 else s
  | KVariantAttrs => {| s_custom := s_custom s; s_error := s_error s; s_messages := s_messages s; s_msg := s_msg s;
                        s_overrides := s_overrides s; s_vattrs := s_vattrs s ++ [result_v ok v]; s_mattrs := s_mattrs s;
                        s_features := s_features s; s_data := s_data s; s_payload := s_payload s; s_diags := s_diags s |}
  | KMsgAttrs => if ok then {| s_custom := s_custom s; s_error := s_error s; s_messages := s_messages s; s_msg := s_msg s;
                               s_overrides := s_overrides s; s_vattrs := s_vattrs s; s_mattrs := s_mattrs s ++ [v];
                               s_features := s_features s; s_data := s_data s; s_payload := s_payload s; s_diags := s_diags s |}
                 else s
  | KPayload => if ok then {| s_custom := s_custom s; s_error := s_error s; s_messages := s_messages s; s_msg := s_msg s;
                              s_overrides := s_overrides s; s_vattrs := s_vattrs s; s_mattrs := s_mattrs s;
                              s_features := s_features s; s_data := s_data s; s_payload := Some v; s_diags := s_diags s |}
                else s
  | KData => if ok then {| s_custom := s_custom s; s_error := s_error s; s_messages := s_messages s; s_msg := s_msg s;
                           s_overrides := s_overrides s; s_vattrs := s_vattrs s; s_mattrs := s_mattrs s;
                           s_features := s_features s; s_data := Some v; s_payload := s_payload s; s_diags := s_diags s |}
             else s
  | KFeatures => if ok then {| s_custom := s_custom s; s_error := s_error s; s_messages := s_messages s; s_msg := s_msg s;
                               s_overrides := s_overrides s; s_vattrs := s_vattrs s; s_mattrs := s_mattrs s;
                               s_features := v; s_data := s_data s; s_payload := s_payload s; s_diags := s_diags s |}
                 else s
  end.

(* one attribute of the item *)
Definition step (s : st) (a : ain) : st :=
  match classify (a_path a), a_content a with
  | Some k, IsList ok v => collect s k ok v (a_msg_type a) (a_resp a)
  | Some KData, NotList _ =>          (* `#[sv::data]` without parameters *)
      {| s_custom := s_custom s; s_error := s_error s; s_messages := s_messages s; s_msg := s_msg s;
         s_overrides := s_overrides s; s_vattrs := s_vattrs s; s_mattrs := s_mattrs s; s_features := s_features s;
         s_data := Some (VCon "DataFieldParams::default" []); s_payload := s_payload s; s_diags := s_diags s |}
  | Some KPayload, NotList _ => diag s "Missing parameters for `sv::payload`"
  | _, _ => s                         (* not the framework's, or a framework attribute without a list: ignored *)
  end.

(* after the last attribute: `sv::attr` on an instantiate / migrate handler is refused *)
Definition finish (s : st) : st :=
  match s_vattrs s, s_msg s with
  | _ :: _, Some (ty, _, _) =>
      if "Instantiate" =? ty then diag s "The attribute `sv::attr` is not supported for `instantiate`"
      else if "Migrate" =? ty then diag s "The attribute `sv::attr` is not supported for `migrate`"
      else s
  | _, _ => s
  end.

Lemma evals_stmts_compute_calls P K d ss en r :
  (forall g h, eval_stmts (call P d (K + h)) (K + g) ss en = Some r) -> evals_stmts P d ss en r.
Proof.
  intros H. exists K. intros f fl Hf Hfl. replace f with (K + (f - K)) by lia. replace fl with (K + (fl - K)) by lia. apply H.
Qed.

Local Arguments String.eqb _ _ : simpl nomatch.

Lemma fold_left_snoc {A B} (f : A -> B -> A) l x a : fold_left f (l ++ [x]) a = f (fold_left f l a) x.
Proof. rewrite fold_left_app. reflexivity. Qed.

(* For EVERY list of attributes: the parser's result is the left fold of `step` over the attributes in their order, then
   `finish` - collected values, their order, what is refused and with which diagnostics. *)
Theorem translated_parsed_attributes d (l : list ain) :
  calls PARSE (S (S (S d))) "ParsedSylviaAttributes::new" [VArr (map ain_v l)] (CVal (st_v (finish (fold_left step l init)))).
Proof.
  eapply calls_intro with (c := CVal (st_v (finish (fold_left step l init)))) (en' := [("attrs", VArr (map ain_v l))]); try reflexivity.
  simpl fn_body. cbn [app combine fn_params].
  match goal with |- context [EFor ?i ?lo ?hi ?b] =>
    destruct (ev_for_inv PARSE (S (S d)) i b
                (fun j en' => en' = [("for_src1", VArr (map ain_v l)); ("result", st_v (fold_left step (firstn j l) init));
                                     ("attrs", VArr (map ain_v l))])
                (length l) 0
                [("for_src1", VArr (map ain_v l)); ("result", st_v init); ("attrs", VArr (map ain_v l))])
      as (enf & Hfor & Hinv) end.
  - reflexivity.
  - intros j en' Hj ->.
    destruct (nth_error l j) as [a|] eqn:Hnth; [|apply nth_error_None in Hnth; lia].
    assert (Hm : nth_error (map ain_v l) j = Some (ain_v a)) by (rewrite nth_error_map, Hnth; reflexivity).
    rewrite (firstn_snoc _ _ _ Hnth), fold_left_snoc.
    generalize (fold_left step (firstn j l) init). intros s.
    destruct s as [c e ms m ov' va ma f dt pl dg]. destruct a as [path cont ty rs].
    unfold step. cbn [a_path a_content a_msg_type a_resp].
    assert (Hsv : calls PARSE (S (S d)) "SylviaAttribute::new"
                    [ain_v {| a_path := path; a_content := cont; a_msg_type := ty; a_resp := rs |}] (CVal (kopt (classify path))))
      by (apply (translated_sv_new d path)).
    destruct (classify path) as [k|]; destruct cont as [e0|ok v];
      [ destruct k; try destruct c; try destruct e; try destruct m as [[[? ?] ?]|]
      | destruct k; destruct ok; try destruct c; try destruct e; try destruct m as [[[? ?] ?]|]
      | | destruct ok ];
      (eexists; eexists; split;
        [ eapply ev_block; [|reflexivity];
          eapply ev_stmts_let; [apply (evals_compute _ 6); intros gg fl; simpl; rewrite Hm; reflexivity | reflexivity |];
          (eapply ev_stmts_expr; [|apply ev_stmts_nil]);
          eapply ev_block; [|reflexivity];
          (eapply ev_stmts_let; [eapply ev_call; [apply (evals_list_compute _ 8); intros ?gg ?fl; reflexivity | exact Hsv] | reflexivity |]);
          apply (evals_stmts_compute_calls _ 40); intros gg hh; reflexivity
        | reflexivity ]).
  - rewrite Hinv in Hfor. cbn [Nat.add] in Hfor. rewrite firstn_all in Hfor.
    revert Hfor. generalize (fold_left step l init). intros s Hfor.
    destruct s as [c e ms m ov' va ma f dt pl dg]. unfold finish. cbn [s_vattrs s_msg].
    assert (Hlen : forall gg fl, eval (call PARSE (S (S d)) fl) (4 + gg) (ECall "len" [EVar "for_src1"])
                     [("for_src1", VArr (map ain_v l)); ("result", st_v init); ("attrs", VArr (map ain_v l))] =
                   Some (CVal (VNat (length l)), [("for_src1", VArr (map ain_v l)); ("result", st_v init); ("attrs", VArr (map ain_v l))]))
      by (intros gg fl; simpl; rewrite map_length; reflexivity).
    Local Ltac front Hfor Hlen k :=
      eapply ev_block;
      [ (eapply ev_stmts_let; [cmp 30 | reflexivity |]); cbn [app];
        eapply ev_stmts_expr;
          [ eapply ev_block; [|reflexivity];
            (eapply ev_stmts_let; [cmp 4 | reflexivity |]); cbn [app];
            (eapply ev_stmts_expr; [|apply ev_stmts_nil]);
            eapply ev_for; [cmp 2 | apply (evals_compute _ 4); exact Hlen | rewrite Nat.sub_0_r; exact Hfor]
          | k ]
      | reflexivity ].
    destruct va as [|x va]; [front Hfor Hlen ltac:(apply (evals_stmts_compute_calls _ 40); intros gg hh; reflexivity)|].
    destruct m as [[[ty rs] mv]|]; [|front Hfor Hlen ltac:(apply (evals_stmts_compute_calls _ 40); intros gg hh; reflexivity)].
    destruct ("Instantiate" =? ty) eqn:Ei.
    { front Hfor Hlen ltac:(apply (evals_stmts_compute_calls _ 40); intros gg hh; simpl; rewrite Ei; reflexivity). }
    destruct ("Migrate" =? ty) eqn:Em.
    { front Hfor Hlen ltac:(apply (evals_stmts_compute_calls _ 40); intros gg hh; simpl; rewrite Ei; simpl; rewrite Em; reflexivity). }
    front Hfor Hlen ltac:(apply (evals_stmts_compute_calls _ 40); intros gg hh; simpl; rewrite Ei; simpl; rewrite Em; reflexivity).
Qed.

