(* End-to-end: the body a remote helper builds (the serialised message of method m with arguments
   vals) sent to the target's entry point of the same kind runs exactly m with vals (C10). *)
From Coq Require Import String List Bool Arith Lia ZArith.
Require Import SV.Base.Util SV.Base.StrOrder SV.Base.Json SV.Model.Kinds SV.Model.Syntax SV.Model.Expand SV.Model.Sem.
Require Import SV.Facts.JsonFacts SV.Facts.SemFacts SV.Facts.WrapperFacts.
Import ListNotations.
Open Scope string_scope.
Open Scope list_scope.

Section Remote.
Variable val : Type.
Variable enc : ty -> val -> json.
Variable dec : ty -> json -> option val.
Variable is_option : ty -> bool.
Variable default_val : ty -> val.
Variable wt : ty -> val -> bool.
Hypothesis dec_enc : forall t v, wt t v = true -> dec t (enc t v) = Some v.
Hypothesis dec_collapse : forall t v, nodup_keys v = true -> dec t (collapse v) = dec t v.
(* an argument's own encoding repeats no key (true of serde's Serialize for maps/structs) *)
Hypothesis enc_nodup : forall t v, wt t v = true -> nodup_keys (enc t v) = true.
Variable ctxT : Type.
Variable outcome : Type.
Variable handler : string -> ctxT -> list val -> outcome.
Variable parts : list edesc.
Hypothesis disjoint : forall i i' k, i < length parts -> i' < length parts ->
  In k (map vd_wire (nth i parts [])) -> In k (map vd_wire (nth i' parts [])) -> i = i'.

Lemma body_nodup fs vals :
  NoDup (map fd_name fs) -> well_typed val wt fs vals -> nodup_keys (JObj (body_of val enc fs vals)) = true.
Proof.
  intros N (L & W). simpl. rewrite andb_true_iff. split.
  - apply nodupb_NoDup. rewrite (body_keys val enc) by exact L. exact N.
  - apply forallb_forall. intros [k x] I. simpl. unfold body_of in I. apply in_map_iff in I.
    destruct I as ([f v] & E & I). injection E as <- <-. simpl. apply enc_nodup.
    rewrite Forall_forall in W. exact (W (f, v) I).
Qed.

Theorem remote_body_reaches_method i v vals c :
  i < length parts -> wf_enum (nth i parts []) -> In v (nth i parts []) -> well_typed val wt (vd_fields v) vals ->
  forall j, encode_enum val enc (nth i parts []) (mkMsg (vd_fn v) (fields_of val (vd_fields v) vals)) = Some j ->
  entry_enum val dec is_option default_val ctxT outcome handler parts (tables parts) j c =
  ECalled [Call (vd_fn v) c vals] (handler (vd_fn v) c vals).
Proof.
  intros L W I WT j E. set (e := nth i parts []) in *.
  pose proof (decode_encode_enum val enc dec is_option default_val wt dec_enc e v vals W I WT j E) as D.
  destruct WT as (Len & Wt). rewrite (encode_enum_shape val enc e v vals W I Len) in E. injection E as <-.
  assert (ND : nodup_keys (JObj [(vd_wire v, JObj (body_of val enc (vd_fields v) vals))]) = true).
  { destruct W as (_ & _ & Fw). rewrite Forall_forall in Fw.
    change (nodupb [vd_wire v] && (nodup_keys (JObj (body_of val enc (vd_fields v) vals)) && true) = true).
    rewrite body_nodup; [reflexivity | apply Fw; exact I | split; assumption]. }
  assert (WOK : decode_wrapper val dec is_option default_val parts (tables parts)
                  (JObj [(vd_wire v, JObj (body_of val enc (vd_fields v) vals))]) =
                WOk i (mkMsg (vd_fn v) (fields_of val (vd_fields v) vals))).
  { apply (wrapper_accepts_iff_exactly_one_part val dec is_option default_val dec_collapse parts disjoint); [exact ND|].
    split; [exact L|]. split; [exact D|].
    intros i' m' L' D'. apply (decode_enum_accepts_only_own_names val dec is_option default_val) in D'.
    destruct D' as (k' & body' & v' & Ej & Iv' & Ew & _). injection Ej as <- <-.
    apply (disjoint i' i (vd_wire v)); auto.
    - rewrite <- Ew. apply in_map. exact Iv'.
    - apply in_map. exact I. }
  unfold entry_enum. rewrite WOK. fold e.
  rewrite (dispatch_enum_delivers_arguments val ctxT outcome handler e v vals c W I Len). reflexivity.
Qed.

End Remote.
