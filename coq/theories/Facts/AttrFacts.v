(* Where forwarded attributes land (C17): `sv::msg_attr(kind, ..)` on the item goes to the generated
   type of that kind, `sv::attr(..)` on a handler to its variant, attributes on an argument to its field. *)
From Coq Require Import String List Bool.
Require Import SV.Base.Util SV.Model.Kinds SV.Model.GenTables SV.Model.Casing SV.Model.Syntax SV.Model.Expand.
Require Import SV.Facts.KindsFacts SV.Facts.ExpandFacts.
Import ListNotations.
Open Scope string_scope.
Open Scope list_scope.

(* what one attribute contributes to the list of type-level forwards / variant-level forwards *)
Definition msg_attr_of (a : attr) : list (kind * string) :=
  match a with
  | ASv name (SvMsgAttr kn t) =>
      match sv_attr_of_string name with
      | Some tag => if tag =? "MsgAttrs" then match msg_attr_kind_of_string kn with Some k => [(k, t)] | None => [] end else []
      | None => []
      end
  | _ => []
  end.

Definition variant_attr_of (a : attr) : list string :=
  match a with
  | ASv name (SvAttr t) =>
      match sv_attr_of_string name with
      | Some tag => if tag =? "VariantAttrs" then [t] else []
      | None => []
      end
  | _ => []
  end.

Lemma add_diag_msg_attrs p d : p_msg_attrs (add_diag p d) = p_msg_attrs p. Proof. reflexivity. Qed.
Lemma add_diag_variant_attrs p d : p_variant_attrs (add_diag p d) = p_variant_attrs p. Proof. reflexivity. Qed.

Ltac tag_cases tag :=
  repeat match goal with
         | |- context [if (tag =? ?s)%string then _ else _] =>
             destruct (String.eqb_spec tag s) as [->|?]
         end.

Lemma apply_sv_msg_attrs tag b p :
  p_msg_attrs (apply_sv tag b p) =
  p_msg_attrs p ++ (if tag =? "MsgAttrs" then match b with SvMsgAttr kn t => match msg_attr_kind_of_string kn with Some k => [(k, t)] | None => [] end | _ => [] end else []).
Proof.
  unfold apply_sv.
  destruct (String.eqb_spec tag "Msg") as [->|N1].
  { simpl. destruct b; simpl; rewrite ?app_nil_r; try reflexivity.
    destruct (p_msg p); simpl; rewrite ?app_nil_r; try reflexivity.
    all: try (destruct (msg_kind_of_string kind_name); simpl; rewrite ?app_nil_r; try reflexivity).
    all: try (destruct (match reply_on with Some r => reply_on_of_string r | None => Some ROAlways end); simpl; rewrite ?app_nil_r; reflexivity). }
  destruct (String.eqb_spec tag "VariantAttrs") as [->|N2].
  { simpl. destruct b; simpl; rewrite ?app_nil_r; reflexivity. }
  destruct (String.eqb_spec tag "MsgAttrs") as [->|N3].
  { destruct b; simpl; rewrite ?app_nil_r; try reflexivity.
    all: try (destruct (msg_attr_kind_of_string kind_name); simpl; rewrite ?app_nil_r; reflexivity). }
  destruct (String.eqb_spec tag "Messages") as [->|N4].
  { destruct b; simpl; rewrite ?app_nil_r; reflexivity. }
  destruct (String.eqb_spec tag "OverrideEntryPoint") as [->|N5].
  { destruct b; simpl; rewrite ?app_nil_r; try reflexivity.
    all: try (destruct (override_kind_of_string kind_name); simpl; rewrite ?app_nil_r; reflexivity). }
  destruct (String.eqb_spec tag "Custom") as [->|N6].
  { destruct b; simpl; rewrite ?app_nil_r; try reflexivity. destruct (p_custom p); simpl; rewrite ?app_nil_r; reflexivity. }
  destruct (String.eqb_spec tag "Error") as [->|N7].
  { destruct b; simpl; rewrite ?app_nil_r; try reflexivity. destruct (p_error p); simpl; rewrite ?app_nil_r; reflexivity. }
  destruct (String.eqb_spec tag "Features") as [->|N8].
  { destruct b; simpl; rewrite ?app_nil_r; try reflexivity.
    destruct (forallb _ names); simpl; rewrite ?app_nil_r; reflexivity. }
  destruct (String.eqb_spec tag "Data") as [->|N9].
  { destruct b; simpl; rewrite ?app_nil_r; try reflexivity.
    destruct (parse_data_flags flags _) as [d|]; simpl; rewrite ?app_nil_r; try reflexivity.
    destruct (dp_inst d && dp_raw d); simpl; rewrite ?app_nil_r; reflexivity. }
  destruct (String.eqb_spec tag "Payload") as [->|N10].
  { destruct b; simpl; rewrite ?app_nil_r; try reflexivity.
    destruct flags as [|f [|? ?]]; simpl; rewrite ?app_nil_r; try reflexivity.
    all: try (destruct (payload_flag_of_string f); simpl; rewrite ?app_nil_r; reflexivity). }
  rewrite app_nil_r. reflexivity.
Qed.

Lemma apply_sv_variant_attrs tag b p :
  p_variant_attrs (apply_sv tag b p) =
  p_variant_attrs p ++ (if tag =? "VariantAttrs" then match b with SvAttr t => [t] | _ => [] end else []).
Proof.
  unfold apply_sv.
  destruct (String.eqb_spec tag "Msg") as [->|N1].
  { simpl. destruct b; simpl; rewrite ?app_nil_r; try reflexivity.
    destruct (p_msg p); simpl; rewrite ?app_nil_r; try reflexivity.
    all: try (destruct (msg_kind_of_string kind_name); simpl; rewrite ?app_nil_r; try reflexivity).
    all: try (destruct (match reply_on with Some r => reply_on_of_string r | None => Some ROAlways end); simpl; rewrite ?app_nil_r; reflexivity). }
  destruct (String.eqb_spec tag "VariantAttrs") as [->|N2].
  { simpl. destruct b; simpl; rewrite ?app_nil_r; reflexivity. }
  destruct (String.eqb_spec tag "MsgAttrs") as [->|N3].
  { destruct b; simpl; rewrite ?app_nil_r; try reflexivity.
    all: try (destruct (msg_attr_kind_of_string kind_name); simpl; rewrite ?app_nil_r; reflexivity). }
  destruct (String.eqb_spec tag "Messages") as [->|N4].
  { destruct b; simpl; rewrite ?app_nil_r; reflexivity. }
  destruct (String.eqb_spec tag "OverrideEntryPoint") as [->|N5].
  { destruct b; simpl; rewrite ?app_nil_r; try reflexivity.
    all: try (destruct (override_kind_of_string kind_name); simpl; rewrite ?app_nil_r; reflexivity). }
  destruct (String.eqb_spec tag "Custom") as [->|N6].
  { destruct b; simpl; rewrite ?app_nil_r; try reflexivity. destruct (p_custom p); simpl; rewrite ?app_nil_r; reflexivity. }
  destruct (String.eqb_spec tag "Error") as [->|N7].
  { destruct b; simpl; rewrite ?app_nil_r; try reflexivity. destruct (p_error p); simpl; rewrite ?app_nil_r; reflexivity. }
  destruct (String.eqb_spec tag "Features") as [->|N8].
  { destruct b; simpl; rewrite ?app_nil_r; try reflexivity.
    destruct (forallb _ names); simpl; rewrite ?app_nil_r; reflexivity. }
  destruct (String.eqb_spec tag "Data") as [->|N9].
  { destruct b; simpl; rewrite ?app_nil_r; try reflexivity.
    destruct (parse_data_flags flags _) as [d|]; simpl; rewrite ?app_nil_r; try reflexivity.
    destruct (dp_inst d && dp_raw d); simpl; rewrite ?app_nil_r; reflexivity. }
  destruct (String.eqb_spec tag "Payload") as [->|N10].
  { destruct b; simpl; rewrite ?app_nil_r; try reflexivity.
    destruct flags as [|f [|? ?]]; simpl; rewrite ?app_nil_r; try reflexivity.
    all: try (destruct (payload_flag_of_string f); simpl; rewrite ?app_nil_r; reflexivity). }
  rewrite app_nil_r. reflexivity.
Qed.

Lemma parse_one_msg_attrs p a : p_msg_attrs (parse_one p a) = p_msg_attrs p ++ msg_attr_of a.
Proof.
  destruct a as [path text|name b]; simpl; [rewrite app_nil_r; reflexivity|].
  destruct (sv_attr_of_string name) as [tag|]; [|destruct b; rewrite app_nil_r; reflexivity].
  rewrite apply_sv_msg_attrs. destruct b; try (destruct (tag =? "MsgAttrs"); reflexivity).
Qed.

Lemma parse_one_variant_attrs p a : p_variant_attrs (parse_one p a) = p_variant_attrs p ++ variant_attr_of a.
Proof.
  destruct a as [path text|name b]; simpl; [rewrite app_nil_r; reflexivity|].
  destruct (sv_attr_of_string name) as [tag|]; [|destruct b; rewrite app_nil_r; reflexivity].
  rewrite apply_sv_variant_attrs. destruct b; try (destruct (tag =? "VariantAttrs"); reflexivity).
Qed.

Lemma fold_parse_msg_attrs l : forall p, p_msg_attrs (fold_left parse_one l p) = p_msg_attrs p ++ flat_map msg_attr_of l.
Proof.
  induction l as [|a r IH]; intros p; simpl; [rewrite app_nil_r; reflexivity|].
  rewrite IH, parse_one_msg_attrs, <- app_assoc. reflexivity.
Qed.

Lemma fold_parse_variant_attrs l : forall p, p_variant_attrs (fold_left parse_one l p) = p_variant_attrs p ++ flat_map variant_attr_of l.
Proof.
  induction l as [|a r IH]; intros p; simpl; [rewrite app_nil_r; reflexivity|].
  rewrite IH, parse_one_variant_attrs, <- app_assoc. reflexivity.
Qed.

Theorem item_msg_attrs l : p_msg_attrs (parse_attrs l) = flat_map msg_attr_of l.
Proof.
  unfold parse_attrs. set (p := fold_left parse_one l empty_parsed).
  assert (E : p_msg_attrs p = flat_map msg_attr_of l) by (unfold p; rewrite fold_parse_msg_attrs; reflexivity).
  destruct (p_variant_attrs p); [exact E|]. destruct (p_msg p) as [m|]; [|exact E].
  destruct (is_struct_kind (ma_kind m)); exact E.
Qed.

Theorem method_variant_attrs l : p_variant_attrs (parse_attrs l) = flat_map variant_attr_of l.
Proof.
  unfold parse_attrs. set (p := fold_left parse_one l empty_parsed).
  assert (E : p_variant_attrs p = flat_map variant_attr_of l) by (unfold p; rewrite fold_parse_variant_attrs; reflexivity).
  destruct (p_variant_attrs p) eqn:V; [rewrite V; exact E|]. destruct (p_msg p) as [m|]; [|rewrite V; exact E].
  destruct (is_struct_kind (ma_kind m)); [rewrite add_diag_variant_attrs|]; rewrite V; exact E.
Qed.

(* ---- C17 ---- *)
(* the generated type of kind k carries exactly the attributes forwarded to k, in order *)
Theorem type_attrs_are_those_forwarded_to_its_kind name item_attrs vs wh :
  eo_attrs (mk_enum name (parse_attrs item_attrs) vs wh) =
  map snd (filter (fun p : kind * string => kind_eqb (fst p) (vs_kind vs)) (flat_map msg_attr_of item_attrs)).
Proof. unfold mk_enum, fwd_for. simpl. rewrite item_msg_attrs. reflexivity. Qed.

Theorem attribute_forwarded_to_one_kind_lands_on_no_other k k' (t : string) :
  k <> k' -> ~ In t (map snd (filter (fun p : kind * string => kind_eqb (fst p) k') [(k, t)])) .
Proof.
  intros N. simpl. destruct (kind_eqb_spec k k') as [E|_]; [contradiction | intros []].
Qed.

(* a handler's `sv::attr(..)` go to the variant generated from that handler, and only there *)
Theorem variant_attrs_are_the_handlers_own gens m v :
  variant_of gens m = Some v -> v_fwd v = flat_map variant_attr_of (m_attrs m).
Proof.
  unfold variant_of. destruct (p_msg (parse_attrs (m_attrs m))) as [ma|] eqn:P; [|discriminate].
  intros H. injection H as <-.
  destruct (mk_variant_basic gens [] m ma (p_variant_attrs (parse_attrs (m_attrs m)))) as (_ & _ & _ & _ & F).
  rewrite F. apply method_variant_attrs.
Qed.

(* attributes written on an argument are attached to the field generated from it *)
Theorem field_attrs_are_the_arguments_own a : f_attrs (mk_field a) = a_attrs a /\ f_name (mk_field a) = a_name a.
Proof. split; reflexivity. Qed.

(* ---- the attribute takes effect: `#[serde(default)]` on an argument makes the field optional on the wire ---- *)
Require Import SV.Base.Json SV.Model.Sem.

Section DefaultAttr.
Variable val : Type.
Variable dec : ty -> json -> option val.
Variable is_option : ty -> bool.
Variable default_val : ty -> val.
Notation dec_fields := (dec_fields val dec is_option default_val).

Theorem missing_field_without_default_is_rejected : forall fs body f,
  In f fs -> count_key (fd_name f) body = 0 -> is_option (fd_ty f) = false -> fd_default f = false ->
  exists e, dec_fields fs body = inl e.
Proof.
  induction fs as [|g r IH]; intros body f I C O D; [destruct I|]. simpl.
  destruct I as [->|I].
  - rewrite C, O, D. eexists; reflexivity.
  - destruct (IH body f I C O D) as (e & E). rewrite E.
    destruct (count_key (fd_name g) body) as [|[|n]].
    + destruct (is_option (fd_ty g)).
      * destruct (dec (fd_ty g) JNull); eexists; reflexivity.
      * destruct (fd_default g); eexists; reflexivity.
    + destruct (lookup (fd_name g) body); [|eexists; reflexivity].
      destruct (dec (fd_ty g) j); eexists; reflexivity.
    + eexists; reflexivity.
Qed.

Theorem missing_field_with_default_takes_the_default : forall f body rest,
  count_key (fd_name f) body = 0 -> is_option (fd_ty f) = false -> fd_default f = true ->
  dec_fields [] body = inr rest ->
  dec_fields [f] body = inr [(fd_name f, default_val (fd_ty f))].
Proof. intros f body rest C O D _. simpl. rewrite C, O, D. reflexivity. Qed.

End DefaultAttr.

(* the default marker of a field description is exactly the attribute written on the argument *)
Theorem default_marker_comes_from_the_argument a :
  fd_default (fdesc_of (out_field (mk_field a))) = existsb (fun t => t =? "#[serde(default)]") (map attr_text (a_attrs a)).
Proof. reflexivity. Qed.
