(* Context shape per kind: exec and instantiate carry deps, env, info; the others deps, env. *)
From Coq Require Import String List Bool.
Require Import SV.Model.Kinds SV.Model.GenTables.
Import ListNotations.
Open Scope string_scope.

Definition has_info (k : kind) : bool := match k with KInst | KExec => true | _ => false end.

Lemma ctx_values_shape k :
  ctx_values k = if has_info k then ["deps"; "env"; "info"] else ["deps"; "env"].
Proof. destruct k; reflexivity. Qed.
