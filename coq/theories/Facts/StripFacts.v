(* Facts about the pass-through model (C13). *)
From Coq Require Import String List Bool.
Require Import SV.Base.Util SV.Model.GenTables SV.Model.Strip.
Import ListNotations.
Open Scope string_scope.

Lemma strip_attrs_idem l : strip_attrs (strip_attrs l) = strip_attrs l.
Proof.
  unfold strip_attrs. induction l as [|a r IH]; simpl; [reflexivity|].
  destruct (is_sv a) eqn:E; simpl; [exact IH | rewrite E; simpl; rewrite IH; reflexivity].
Qed.

Lemma strip_attrs_no_sv l : existsb is_sv (strip_attrs l) = false.
Proof.
  unfold strip_attrs. induction l as [|a r IH]; simpl; [reflexivity|].
  destruct (is_sv a) eqn:E; simpl; [exact IH | rewrite E; exact IH].
Qed.

(* (a) nothing but attributes changes *)
Theorem strip_changes_only_attributes b : erase_block (strip_block b) = erase_block b.
Proof.
  unfold erase_block, strip_block. simpl. f_equal. rewrite map_map. apply map_ext.
  intros [f|t]; simpl; [|reflexivity]. unfold erase_fn, strip_fn. simpl. f_equal. f_equal.
  destruct (is_handler f); [rewrite map_map|]; reflexivity.
Qed.

(* (b) at item and method level exactly the framework's own attributes go, order kept *)
Theorem strip_item_attrs b : b_attrs (strip_block b) = filter (fun a => negb (is_sv a)) (b_attrs b).
Proof. reflexivity. Qed.

Theorem strip_method_attrs f : fi_attrs (strip_fn f) = filter (fun a => negb (is_sv a)) (fi_attrs f).
Proof. reflexivity. Qed.

Theorem foreign_attribute_survives l a : In a l -> is_sv a = false -> In a (strip_attrs l).
Proof. intros I E. apply filter_In. split; [exact I | rewrite E; reflexivity]. Qed.

(* (c) parameter attributes are removed on handlers and only there *)
Theorem strip_handler_params f : is_handler f = true ->
  fi_recv_attrs (strip_fn f) = [] /\ Forall (fun p => p = []) (fi_param_attrs (strip_fn f)) /\
  length (fi_param_attrs (strip_fn f)) = length (fi_param_attrs f).
Proof.
  intros H. unfold strip_fn. simpl. rewrite H. split; [reflexivity|]. split.
  - apply Forall_forall. intros p I. apply in_map_iff in I. destruct I as (? & <- & _). reflexivity.
  - apply map_length.
Qed.

Theorem strip_helper_untouched f : is_handler f = false -> strip_fn f = f.
Proof.
  intros H. unfold strip_fn. rewrite H. destruct f as [a r p t]. simpl. f_equal.
  unfold is_handler in H. simpl in H. unfold strip_attrs. apply SV.Base.Util.filter_all.
  clear -H. induction a as [|x l IH]; simpl in *; [reflexivity|]. apply orb_false_iff in H. destruct H as [Hx Hl].
  rewrite Hx. simpl. apply IH. exact Hl.
Qed.

(* (d) stripping twice is stripping once *)
Theorem strip_idempotent b : strip_block (strip_block b) = strip_block b.
Proof.
  unfold strip_block. simpl. rewrite strip_attrs_idem. f_equal. rewrite map_map. apply map_ext.
  intros [f|t]; simpl; [|reflexivity]. f_equal.
  apply strip_helper_untouched. unfold is_handler, strip_fn. simpl. apply strip_attrs_no_sv.
Qed.
