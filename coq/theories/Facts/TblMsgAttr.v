(* `#[sv::msg_attr(<name>, ..)]` *)
From Coq Require Import String List Bool.
Require Import SV.Model.Kinds SV.Model.GenTables SV.Facts.TblTactics.

Lemma msg_attr_kind_sound k : msg_attr_kind_of_string (kind_attr_name k) = Some k.
Proof. destruct k; reflexivity. Qed.

Lemma msg_attr_kind_complete : forall s k, msg_attr_kind_of_string s = Some k -> s = kind_attr_name k.
Proof. table_complete msg_attr_kind_of_string. Qed.
