(* GENERATED on every run by py/verif/imp_translate.py from /repo/sylvia/src/utils.rs and
   /repo/sylvia/src/builder/instantiate.rs (syn dump of the probe). Do not edit. *)
From Coq Require Import String List.
Require Import SV.Model.Imp.
Import ListNotations.
Open Scope string_scope.

Definition utils_program : program :=
  [ {| fn_name := "assert_no_intersection"; fn_params := ["msgs"]; fn_consts := [("N", "msgs")];
     fn_body := (EBlock [SLet (PVar "states") (ECall "init_states" [(EVar "msgs")]); STail (EWhile (ENot (ECall "should_end" [(EVar "states")])) (EBlock [SLet (PVar "index") (ECall "get_next_alphabetical_index" [(EVar "msgs"); (EVar "states")]); SExpr (ECall "verify_no_collissions" [(EVar "msgs"); (EVar "states"); (EVar "index")]); SExpr (EAssign "states" [(LIdx (EVar "index"))] (EMatch (EIndex (EVar "states") (EVar "index")) [((PCon "State::Ongoing" [(PVar "wi")]), (EBlock [STail (EIf (EBin "==" (ECall "len" [(EIndex (EVar "msgs") (EVar "index"))]) (EBin "+" (EVar "wi") (EConst (VNat 1)))) (EBlock [STail (ECon "State::Finished" [(EVar "wi")])]) (EBlock [STail (ECon "State::Ongoing" [(EBin "+" (EVar "wi") (EConst (VNat 1)))])]))])); (PWild, (EPanic "unreachable" ""))]))]))]) |};
    {| fn_name := "init_states"; fn_params := ["msgs"]; fn_consts := [("N", "msgs")];
     fn_body := (EBlock [SLet (PVar "states") (ERepeat (ECon "State::Ongoing" [(EConst (VNat 0))]) (EVar "N")); SExpr (EFor "i" (EConst (VNat 0)) (EVar "N") (EBlock [STail (EIf (ECall "is_empty" [(EIndex (EVar "msgs") (EVar "i"))]) (EBlock [SExpr (EAssign "states" [(LIdx (EVar "i"))] (ECon "State::Empty" []))]) (EConst VUnit))])); STail (EVar "states")]) |};
    {| fn_name := "get_next_alphabetical_index"; fn_params := ["msgs"; "states"]; fn_consts := [("N", "msgs")];
     fn_body := (EBlock [SLet (PVar "output_index") (EConst (VNat 0)); SExpr (EFor "i" (EConst (VNat 0)) (EVar "N") (EBlock [STail (EIfLet (PCon "State::Ongoing" [(PVar "outer_i")]) (EIndex (EVar "states") (EVar "i")) (EBlock [STail (EMatch (EIndex (EVar "states") (EVar "output_index")) [((PCon "State::Ongoing" [(PVar "inner_i")]), (EBlock [STail (EIfLet (PCon "Ordering::Greater" []) (ECall "konst::cmp_str" [(EIndex (EIndex (EVar "msgs") (EVar "output_index")) (EVar "inner_i")); (EIndex (EIndex (EVar "msgs") (EVar "i")) (EVar "outer_i"))]) (EBlock [SExpr (EAssign "output_index" [] (EVar "i"))]) (EConst VUnit))])); (PWild, (EAssign "output_index" [] (EVar "i")))])]) (EConst VUnit))])); STail (EVar "output_index")]) |};
    {| fn_name := "verify_no_collissions"; fn_params := ["msgs"; "states"; "index"]; fn_consts := [("N", "msgs")];
     fn_body := (EBlock [SLet (PVar "i") (EConst (VNat 0)); STail (EWhile (EBin "<" (EVar "i") (EVar "N")) (EBlock [SExpr (EIf (EBin "==" (EVar "i") (EVar "index")) (EBlock [SExpr (EAssign "i" [] (EBin "+" (EVar "i") (EConst (VNat 1)))); SExpr EContinue]) (EConst VUnit)); SExpr (EMatch (EIndex (EVar "states") (EVar "i")) [((POr [(PCon "State::Ongoing" [(PVar "outer_i")]); (PCon "State::Finished" [(PVar "outer_i")])]), (EBlock [STail (EIfLet (PCon "State::Ongoing" [(PVar "inner_i")]) (EIndex (EVar "states") (EVar "index")) (EBlock [STail (EIf (ECall "konst::eq_str" [(EIndex (EIndex (EVar "msgs") (EVar "i")) (EVar "outer_i")); (EIndex (EIndex (EVar "msgs") (EVar "index")) (EVar "inner_i"))]) (EBlock [SExpr (EPanic "panic" "Message overlaps between interface and contract impl!")]) (EConst VUnit))]) (EConst VUnit))])); (PWild, (EConst VUnit))]); SExpr (EAssign "i" [] (EBin "+" (EVar "i") (EConst (VNat 1))))]))]) |};
    {| fn_name := "should_end"; fn_params := ["states"]; fn_consts := [("N", "states")];
     fn_body := (EBlock [SExpr (EFor "i" (EConst (VNat 0)) (EVar "N") (EBlock [STail (EIfLet (PCon "State::Ongoing" [PRest]) (EIndex (EVar "states") (EVar "i")) (EBlock [SExpr (EReturn (EConst (VBool false)))]) (EConst VUnit))])); STail (EConst (VBool true))]) |} ].

Definition builder_program : program :=
  [ {| fn_name := "InstantiateBuilder::new"; fn_params := ["msg"; "code_id"]; fn_consts := [];
     fn_body := (EBlock [STail (ERecord "InstantiateBuilder" [("msg", (EVar "msg")); ("code_id", (EVar "code_id")); ("admin", (ECon "None" [])); ("label", (ECon "None" [])); ("funds", (EArr []))] None)]) |};
    {| fn_name := "InstantiateBuilder::with_label"; fn_params := ["self"; "label"]; fn_consts := [];
     fn_body := (EBlock [SExpr (EAssign "self" [(LFld "label")] (ECon "Some" [(ECall "into" [(EVar "label")])])); STail (EVar "self")]) |};
    {| fn_name := "InstantiateBuilder::with_admin"; fn_params := ["self"; "admin"]; fn_consts := [];
     fn_body := (EBlock [SExpr (EAssign "self" [(LFld "admin")] (ECon "Some" [(EVar "admin")])); STail (EVar "self")]) |};
    {| fn_name := "InstantiateBuilder::with_funds"; fn_params := ["self"; "funds"]; fn_consts := [];
     fn_body := (EBlock [SExpr (EAssign "self" [(LFld "funds")] (EVar "funds")); STail (EVar "self")]) |};
    {| fn_name := "InstantiateBuilder::build"; fn_params := ["self"]; fn_consts := [];
     fn_body := (EBlock [STail (ERecord "WasmMsg::Instantiate" [("code_id", (EField (EVar "self") "code_id")); ("msg", (EField (EVar "self") "msg")); ("admin", (EField (EVar "self") "admin")); ("label", (ECall "unwrap_or_default_string" [(EField (EVar "self") "label")])); ("funds", (EField (EVar "self") "funds"))] None)]) |};
    {| fn_name := "InstantiateBuilder::build2"; fn_params := ["self"; "salt"]; fn_consts := [];
     fn_body := (EBlock [STail (ERecord "WasmMsg::Instantiate2" [("code_id", (EField (EVar "self") "code_id")); ("msg", (EField (EVar "self") "msg")); ("admin", (EField (EVar "self") "admin")); ("label", (ECall "unwrap_or_default_string" [(EField (EVar "self") "label")])); ("funds", (EField (EVar "self") "funds")); ("salt", (EVar "salt"))] None)]) |} ].

Definition builder_fields : list string := ["msg"; "code_id"; "admin"; "label"; "funds"].
