(* GENERATED on every run by py/verif/imp_translate.py from /repo/sylvia/src/utils.rs and
   /repo/sylvia/src/builder/instantiate.rs, types.rs, ctx.rs (syn dump of the probe). Do not edit. *)
From Coq Require Import String List.
Require Import SV.Model.Imp.
Import ListNotations.
Open Scope string_scope.

Definition utils_program : program :=
  [ {| fn_name := "assert_no_intersection"; fn_params := ["msgs"]; fn_consts := [("N", "msgs")];
     fn_body := (EBlock [SLet (PVar "states") (ECall "init_states" [(EVar "msgs")]); STail (EWhile (ENot (ECall "should_end" [(EVar "states")])) (EBlock [SLet (PVar "index") (ECall "get_next_alphabetical_index" [(EVar "msgs"); (EVar "states")]); SExpr (ECall "verify_no_collissions" [(EVar "msgs"); (EVar "states"); (EVar "index")]); SExpr (EAssign "states" [(LIdx (EVar "index"))] (EMatch (EIndex (EVar "states") (EVar "index")) [((PCon "State::Ongoing" [(PVar "wi")]), (EBlock [STail (EIf (EBin "==" (ECall "len" [(EIndex (EVar "msgs") (EVar "index"))]) (EBin "+" (EVar "wi") (EConst (VNat 1)))) (EBlock [STail (ECon "State::Finished" [(EVar "wi")])]) (EBlock [STail (ECon "State::Ongoing" [(EBin "+" (EVar "wi") (EConst (VNat 1)))])]))])); (PWild, (EPanic "unreachable" ""))]))]))]) |};
    {| fn_name := "init_states"; fn_params := ["msgs"]; fn_consts := [("N", "msgs")];
     fn_body := (EBlock [SLet (PVar "states") (ERepeat (ECon "State::Ongoing" [(EConst (VNat 0))]) (EVar "N")); SExpr (EFor "i" (EConst (VNat 0)) (EVar "N") (EBlock [STail (EIf (ECall "is_empty" [(EIndex (EVar "msgs") (EVar "i"))]) (EBlock [SExpr (EAssign "states" [(LIdx (EVar "i"))] (ECon "State::Empty" []))]) (EConst VUnit))])); STail (EVar "states")]) |};
    {| fn_name := "get_next_alphabetical_index"; fn_params := ["msgs"; "states"]; fn_consts := [("N", "msgs")];
     fn_body := (EBlock [SLet (PVar "output_index") (EConst (VNat 0)); SExpr (EFor "i" (EConst (VNat 0)) (EVar "N") (EBlock [STail (EIfLet (PCon "State::Ongoing" [(PVar "outer_i")]) (EIndex (EVar "states") (EVar "i")) (EBlock [STail (EMatch (EIndex (EVar "states") (EVar "output_index")) [((PCon "State::Ongoing" [(PVar "inner_i")]), (EBlock [STail (EIfLet (PCon "Ordering::Greater" []) (ECall "konst::cmp_str" [(EIndex (EIndex (EVar "msgs") (EVar "output_index")) (EVar "inner_i")); (EIndex (EIndex (EVar "msgs") (EVar "i")) (EVar "outer_i"))]) (EBlock [SExpr (EAssign "output_index" [] (EVar "i"))]) (EConst VUnit))])); (PWild, (EAssign "output_index" [] (EVar "i")))])]) (EConst VUnit))])); STail (EVar "output_index")]) |};
    {| fn_name := "verify_no_collissions"; fn_params := ["msgs"; "states"; "index"]; fn_consts := [("N", "msgs")];
     fn_body := (EBlock [SLet (PVar "i") (EConst (VNat 0)); STail (EWhile (EBin "<" (EVar "i") (EVar "N")) (EBlock [SExpr (EIf (EBin "==" (EVar "i") (EVar "index")) (EBlock [SExpr (EAssign "i" [] (EBin "+" (EVar "i") (EConst (VNat 1)))); SExpr EContinue]) (EConst VUnit)); SExpr (EMatch (EIndex (EVar "states") (EVar "i")) [((POr [(PCon "State::Ongoing" [(PVar "outer_i")]); (PCon "State::Finished" [(PVar "outer_i")])]), (EBlock [STail (EIfLet (PCon "State::Ongoing" [(PVar "inner_i")]) (EIndex (EVar "states") (EVar "index")) (EBlock [STail (EIf (ECall "konst::eq_str" [(EIndex (EIndex (EVar "msgs") (EVar "i")) (EVar "outer_i")); (EIndex (EIndex (EVar "msgs") (EVar "index")) (EVar "inner_i"))]) (EBlock [SExpr (EPanic "panic" "Message overlaps between interface and contract impl!")]) (EConst VUnit))]) (EConst VUnit))])); (PWild, (EConst VUnit))]); SExpr (EAssign "i" [] (EBin "+" (EVar "i") (EConst (VNat 1))))]))]) |};
    {| fn_name := "should_end"; fn_params := ["states"]; fn_consts := [("N", "states")];
     fn_body := (EBlock [SExpr (EFor "i" (EConst (VNat 0)) (EVar "N") (EBlock [STail (EIfLet (PCon "State::Ongoing" [PRest]) (EIndex (EVar "states") (EVar "i")) (EBlock [SExpr (EReturn (EConst (VBool false)))]) (EConst VUnit))])); STail (EConst (VBool true))]) |} ].

Definition builder_program : program :=
  [ {| fn_name := "InstantiateBuilder::new"; fn_params := ["msg"; "code_id"]; fn_consts := [];
     fn_body := (EBlock [STail (ERecord "InstantiateBuilder" [("msg", (EVar "msg")); ("code_id", (EVar "code_id")); ("admin", (ECon "None" [])); ("label", (ECon "None" [])); ("funds", (EArr []))] None)]) |};
    {| fn_name := "InstantiateBuilder::with_label"; fn_params := ["self"; "label"]; fn_consts := [];
     fn_body := (EBlock [SExpr (EAssign "self" [(LFld "label")] (ECon "Some" [(ECall "into" [(EVar "label")])])); STail (EVar "self")]) |};
    {| fn_name := "InstantiateBuilder::with_admin"; fn_params := ["self"; "admin"]; fn_consts := [];
     fn_body := (EBlock [SExpr (EAssign "self" [(LFld "admin")] (ECon "Some" [(EVar "admin")])); STail (EVar "self")]) |};
    {| fn_name := "InstantiateBuilder::with_funds"; fn_params := ["self"; "funds"]; fn_consts := [];
     fn_body := (EBlock [SExpr (EAssign "self" [(LFld "funds")] (EVar "funds")); STail (EVar "self")]) |};
    {| fn_name := "InstantiateBuilder::build"; fn_params := ["self"]; fn_consts := [];
     fn_body := (EBlock [STail (ERecord "WasmMsg::Instantiate" [("code_id", (EField (EVar "self") "code_id")); ("msg", (EField (EVar "self") "msg")); ("admin", (EField (EVar "self") "admin")); ("label", (ECall "unwrap_or_default_string" [(EField (EVar "self") "label")])); ("funds", (EField (EVar "self") "funds"))] None)]) |};
    {| fn_name := "InstantiateBuilder::build2"; fn_params := ["self"; "salt"]; fn_consts := [];
     fn_body := (EBlock [STail (ERecord "WasmMsg::Instantiate2" [("code_id", (EField (EVar "self") "code_id")); ("msg", (EField (EVar "self") "msg")); ("admin", (EField (EVar "self") "admin")); ("label", (ECall "unwrap_or_default_string" [(EField (EVar "self") "label")])); ("funds", (EField (EVar "self") "funds")); ("salt", (EVar "salt"))] None)]) |} ].

Definition builder_fields : list string := ["msg"; "code_id"; "admin"; "label"; "funds"].

(* sylvia/src/types.rs: ExecutorBuilder (both type states) and the helpers of Remote *)
Definition types_program : program :=
  [ {| fn_name := "BoundQuerier::querier"; fn_params := ["self"]; fn_consts := [];
     fn_body := (EBlock [STail (EField (EVar "self") "querier")]) |};
    {| fn_name := "BoundQuerier::contract"; fn_params := ["self"]; fn_consts := [];
     fn_body := (EBlock [STail (EField (EVar "self") "contract")]) |};
    {| fn_name := "BoundQuerier::borrowed"; fn_params := ["contract"; "querier"]; fn_consts := [];
     fn_body := (EBlock [STail (ERecord "BoundQuerier" [("contract", (EVar "contract")); ("querier", (EVar "querier")); ("_phantom", (ECon "marker::PhantomData" []))] None)]) |};
    {| fn_name := "BoundQuerier::from"; fn_params := ["input"]; fn_consts := [];
     fn_body := (EBlock [STail (ECall "BoundQuerier::borrowed" [(EField (EVar "input") "contract"); (EField (EVar "input") "querier")])]) |};
    {| fn_name := "ExecutorBuilder[Empty]::new"; fn_params := ["contract"]; fn_consts := [];
     fn_body := (EBlock [STail (ERecord "ExecutorBuilder" [("contract", (ECall "to_string" [(EVar "contract")])); ("funds", (EArr [])); ("msg", (ECall "Binary::default" [])); ("_state", (ECon "marker::PhantomData" []))] None)]) |};
    {| fn_name := "ExecutorBuilder::with_funds"; fn_params := ["self"; "funds"]; fn_consts := [];
     fn_body := (EBlock [STail (ERecord "ExecutorBuilder" [("funds", (EVar "funds"))] (Some (EVar "self")))]) |};
    {| fn_name := "ExecutorBuilder::funds"; fn_params := ["self"]; fn_consts := [];
     fn_body := (EBlock [STail (EField (EVar "self") "funds")]) |};
    {| fn_name := "ExecutorBuilder::contract"; fn_params := ["self"]; fn_consts := [];
     fn_body := (EBlock [STail (EField (EVar "self") "contract")]) |};
    {| fn_name := "ExecutorBuilder[Ready]::new"; fn_params := ["contract"; "funds"; "msg"]; fn_consts := [];
     fn_body := (EBlock [STail (ERecord "ExecutorBuilder" [("contract", (EVar "contract")); ("funds", (EVar "funds")); ("msg", (EVar "msg")); ("_state", (ECon "marker::PhantomData" []))] None)]) |};
    {| fn_name := "ExecutorBuilder[Ready]::build"; fn_params := ["self"]; fn_consts := [];
     fn_body := (EBlock [STail (ERecord "WasmMsg::Execute" [("contract_addr", (EField (EVar "self") "contract")); ("msg", (EField (EVar "self") "msg")); ("funds", (EField (EVar "self") "funds"))] None)]) |};
    {| fn_name := "Remote::new"; fn_params := ["addr"]; fn_consts := [];
     fn_body := (EBlock [STail (ERecord "Remote" [("addr", (ECon "Cow::Owned" [(EVar "addr")])); ("_phantom", (ECon "marker::PhantomData" []))] None)]) |};
    {| fn_name := "Remote::borrowed"; fn_params := ["addr"]; fn_consts := [];
     fn_body := (EBlock [STail (ERecord "Remote" [("addr", (ECon "Cow::Borrowed" [(EVar "addr")])); ("_phantom", (ECon "marker::PhantomData" []))] None)]) |};
    {| fn_name := "Remote::querier"; fn_params := ["self"; "querier"]; fn_consts := [];
     fn_body := (EBlock [STail (ERecord "BoundQuerier" [("contract", (EField (EVar "self") "addr")); ("querier", (EVar "querier")); ("_phantom", (ECon "marker::PhantomData" []))] None)]) |};
    {| fn_name := "Remote::executor"; fn_params := ["self"]; fn_consts := [];
     fn_body := (EBlock [STail (ECall "ExecutorBuilder[Empty]::new" [(EField (EVar "self") "addr")])]) |};
    {| fn_name := "Remote::update_admin"; fn_params := ["self"; "new_admin"]; fn_consts := [];
     fn_body := (EBlock [STail (ERecord "WasmMsg::UpdateAdmin" [("contract_addr", (ECall "to_string" [(EField (EVar "self") "addr")])); ("admin", (ECall "to_string" [(EVar "new_admin")]))] None)]) |};
    {| fn_name := "Remote::clear_admin"; fn_params := ["self"]; fn_consts := [];
     fn_body := (EBlock [STail (ERecord "WasmMsg::ClearAdmin" [("contract_addr", (ECall "to_string" [(EField (EVar "self") "addr")]))] None)]) |};
    {| fn_name := "Remote::as_ref"; fn_params := ["self"]; fn_consts := [];
     fn_body := (EBlock [STail (EField (EVar "self") "addr")]) |} ].

(* sylvia/src/ctx.rs: the conversions of the entry-point argument tuples into the handler contexts *)
Definition ctx_program : program :=
  [ {| fn_name := "MigrateCtx::from"; fn_params := ["arg0"]; fn_consts := [];
     fn_body := (EBlock [SLet (PCon "()" [(PVar "deps"); (PVar "env")]) (EVar "arg0"); STail (EBlock [STail (ERecord "MigrateCtx" [("deps", (EVar "deps")); ("env", (EVar "env"))] None)])]) |};
    {| fn_name := "ReplyCtx::from"; fn_params := ["arg0"]; fn_consts := [];
     fn_body := (EBlock [SLet (PCon "()" [(PVar "deps"); (PVar "env"); (PVar "gas_used"); (PVar "events"); (PVar "msg_responses")]) (EVar "arg0"); STail (EBlock [STail (ERecord "ReplyCtx" [("deps", (EVar "deps")); ("env", (EVar "env")); ("gas_used", (EVar "gas_used")); ("events", (EVar "events")); ("msg_responses", (EVar "msg_responses"))] None)])]) |};
    {| fn_name := "ExecCtx::from"; fn_params := ["arg0"]; fn_consts := [];
     fn_body := (EBlock [SLet (PCon "()" [(PVar "deps"); (PVar "env"); (PVar "info")]) (EVar "arg0"); STail (EBlock [STail (ERecord "ExecCtx" [("deps", (EVar "deps")); ("env", (EVar "env")); ("info", (EVar "info"))] None)])]) |};
    {| fn_name := "InstantiateCtx::from"; fn_params := ["arg0"]; fn_consts := [];
     fn_body := (EBlock [SLet (PCon "()" [(PVar "deps"); (PVar "env"); (PVar "info")]) (EVar "arg0"); STail (EBlock [STail (ERecord "InstantiateCtx" [("deps", (EVar "deps")); ("env", (EVar "env")); ("info", (EVar "info"))] None)])]) |};
    {| fn_name := "QueryCtx::from"; fn_params := ["arg0"]; fn_consts := [];
     fn_body := (EBlock [SLet (PCon "()" [(PVar "deps"); (PVar "env")]) (EVar "arg0"); STail (EBlock [STail (ERecord "QueryCtx" [("deps", (EVar "deps")); ("env", (EVar "env"))] None)])]) |};
    {| fn_name := "SudoCtx::from"; fn_params := ["arg0"]; fn_consts := [];
     fn_body := (EBlock [SLet (PCon "()" [(PVar "deps"); (PVar "env")]) (EVar "arg0"); STail (EBlock [STail (ERecord "SudoCtx" [("deps", (EVar "deps")); ("env", (EVar "env"))] None)])]) |} ].

(* sylvia/src/multitest.rs: the proxies that send execute / migrate messages to the chain, and downcast_error *)
Definition mt_program : program :=
  [ {| fn_name := "Proxy::new"; fn_params := ["contract_addr"; "app"]; fn_consts := [];
     fn_body := (EBlock [STail (ERecord "Proxy" [("contract_addr", (EVar "contract_addr")); ("app", (EVar "app")); ("_phantom", (ECon "PhantomData" []))] None)]) |};
    {| fn_name := "App::new"; fn_params := ["app"]; fn_consts := [];
     fn_body := (EBlock [STail (ERecord "App" [("app", (ECall "into" [(EVar "app")]))] None)]) |};
    {| fn_name := "App::app_mut"; fn_params := ["self"]; fn_consts := [];
     fn_body := (EBlock [STail (ECall "into" [(EField (EVar "self") "app")])]) |};
    {| fn_name := "ExecProxy::new"; fn_params := ["contract_addr"; "msg"; "app"]; fn_consts := [];
     fn_body := (EBlock [STail (ERecord "ExecProxy" [("funds", (EArr [])); ("contract_addr", (EVar "contract_addr")); ("msg", (EVar "msg")); ("app", (EVar "app")); ("phantom", (ECon "PhantomData" []))] None)]) |};
    {| fn_name := "ExecProxy::with_funds"; fn_params := ["self"; "funds"]; fn_consts := [];
     fn_body := (EBlock [STail (ERecord "ExecProxy" [("funds", (EVar "funds"))] (Some (EVar "self")))]) |};
    {| fn_name := "ExecProxy::call"; fn_params := ["self"; "sender"]; fn_consts := [];
     fn_body := (EBlock [STail (EMatch (ECall "extern::execute_contract" [(ECall "App::app_mut" [(EField (EVar "self") "app")]); (ECall "into" [(EVar "sender")]); (ECall "into" [(EField (EVar "self") "contract_addr")]); (EField (EVar "self") "msg"); (EField (EVar "self") "funds")]) [(PCon "Ok" [PVar "map_err_v"], ECon "Ok" [EVar "map_err_v"]); (PCon "Err" [PVar "map_err_e"], ECon "Err" [ECall "downcast_error" [EVar "map_err_e"]])])]) |};
    {| fn_name := "MigrateProxy::new"; fn_params := ["contract_addr"; "msg"; "app"]; fn_consts := [];
     fn_body := (EBlock [STail (ERecord "MigrateProxy" [("contract_addr", (EVar "contract_addr")); ("msg", (EVar "msg")); ("app", (EVar "app")); ("phantom", (ECon "PhantomData" []))] None)]) |};
    {| fn_name := "MigrateProxy::call"; fn_params := ["self"; "sender"; "new_code_id"]; fn_consts := [];
     fn_body := (EBlock [STail (EMatch (ECall "extern::migrate_contract" [(ECall "App::app_mut" [(EField (EVar "self") "app")]); (ECall "into" [(EVar "sender")]); (ECall "into" [(EField (EVar "self") "contract_addr")]); (EField (EVar "self") "msg"); (EVar "new_code_id")]) [(PCon "Ok" [PVar "map_err_v"], ECon "Ok" [EVar "map_err_v"]); (PCon "Err" [PVar "map_err_e"], ECon "Err" [ECall "downcast_error" [EVar "map_err_e"]])])]) |};
    {| fn_name := "downcast_error"; fn_params := ["err"]; fn_consts := [];
     fn_body := (EBlock [STail (EIf (ECall "anyhow::is" [(EVar "err"); EConst (VStr "Error")]) (EBlock [STail (ECall "unwrap" [(ECall "anyhow::downcast" [(EVar "err"); EConst (VStr "Error")])])]) (EIf (ECall "anyhow::is" [(EVar "err"); EConst (VStr "StdError")]) (EBlock [STail (ECon "Into::into" [(ECall "unwrap" [(ECall "anyhow::downcast" [(EVar "err"); EConst (VStr "StdError")])])])]) (EBlock [STail (ECon "Into::into" [(ECon "StdError::GenericErr" [(ECall "to_string" [(EVar "err")])])])])))]) |} ].

(* GENERATED code, for every contract: the instantiate proxy of the multitest helpers (templates of contract/mt.rs) *)
Definition mtgen_fns : program :=
  [ {| fn_name := "InstantiateProxy::with_funds"; fn_params := ["self"; "funds"]; fn_consts := [];
     fn_body := (EBlock [STail (ERecord "InstantiateProxy" [("funds", (EVar "funds"))] (Some (EVar "self")))]) |};
    {| fn_name := "InstantiateProxy::with_label"; fn_params := ["self"; "label"]; fn_consts := [];
     fn_body := (EBlock [STail (ERecord "InstantiateProxy" [("label", (EVar "label"))] (Some (EVar "self")))]) |};
    {| fn_name := "InstantiateProxy::with_admin"; fn_params := ["self"; "admin"]; fn_consts := [];
     fn_body := (EBlock [SLet (PVar "admin") (EMatch (ECall "into_option" [(EVar "admin")]) [(PCon "Ok" [PVar "hof_v1"], ECon "Ok" [EVar "hof_v1"]); (PCon "Err" [PVar "hof_v1"], ECon "Err" [EVar "hof_v1"]); (PCon "Some" [PVar "hof_v1"], ECon "Some" [EVar "hof_v1"]); (PCon "None" [], ECon "None" [])]); STail (ERecord "InstantiateProxy" [("admin", (EVar "admin"))] (Some (EVar "self")))]) |};
    {| fn_name := "InstantiateProxy::with_salt"; fn_params := ["self"; "salt"]; fn_consts := [];
     fn_body := (EBlock [SLet (PVar "salt") (ECall "into_option" [(EVar "salt")]); STail (ERecord "InstantiateProxy" [("salt", (EVar "salt"))] (Some (EVar "self")))]) |};
    {| fn_name := "InstantiateProxy::call"; fn_params := ["self"; "sender"]; fn_consts := [];
     fn_body := (EBlock [SLet (PRec "InstantiateProxy" [("code_id", (PVar "code_id")); ("funds", (PVar "funds")); ("label", (PVar "label")); ("admin", (PVar "admin")); ("salt", (PVar "salt")); ("msg", (PVar "msg"))]) (EVar "self"); STail (EMatch (EVar "salt") [((PCon "Some" [(PVar "salt")]), (EBlock [SLet (PVar "msg") (EMatch (EMatch (ECon "Ok" [ECon "to_json_binary" [(EVar "msg")]]) [(PCon "Ok" [PVar "hof_v1"], ECon "Ok" [EVar "hof_v1"]); (PCon "Err" [PVar "hof_v1"], ECon "Err" [ECon "Into::into" [EVar "hof_v1"]])]) [(PCon "Ok" [PVar "try_v"], EVar "try_v"); (PCon "Err" [PVar "try_e"], EReturn (ECon "Err" [ECon "From::from" [EVar "try_e"]]))]); SLet (PVar "sender") (ECall "into" [(EVar "sender")]); SLet (PVar "msg") (ERecord "WasmMsg::Instantiate2" [("admin", (EVar "admin")); ("code_id", (EField (EVar "code_id") "code_id")); ("msg", (EVar "msg")); ("funds", (ECall "into" [(EVar "funds")])); ("label", (ECall "into" [(EVar "label")])); ("salt", (ECon "Into::into" [(EVar "salt")]))] None); SLet (PVar "app_response") (EMatch (EMatch (ECall "extern::execute" [(ECall "App::app_mut" [(EField (EVar "code_id") "app")]); (ECall "into" [(EVar "sender")]); (ECon "Into::into" [(EVar "msg")])]) [(PCon "Ok" [PVar "hof_v2"], ECon "Ok" [EVar "hof_v2"]); (PCon "Err" [PVar "hof_v2"], ECon "Err" [ECall "downcast_error" [EVar "hof_v2"]])]) [(PCon "Ok" [PVar "try_v"], EVar "try_v"); (PCon "Err" [PVar "try_e"], EReturn (ECon "Err" [ECon "From::from" [EVar "try_e"]]))]); STail (EMatch (EMatch (ECall "extern::parse_instantiate_response_data" [(ECall "into" [(ECall "unwrap" [(EField (EVar "app_response") "data")])])]) [(PCon "Ok" [PVar "hof_v4"], ECon "Ok" [EVar "hof_v4"]); (PCon "Err" [PVar "hof_v4"], ECon "Err" [EBlock [SLet (PVar "err") (EVar "hof_v4"); STail (ECon "Into::into" [(ECon "StdError::GenericErr" [(ECall "to_string" [(EVar "err")])])])]])]) [(PCon "Ok" [PVar "hof_v3"], ECon "Ok" [EBlock [SLet (PVar "data") (EVar "hof_v3"); STail (ERecord "Proxy" [("contract_addr", (ECall "into" [(EField (EVar "data") "contract_address")])); ("app", (EField (EVar "code_id") "app")); ("_phantom", (ECon "PhantomData" []))] None)]]); (PCon "Err" [PVar "hof_v3"], ECon "Err" [EVar "hof_v3"]); (PCon "Some" [PVar "hof_v3"], ECon "Some" [EBlock [SLet (PVar "data") (EVar "hof_v3"); STail (ERecord "Proxy" [("contract_addr", (ECall "into" [(EField (EVar "data") "contract_address")])); ("app", (EField (EVar "code_id") "app")); ("_phantom", (ECon "PhantomData" []))] None)]]); (PCon "None" [], ECon "None" [])])])); ((PCon "None" []), (EMatch (EMatch (ECall "extern::instantiate_contract" [(ECall "App::app_mut" [(EField (EVar "code_id") "app")]); (EField (EVar "code_id") "code_id"); (ECall "into" [(EVar "sender")]); (EVar "msg"); (EVar "funds"); (EVar "label"); (EVar "admin")]) [(PCon "Ok" [PVar "hof_v6"], ECon "Ok" [EVar "hof_v6"]); (PCon "Err" [PVar "hof_v6"], ECon "Err" [ECall "downcast_error" [EVar "hof_v6"]])]) [(PCon "Ok" [PVar "hof_v5"], ECon "Ok" [EBlock [SLet (PVar "addr") (EVar "hof_v5"); STail (ERecord "Proxy" [("contract_addr", (EVar "addr")); ("app", (EField (EVar "code_id") "app")); ("_phantom", (ECon "PhantomData" []))] None)]]); (PCon "Err" [PVar "hof_v5"], ECon "Err" [EVar "hof_v5"]); (PCon "Some" [PVar "hof_v5"], ECon "Some" [EBlock [SLet (PVar "addr") (EVar "hof_v5"); STail (ERecord "Proxy" [("contract_addr", (EVar "addr")); ("app", (EField (EVar "code_id") "app")); ("_phantom", (ECon "PhantomData" []))] None)]]); (PCon "None" [], ECon "None" [])]))])]) |};
    {| fn_name := "CodeId::instantiate"; fn_params := ["self"]; fn_consts := [];
     fn_body := (EBlock [SLet (PVar "msg") (ERecord "InstantiateMsg" [] None); STail (ERecord "InstantiateProxy" [("code_id", (EVar "self")); ("funds", (EArr [])); ("label", (EConst (VStr "Contract"))); ("admin", (ECon "None" [])); ("salt", (ECon "None" [])); ("msg", (EVar "msg"))] None)]) |} ].

(* GENERATED code, for every contract and method: the exec / query / sudo / migrate proxy methods (one symbolic argument) *)
Definition mtmeth_fns : program :=
  [ {| fn_name := "ProxyT::exec_method"; fn_params := ["self"; "args"]; fn_consts := [];
     fn_body := (EBlock [SLet (PVar "msg") (ECon "ExecMsg::of" [(EVar "args")]); STail (ECall "ExecProxy::new" [(EField (EVar "self") "contract_addr"); (EVar "msg"); (EField (EVar "self") "app")])]) |};
    {| fn_name := "ProxyT::query_method"; fn_params := ["self"; "args"]; fn_consts := [];
     fn_body := (EBlock [SLet (PVar "msg") (ECon "QueryMsg::of" [(EVar "args")]); STail (EMatch (ECall "extern::query_wasm_smart" [(ECall "into" [(EField (EVar "self") "app")]); (ECall "into" [(EField (EVar "self") "contract_addr")]); (EVar "msg")]) [(PCon "Ok" [PVar "hof_v1"], ECon "Ok" [EVar "hof_v1"]); (PCon "Err" [PVar "hof_v1"], ECon "Err" [ECon "Into::into" [EVar "hof_v1"]])])]) |};
    {| fn_name := "ProxyT::sudo_method"; fn_params := ["self"; "args"]; fn_consts := [];
     fn_body := (EBlock [SLet (PVar "msg") (ECon "SudoMsg::of" [(EVar "args")]); STail (EMatch (ECall "extern::wasm_sudo" [(ECall "App::app_mut" [(EField (EVar "self") "app")]); (ECall "into" [(EField (EVar "self") "contract_addr")]); (EVar "msg")]) [(PCon "Ok" [PVar "hof_v1"], ECon "Ok" [EVar "hof_v1"]); (PCon "Err" [PVar "hof_v1"], ECon "Err" [ECall "downcast_error" [EVar "hof_v1"]])])]) |};
    {| fn_name := "ProxyT::migrate_method"; fn_params := ["self"; "args"]; fn_consts := [];
     fn_body := (EBlock [SLet (PVar "msg") (ECon "MigrateMsg::new" [(EVar "args")]); STail (ECall "MigrateProxy::new" [(EField (EVar "self") "contract_addr"); (EVar "msg"); (EField (EVar "self") "app")])]) |} ].

(* ... and the same four templates of the INTERFACE side (interface/mt.rs) *)
Definition mtmeth_iface_fns : program :=
  [ {| fn_name := "ProxyT::exec_method"; fn_params := ["self"; "args"]; fn_consts := [];
     fn_body := (EBlock [SLet (PVar "msg") (ECon "ExecMsg::of" [(EVar "args")]); STail (ECall "ExecProxy::new" [(EField (EVar "self") "contract_addr"); (EVar "msg"); (EField (EVar "self") "app")])]) |};
    {| fn_name := "ProxyT::query_method"; fn_params := ["self"; "args"]; fn_consts := [];
     fn_body := (EBlock [SLet (PVar "msg") (ECon "QueryMsg::of" [(EVar "args")]); STail (EMatch (ECall "extern::query_wasm_smart" [(ECall "into" [(EField (EVar "self") "app")]); (ECall "into" [(EField (EVar "self") "contract_addr")]); (EVar "msg")]) [(PCon "Ok" [PVar "hof_v1"], ECon "Ok" [EVar "hof_v1"]); (PCon "Err" [PVar "hof_v1"], ECon "Err" [ECon "Into::into" [EVar "hof_v1"]])])]) |};
    {| fn_name := "ProxyT::sudo_method"; fn_params := ["self"; "args"]; fn_consts := [];
     fn_body := (EBlock [SLet (PVar "msg") (ECon "SudoMsg::of" [(EVar "args")]); STail (EMatch (ECall "extern::wasm_sudo" [(ECall "App::app_mut" [(EField (EVar "self") "app")]); (ECall "into" [(EField (EVar "self") "contract_addr")]); (EVar "msg")]) [(PCon "Ok" [PVar "hof_v1"], ECon "Ok" [EVar "hof_v1"]); (PCon "Err" [PVar "hof_v1"], ECon "Err" [ECall "downcast_error" [EVar "hof_v1"]])])]) |};
    {| fn_name := "ProxyT::migrate_method"; fn_params := ["self"; "args"]; fn_consts := [];
     fn_body := (EBlock [SLet (PVar "msg") (ECon "MigrateMsg::new" [(EVar "args")]); STail (ECall "MigrateProxy::new" [(EField (EVar "self") "contract_addr"); (EVar "msg"); (EField (EVar "self") "app")])]) |} ].

(* GENERATED code, for every contract / handler / trigger / id: the sub-message builders of reply handlers *)
Definition reply_builder_fns : program :=
  [ {| fn_name := "BuilderT::setter_typed"; fn_params := ["self"; "args"; "reply_on_hole"; "reply_id_hole"]; fn_consts := [];
     fn_body := (EBlock [SLet (PVar "payload") (EMatch (ECon "Ok" [ECon "to_json_binary" [(EVar "args")]]) [(PCon "Ok" [PVar "try_v"], EVar "try_v"); (PCon "Err" [PVar "try_e"], EReturn (ECon "Err" [ECon "From::from" [EVar "try_e"]]))]); STail (ECon "Ok" [(ERecord "SubMsg" [("reply_on", (EVar "reply_on_hole")); ("id", (EVar "reply_id_hole")); ("payload", (EVar "payload"))] (Some (EVar "self")))])]) |};
    {| fn_name := "BuilderT::setter_raw"; fn_params := ["self"; "args"; "reply_on_hole"; "reply_id_hole"]; fn_consts := [];
     fn_body := (EBlock [SLet (PVar "payload") (EVar "args"); STail (ECon "Ok" [(ERecord "SubMsg" [("reply_on", (EVar "reply_on_hole")); ("id", (EVar "reply_id_hole")); ("payload", (EVar "payload"))] (Some (EVar "self")))])]) |};
    {| fn_name := "BuilderT::converter_typed"; fn_params := ["self"; "args"; "reply_on_hole"; "reply_id_hole"]; fn_consts := [];
     fn_body := (EBlock [SLet (PVar "payload") (EMatch (ECon "Ok" [ECon "to_json_binary" [(EVar "args")]]) [(PCon "Ok" [PVar "try_v"], EVar "try_v"); (PCon "Err" [PVar "try_e"], EReturn (ECon "Err" [ECon "From::from" [EVar "try_e"]]))]); STail (ECon "Ok" [(ERecord "SubMsg" [("reply_on", (EVar "reply_on_hole")); ("id", (EVar "reply_id_hole")); ("msg", (ECon "Into::into" [(EVar "self")])); ("payload", (EVar "payload")); ("gas_limit", (ECon "None" []))] None)])]) |};
    {| fn_name := "BuilderT::converter_raw"; fn_params := ["self"; "args"; "reply_on_hole"; "reply_id_hole"]; fn_consts := [];
     fn_body := (EBlock [SLet (PVar "payload") (EVar "args"); STail (ECon "Ok" [(ERecord "SubMsg" [("reply_on", (EVar "reply_on_hole")); ("id", (EVar "reply_id_hole")); ("msg", (ECon "Into::into" [(EVar "self")])); ("payload", (EVar "payload")); ("gas_limit", (ECon "None" []))] None)])]) |} ].

(* GENERATED code: the extraction of the reply data, one function per declared data mode *)
Definition reply_data_fns : program :=
  [ {| fn_name := "DataT::raw_opt"; fn_params := ["data"; "missing_data_err"; "invalid_reply_data_err"]; fn_consts := [];
     fn_body := (EBlock [STail (ECon "Ok" [(EVar "data")])]) |};
    {| fn_name := "DataT::raw"; fn_params := ["data"; "missing_data_err"; "invalid_reply_data_err"]; fn_consts := [];
     fn_body := (EBlock [SLet (PVar "data") (EMatch (EVar "data") [((PCon "Some" [(PVar "data")]), (EVar "data")); ((PCon "None" []), (EReturn (ECon "Err" [(ECon "Into::into" [(ECon "StdError::GenericErr" [(EVar "missing_data_err")])])])))]); STail (ECon "Ok" [(EVar "data")])]) |};
    {| fn_name := "DataT::inst_opt"; fn_params := ["data"; "missing_data_err"; "invalid_reply_data_err"]; fn_consts := [];
     fn_body := (EBlock [SLet (PVar "data") (EMatch (EVar "data") [((PCon "Some" [(PVar "data")]), (EBlock [SLet (PVar "deserialized_data") (EMatch (EMatch (ECall "extern::parse_instantiate_response_data" [(ECall "into" [(EVar "data")])]) [(PCon "Ok" [PVar "hof_v1"], ECon "Ok" [EVar "hof_v1"]); (PCon "Err" [PVar "hof_v1"], ECon "Err" [EBlock [SLet (PVar "err") (EVar "hof_v1"); STail (ECon "StdError::GenericErr" [(ECon "format" [(EConst (VStr "Failed deserializing protobuf data: {}")); (EVar "err")])])]])]) [(PCon "Ok" [PVar "try_v"], EVar "try_v"); (PCon "Err" [PVar "try_e"], EReturn (ECon "Err" [ECon "From::from" [EVar "try_e"]]))]); STail (ECon "Some" [(EVar "deserialized_data")])])); ((PCon "None" []), (ECon "None" []))]); STail (ECon "Ok" [(EVar "data")])]) |};
    {| fn_name := "DataT::inst"; fn_params := ["data"; "missing_data_err"; "invalid_reply_data_err"]; fn_consts := [];
     fn_body := (EBlock [SLet (PVar "data") (EMatch (EVar "data") [((PCon "Some" [(PVar "data")]), (EBlock [SLet (PVar "deserialized_data") (EMatch (EMatch (ECall "extern::parse_instantiate_response_data" [(ECall "into" [(EVar "data")])]) [(PCon "Ok" [PVar "hof_v1"], ECon "Ok" [EVar "hof_v1"]); (PCon "Err" [PVar "hof_v1"], ECon "Err" [EBlock [SLet (PVar "err") (EVar "hof_v1"); STail (ECon "StdError::GenericErr" [(ECon "format" [(EConst (VStr "Failed deserializing protobuf data: {}")); (EVar "err")])])]])]) [(PCon "Ok" [PVar "try_v"], EVar "try_v"); (PCon "Err" [PVar "try_e"], EReturn (ECon "Err" [ECon "From::from" [EVar "try_e"]]))]); STail (EVar "deserialized_data")])); ((PCon "None" []), (EReturn (ECon "Err" [(ECon "Into::into" [(ECon "StdError::GenericErr" [(EVar "missing_data_err")])])])))]); STail (ECon "Ok" [(EVar "data")])]) |};
    {| fn_name := "DataT::opt"; fn_params := ["data"; "missing_data_err"; "invalid_reply_data_err"]; fn_consts := [];
     fn_body := (EBlock [SLet (PVar "data") (EMatch (EVar "data") [((PCon "Some" [(PVar "data")]), (EBlock [SLet (PVar "deserialized_data") (EMatch (EMatch (ECall "extern::parse_execute_response_data" [(ECall "into" [(EVar "data")])]) [(PCon "Ok" [PVar "hof_v1"], ECon "Ok" [EVar "hof_v1"]); (PCon "Err" [PVar "hof_v1"], ECon "Err" [EBlock [SLet (PVar "err") (EVar "hof_v1"); STail (ECon "StdError::GenericErr" [(ECon "format" [(EConst (VStr "Failed deserializing protobuf data: {}")); (EVar "err")])])]])]) [(PCon "Ok" [PVar "try_v"], EVar "try_v"); (PCon "Err" [PVar "try_e"], EReturn (ECon "Err" [ECon "From::from" [EVar "try_e"]]))]); SLet (PVar "deserialized_data") (EMatch (EField (EVar "deserialized_data") "data") [((PCon "Some" [(PVar "data")]), (EMatch (EMatch (ECall "extern::from_json" [(EVar "data")]) [(PCon "Ok" [PVar "hof_v2"], ECon "Ok" [EVar "hof_v2"]); (PCon "Err" [PVar "hof_v2"], ECon "Err" [EBlock [SLet (PVar "err") (EVar "hof_v2"); STail (ECon "StdError::GenericErr" [(EVar "invalid_reply_data_err")])]])]) [(PCon "Ok" [PVar "try_v"], EVar "try_v"); (PCon "Err" [PVar "try_e"], EReturn (ECon "Err" [ECon "From::from" [EVar "try_e"]]))])); ((PCon "None" []), (EReturn (ECon "Err" [(ECon "Into::into" [(ECon "StdError::GenericErr" [(EVar "missing_data_err")])])])))]); STail (ECon "Some" [(EVar "deserialized_data")])])); ((PCon "None" []), (ECon "None" []))]); STail (ECon "Ok" [(EVar "data")])]) |};
    {| fn_name := "DataT::typed"; fn_params := ["data"; "missing_data_err"; "invalid_reply_data_err"]; fn_consts := [];
     fn_body := (EBlock [SLet (PVar "data") (EMatch (EVar "data") [((PCon "Some" [(PVar "data")]), (EBlock [SLet (PVar "deserialized_data") (EMatch (EMatch (ECall "extern::parse_execute_response_data" [(ECall "into" [(EVar "data")])]) [(PCon "Ok" [PVar "hof_v1"], ECon "Ok" [EVar "hof_v1"]); (PCon "Err" [PVar "hof_v1"], ECon "Err" [EBlock [SLet (PVar "err") (EVar "hof_v1"); STail (ECon "StdError::GenericErr" [(ECon "format" [(EConst (VStr "Failed deserializing protobuf data: {}")); (EVar "err")])])]])]) [(PCon "Ok" [PVar "try_v"], EVar "try_v"); (PCon "Err" [PVar "try_e"], EReturn (ECon "Err" [ECon "From::from" [EVar "try_e"]]))]); SLet (PVar "deserialized_data") (EMatch (EField (EVar "deserialized_data") "data") [((PCon "Some" [(PVar "data")]), (EMatch (EMatch (ECall "extern::from_json" [(EVar "data")]) [(PCon "Ok" [PVar "hof_v2"], ECon "Ok" [EVar "hof_v2"]); (PCon "Err" [PVar "hof_v2"], ECon "Err" [EBlock [SLet (PVar "err") (EVar "hof_v2"); STail (ECon "StdError::GenericErr" [(EVar "invalid_reply_data_err")])]])]) [(PCon "Ok" [PVar "try_v"], EVar "try_v"); (PCon "Err" [PVar "try_e"], EReturn (ECon "Err" [ECon "From::from" [EVar "try_e"]]))])); ((PCon "None" []), (EReturn (ECon "Err" [(ECon "Into::into" [(ECon "StdError::GenericErr" [(EVar "missing_data_err")])])])))]); STail (EVar "deserialized_data")])); ((PCon "None" []), (EReturn (ECon "Err" [(ECon "Into::into" [(ECon "StdError::GenericErr" [(EVar "missing_data_err")])])])))]); STail (ECon "Ok" [(EVar "data")])]) |} ].

(* sylvia/src/into_response.rs: IntoMsg / IntoResponse; `enabled_features` = the cargo features switched on *)
Definition resp_program (enabled_features : list string) : program :=
  [ {| fn_name := "SubMsg::into_msg"; fn_params := ["self"]; fn_consts := [];
     fn_body := (EBlock [SLet (PVar "msg") (EMatch (EField (EVar "self") "msg") (cfg_arms enabled_features [([], ((PCon "CosmosMsg::Wasm" [(PVar "wasm")]), (ECon "CosmosMsg::Wasm" [(EVar "wasm")]))); ([], ((PCon "CosmosMsg::Bank" [(PVar "bank")]), (ECon "CosmosMsg::Bank" [(EVar "bank")]))); (["staking"], ((PCon "CosmosMsg::Staking" [(PVar "staking")]), (ECon "CosmosMsg::Staking" [(EVar "staking")]))); (["staking"], ((PCon "CosmosMsg::Distribution" [(PVar "distribution")]), (ECon "CosmosMsg::Distribution" [(EVar "distribution")]))); ([], ((PCon "CosmosMsg::Custom" [PWild]), (EMatch (ECon "Err" [(ECon "StdError::GenericErr" [(EConst (VStr "Custom Empty message should not be sent"))])]) [(PCon "Ok" [PVar "try_v"], EVar "try_v"); (PCon "Err" [PVar "try_e"], EReturn (ECon "Err" [ECon "From::from" [EVar "try_e"]]))]))); (["stargate"], ((PRec "CosmosMsg::Stargate" [("type_url", (PVar "type_url")); ("value", (PVar "value"))]), (ERecord "CosmosMsg::Stargate" [("type_url", (EVar "type_url")); ("value", (EVar "value"))] None))); (["stargate"], ((PCon "CosmosMsg::Ibc" [(PVar "ibc")]), (ECon "CosmosMsg::Ibc" [(EVar "ibc")]))); (["cosmwasm_2_0"], ((PCon "CosmosMsg::Any" [(PVar "any")]), (ECon "CosmosMsg::Any" [(EVar "any")]))); (["stargate"], ((PCon "CosmosMsg::Gov" [(PVar "msg")]), (ECon "CosmosMsg::Gov" [(EVar "msg")]))); ([], (PWild, (EReturn (ECon "Err" [(ECon "StdError::GenericErr" [(ECon "format" [(EConst (VStr "Unknown message variant: {:?}. Please make sure you are using up-to-date Sylvia version, and if so please issue this bug on the Sylvia repository.")); (EVar "self")])])]))))])); STail (ECon "Ok" [(ERecord "SubMsg" [("msg", (EVar "msg")); ("id", (EField (EVar "self") "id")); ("gas_limit", (EField (EVar "self") "gas_limit")); ("reply_on", (EField (EVar "self") "reply_on")); ("payload", (EField (EVar "self") "payload"))] None)])]) |};
    {| fn_name := "Response::into_response"; fn_params := ["self"]; fn_consts := [];
     fn_body := (EBlock [SLet (PVar "messages") (EMatch (EBlock [SLet (PVar "collect_src") (EField (EVar "self") "messages"); SLet (PVar "collect_acc") (EArr []); SLet (PVar "collect_res") (ECon "Ok" [EConst VUnit]); SExpr (EFor "collect_i" (EConst (VNat 0)) (ECall "len" [EVar "collect_src"]) (EBlock [STail (EIfLet (PCon "Ok" [PWild]) (EVar "collect_res") (EBlock [SLet (PVar "msg") (EIndex (EVar "collect_src") (EVar "collect_i")); STail (EMatch (ECall "SubMsg::into_msg" [(EVar "msg")]) [(PCon "Ok" [PVar "collect_v"], EAssign "collect_acc" [] (ECall "push" [EVar "collect_acc"; EVar "collect_v"])); (PCon "Err" [PVar "collect_e"], EAssign "collect_res" [] (ECon "Err" [EVar "collect_e"]))])]) (EConst VUnit))])); STail (EMatch (EVar "collect_res") [(PCon "Ok" [PWild], ECon "Ok" [EVar "collect_acc"]); (PCon "Err" [PVar "collect_e"], ECon "Err" [EVar "collect_e"])])]) [(PCon "Ok" [PVar "try_v"], EVar "try_v"); (PCon "Err" [PVar "try_e"], EReturn (ECon "Err" [ECon "From::from" [EVar "try_e"]]))]); SLet (PVar "resp") (ECall "add_attributes" [(ECall "add_events" [(ECall "add_submessages" [(ECall "Response::new" []); (EVar "messages")]); (EField (EVar "self") "events")]); (EField (EVar "self") "attributes")]); SExpr (EAssign "resp" [(LFld "data")] (EField (EVar "self") "data")); STail (ECon "Ok" [(EVar "resp")])]) |} ].
