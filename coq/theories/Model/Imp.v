(* A small imperative Rust subset (deep embedding) and its executable semantics. The run-time
   library functions that are ordinary imperative code - the const overlap check of
   sylvia/src/utils.rs and the builders - are TRANSLATED from the Rust source into terms of this
   language on every run (GenImp.v, written by py/verif/imp_translate.py from the probe's syn dump),
   so theorems about them are re-checked against what the code says now.

   Semantics choices (validated against the real functions by the L3 differential run):
   * `usize` is unbounded `nat` (the code only indexes and increments cursors below array lengths);
     subtraction below zero is the panic kind "overflow";
   * shared references are transparent (`&e`, `*e` = e); `&mut` is refused by the translator;
   * an out-of-range index is the panic kind "index"; `panic!`/`unreachable!` carry their kind;
   * ill-typed programs, unbound names, missing functions and exhausted fuel have no result (`None`).
   Definitions only; facts in Facts/ImpFacts.v. *)
From Coq Require Import String List Bool Arith.
Import ListNotations.
Open Scope string_scope.
Open Scope list_scope.

Inductive value :=
| VNat (n : nat)
| VBool (b : bool)
| VStr (s : string)
| VUnit
| VArr (l : list value)
| VCon (c : string) (args : list value)
| VRec (c : string) (fs : list (string * value)).

Inductive pat :=
| PWild
| PRest
| PVar (x : string)
| PLit (v : value)
| PCon (c : string) (ps : list pat)
| PRec (c : string) (fps : list (string * pat))     (* `Path { field: pat, .. }`: fields not named are ignored *)
| POr (ps : list pat).

Inductive expr :=
| EVar (x : string)
| EConst (v : value)
| ECon (c : string) (args : list expr)
| ECall (f : string) (args : list expr)
| EBin (op : string) (a b : expr)
| ENot (e : expr)
| EIndex (a i : expr)
| EField (e : expr) (f : string)
| ERepeat (e n : expr)
| EArr (es : list expr)
| ERecord (c : string) (fs : list (string * expr)) (rest : option expr)
| EBlock (ss : list stmt)
| EIf (c t e : expr)
| EIfLet (p : pat) (s t e : expr)
| EMatch (s : expr) (arms : list (pat * expr))
| EWhile (c b : expr)
| EFor (i : string) (lo hi b : expr)
| EAssign (x : string) (sels : list lsel) (e : expr)
| EContinue
| EBreak
| EReturn (e : expr)
| EPanic (kind msg : string)
with stmt :=
| SLet (p : pat) (e : expr)
| SExpr (e : expr)          (* `e;` or a non-final expression statement: value dropped *)
| STail (e : expr)          (* final expression: the value of the block *)
with lsel :=
| LIdx (e : expr)
| LFld (f : string).

Record fn_def := { fn_name : string; fn_params : list string; fn_consts : list (string * string); fn_body : expr }.
Definition program := list fn_def.

Inductive ctl :=
| CVal (v : value)
| CBrk
| CCont
| CRet (v : value)
| CPanic (kind msg : string).

Definition env := list (string * value).

(* ------------------------------------------------------------------------------------------ *)
Fixpoint lookup (x : string) (e : env) : option value :=
  match e with
  | [] => None
  | (y, v) :: r => if x =? y then Some v else lookup x r
  end.

Fixpoint update (x : string) (v : value) (e : env) : option env :=
  match e with
  | [] => None
  | (y, w) :: r => if x =? y then Some ((y, v) :: r)
                   else match update x v r with Some r' => Some ((y, w) :: r') | None => None end
  end.

(* leaving a block: bindings introduced inside it are dropped, updates to outer variables stay *)
Definition leave (outer inner : env) : env := skipn (length inner - length outer) inner.

Fixpoint set_nth (l : list value) (k : nat) (v : value) : option (list value) :=
  match l, k with
  | [], _ => None
  | _ :: r, 0 => Some (v :: r)
  | x :: r, S k' => match set_nth r k' v with Some r' => Some (x :: r') | None => None end
  end.

Fixpoint set_field (fs : list (string * value)) (f : string) (v : value) : option (list (string * value)) :=
  match fs with
  | [] => None
  | (g, w) :: r => if f =? g then Some ((g, v) :: r)
                   else match set_field r f v with Some r' => Some ((g, w) :: r') | None => None end
  end.

Inductive sel := SIdx (k : nat) | SFld (f : string).

(* inl = panic kind *)
Fixpoint update_path (old : value) (p : list sel) (v : value) : option (string + value) :=
  match p with
  | [] => Some (inr v)
  | SIdx k :: r =>
      match old with
      | VArr l =>
          match nth_error l k with
          | None => Some (inl "index")
          | Some o =>
              match update_path o r v with
              | Some (inr n) => match set_nth l k n with Some l' => Some (inr (VArr l')) | None => None end
              | other => other
              end
          end
      | _ => None
      end
  | SFld f :: r =>
      match old with
      | VRec c fs =>
          match lookup f fs with
          | None => None
          | Some o =>
              match update_path o r v with
              | Some (inr n) => match set_field fs f n with Some fs' => Some (inr (VRec c fs')) | None => None end
              | other => other
              end
          end
      | _ => None
      end
  end.

Fixpoint value_eqb (a b : value) {struct a} : bool :=
  match a, b with
  | VNat x, VNat y => Nat.eqb x y
  | VBool x, VBool y => Bool.eqb x y
  | VStr x, VStr y => String.eqb x y
  | VUnit, VUnit => true
  | VArr x, VArr y =>
      (fix go (l1 l2 : list value) : bool :=
         match l1, l2 with
         | [], [] => true
         | u :: r1, w :: r2 => value_eqb u w && go r1 r2
         | _, _ => false
         end) x y
  | VCon c x, VCon d y =>
      String.eqb c d &&
      (fix go (l1 l2 : list value) : bool :=
         match l1, l2 with
         | [], [] => true
         | u :: r1, w :: r2 => value_eqb u w && go r1 r2
         | _, _ => false
         end) x y
  | VRec c x, VRec d y =>
      String.eqb c d &&
      (fix go (l1 l2 : list (string * value)) : bool :=
         match l1, l2 with
         | [], [] => true
         | (f, u) :: r1, (g, w) :: r2 => String.eqb f g && value_eqb u w && go r1 r2
         | _, _ => false
         end) x y
  | _, _ => false
  end.

(* pattern matching: None = no match; bindings are returned innermost-last *)
Fixpoint pmatch (p : pat) (v : value) {struct p} : option env :=
  match p with
  | PWild => Some []
  | PRest => Some []
  | PVar x => Some [(x, v)]
  | PLit w => if value_eqb w v then Some [] else None
  | PCon c ps =>
      match v with
      | VCon d vs =>
          if String.eqb c d then
            (fix go (ps : list pat) (vs : list value) : option env :=
               match ps, vs with
               | [], [] => Some []
               | PRest :: _, _ => Some []
               | q :: pr, w :: vr =>
                   match pmatch q w with
                   | Some b => match go pr vr with Some b' => Some (b' ++ b) | None => None end
                   | None => None
                   end
               | _, _ => None
               end) ps vs
          else None
      | _ => None
      end
  | PRec c fps =>
      match v with
      | VRec d fs =>
          if String.eqb c d then
            (fix go (fps : list (string * pat)) : option env :=
               match fps with
               | [] => Some []
               | (f, q) :: pr =>
                   match lookup f fs with
                   | Some w =>
                       match pmatch q w with
                       | Some b => match go pr with Some b' => Some (b' ++ b) | None => None end
                       | None => None
                       end
                   | None => None
                   end
               end) fps
          else None
      | _ => None
      end
  | POr ps =>
      (fix go (ps : list pat) : option env :=
         match ps with
         | [] => None
         | q :: r => match pmatch q v with Some b => Some b | None => go r end
         end) ps
  end.

(* arms of a `match` that are compiled conditionally (`#[cfg(feature = ..)]`): those whose features are all enabled *)
Definition cfg_arms (enabled : list string) (arms : list (list string * (pat * expr))) : list (pat * expr) :=
  map snd (filter (fun a => forallb (fun x => existsb (String.eqb x) enabled) (fst a)) arms).

(* ------------------------------------------------------------------------------------------ *)
(* Built-in functions and methods used by the translated code. *)
Definition ordering (c : comparison) : value :=
  VCon (match c with Lt => "Ordering::Less" | Eq => "Ordering::Equal" | Gt => "Ordering::Greater" end) [].

Definition builtin (f : string) (args : list value) : option ctl :=
  if f =? "len" then match args with [VArr l] => Some (CVal (VNat (length l))) | _ => None end
  else if f =? "is_empty" then match args with [VArr l] => Some (CVal (VBool (match l with [] => true | _ => false end))) | _ => None end
  else if f =? "konst::cmp_str" then match args with [VStr a; VStr b] => Some (CVal (ordering (String.compare a b))) | _ => None end
  else if f =? "konst::eq_str" then match args with [VStr a; VStr b] => Some (CVal (VBool (String.eqb a b))) | _ => None end
  else if f =? "into" then match args with [v] => Some (CVal v) | _ => None end
  else if f =? "to_string" then
    (* Display of a string-like value; a `Cow` dereferences to what it holds *)
    match args with
    | [VStr s] | [VCon "Cow::Owned" [VStr s]] | [VCon "Cow::Borrowed" [VStr s]] => Some (CVal (VStr s))
    | [VCon "anyhow::Error" [VStr _; _; VStr text]] => Some (CVal (VStr text))
    | _ => None
    end
  else if f =? "Binary::default" then match args with [] => Some (CVal (VCon "Binary::default" [])) | _ => None end
  else if f =? "unwrap_or_default_string" then
    match args with [VCon "Some" [v]] => Some (CVal v) | [VCon "None" []] => Some (CVal (VStr "")) | _ => None end
  (* `anyhow::Error` is the value `anyhow::Error [type name; the error it wraps; its Display text]`:
     `e.is::<T>()`, `e.downcast::<T>()` compare the recorded type name with the name T written in the source *)
  else if f =? "anyhow::is" then
    match args with [VCon "anyhow::Error" [VStr ty; _; VStr _]; VStr t] => Some (CVal (VBool (String.eqb ty t))) | _ => None end
  else if f =? "anyhow::downcast" then
    match args with
    | [VCon "anyhow::Error" [VStr ty; inner; VStr txt]; VStr t] =>
        Some (CVal (if String.eqb ty t then VCon "Ok" [inner] else VCon "Err" [VCon "anyhow::Error" [VStr ty; inner; VStr txt]]))
    | _ => None
    end
  (* `x.into()` where an `Option<T>` is expected (`impl Into<Option<T>>`): an Option stays, a T becomes Some *)
  else if f =? "into_option" then
    match args with
    | [VCon "Some" [x]] => Some (CVal (VCon "Some" [x]))
    | [VCon "None" []] => Some (CVal (VCon "None" []))
    | [v] => Some (CVal (VCon "Some" [v]))
    | _ => None
    end
  else if f =? "min" then match args with [VNat a; VNat b] => Some (CVal (VNat (Nat.min a b))) | _ => None end
  else if f =? "is_some" then
    match args with [VCon "Some" [_]] => Some (CVal (VBool true)) | [VCon "None" []] => Some (CVal (VBool false)) | _ => None end
  else if f =? "is_none" then
    match args with [VCon "Some" [_]] => Some (CVal (VBool false)) | [VCon "None" []] => Some (CVal (VBool true)) | _ => None end
  else if f =? "push" then match args with [VArr l; v] => Some (CVal (VArr (l ++ [v]))) | _ => None end
  (* slice::contains: some element equals v *)
  else if f =? "contains" then match args with [VArr l; v] => Some (CVal (VBool (existsb (fun x => value_eqb x v) l))) | _ => None end
  (* cosmwasm_std::Response: a record of four fields; the `add_*` builder methods append to their list *)
  else if f =? "Response::new" then
    match args with
    | [] => Some (CVal (VRec "Response" [("messages", VArr []); ("attributes", VArr []); ("events", VArr []); ("data", VCon "None" [])]))
    | _ => None
    end
  else if f =? "add_submessages" then
    match args with
    | [VRec "Response" [("messages", VArr m); a; e; d]; VArr l] => Some (CVal (VRec "Response" [("messages", VArr (m ++ l)); a; e; d]))
    | _ => None
    end
  else if f =? "add_attributes" then
    match args with
    | [VRec "Response" [m; ("attributes", VArr a); e; d]; VArr l] => Some (CVal (VRec "Response" [m; ("attributes", VArr (a ++ l)); e; d]))
    | _ => None
    end
  else if f =? "add_events" then
    match args with
    | [VRec "Response" [m; a; ("events", VArr e); d]; VArr l] => Some (CVal (VRec "Response" [m; a; ("events", VArr (e ++ l)); d]))
    | _ => None
    end
  else if f =? "set_data" then
    match args with
    | [VRec "Response" [m; a; e; ("data", _)]; x] => Some (CVal (VRec "Response" [m; a; e; ("data", VCon "Some" [x])]))
    | _ => None
    end
  else if f =? "unwrap" then
    match args with
    | [VCon "Ok" [v]] | [VCon "Some" [v]] => Some (CVal v)
    | [VCon "Err" [_]] | [VCon "None" []] => Some (CPanic "unwrap" "")
    | _ => None
    end
  else None.

Definition is_builtin (f : string) : bool :=
  existsb (String.eqb f) ["len"; "is_empty"; "konst::cmp_str"; "konst::eq_str"; "into"; "to_string"; "Binary::default";
                          "unwrap_or_default_string"; "anyhow::is"; "anyhow::downcast"; "unwrap"; "into_option"; "is_some"; "is_none"; "min"; "push"; "contains"; "Response::new";
                          "add_submessages"; "add_attributes"; "add_events"; "set_data"].

Definition binop (op : string) (a b : value) : option ctl :=
  match a, b with
  | VNat x, VNat y =>
      if op =? "+" then Some (CVal (VNat (x + y)))
      else if op =? "-" then (if Nat.ltb x y then Some (CPanic "overflow" "") else Some (CVal (VNat (x - y))))
      else if op =? "*" then Some (CVal (VNat (x * y)))
      else if op =? "==" then Some (CVal (VBool (Nat.eqb x y)))
      else if op =? "!=" then Some (CVal (VBool (negb (Nat.eqb x y))))
      else if op =? "<" then Some (CVal (VBool (Nat.ltb x y)))
      else if op =? "<=" then Some (CVal (VBool (Nat.leb x y)))
      else if op =? ">" then Some (CVal (VBool (Nat.ltb y x)))
      else if op =? ">=" then Some (CVal (VBool (Nat.leb y x)))
      else None
  | _, _ =>
      if op =? "==" then Some (CVal (VBool (value_eqb a b)))
      else if op =? "!=" then Some (CVal (VBool (negb (value_eqb a b))))
      else None
  end.

(* ------------------------------------------------------------------------------------------ *)
(* The evaluator. `callf` gives the meaning of calls (open recursion, closed by `call` below). *)
Section Eval.
Variable callf : string -> list value -> option ctl.

Definition res := option (ctl * env).

Definition bindv (r : res) (k : value -> env -> res) : res :=
  match r with
  | Some (CVal v, e) => k v e
  | other => other
  end.

Fixpoint eval (fuel : nat) (ex : expr) (en : env) {struct fuel} : res :=
  match fuel with
  | 0 => None
  | S f =>
    match ex with
    | EVar x => match lookup x en with Some v => Some (CVal v, en) | None => None end
    | EConst v => Some (CVal v, en)
    | ECon c args =>
        match eval_list f args en with
        | Some (inr vs, en') => Some (CVal (VCon c vs), en')
        | Some (inl c', en') => Some (c', en')
        | None => None
        end
    | ECall g args =>
        match eval_list f args en with
        | Some (inr vs, en') => match callf g vs with Some c => Some (c, en') | None => None end
        | Some (inl c', en') => Some (c', en')
        | None => None
        end
    | EBin op a b =>
        if op =? "&&" then
          bindv (eval f a en) (fun va en1 =>
            match va with
            | VBool false => Some (CVal (VBool false), en1)
            | VBool true => bindv (eval f b en1) (fun vb en2 => match vb with VBool _ => Some (CVal vb, en2) | _ => None end)
            | _ => None
            end)
        else if op =? "||" then
          bindv (eval f a en) (fun va en1 =>
            match va with
            | VBool true => Some (CVal (VBool true), en1)
            | VBool false => bindv (eval f b en1) (fun vb en2 => match vb with VBool _ => Some (CVal vb, en2) | _ => None end)
            | _ => None
            end)
        else
          bindv (eval f a en) (fun va en1 =>
          bindv (eval f b en1) (fun vb en2 =>
            match binop op va vb with Some c => Some (c, en2) | None => None end))
    | ENot a =>
        bindv (eval f a en) (fun va en1 => match va with VBool b => Some (CVal (VBool (negb b)), en1) | _ => None end)
    | EIndex a i =>
        bindv (eval f a en) (fun va en1 =>
        bindv (eval f i en1) (fun vi en2 =>
          match va, vi with
          | VArr l, VNat k => match nth_error l k with Some v => Some (CVal v, en2) | None => Some (CPanic "index" "", en2) end
          | _, _ => None
          end))
    | EField a fld =>
        bindv (eval f a en) (fun va en1 =>
          match va with
          | VRec _ fs => match lookup fld fs with Some v => Some (CVal v, en1) | None => None end
          | _ => None
          end)
    | ERepeat a n =>
        bindv (eval f a en) (fun va en1 =>
        bindv (eval f n en1) (fun vn en2 =>
          match vn with VNat k => Some (CVal (VArr (repeat va k)), en2) | _ => None end))
    | EArr es =>
        match eval_list f es en with
        | Some (inr vs, en') => Some (CVal (VArr vs), en')
        | Some (inl c', en') => Some (c', en')
        | None => None
        end
    | ERecord c fs rest =>
        match eval_list f (map snd fs) en with
        | Some (inr vs, en') =>
            let given := combine (map fst fs) vs in
            match rest with
            | None => Some (CVal (VRec c given), en')
            | Some r =>
                bindv (eval f r en') (fun vr en2 =>
                  match vr with
                  | VRec _ old =>
                      Some (CVal (VRec c (map (fun p : string * value =>
                                                 match lookup (fst p) given with Some v => (fst p, v) | None => p end) old)), en2)
                  | _ => None
                  end)
            end
        | Some (inl c', en') => Some (c', en')
        | None => None
        end
    | EBlock ss =>
        match eval_stmts f ss en with
        | Some (c, en') => Some (c, leave en en')
        | None => None
        end
    | EIf c t e =>
        bindv (eval f c en) (fun vc en1 =>
          match vc with
          | VBool true => eval f t en1
          | VBool false => eval f e en1
          | _ => None
          end)
    | EIfLet p s t e =>
        bindv (eval f s en) (fun vs en1 =>
          match pmatch p vs with
          | Some b => match eval f t (b ++ en1) with Some (c, en2) => Some (c, leave en1 en2) | None => None end
          | None => eval f e en1
          end)
    | EMatch s arms =>
        bindv (eval f s en) (fun vs en1 => eval_arms f vs arms en1)
    | EWhile c b => eval_while f c b en
    | EFor i lo hi b =>
        bindv (eval f lo en) (fun vlo en1 =>
        bindv (eval f hi en1) (fun vhi en2 =>
          match vlo, vhi with
          | VNat l, VNat h => eval_for f i l (h - l) b en2
          | _, _ => None
          end))
    | EAssign x sels rhs =>
        bindv (eval f rhs en) (fun v en1 =>
          match eval_sels f sels en1 with
          | Some (inr path, en2) =>
              match lookup x en2 with
              | Some old =>
                  match update_path old path v with
                  | Some (inr nv) => match update x nv en2 with Some en3 => Some (CVal VUnit, en3) | None => None end
                  | Some (inl k) => Some (CPanic k "", en2)
                  | None => None
                  end
              | None => None
              end
          | Some (inl c', en2) => Some (c', en2)
          | None => None
          end)
    | EContinue => Some (CCont, en)
    | EBreak => Some (CBrk, en)
    | EReturn a => bindv (eval f a en) (fun v en1 => Some (CRet v, en1))
    | EPanic k m => Some (CPanic k m, en)
    end
  end

with eval_list (fuel : nat) (es : list expr) (en : env) {struct fuel} : option ((ctl + list value) * env) :=
  match fuel with
  | 0 => None
  | S f =>
    match es with
    | [] => Some (inr [], en)
    | a :: r =>
        match eval f a en with
        | Some (CVal v, en1) =>
            match eval_list f r en1 with
            | Some (inr vs, en2) => Some (inr (v :: vs), en2)
            | other => other
            end
        | Some (c, en1) => Some (inl c, en1)
        | None => None
        end
    end
  end

with eval_stmts (fuel : nat) (ss : list stmt) (en : env) {struct fuel} : res :=
  match fuel with
  | 0 => None
  | S f =>
    match ss with
    | [] => Some (CVal VUnit, en)
    | SLet p a :: r =>
        bindv (eval f a en) (fun v en1 =>
          match pmatch p v with
          | Some b => eval_stmts f r (b ++ en1)
          | None => None
          end)
    | SExpr a :: r => bindv (eval f a en) (fun _ en1 => eval_stmts f r en1)
    | STail a :: _ => eval f a en
    end
  end

with eval_arms (fuel : nat) (v : value) (arms : list (pat * expr)) (en : env) {struct fuel} : res :=
  match fuel with
  | 0 => None
  | S f =>
    match arms with
    | [] => None
    | (p, body) :: r =>
        match pmatch p v with
        | Some b => match eval f body (b ++ en) with Some (c, en2) => Some (c, leave en en2) | None => None end
        | None => eval_arms f v r en
        end
    end
  end

with eval_while (fuel : nat) (c b : expr) (en : env) {struct fuel} : res :=
  match fuel with
  | 0 => None
  | S f =>
      bindv (eval f c en) (fun vc en1 =>
        match vc with
        | VBool false => Some (CVal VUnit, en1)
        | VBool true =>
            match eval f b en1 with
            | Some (CVal _, en2) | Some (CCont, en2) => eval_while f c b en2
            | Some (CBrk, en2) => Some (CVal VUnit, en2)
            | other => other
            end
        | _ => None
        end)
  end

(* `n` iterations left, the loop variable is `k` in the next one *)
with eval_for (fuel : nat) (i : string) (k n : nat) (b : expr) (en : env) {struct fuel} : res :=
  match fuel with
  | 0 => None
  | S f =>
    match n with
    | 0 => Some (CVal VUnit, en)
    | S n' =>
        match eval f b ((i, VNat k) :: en) with
        | Some (CVal _, en2) | Some (CCont, en2) => eval_for f i (S k) n' b (leave en en2)
        | Some (CBrk, en2) => Some (CVal VUnit, leave en en2)
        | Some (c, en2) => Some (c, leave en en2)
        | None => None
        end
    end
  end

with eval_sels (fuel : nat) (sels : list lsel) (en : env) {struct fuel} : option ((ctl + list sel) * env) :=
  match fuel with
  | 0 => None
  | S f =>
    match sels with
    | [] => Some (inr [], en)
    | LFld g :: r =>
        match eval_sels f r en with
        | Some (inr p, en1) => Some (inr (SFld g :: p), en1)
        | other => other
        end
    | LIdx a :: r =>
        match eval f a en with
        | Some (CVal (VNat k), en1) =>
            match eval_sels f r en1 with
            | Some (inr p, en2) => Some (inr (SIdx k :: p), en2)
            | other => other
            end
        | Some (CVal _, _) => None
        | Some (c, en1) => Some (inl c, en1)
        | None => None
        end
    end
  end.

End Eval.

(* ------------------------------------------------------------------------------------------ *)
(* Calls: built-ins first, then the functions of the program; `depth` bounds call nesting. *)
Fixpoint find_fn (p : program) (f : string) : option fn_def :=
  match p with
  | [] => None
  | d :: r => if fn_name d =? f then Some d else find_fn r f
  end.

Definition const_bindings (d : fn_def) (en : env) : option env :=
  fold_right (fun (cp : string * string) acc =>
                match acc, lookup (snd cp) en with
                | Some a, Some (VArr l) => Some ((fst cp, VNat (length l)) :: a)
                | _, _ => None
                end) (Some []) (fn_consts d).

Definition bind_params (d : fn_def) (args : list value) : option env :=
  if Nat.eqb (length (fn_params d)) (length args) then
    let en := combine (fn_params d) args in
    match const_bindings d en with Some cs => Some (cs ++ en) | None => None end
  else None.

(* user functions; the callee of a body at depth S d is `call p d` (built-ins, then user functions) *)
Fixpoint call_user (p : program) (depth fuel : nat) (f : string) (args : list value) {struct depth} : option ctl :=
  match depth with
  | 0 => None
  | S d =>
      match find_fn p f with
      | None => None
      | Some fd =>
          match bind_params fd args with
          | None => None
          | Some en0 =>
              match eval (fun g vs => if is_builtin g then builtin g vs else call_user p d fuel g vs)
                         fuel (fn_body fd) en0 with
              | Some (CVal v, _) | Some (CRet v, _) => Some (CVal v)
              | Some (CPanic k m, _) => Some (CPanic k m)
              | _ => None
              end
          end
      end
  end.

Definition call (p : program) (depth fuel : nat) (f : string) (args : list value) : option ctl :=
  if is_builtin f then builtin f args else call_user p depth fuel f args.
