(* Rendering of the expansion model as `key=value` lines, compared by the L1 correspondence check
   with the same lines computed from the real macro's output. *)
From Coq Require Import String List Bool.
Require Import SV.Model.Kinds SV.Model.GenTables SV.Model.Casing SV.Model.Syntax SV.Model.Expand.
Import ListNotations.
Open Scope string_scope.

Definition commas (l : list string) : string := String.concat "," l.

Definition show_wpred (w : wpred) : string :=
  show_ty (w_bounded w) ++ ":" ++ String.concat "+" (map show_ty (w_bounds w)).

Definition show_field (f : field_out) : string :=
  fo_name f ++ ":" ++ show_ty (fo_ty f) ++ "[" ++ String.concat "|" (fo_attrs f) ++ "]".

Definition post_of (k : kind) : string :=
  match k with KQuery => "to_json_binary+map_err" | _ => "map_err" end.

Definition show_variant (k : kind) (en : string) (v : variant_out) : list string :=
  [ "variant " ++ en ++ "::" ++ vo_name v ++ " fields=" ++ String.concat ";" (map show_field (vo_fields v));
    "variant " ++ en ++ "::" ++ vo_name v ++ " attrs=" ++
      String.concat ";;" ((match vo_returns v with Some r => ["returns(" ++ show_ty r ++ ")"] | None => [] end) ++ vo_attrs v);
    "arm " ++ en ++ "::" ++ vo_name v ++ "=" ++ vo_fn v ++ ":" ++ commas (map fo_name (vo_fields v)) ++ ":" ++ post_of k ].

Definition show_enum (e : enum_out) : list string :=
  let n := eo_name e in
  [ "enum " ++ n ++ " generics=" ++ commas (eo_generics e);
    "enum " ++ n ++ " impl_where=" ++ String.concat ";" (map show_wpred (eo_where e));
    "enum " ++ n ++ " attrs=" ++ String.concat ";;" (eo_attrs e);
    "enum " ++ n ++ " variants=" ++ commas (map vo_name (eo_variants e) ++ (if eo_phantom e then ["_Phantom"] else []));
    "enum " ++ n ++ " dispatch_generics=" ++ commas (eo_dispatch_generics e);
    "enum " ++ n ++ " table=" ++ commas (eo_table e);
    "enum " ++ n ++ " ctors=" ++ commas (eo_ctors e) ]
  ++ (if eo_phantom e then ["enum " ++ n ++ " phantom_attrs=serde(skip)"] else [])
  ++ flat_map (show_variant (eo_kind e) n) (eo_variants e).

Definition show_struct (s : struct_out) : list string :=
  let n := so_name s in
  [ "struct " ++ n ++ " generics=" ++ commas (so_generics s);
    "struct " ++ n ++ " impl_where=" ++ String.concat ";" (map show_wpred (so_where s));
    "struct " ++ n ++ " attrs=" ++ String.concat ";;" (so_attrs s);
    "struct " ++ n ++ " fields=" ++ String.concat ";" (map show_field (so_fields s));
    "struct " ++ n ++ " dispatch_generics=" ++ commas (so_dispatch_generics s);
    "struct " ++ n ++ " call=" ++ so_fn s ++ ":" ++ commas (map fo_name (so_fields s)) ].

Definition show_module (k : kind) (m : list string) : string :=
  match m with
  | [] => "self"
  | _ => String.concat "::" m
  end.

Definition show_bool (b : bool) : string := if b then "1" else "0".

Definition show_wrapper (w : wrapper_out) : list string :=
  let n := wo_name w in
  [ "wrapper " ++ n ++ " variants=" ++ commas (map (fun p => fst p ++ ":" ++ snd p) (wo_variants w));
    "wrapper " ++ n ++ " tables=" ++ commas (map (show_module (wo_kind w)) (wo_modules w));
    "wrapper " ++ n ++ " bridged=" ++
      commas (map (fun p : string * bool * bool => let '(v, r, c) := p in v ++ ":" ++ show_bool r ++ ":" ++ show_bool c) (wo_bridged w));
    "wrapper " ++ n ++ " schema=any_of:" ++ commas (map (show_module (wo_kind w)) (wo_modules w)) ]
  ++ (match wo_kind w with
      | KQuery => ["wrapper " ++ n ++ " responses=flatten:" ++ commas (map (show_module (wo_kind w)) (wo_modules w))]
      | _ => []
      end).

Definition show_opt_struct (o : option struct_out) : list string :=
  match o with Some s => show_struct s | None => [] end.

Definition show_contract (c : contract) : list string :=
  let o := expand_contract c in
  match co_diags o with
  | _ :: _ => ["status=rejected"]
  | [] =>
      "status=accepted" :: show_opt_struct (co_inst o) ++ show_enum (co_exec o) ++ show_enum (co_query o)
      ++ show_enum (co_sudo o) ++ show_opt_struct (co_migrate o) ++ flat_map show_wrapper (co_wrappers o)
  end.

Definition show_iface (i : iface) : list string :=
  let o := expand_iface i in
  match io_diags o with
  | _ :: _ => ["status=rejected"]
  | [] => "status=accepted" :: show_enum (io_exec o) ++ show_enum (io_query o) ++ show_enum (io_sudo o)
  end.
