(* convert_case 0.8 (boundary splitter with the default boundaries; UpperCamel / Snake / UpperSnake)
   and serde_derive's `rename_all = "snake_case"` rule for variants, on ASCII identifiers.
   Validated against the real crates by the correspondence checks (L3 `case` op, L1 names, L2 keys). *)
From Coq Require Import String Ascii List NArith Bool.
Import ListNotations.
Open Scope list_scope.

Definition in_range (lo hi : N) (c : ascii) : bool := let n := N_of_ascii c in (N.leb lo n && N.leb n hi)%bool.
Definition is_upper := in_range 65 90.
Definition is_lower := in_range 97 122.
Definition is_digit := in_range 48 57.
Definition to_lower (c : ascii) : ascii := if is_upper c then ascii_of_N (N_of_ascii c + 32) else c.
Definition to_upper (c : ascii) : ascii := if is_lower c then ascii_of_N (N_of_ascii c - 32) else c.
Definition is_delim (c : ascii) : bool := (Ascii.eqb c "_"%char || Ascii.eqb c "-"%char || Ascii.eqb c " "%char)%bool.
Definition boundary_after (c : ascii) (rest : list ascii) : bool :=
  match rest with
  | [] => false
  | n :: rest' =>
      (is_lower c && is_upper n) || (is_lower c && is_digit n) || (is_upper c && is_digit n)
      || (is_digit c && is_lower n) || (is_digit c && is_upper n)
      || (is_upper c && is_upper n && match rest' with l :: _ => is_lower l | [] => false end)
  end%bool.
Fixpoint split_aux (cur : list ascii) (s : list ascii) : list (list ascii) :=
  match s with
  | [] => [rev cur]
  | c :: rest =>
      if is_delim c then rev cur :: split_aux [] rest
      else if boundary_after c rest then rev (c :: cur) :: split_aux [] rest
      else split_aux (c :: cur) rest
  end.
Definition nonempty (w : list ascii) : bool := match w with [] => false | _ => true end.
Definition split_words (s : list ascii) : list (list ascii) := filter nonempty (split_aux [] s).
Definition capital (w : list ascii) := match w with [] => [] | c :: r => to_upper c :: map to_lower r end.
Fixpoint join (d : list ascii) (ws : list (list ascii)) : list ascii :=
  match ws with [] => [] | [w] => w | w :: r => w ++ d ++ join d r end.
Definition cc_upper_camel s := concat (map capital (split_words s)).
Definition cc_snake s := join ["_"%char] (map (map to_lower) (split_words s)).
Definition cc_upper_snake s := join ["_"%char] (map (map to_upper) (split_words s)).
Fixpoint serde_aux (first : bool) (s : list ascii) : list ascii :=
  match s with [] => [] | c :: r => (if (negb first && is_upper c)%bool then ["_"%char] else []) ++ to_lower c :: serde_aux false r end.
Definition serde_variant_snake := serde_aux true.

(* string wrappers *)
Definition on_str (f : list ascii -> list ascii) (s : string) : string :=
  string_of_list_ascii (f (list_ascii_of_string s)).
Definition upper_camel : string -> string := on_str cc_upper_camel.
Definition snake : string -> string := on_str cc_snake.
Definition upper_snake : string -> string := on_str cc_upper_snake.
Definition serde_snake : string -> string := on_str serde_variant_snake.

(* the name a method is sent under: serde's rule applied to the UpperCamel variant identifier *)
Definition wire_name (method_name : string) : string := serde_snake (upper_camel method_name).

(* ASCII identifier: [A-Za-z_][A-Za-z0-9_]* *)
Definition ident_char (c : ascii) : bool := (is_lower c || is_upper c || is_digit c || Ascii.eqb c "_"%char)%bool.
Definition ascii_ident (s : string) : bool :=
  match list_ascii_of_string s with
  | [] => false
  | c :: r => (negb (is_digit c) && ident_char c && forallb ident_char r)%bool
  end.

(* normal form of the C01 quantifier: lower-case words, each optionally ending in digits,
   joined by single underscores *)
Fixpoint nf_words (in_letters in_digits : bool) (s : list ascii) : bool :=
  (* state: in_letters = at least one letter of the current word seen; in_digits = inside its digit suffix *)
  match s with
  | [] => in_letters
  | c :: r =>
      if is_lower c then (if in_digits then false else nf_words true false r)
      else if is_digit c then (if in_letters then nf_words true true r else false)
      else if Ascii.eqb c "_"%char then (if in_letters then nf_words false false r else false)
      else false
  end.
Definition nf_name (s : string) : bool := nf_words false false (list_ascii_of_string s).
