(* Executable glue for the behavioural (L2) correspondence check: runs the expansion model and the
   message semantics on concrete programs and documents, in the concrete universe of Sem.v. *)
From Coq Require Import String List Bool ZArith Arith.
Require Import SV.Base.StrOrder SV.Base.Json SV.Model.Kinds SV.Model.GenTables SV.Model.Casing SV.Model.Syntax
               SV.Model.Expand SV.Model.Sem.
Import ListNotations.
Open Scope string_scope.
Open Scope list_scope.
Open Scope string_scope.

Definition pick_c (k : kind) (o : contract_out) : enum_out :=
  match k with KQuery => co_query o | KSudo => co_sudo o | _ => co_exec o end.
Definition pick_i (k : kind) (o : iface_out) : enum_out :=
  match k with KQuery => io_query o | KSudo => io_sudo o | _ => io_exec o end.

(* parts of the contract-level message of kind k: interfaces in attribute order, then the contract *)
Definition parts_of (c : contract) (ifs : list iface) (k : kind) : list edesc :=
  (map (fun i => edesc_of (pick_i k (expand_iface i))) ifs ++ [edesc_of (pick_c k (expand_contract c))])%list.

Definition tables_of (c : contract) (ifs : list iface) (k : kind) : list (list string) :=
  (map (fun i => eo_table (pick_i k (expand_iface i))) ifs ++ [eo_table (pick_c k (expand_contract c))])%list.

(* ---- compact JSON text (strings are not escaped: the harness renders the implementation's
        documents with the same convention before comparing) ---- *)
Fixpoint show_json (j : json) : string :=
  match j with
  | JNull => "null"
  | JBool true => "true"
  | JBool false => "false"
  | JNum z => show_Z z
  | JStr s => """" ++ s ++ """"
  | JArr items => "[" ++ String.concat "," (map show_json items) ++ "]"
  | JObj members =>
      "{" ++ String.concat "," (map (fun p : string * json => """" ++ fst p ++ """:" ++ show_json (snd p)) members) ++ "}"
  end.

Definition show_derr (e : derr) : string :=
  match e with
  | EShape => "shape"
  | EUnknownVariant n => "unknown_variant"
  | EDuplicateField n => "duplicate_field:" ++ n
  | EMissingField n => "missing_field:" ++ n
  | EBadField n => "bad_field"
  end.

Definition u_encode_enum := encode_enum json u_enc.
Definition u_decode_enum := decode_enum json u_dec u_is_option u_default.
Definition u_decode_struct := decode_struct json u_dec u_is_option u_default.
Definition u_decode_wrapper := decode_wrapper json u_dec u_is_option u_default.

Definition show_opt_json (o : option json) : string :=
  match o with Some j => show_json j | None => "<none>" end.

(* encode the message of method `fn` of part i with the given argument values (in parameter order) *)
Definition run_encode (parts : list edesc) (i : nat) (fn : string) (args : list json) : list string :=
  let e := nth i parts [] in
  match find_by_fn e fn with
  | Some v =>
      let m := mkMsg fn (combine (map fd_name (vd_fields v)) args) in
      [show_opt_json (u_encode_enum e m)]
  | None => ["<no such method>"]
  end.

Definition run_encode_struct (s : option struct_out) (args : list json) : list string :=
  match s with
  | Some so =>
      let d := sdesc_of so in
      [show_opt_json (encode_struct json u_enc d (mkMsg (vd_fn d) (combine (map fd_name (vd_fields d)) args)))]
  | None => ["<no struct>"]
  end.

Definition run_decode_part (parts : list edesc) (i : nat) (j : json) : list string :=
  let e := nth i parts [] in
  match u_decode_enum e j with
  | inr m => ["ok"; msg_fn m; show_opt_json (u_encode_enum e m)]
  | inl er => ["err"; show_derr er]
  end.

Definition run_decode_struct (s : option struct_out) (j : json) : list string :=
  match s with
  | Some so =>
      let d := sdesc_of so in
      match u_decode_struct d j with
      | inr m => ["ok"; msg_fn m; show_opt_json (encode_struct json u_enc d m)]
      | inl er => ["err"; show_derr er]
      end
  | None => ["<no struct>"]
  end.

Definition show_nat (n : nat) : string := show_Z (Z.of_nat n).

Definition run_decode_wrapper (parts : list edesc) (tables : list (list string)) (j : json) : list string :=
  match u_decode_wrapper parts tables j with
  | WOk i m => ["ok"; show_nat i; msg_fn m; show_opt_json (encode_wrapper json u_enc parts i m)]
  | WWrongFormat => ["err"; "wrong_format"]
  | WExpectedOne n => ["err"; "expected_one:" ++ show_nat n]
  | WUnsupported names => ["err"; "unsupported:" ++ String.concat ", " names]
  | WPartError i e => ["err"; "part_error"; show_nat i; show_derr e]
  end.

(* entry point: who is called, with which arguments *)
Definition run_entry (parts : list edesc) (tables : list (list string)) (j : json) : list string :=
  match entry_enum json u_dec u_is_option u_default unit unit (fun _ _ _ => tt) parts tables j tt with
  | ECalled log _ =>
      "called" :: flat_map (fun c => match c with Call fn _ args => [fn; show_json (JArr args)] end) log
  | EDecodeError _ => ["decode_err"]
  end.
