(* Model of the generated multitest proxies (contract/mt.rs, interface/mt.rs, sylvia/src/multitest.rs):
   which operation of the underlying test chain each proxy call performs. The chain itself
   (cw-multi-test) is a parameter of every statement. Definitions only. *)
From Coq Require Import String List Bool NArith.
Require Import SV.Base.Json.
Import ListNotations.
Open Scope string_scope.

(* operations of the test chain, with the message as its JSON *)
Inductive chain_op :=
| OpInstantiate (code : N) (sender : string) (msg : json) (funds : json) (label : string) (admin : option string)
| OpInstantiate2 (code : N) (sender : string) (msg : json) (funds : json) (label : string) (admin : option string) (salt : string)
| OpExecute (sender contract : string) (msg : json) (funds : json)
| OpQuery (contract : string) (msg : json)
| OpSudo (contract : string) (msg : json)
| OpMigrate (sender contract : string) (new_code : N) (msg : json).

(* CodeId::instantiate(..) and the setters of InstantiateProxy *)
Record inst_proxy := { ip_code : N; ip_msg : json; ip_funds : json; ip_label : string; ip_admin : option string; ip_salt : option string }.

Definition ip_new (code : N) (msg : json) : inst_proxy :=
  {| ip_code := code; ip_msg := msg; ip_funds := JArr []; ip_label := "Contract"; ip_admin := None; ip_salt := None |}.

Inductive ip_step := WithFunds (f : json) | WithLabel (l : string) | WithAdmin (a : option string) | WithSalt (s : option string).

Definition ip_apply (p : inst_proxy) (s : ip_step) : inst_proxy :=
  match s with
  | WithFunds f => {| ip_code := ip_code p; ip_msg := ip_msg p; ip_funds := f; ip_label := ip_label p; ip_admin := ip_admin p; ip_salt := ip_salt p |}
  | WithLabel l => {| ip_code := ip_code p; ip_msg := ip_msg p; ip_funds := ip_funds p; ip_label := l; ip_admin := ip_admin p; ip_salt := ip_salt p |}
  | WithAdmin a => {| ip_code := ip_code p; ip_msg := ip_msg p; ip_funds := ip_funds p; ip_label := ip_label p; ip_admin := a; ip_salt := ip_salt p |}
  | WithSalt s => {| ip_code := ip_code p; ip_msg := ip_msg p; ip_funds := ip_funds p; ip_label := ip_label p; ip_admin := ip_admin p; ip_salt := s |}
  end.

Definition ip_call (p : inst_proxy) (sender : string) : chain_op :=
  match ip_salt p with
  | None => OpInstantiate (ip_code p) sender (ip_msg p) (ip_funds p) (ip_label p) (ip_admin p)
  | Some s => OpInstantiate2 (ip_code p) sender (ip_msg p) (ip_funds p) (ip_label p) (ip_admin p) s
  end.

(* ExecProxy: new -> with_funds* -> call *)
Record exec_proxy := { xp_contract : string; xp_msg : json; xp_funds : json }.
Definition xp_new (contract : string) (msg : json) : exec_proxy := {| xp_contract := contract; xp_msg := msg; xp_funds := JArr [] |}.
Definition xp_with_funds (p : exec_proxy) (f : json) : exec_proxy := {| xp_contract := xp_contract p; xp_msg := xp_msg p; xp_funds := f |}.
Definition xp_call (p : exec_proxy) (sender : string) : chain_op := OpExecute sender (xp_contract p) (xp_msg p) (xp_funds p).

(* a proxy call, abstractly: what the user wrote *)
Inductive proxy_call :=
| PInstantiate (code : N) (msg : json) (steps : list ip_step) (sender : string)
| PExec (contract : string) (msg : json) (funds_steps : list json) (sender : string)
| PQuery (contract : string) (msg : json)
| PSudo (contract : string) (msg : json)
| PMigrate (contract : string) (msg : json) (sender : string) (new_code : N).

Definition proxy_op (c : proxy_call) : chain_op :=
  match c with
  | PInstantiate code msg steps sender => ip_call (fold_left ip_apply steps (ip_new code msg)) sender
  | PExec contract msg fs sender => xp_call (fold_left xp_with_funds fs (xp_new contract msg)) sender
  | PQuery contract msg => OpQuery contract msg
  | PSudo contract msg => OpSudo contract msg
  | PMigrate contract msg sender code => OpMigrate sender contract code msg
  end.

(* the same call issued by hand as raw JSON: the options as the user intends them (last setter wins,
   documented defaults) *)
Definition last_funds (steps : list ip_step) : json := fold_left (fun acc s => match s with WithFunds f => f | _ => acc end) steps (JArr []).
Definition last_label (steps : list ip_step) : string := fold_left (fun acc s => match s with WithLabel l => l | _ => acc end) steps "Contract".
Definition last_admin (steps : list ip_step) : option string := fold_left (fun acc s => match s with WithAdmin a => a | _ => acc end) steps None.
Definition last_salt (steps : list ip_step) : option string := fold_left (fun acc s => match s with WithSalt x => x | _ => acc end) steps None.

Definition raw_op (c : proxy_call) : chain_op :=
  match c with
  | PInstantiate code msg steps sender =>
      match last_salt steps with
      | None => OpInstantiate code sender msg (last_funds steps) (last_label steps) (last_admin steps)
      | Some s => OpInstantiate2 code sender msg (last_funds steps) (last_label steps) (last_admin steps) s
      end
  | PExec contract msg fs sender => OpExecute sender contract msg (fold_left (fun _ f => f) fs (JArr []))
  | PQuery contract msg => OpQuery contract msg
  | PSudo contract msg => OpSudo contract msg
  | PMigrate contract msg sender code => OpMigrate sender contract code msg
  end.

(* error surfacing of ExecProxy::call: an error of the contract's own type comes back as it is, a StdError is
   converted, anything else becomes a generic error carrying its text *)
Inductive chain_err (E : Type) := ErrContract (e : E) | ErrStd (s : string) | ErrOther (text : string).
Arguments ErrContract {E}.
Arguments ErrStd {E}.
Arguments ErrOther {E}.

Definition surface {E} (from_std : string -> E) (e : chain_err E) : E :=
  match e with
  | ErrContract x => x
  | ErrStd s => from_std s
  | ErrOther t => from_std t
  end.
