(* Semantics of the generated message types: serde's externally tagged encoding of the derived
   enums / structs, the hand-written contract-level `Deserialize` (wrapper_msg.rs), dispatch and
   entry points. User handlers and the argument codec are Section variables, so every theorem
   holds for all handler bodies and all JSON-encodable argument types. Definitions only. *)
From Coq Require Import String List Bool ZArith Arith.
Require Import SV.Base.StrOrder SV.Base.Json SV.Model.Kinds SV.Model.GenTables SV.Model.Casing SV.Model.Syntax SV.Model.Expand.
Import ListNotations.
Open Scope string_scope.
Open Scope list_scope.

(* ------------------------------------------------------------------------------------------ *)
(* Description of a generated message type, derived from the expansion model. *)

Record fdesc := { fd_name : string; fd_ty : ty; fd_default : bool }.
Record vdesc := { vd_wire : string; vd_fn : string; vd_kind : kind; vd_fields : list fdesc }.
Definition edesc := list vdesc.

Definition has_serde_default (attrs : list string) : bool :=
  existsb (fun a => a =? "#[serde(default)]") attrs.

Definition fdesc_of (f : field_out) : fdesc :=
  {| fd_name := fo_name f; fd_ty := fo_ty f; fd_default := has_serde_default (fo_attrs f) |}.

Definition vdesc_of (k : kind) (v : variant_out) : vdesc :=
  {| vd_wire := serde_snake (vo_name v); vd_fn := vo_fn v; vd_kind := k; vd_fields := map fdesc_of (vo_fields v) |}.

Definition edesc_of (e : enum_out) : edesc := map (vdesc_of (eo_kind e)) (eo_variants e).

Definition sdesc_of (s : struct_out) : vdesc :=
  {| vd_wire := ""; vd_fn := so_fn s; vd_kind := so_kind s; vd_fields := map fdesc_of (so_fields s) |}.

(* a message value: the method it stands for, and its named fields *)
Record msg (val : Type) := mkMsg { msg_fn : string; msg_fields : list (string * val) }.
Arguments mkMsg {val}.
Arguments msg_fn {val}.
Arguments msg_fields {val}.

Section Sem.
Variable val : Type.
Variable enc : ty -> val -> json.
Variable dec : ty -> json -> option val.
(* serde: a missing member is accepted for `Option<_>` (decoded like null) and for `#[serde(default)]` *)
Variable is_option : ty -> bool.
Variable default_val : ty -> val.

(* ---- encoding (derive(Serialize), rename_all = snake_case, struct variants) ---- *)
Fixpoint enc_fields (fs : list fdesc) (m : list (string * val)) : option (list (string * json)) :=
  match fs with
  | [] => Some []
  | f :: r =>
      match lookup (fd_name f) m, enc_fields r m with
      | Some v, Some l => Some ((fd_name f, enc (fd_ty f) v) :: l)
      | _, _ => None
      end
  end.

Definition find_by_fn (e : edesc) (fn : string) : option vdesc := find (fun v => vd_fn v =? fn) e.
Definition find_by_wire (e : edesc) (w : string) : option vdesc := find (fun v => vd_wire v =? w) e.

Definition encode_enum (e : edesc) (m : msg val) : option json :=
  match find_by_fn e (msg_fn m) with
  | Some v =>
      match enc_fields (vd_fields v) (msg_fields m) with
      | Some body => Some (JObj [(vd_wire v, JObj body)])
      | None => None
      end
  | None => None
  end.

Definition encode_struct (s : vdesc) (m : msg val) : option json :=
  match enc_fields (vd_fields s) (msg_fields m) with Some body => Some (JObj body) | None => None end.

(* ---- decoding (derive(Deserialize)) ---- *)
Inductive derr := EShape | EUnknownVariant (name : string) | EDuplicateField (name : string)
                | EMissingField (name : string) | EBadField (name : string).

Fixpoint dec_fields (fs : list fdesc) (body : list (string * json)) : derr + list (string * val) :=
  match fs with
  | [] => inr []
  | f :: r =>
      let n := fd_name f in
      match count_key n body with
      | O =>
          if is_option (fd_ty f) then
            match dec (fd_ty f) JNull, dec_fields r body with
            | Some v, inr l => inr ((n, v) :: l)
            | None, _ => inl (EBadField n)
            | _, inl e => inl e
            end
          else if fd_default f then
            match dec_fields r body with inr l => inr ((n, default_val (fd_ty f)) :: l) | inl e => inl e end
          else inl (EMissingField n)
      | S O =>
          match lookup n body with
          | Some j =>
              match dec (fd_ty f) j, dec_fields r body with
              | Some v, inr l => inr ((n, v) :: l)
              | None, _ => inl (EBadField n)
              | _, inl e => inl e
              end
          | None => inl EShape
          end
      | _ => inl (EDuplicateField n)
      end
  end.

Definition decode_struct (s : vdesc) (j : json) : derr + msg val :=
  match j with
  | JObj body =>
      match dec_fields (vd_fields s) body with
      | inr l => inr (mkMsg (vd_fn s) l)
      | inl e => inl e
      end
  | _ => inl EShape
  end.

Definition decode_enum (e : edesc) (j : json) : derr + msg val :=
  match j with
  | JObj [(k, body)] =>
      match find_by_wire e k with
      | Some v => decode_struct v body
      | None => inl (EUnknownVariant k)
      end
  | _ => inl EShape
  end.

Definition accepts (e : edesc) (j : json) : bool :=
  match decode_enum e j with inr _ => true | inl _ => false end.

(* ---- the contract-level message (wrapper_msg.rs) ---- *)
Inductive wres :=
| WOk (part : nat) (m : msg val)
| WWrongFormat                       (* "Wrong message format!" *)
| WExpectedOne (n : nat)             (* "Expected exactly one message. Received n" *)
| WUnsupported (names : list string) (* "Unsupported message received: .. Messages supported by this contract: names" *)
| WPartError (part : nat) (e : derr). (* the owning part rejected the body *)

Fixpoint find_part (tables : list (list string)) (k : string) (i : nat) : option nat :=
  match tables with
  | [] => None
  | t :: r => if existsb (String.eqb k) t then Some i else find_part r k (S i)
  end.

Definition decode_wrapper (parts : list edesc) (tables : list (list string)) (j : json) : wres :=
  match collapse j with
  | JObj [(k, body)] =>
      match find_part tables k 0 with
      | Some i =>
          match decode_enum (nth i parts []) (JObj [(k, body)]) with
          | inr m => WOk i m
          | inl e => WPartError i e
          end
      | None => WUnsupported (concat tables)
      end
  | JObj members => WExpectedOne (length members)
  | _ => WWrongFormat
  end.

(* derive(Serialize) with `untagged`: the wrapper is transparent *)
Definition encode_wrapper (parts : list edesc) (i : nat) (m : msg val) : option json :=
  encode_enum (nth i parts []) m.

(* ---- dispatch ---- *)
Variable ctxT : Type.
Variable outcome : Type.
Variable handler : string -> ctxT -> list val -> outcome.

Inductive call := Call (fn : string) (c : ctxT) (args : list val).

(* the generated arm `V { f1: field1, .., fn: fieldn } => contract.method(ctx.into(), field1, .., fieldn)`:
   binders are positional, bound by field name *)
Definition bind_fields (fs : list fdesc) (m : list (string * val)) : option (list val) :=
  fold_right (fun f acc => match lookup (fd_name f) m, acc with Some v, Some l => Some (v :: l) | _, _ => None end)
             (Some []) fs.

Definition dispatch_enum (e : edesc) (m : msg val) (c : ctxT) : option (list call * outcome) :=
  match find_by_fn e (msg_fn m) with
  | Some v =>
      match bind_fields (vd_fields v) (msg_fields m) with
      | Some args => Some ([Call (vd_fn v) c args], handler (vd_fn v) c args)
      | None => None
      end
  | None => None
  end.

Definition dispatch_struct (s : vdesc) (m : msg val) (c : ctxT) : option (list call * outcome) :=
  match bind_fields (vd_fields s) (msg_fields m) with
  | Some args => Some ([Call (vd_fn s) c args], handler (vd_fn s) c args)
  | None => None
  end.

(* entry point of an enum kind: decode the wrapper, dispatch on the owning part *)
Inductive eres := ECalled (log : list call) (o : outcome) | EDecodeError (w : wres).

Definition entry_enum (parts : list edesc) (tables : list (list string)) (j : json) (c : ctxT) : eres :=
  match decode_wrapper parts tables j with
  | WOk i m =>
      match dispatch_enum (nth i parts []) m c with
      | Some (log, o) => ECalled log o
      | None => EDecodeError WWrongFormat
      end
  | w => EDecodeError w
  end.

End Sem.

Arguments WOk {val}.
Arguments WWrongFormat {val}.
Arguments WExpectedOne {val}.
Arguments WUnsupported {val}.
Arguments WPartError {val}.
Arguments ECalled {val ctxT outcome}.
Arguments EDecodeError {val ctxT outcome}.
Arguments Call {val ctxT}.

(* ------------------------------------------------------------------------------------------ *)
(* A concrete, executable universe: a value *is* its JSON encoding (so `enc` is the identity and
   `dec` is a conformance check). Used to run the model and for the non-vacuity examples. *)

Definition in_range (lo hi z : Z) : bool := (Z.leb lo z && Z.leb z hi)%bool.

Definition conforms_base (n : string) (j : json) : bool :=
  if n =? "u8" then match j with JNum z => in_range 0 255 z | _ => false end
  else if n =? "u32" then match j with JNum z => in_range 0 4294967295 z | _ => false end
  else if n =? "u64" then match j with JNum z => in_range 0 18446744073709551615 z | _ => false end
  else if n =? "i64" then match j with JNum z => in_range (-9223372036854775808) 9223372036854775807 z | _ => false end
  else if n =? "String" then match j with JStr _ => true | _ => false end
  else if n =? "bool" then match j with JBool _ => true | _ => false end
  else false.

Fixpoint conforms (t : ty) (j : json) {struct t} : bool :=
  match t with
  | TPath segs =>
      (fix go (l : list (string * list ty)) : bool :=
         match l with
         | [] => false
         | [(n, args)] =>
             match args with
             | [] => conforms_base n j
             | [a] =>
                 if n =? "Option" then match j with JNull => true | _ => conforms a j end
                 else if n =? "Vec" then match j with JArr js => forallb (conforms a) js | _ => false end
                 else false
             | _ => false
             end
         | _ :: r => go r
         end) segs
  | TTuple items =>
      match j with
      | JArr js =>
          (fix all2 (ts : list ty) (xs : list json) : bool :=
             match ts, xs with
             | [], [] => true
             | t1 :: tr, x :: xr => conforms t1 x && all2 tr xr
             | _, _ => false
             end) items js
      | _ => false
      end
  | TRef x => conforms x j
  end.

Definition last_seg_name (t : ty) : string :=
  match t with TPath segs => fst (last segs ("", [])) | _ => "" end.

Definition u_enc (t : ty) (v : json) : json := v.
Definition u_dec (t : ty) (j : json) : option json := if conforms t j then Some j else None.
Definition u_is_option (t : ty) : bool := last_seg_name t =? "Option".
Fixpoint u_default (t : ty) : json :=
  match t with
  | TTuple items => JArr (map u_default items)
  | TRef x => u_default x
  | TPath _ =>
      let n := last_seg_name t in
      if n =? "String" then JStr "" else if n =? "bool" then JBool false
      else if n =? "Option" then JNull else if n =? "Vec" then JArr [] else JNum 0
  end.
