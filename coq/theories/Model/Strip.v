(* Model of sylvia-derive/src/fold.rs::StripInput: what the contract / interface macros do to the
   user's impl block or trait before re-emitting it. An item is abstracted to its attributes (with
   their position) and an opaque remainder (visibility, signature without attributes, body tokens). *)
From Coq Require Import String List Bool.
Require Import SV.Model.GenTables.
Import ListNotations.
Open Scope string_scope.

Record sattr := { sa_path : list string; sa_text : string }.

(* SylviaAttribute::new: exactly two path segments, the first `sv`, the second a known name *)
Definition is_sv (a : sattr) : bool :=
  match sa_path a with
  | [s; n] => (s =? "sv") && match sv_attr_of_string n with Some _ => true | None => false end
  | _ => false
  end.

Record fn_item := {
  fi_attrs : list sattr;
  fi_recv_attrs : list sattr;              (* on `&self` *)
  fi_param_attrs : list (list sattr);      (* on each further parameter *)
  fi_rest : string                         (* everything else, attributes inside the body included *)
}.

Inductive member := MFn (f : fn_item) | MOther (text : string).

Record block := { b_attrs : list sattr; b_head : string; b_members : list member }.

(* a method is a handler when it carries a framework attribute *)
Definition is_handler (f : fn_item) : bool := existsb is_sv (fi_attrs f).

Definition strip_attrs (l : list sattr) : list sattr := filter (fun a => negb (is_sv a)) l.

Definition strip_fn (f : fn_item) : fn_item :=
  {| fi_attrs := strip_attrs (fi_attrs f);
     fi_recv_attrs := if is_handler f then [] else fi_recv_attrs f;
     fi_param_attrs := if is_handler f then map (fun _ => []) (fi_param_attrs f) else fi_param_attrs f;
     fi_rest := fi_rest f |}.

Definition strip_member (m : member) : member :=
  match m with MFn f => MFn (strip_fn f) | MOther t => MOther t end.

Definition strip_block (b : block) : block :=
  {| b_attrs := strip_attrs (b_attrs b); b_head := b_head b; b_members := map strip_member (b_members b) |}.

(* the item with every attribute erased: methods, bodies, visibility, generics, nested items *)
Definition erase_fn (f : fn_item) : fn_item :=
  {| fi_attrs := []; fi_recv_attrs := []; fi_param_attrs := map (fun _ => []) (fi_param_attrs f); fi_rest := fi_rest f |}.
Definition erase_member (m : member) : member := match m with MFn f => MFn (erase_fn f) | MOther t => MOther t end.
Definition erase_block (b : block) : block :=
  {| b_attrs := []; b_head := b_head b; b_members := map erase_member (b_members b) |}.

(* rendering for the correspondence check: the attributes that remain, with their position *)
Definition show_attrs (ctx : string) (l : list sattr) : list string := map (fun a => ctx ++ " @@ " ++ sa_text a) l.

Fixpoint show_params (ctx : string) (i : nat) (l : list (list sattr)) : list string :=
  match l with
  | [] => []
  | p :: r => show_attrs (ctx ++ "/param:" ++ (String (Ascii.ascii_of_nat (48 + i)) EmptyString)) p ++ show_params ctx (S i) r
  end.

Definition show_member (m : member) : list string :=
  match m with
  | MFn f => show_attrs "fn" (fi_attrs f) ++ show_attrs "fn/param:0" (fi_recv_attrs f) ++ show_params "fn" 1 (fi_param_attrs f)
  | MOther _ => []
  end.

Definition show_block (b : block) : list string := show_attrs "item" (b_attrs b) ++ flat_map show_member (b_members b).
