(* Model of sylvia-derive/src/entry_points.rs: which entry points `#[entry_points]` emits and
   what each one does. Definitions only; proofs are in Facts/EntryPointsFacts.v. *)
From Coq Require Import String List Bool Arith.
Require Import SV.Model.Kinds SV.Model.GenTables.
Import ListNotations.
Open Scope string_scope.

Record ep_input := {
  ep_overrides : list string;        (* kind names of `sv::override_entry_point`, in attribute order *)
  ep_has_inst : bool;                (* an `instantiate` handler is declared *)
  ep_has_migrate : bool;
  ep_reply_fn : option string;       (* first declared reply handler, if any *)
  ep_replies_feature : bool;         (* `sv::features(replies)` *)
  ep_contract_generics : nat;        (* generic parameters of the impl block *)
  ep_given_generics : nat            (* concrete types in `entry_points(generics<..>)` *)
}.

Definition ep_has_reply (i : ep_input) : bool :=
  match ep_reply_fn i with Some _ => true | None => false end.

(* OverrideEntryPoint::parse, through the regenerated table; an unknown name is a syn::Error *)
Fixpoint parse_overrides (ns : list string) : option (list kind) :=
  match ns with
  | [] => Some []
  | n :: r =>
      match override_kind_of_string n, parse_overrides r with
      | Some k, Some l => Some (k :: l)
      | _, _ => None
      end
  end.

(* FilteredOverrideEntryPoints::get_entry_point(..).is_some() *)
Definition overridden (ks : list kind) (k : kind) : bool := existsb (kind_eqb k) ks.

(* EntryPoints::emit *)
Definition emitted (i : ep_input) (ks : list kind) : list kind :=
  filter (fun k => negb (overridden ks k)) [KInst; KExec; KQuery; KSudo]
  ++ (if (negb (overridden ks KMigrate) && ep_has_migrate i)%bool then [KMigrate] else [])
  ++ (if overridden ks KReply then [] else if ep_has_reply i then [KReply] else []).

Inductive ep_diag := DMissingConcreteTypes | DMissingInstantiate | DBadOverride.

(* EntryPointInput::new + ParsedSylviaAttributes: diagnostics *)
Definition ep_diags (i : ep_input) : list ep_diag :=
  (if Nat.eqb (ep_given_generics i) (ep_contract_generics i) then [] else [DMissingConcreteTypes])
  ++ (if ep_has_inst i then [] else [DMissingInstantiate])
  ++ (match parse_overrides (ep_overrides i) with Some _ => [] | None => [DBadOverride] end).

(* what an emitted entry point does *)
Inductive ep_body :=
| BDispatch (msg_accessor : string) (values : list string)
    (* fn(params.., msg: <C as ContractApi>::msg_accessor) { msg.dispatch(&C::new(), (values)).map_err(Into::into) } *)
| BReplyDispatch (values : list string)
    (* { let contract = C::new(); sv::dispatch_reply(values.., msg, contract).map_err(Into::into) } *)
| BReplyLegacy (method : string) (values : list string).
    (* { C::new().method((values).into(), msg).map_err(Into::into) } *)

Definition ep_body_of (i : ep_input) (k : kind) : ep_body :=
  match k with
  | KReply =>
      if ep_replies_feature i then BReplyDispatch (ctx_values KReply)
      else BReplyLegacy (match ep_reply_fn i with Some f => f | None => "" end) (ctx_values KReply)
  | _ => BDispatch (wrapper_accessor_name k) (ctx_values k)
  end.

Definition ep_expand (i : ep_input) : option (list (string * ep_body)) :=
  match ep_diags i, parse_overrides (ep_overrides i) with
  | [], Some ks => Some (map (fun k => (ep_name k, ep_body_of i k)) (emitted i ks))
  | _, _ => None
  end.

(* ---- specification side ---- *)
Definition defined (i : ep_input) (k : kind) : Prop :=
  match k with
  | KInst | KExec | KQuery | KSudo => True
  | KMigrate => ep_has_migrate i = true
  | KReply => ep_has_reply i = true
  end.

(* rendering for the correspondence check *)
Definition show_body (b : ep_body) : string :=
  match b with
  | BDispatch a vs => "dispatch:" ++ a ++ ":" ++ String.concat "," vs
  | BReplyDispatch vs => "reply_dispatch:" ++ String.concat "," vs
  | BReplyLegacy m vs => "reply_legacy:" ++ m ++ ":" ++ String.concat "," vs
  end.

Definition show_ep (i : ep_input) : list string :=
  match ep_expand i with
  | None => ["rejected"]
  | Some l => "accepted" :: map (fun p => fst p ++ "=" ++ show_body (snd p)) l
  end.
