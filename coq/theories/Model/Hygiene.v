(* Hygiene of the generated code (C19), over the `quote!` / `parse_quote!` templates of sylvia-derive/src
   regenerated into GenTemplates.v as token lists (`#` marks an interpolation hole). *)
From Coq Require Import String List Bool Ascii NArith Arith.
Require Import SV.Model.Casing.
Import ListNotations.
Open Scope string_scope.

(* crates the generated code may only reach through the name under which the user imports the framework *)
Definition framework_roots : list string :=
  ["sylvia"; "cosmwasm_std"; "cw_std"; "cosmwasm_schema"; "cw_schema"; "serde"; "schemars"; "cw_multi_test"; "cw_utils";
   "anyhow"; "serde_cw_value"; "serde_json_wasm"; "serde_value"; "konst"; "sylvia_derive"].

Definition smem (x : string) (l : list string) : bool := existsb (String.eqb x) l.

(* a path rooted at a framework crate written literally: `root ::` not preceded by `#` (a hole) or `::` (inner segment) *)
Fixpoint literal_roots (prev : string) (ts : list string) : list string :=
  match ts with
  | a :: ((b :: _) as r) =>
      (if smem a framework_roots && (b =? "::") && negb (prev =? "#") && negb (prev =? "::") then [a] else [])
      ++ literal_roots a r
  | _ => []
  end.

(* string literals naming a framework crate, e.g. `crate = "sylvia::serde"` *)
Definition literal_in_string (t : string) : bool :=
  match t with
  | String c _ => Ascii.eqb c """"%char && existsb (fun r => prefix ("""" ++ r ++ "::") t) framework_roots
  | EmptyString => false
  end.

Definition template_ok (ts : list string) : bool :=
  match literal_roots "" ts with [] => negb (existsb literal_in_string ts) | _ => false end.

(* ---- helper type parameters ---- *)
(* identifiers introduced at the top level of a generics list `< .. >`, and whether the list also holds a hole *)
Definition is_ident (t : string) : bool :=
  match list_ascii_of_string t with
  | c :: _ => is_upper c || is_lower c || Ascii.eqb c "_"%char
  | [] => false
  end.

(* scans the tokens after `<`; depth counts nested `<`; returns (identifiers at depth 1 in parameter position, saw a hole, rest) *)
Fixpoint scan_generics (fuel : nat) (depth : nat) (prev : string) (ts : list string) (acc : list string) (hole : bool)
  : list string * bool * list string :=
  match fuel with
  | O => (acc, hole, ts)
  | S f =>
      match ts with
      | [] => (acc, hole, [])
      | t :: r =>
          if t =? "<" then scan_generics f (S depth) t r acc hole
          else if t =? ">" then
            match depth with
            | 1 => (acc, hole, r)
            | _ => scan_generics f (pred depth) t r acc hole
            end
          else if (t =? "#") && Nat.eqb depth 1 && ((prev =? "<") || (prev =? ",")) then
            (* an interpolation in parameter position: the user's own parameters *)
            scan_generics f depth t r acc true
          else if Nat.eqb depth 1 && is_ident t && ((prev =? "<") || (prev =? ",")) &&
                  match r with n :: _ => (n =? ":") || (n =? ",") || (n =? ">") | [] => false end
               then scan_generics f depth t r (acc ++ [t]) hole
          else scan_generics f depth t r acc hole
      end
  end.

(* generics lists that open right after `impl`, or after `fn name` / `trait name` / `struct name` / `enum name`.
   A method's own parameters share a scope with those of the enclosing impl block: a `fn` list counts when it or the
   nearest preceding `impl` list holds a hole (user parameters); the other lists count when they hold a hole themselves. *)
Fixpoint generics_lists (fuel : nat) (p2 p1 : string) (ts : list string) : list (bool * list string * bool) :=
  match fuel with
  | O => []
  | S f =>
      match ts with
      | [] => []
      | t :: r =>
          if (t =? "<") && ((p1 =? "impl") || (smem p2 ["fn"; "trait"; "struct"; "enum"] && is_ident p1)) then
            let '(ids, hole, rest) := scan_generics (length r) 1 t r [] false in
            (p2 =? "fn", ids, hole) :: generics_lists f p1 t r
          else generics_lists f p1 t r
      end
  end.

Fixpoint collect_helpers (impl_hole : bool) (ls : list (bool * list string * bool)) : list string :=
  match ls with
  | [] => []
  | (is_fn, ids, hole) :: r =>
      if is_fn then (if hole || impl_hole then ids else []) ++ collect_helpers impl_hole r
      else (if hole then ids else []) ++ collect_helpers hole r
  end.

(* `Error` next to the associated types of an interface is the interface's own mandatory associated type *)
Definition helper_params (ts : list string) : list string :=
  filter (fun x => negb (x =? "Error")) (collect_helpers false (generics_lists (length ts) "" "" ts)).

(* conventional user parameter names: one upper-case letter, or one capitalised word (Msg, Query, Param, ..) *)
Definition conventional (x : string) : bool :=
  match list_ascii_of_string x with
  | [c] => is_upper c
  | c :: r => is_upper c && forallb is_lower r
  | [] => false
  end.

Definition params_ok (ts : list string) : bool := forallb (fun x => negb (conventional x)) (helper_params ts).
